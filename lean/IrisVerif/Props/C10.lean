/-
C10 — A Series is a period-indexed map: reads, writes, alignment, trim, isolation.

Property theorems only (helper lemmas: IrisVerif/Lemmas/Series.lean). Every theorem is about the executable
model IrisVerif/Model/Series.lean, which keeps the position / padding arithmetic of series/main.py and which the
op-sequence correspondence check ties to the code on every run. The theorems say that this arithmetic refines
the map `Series.abs : Int → Nat → Cell` (`none` = NaN, also outside the span).

The aliasing half of the isolation clause is a fact about the heap, not about values: it is observed on the
real objects by the harness (`np.shares_memory`); in the model every operation is a pure function of its inputs,
so "functional forms do not modify their input" holds by construction and is not stated as a theorem.
-/
import IrisVerif.Lemmas.Series
import IrisVerif.Model.SeriesHeap

set_option linter.unusedSimpArgs false

namespace IrisVerif.C10
open IrisVerif.Dates IrisVerif.Series

/-! ## 1. The reported span covers every value; trim -/

/-- every non-missing cell of the map lies inside the reported span `[start, start + periods - 1]` -/
theorem covers (s : Series) (t : Int) (v : Nat) (h : s.abs t v ≠ none) : InSpan s t := by
  unfold Series.abs at h
  cases hs : s.start with
  | none => simp [hs] at h
  | some st =>
    simp only [hs] at h
    by_cases c : st ≤ t
    · simp only [c, if_true] at h
      refine ⟨st, hs, c, ?_⟩
      by_cases c2 : (t - st).toNat < s.rows.length
      · omega
      · exact absurd (cellAt_none_of_ge _ _ v (by omega)) h
    · simp [c] at h

/-- trimming changes no cell of the map -/
theorem trim_preserves_abs (s : Series) (hR : Rect s) (t : Int) (v : Nat) : s.trim.abs t v = s.abs t v :=
  abs_trim s hR t v

/-- after `trim` there is no all-missing leading or trailing period, and an all-missing series is the
empty series without a start -/
theorem trim_establishes_trimmed (s : Series) (hW : WF s) : Trimmed s.trim :=
  trimmed_trim s (by
    intro hne
    cases hs : s.start with
    | none => exact absurd (hW hs) hne
    | some _ => rfl)

/-- `clip` does not establish `Trimmed` (the statement does not ask it to): it leaves a start on a series without rows -/
example : (⟨.Q, some 8080, 1, [[some 1], [some 2]]⟩ : Series).clip (some 8085) (some 8086)
    = .ok ⟨.Q, some 8085, 1, []⟩ := by decide

/-! ## 2. Writes -/

/-- **A write is exactly the sequence of its elementary map writes.** If `set_data(dates, data, variants)` succeeds
on a well-formed series, the new map is `Map.writeAll` of the old one: for the k-th addressed variant the k-th item of
`iter_variants(data)` (exhaust-then-last), broadcast over the dates, written date by date (a repeated date keeps the
last value); nothing else changes; the result is well-formed, keeps the number of variants and — when any date is
addressed — is trimmed. `Map.writeAll` mentions neither positions nor padding. -/
theorem write_refines_map (s : Series) (serials : List Int) (data : DataArg) (vids : List Int) (s' : Series)
    (hI : Inv s) (h : s.setData serials data vids = .ok s') :
    Inv s' ∧ s'.nv = s.nv ∧
    ((serials = [] ∧ ∀ t v, s'.abs t v = s.abs t v) ∨
     (serials ≠ [] ∧ Trimmed s' ∧
       ∃ m, Map.writeAll s.abs s.nv serials data vids 0 = some m ∧ ∀ t v, s'.abs t v = m t v)) := by
  obtain ⟨h1, h2, _, h4⟩ := setData_spec s serials data vids s' hI h
  exact ⟨h1, h2, h4⟩

/-- a write changes only addressed cells: a period that is not among the dates, or a variant that is not among
the (normalised) variant indices, keeps its value -/
theorem write_changes_only_addressed_cells (s : Series) (serials : List Int) (data : DataArg) (vids : List Int)
    (s' : Series) (hI : Inv s) (h : s.setData serials data vids = .ok s') (t : Int) (v : Nat)
    (hna : t ∉ serials ∨ ∀ c ∈ vids, normIdx s.nv c ≠ some v) : s'.abs t v = s.abs t v := by
  obtain ⟨_, _, _, h4⟩ := setData_spec s serials data vids s' hI h
  rcases h4 with ⟨_, h5⟩ | ⟨_, _, m, h6, h7⟩
  · exact h5 t v
  · rw [h7 t v]; exact writeAll_frame _ _ _ _ _ _ _ h6 t v hna

/-- writing a scalar (NaN included): exactly the addressed cells take the value, every other cell is unchanged -/
theorem write_scalar (s : Series) (serials : List Int) (c : Cell) (vids : List Int)
    (s' : Series) (hI : Inv s) (h : s.setData serials (.scalar c) vids = .ok s') (t : Int) (v : Nat) :
    s'.abs t v = if t ∈ serials ∧ ∃ c' ∈ vids, normIdx s.nv c' = some v then c else s.abs t v := by
  obtain ⟨_, _, _, h4⟩ := setData_spec s serials (.scalar c) vids s' hI h
  rcases h4 with ⟨h5, h6⟩ | ⟨_, _, m, h6, h7⟩
  · subst h5; simp [h6 t v]
  · rw [h7 t v]; exact writeAll_scalar _ _ _ _ _ _ _ h6 t v

/-- hypotheses are met by a concrete non-trivial write: two periods before the start, one repeated, a NaN interior -/
example : (⟨.Q, some 8080, 2, [[some 1, none], [none, none], [some 3, some 4]]⟩ : Series).setData
      [8078, 8081, 8078] (.variants [.column [some 5, some 6, some 7], .scalar none]) [1, -2]
    = .ok ⟨.Q, some 8078, 2, [[none, some 7], [none, none], [some 1, none], [none, some 6], [some 3, some 4]]⟩ := by decide

example : Inv (⟨.Q, some 8080, 2, [[some 1, none], [none, none], [some 3, some 4]]⟩ : Series) := by
  constructor
  · intro r hr; simp at hr; rcases hr with rfl | rfl | rfl <;> rfl
  · intro h; cases h

/-! ## 3. Time shift -/

/-- `shift(k)` moves every value by exactly `k` periods: what was at `t + k` is now at `t` -/
theorem shift_moves_abs (s : Series) (k : Int) (t : Int) (v : Nat) : (s.shift k).abs t v = s.abs (t + k) v := by
  unfold Series.shift Series.abs
  cases s.start with
  | none => rfl
  | some st =>
    simp only [Option.map_some]
    by_cases c : st - k ≤ t
    · have c' : st ≤ t + k := by omega
      simp only [c, c', if_true]
      congr 1; omega
    · have c' : ¬ st ≤ t + k := by omega
      simp only [c, c', if_false]

theorem shift_preserves_inv (s : Series) (k : Int) (h : Inv s) : Inv (s.shift k) := by
  refine ⟨h.1, ?_⟩
  intro hs
  apply h.2
  cases hst : s.start with
  | none => rfl
  | some st => simp [Series.shift, hst] at hs

/-! ## 4. Element-wise functions and binary operators act period by period -/

/-- `apply(func)` / scalar arithmetic `x + c`, `c - x`, … : a NaN-preserving element-wise function acts cell by cell on
the map, and the result is trimmed -/
theorem apply_pointwise (g : Cell → Cell) (hg : g none = none) (s : Series) (hI : Inv s) (t : Int) (v : Nat) :
    (s.apply g).abs t v = g (s.abs t v) ∧ Trimmed (s.apply g) := by
  constructor
  · unfold Series.apply
    rw [abs_trim _ (inv_mapCells g s hI).1, abs_mapCells g hg]
  · exact trimmed_trim _ (isSome_of_wf _ (inv_mapCells g s hI).2)

/-- unary minus, `abs()`, `+x` (no trim in the code): cell by cell -/
theorem unary_pointwise (g : UnFn) (s : Series) (t : Int) (v : Nat) : (mapCells g.eval s).abs t v = g.eval (s.abs t v) :=
  abs_mapCells g.eval (by cases g <;> rfl) s t v

/-- **Alignment.** `x ⊕ y` for a NaN-strict `⊕` (`+ - *` are: `BinFn.eval`) and equal numbers of variants is
`abs x t v ⊕ abs y t v` at every period `t`, whatever the spans of the operands (overlapping, disjoint, one or both
empty), and the result is trimmed (all-missing = the empty series) -/
theorem binop_pointwise (f : Cell → Cell → Cell) (hf : ∀ x, f none x = none ∧ f x none = none) (a b r : Series)
    (ha : Inv a) (hb : Inv b) (hnv : a.nv = b.nv) (h : a.binop f b = .ok r) :
    (∀ t v, v < a.nv → r.abs t v = f (a.abs t v) (b.abs t v)) ∧ Trimmed r ∧ Inv r :=
  ⟨fun t v hv => abs_binop f hf a b r ha hb hnv h t v hv, trimmed_binop f a b r h, inv_binop f a b r h⟩

theorem binFn_strict (f : BinFn) : ∀ x, f.eval none x = none ∧ f.eval x none = none := by
  intro x; cases x <;> simp [BinFn.eval]

/-- non-overlapping operands: the sum is the empty series (no start) -/
example : (⟨.Q, some 8080, 1, [[some 1], [some 2]]⟩ : Series).binop BinFn.add.eval ⟨.Q, some 8090, 1, [[some 5]]⟩
    = .ok ⟨.Q, none, 1, []⟩ := by decide

/-- mixed frequencies are rejected -/
theorem binop_mixed_rejected (f : Cell → Cell → Cell) (a b : Series) (sa sb : Int) (ha : a.start = some sa)
    (hb : b.start = some sb) (hf : a.freq ≠ b.freq) : a.binopS f b = .error .mixedFreq := by
  simp [Series.binopS, sameFreq, ha, hb, hf]
  rfl

/-! ## 5. Slices -/

/-- `get_data_from_until((a, b))` over all variants returns exactly the cells `abs (a + i)`, `0 ≤ i ≤ b - a` -/
theorem slice_is_abs (s : Series) (hW : WF s) (a b : Int) (i v : Nat) :
    cellAt (s.sliceFromUntil a b) i v = if (i : Int) < b - a + 1 then s.abs (a + i) v else none :=
  cellAt_slice s hW a b i v

/-- **A read returns the map**: `get_data(dates, variants)` (any dates: unordered, repeated, outside the span, on an
empty series) is the matrix of `abs` over dates × variants -/
theorem read_is_abs (s : Series) (hW : WF s) (serials : List Int) (vs : List Nat) (hv : ∀ v ∈ vs, v < s.nv) :
    s.getData serials (vs.map (fun (v : Nat) => (v : Int))) = .ok (serials.map (fun t => vs.map (fun v => s.abs t v))) :=
  getData_eq_abs s hW serials vs hv

/-- a read after a scalar write returns the written value at the addressed cells and the old value elsewhere
(write then read, composed) -/
theorem read_after_write (s : Series) (serials : List Int) (c : Cell) (vids : List Int) (s' : Series) (hI : Inv s)
    (h : s.setData serials (.scalar c) vids = .ok s') (rd : List Int) (vs : List Nat) (hv : ∀ v ∈ vs, v < s.nv) :
    s'.getData rd (vs.map (fun (v : Nat) => (v : Int))) = .ok (rd.map (fun t => vs.map (fun v =>
      if t ∈ serials ∧ ∃ c' ∈ vids, normIdx s.nv c' = some v then c else s.abs t v))) := by
  obtain ⟨hI', hnv, _⟩ := write_refines_map s serials (.scalar c) vids s' hI h
  rw [read_is_abs s' hI'.2 rd vs (by rw [hnv]; exact hv)]
  congr 1
  apply List.map_congr_left; intro t _
  apply List.map_congr_left; intro v _
  exact write_scalar s serials c vids s' hI h t v

/-- `clip(a, b)` restricts the map to the clamped window `[max(start, a), min(end, b)]` and changes nothing inside it.
(`clip` does not re-trim: `Covers` is kept — it holds of every series — `Trimmed` is not, see the example in section 1.) -/
theorem clip_restricts (s : Series) (hI : Inv s) (st : Int) (hs : s.start = some st) (a b : Option Int) (s' : Series)
    (h : s.clip a b = .ok s') (t : Int) (v : Nat) :
    s'.abs t v = if clampLo st a ≤ t ∧ t ≤ clampHi (st + (s.rows.length : Int) - 1) b then s.abs t v else none :=
  abs_clip s hI st hs a b s' h t v

/-- **overlay by span** (equal numbers of variants): inside `other`'s reported span the result is `other` — missing
values included, as documented — and outside it is `self`; the result is well-formed and trimmed -/
theorem overlay_by_span (self other r : Series) (hI : Inv self) (hO : Inv other) (hnv : self.nv = other.nv)
    (h : self.overlay other = .ok r) (t : Int) (v : Nat) :
    (InSpan other t → v < other.nv → r.abs t v = other.abs t v) ∧ (¬ InSpan other t → r.abs t v = self.abs t v) :=
  abs_overlay self other r hI hO hnv h t v

/-- **underlay by span**: inside `self`'s span the receiver keeps its own cells (missing ones too), outside it takes `other`'s -/
theorem underlay_by_span (self other r : Series) (hI : Inv self) (hO : Inv other) (hnv : self.nv = other.nv)
    (h : self.underlay other = .ok r) (t : Int) (v : Nat) :
    (InSpan self t → v < self.nv → r.abs t v = self.abs t v) ∧ (¬ InSpan self t → r.abs t v = other.abs t v) :=
  abs_underlay self other r hI hO hnv h t v

/-- overlay, whatever the numbers of variants after broadcasting: well-formed, trimmed, nothing outside `other`'s span changes -/
theorem overlay_frame (self other r : Series) (hI : Inv self) (h : self.overlayCore other = .ok r) :
    Inv r ∧ Trimmed r ∧ ∀ t v, t ∉ other.spanSerials → r.abs t v = self.abs t v :=
  overlayCore_frame self other r hI h

/-- **hstack of two series** (`x.hstack(y)`, `x & y`): the result has `nv₁ + nv₂` variants; variant `v < nv₁` reads `self`,
variant `v ≥ nv₁` reads `other` at `v - nv₁` — at every period: inside the encompassing span by the block arithmetic, outside
it because both operands are missing there; the result is well-formed (and trimmed, by `write_refines_map`) -/
theorem hstack_pointwise (f : Freq) (a b r : Series) (ha : Inv a) (hb : Inv b) (h : hstack f [a, b] = .ok r) (t : Int) (v : Nat) :
    r.nv = a.nv + b.nv ∧ r.abs t v = if v < a.nv then a.abs t v else b.abs t (v - a.nv) :=
  abs_hstack2 f a b r ha hb h t v

/-- the same through the frequency check of `hstackS` (what `step` runs) -/
theorem hstackS_pointwise (a b r : Series) (ha : Inv a) (hb : Inv b) (h : hstackS [a, b] = .ok r) (t : Int) (v : Nat) :
    r.nv = a.nv + b.nv ∧ r.abs t v = if v < a.nv then a.abs t v else b.abs t (v - a.nv) := by
  simp only [hstackS] at h
  split at h
  · exact abs_hstack2 _ a b r ha hb h t v
  · split at h
    · exact abs_hstack2 _ a b r ha hb h t v
    · cases h

/- hstack of three or more series: not stated separately (the model is list-general, `step_inv` covers it; the equation
   above is for the binary case the statement of the property speaks about, `x & y & z` being `(x & y) & z` in the code). -/

/-- **overlay with variant broadcasting** (n vs n, 1 vs n, n vs 1; the code broadcasts `self` in place and a *copy* of
`other`): for `v` below the broadcast number of variants, inside `other`'s span the result reads `other` at `bidx other.nv v`,
outside it reads `self` at `bidx self.nv v` -/
theorem overlay_by_span_broadcast (self other r : Series) (nv : Nat) (hI : Inv self) (hO : Inv other)
    (hbc : bcastNv self.nv other.nv = some nv) (h : self.overlay other = .ok r) (t : Int) (v : Nat) (hv : v < nv) :
    (InSpan other t → r.abs t v = other.abs t (bidx other.nv v)) ∧
    (¬ InSpan other t → r.abs t v = self.abs t (bidx self.nv v)) :=
  abs_overlay_bcast self other r nv hI hO hbc h t v hv

/-- **underlay with variant broadcasting** -/
theorem underlay_by_span_broadcast (self other r : Series) (nv : Nat) (hI : Inv self) (hO : Inv other)
    (hbc : bcastNv self.nv other.nv = some nv) (h : self.underlay other = .ok r) (t : Int) (v : Nat) (hv : v < nv) :
    (InSpan self t → r.abs t v = self.abs t (bidx self.nv v)) ∧
    (¬ InSpan self t → r.abs t v = other.abs t (bidx other.nv v)) :=
  abs_underlay_bcast self other r nv hI hO hbc h t v hv

/-- **Alignment with variant broadcasting** (numpy's rule: equal numbers of variants, or a single variant paired with
every variant of the other operand): `bidx nv v = if nv = 1 then 0 else v` -/
theorem binop_pointwise_broadcast (f : Cell → Cell → Cell) (hf : ∀ x, f none x = none ∧ f x none = none) (a b r : Series)
    (nv : Nat) (ha : Inv a) (hb : Inv b) (hbc : bcastNv a.nv b.nv = some nv) (h : a.binop f b = .ok r) (t : Int) (v : Nat)
    (hv : v < nv) : r.nv = nv ∧ r.abs t v = f (a.abs t (bidx a.nv v)) (b.abs t (bidx b.nv v)) :=
  abs_binop_bcast f hf a b r nv ha hb hbc h t v hv

/-- numbers of variants that cannot be broadcast are rejected -/
theorem binop_incompatible_rejected (f : Cell → Cell → Cell) (a b : Series) (h : bcastNv a.nv b.nv = none) :
    a.binop f b = .error .badInput := by
  simp [Series.binop, h]; rfl

/-! ## 5b. Statistics along variants, moving windows, replace_where, fill_missing -/

/-- **row statistics** (`sum prod mean min max` and the `nan*` variants): the result has one variant; at every period of
the span it is the statistic of that period's cells — `StatFn.eval` of `[abs s t 0, …, abs s t (nv-1)]`, with numpy's NaN
rule of each function (`nansum`/`nanprod` of an all-missing period are 0/1) — and outside the span it is missing -/
theorem stat_pointwise (f : StatFn) (s r : Series) (hI : Inv s) (h : s.rowStat f = .ok r) (t : Int) :
    r.nv = 1 ∧ (InSpan s t → r.abs t 0 = f.eval ((List.range s.nv).map (fun v => s.abs t v))) ∧
    (¬ InSpan s t → r.abs t 0 = none) :=
  abs_rowStat f s r hI h t

/-- **moving windows** (`mov_sum mov_avg mov_prod`, window `w < 0` or the frequency default): for every period and variant,
inside or outside the span, the result is the function of the window `abs s (t-|w|+1) v, …, abs s t v`, and it is missing
as soon as one of these is missing (`MovFn.eval` goes through `strictVals`) -/
theorem moving_window_pointwise (f : MovFn) (w : Option Int) (s r : Series) (hI : Inv s) (h : s.movWindow f w = .ok r)
    (t : Int) (v : Nat) :
    1 ≤ (-(w.getD s.defaultWindow)).toNat ∧
    r.abs t v = f.eval (windowOf s (-(w.getD s.defaultWindow)).toNat t v) :=
  abs_movWindow f w s r hI h t v

/-- missing-strictness: with a hole every second period no window of length 2 is complete, the result is the empty series -/
example : (⟨.Q, some 8080, 1, [[some 1], [none], [some 4], [none], [some 5]]⟩ : Series).movWindow .sum (some (-2))
    = .ok ⟨.Q, none, 1, []⟩ := by decide

/-- a non-negative window is rejected (as `np.pad` does) -/
theorem moving_window_rejects (f : MovFn) (w : Int) (hw : 0 ≤ w) (s : Series) : s.movWindow f (some w) = .error .badInput := by
  unfold Series.movWindow
  simp only [Option.getD_some]
  rw [if_pos (by omega)]; rfl

/-- **replace_where**: inside the span every cell `x` becomes `new` when `test x` holds (NaN-testing tests fill in-span
holes) and stays `x` otherwise; outside the span nothing appears; the result is trimmed -/
theorem replace_where_pointwise (tf : TestFn) (new : Cell) (s : Series) (hI : Inv s) (t : Int) (v : Nat) :
    (InSpan s t → v < s.nv → (s.replaceWhere tf new).abs t v = if tf.eval (s.abs t v) then new else s.abs t v) ∧
    (¬ InSpan s t → (s.replaceWhere tf new).abs t v = none) ∧ Trimmed (s.replaceWhere tf new) :=
  abs_replaceWhere tf new s hI t v

/-- fill_missing, column level (used by `fill_missing_pointwise` below) -/
theorem fill_missing_columns (m : FillMethod) (col : List Cell) :
    (fillColumn m col).length = col.length ∧
    (∀ i x, colAt col i = some x → colAt (fillColumn m col) i = some x) ∧
    (∀ i, i < col.length → colAt col i = none → colAt (fillColumn m col) i = fillAt m col i) ∧
    (∀ i j, nextObs col i = some j →
      j < col.length ∧ i ≤ j ∧ colAt col j ≠ none ∧ ∀ j', i ≤ j' → j' < j → colAt col j' = none) ∧
    (∀ i j, prevObs col i = some j →
      j < col.length ∧ j ≤ i ∧ colAt col j ≠ none ∧ ∀ j', j < j' → j' ≤ i → j' < col.length → colAt col j' = none) :=
  ⟨fillColumn_length m col, fillColumn_obs m col, fillColumn_missing m col, nextObs_spec col, prevObs_spec col⟩

/-- `nearest` with a tie goes back, `previous` extends flat to the right, `next` leaves the tail missing -/
example : fillColumn .nearest [some 1, none, none, none, some 5, none] = [some 1, some 1, some 1, some 5, some 5, some 5] ∧
    fillColumn .previous [none, some 2, none, none] = [none, some 2, some 2, some 2] ∧
    fillColumn .next [none, some 2, none, none] = [some 2, some 2, none, none] := by decide

/-- **extrapolate** (`extrapolate(ar_coeffs, span, intercept=c)`, any AR order `p`, any number of variants, a span of `n ≥ 1`
consecutive periods starting anywhere — inside the data, right after it, after a gap, before it):
(1) no cell outside the span changes, so the observed history before the span is untouched;
(2) every cell of the span satisfies `x_t = ρ_1 x_{t-1} + … + ρ_p x_{t-p} + c` (`arStep`, missing as soon as one of the `p`
    lags is missing), where the lags are, most recent first, the cells already extrapolated in the result
    `abs r (a+k-1) v … abs r a v` followed by the observed cells of the input before the span `abs s (a-1) v … abs s (a-p) v`
    (`lagsBefore`): lag `i` multiplies `ρ_i`, not `ρ_{p+1-i}`. (`log=True` is not modelled.) -/
theorem extrapolate_pointwise (s r : Series) (coeffs : List Rat) (c : Rat) (a : Int) (n : Nat) (hn : 1 ≤ n) (hI : Inv s)
    (st : Int) (hs : s.start = some st) (h : s.extrapolate coeffs c (spanList a n) = .ok r) :
    (∀ t v, ¬ (a ≤ t ∧ t < a + (n : Int)) → r.abs t v = s.abs t v) ∧
    (∀ k v, k < n → v < s.nv →
      r.abs (a + (k : Int)) v = arStep coeffs c
        (((List.range k).map (fun (j : Nat) => r.abs (a + (j : Int)) v)).reverse ++ lagsBefore s a coeffs.length v)) :=
  abs_extrapolate s r coeffs c a n hn hI st hs h

/-- a start-less series is returned as it is -/
theorem extrapolate_empty (s : Series) (coeffs : List Rat) (c : Rat) (serials : List Int) (hs : s.start = none) :
    s.extrapolate coeffs c serials = .ok s := by
  unfold Series.extrapolate; simp [hs]; rfl

/-- missing-strictness: a hole among the `p` lags makes the whole extrapolation missing, and the series is left as it was
(the lag order itself — with history 1, 2 and ρ = (0, 1) the span reads 1, 2, 1 — is exercised by the directed
correspondence lines; `decide` cannot evaluate `Rat` arithmetic in the kernel) -/
example : (⟨.Q, some 8080, 1, [[some 1], [none], [some 2]]⟩ : Series).extrapolate [0, 1] 0 [8083, 8084]
    = .ok ⟨.Q, some 8080, 1, [[some 1], [none], [some 2]]⟩ := by decide

/-- **fill_missing on `abs`** (a span of `n ≥ 1` consecutive periods starting at `a`, any method): nothing outside the span
changes; inside it an observed cell is kept and a missing cell at `t` receives `fillAt method col (t - a)`, where `col` is the
column `abs s a v, …, abs s (a+n-1) v` (`spanCol`). The rules below spell `fillAt` out on periods. -/
theorem fill_missing_pointwise (s r : Series) (m : FillMethod) (a : Int) (n : Nat) (hn : 1 ≤ n) (hI : Inv s)
    (st : Int) (hs : s.start = some st)
    (h : s.fillMissingP m ((spanList a n).map (fun x => (⟨s.freq, x⟩ : Period))) = .ok r) (t : Int) (v : Nat) :
    (¬ (a ≤ t ∧ t < a + (n : Int)) → r.abs t v = s.abs t v) ∧
    (a ≤ t → t < a + (n : Int) → v < s.nv →
      r.abs t v = match s.abs t v with
        | some x => some x
        | none => fillAt m (spanCol s a n v) (t - a).toNat) :=
  abs_fillMissing s r m a n hn hI st hs h t v

/-- `constant`: a missing cell of the span receives the constant -/
theorem fill_rule_constant (c : Cell) (col : List Cell) (i : Nat) : fillAt (.constant c) col i = c := rfl

/-- `next`: a missing cell at `a+i` takes the value of the first observed period at or after it inside the span (only missing
cells in between) and stays missing when there is none -/
theorem fill_rule_next (s : Series) (a : Int) (n v i : Nat) (hi : i < n) :
    (fillAt .next (spanCol s a n v) i = none ∧ ∀ j, i ≤ j → j < n → s.abs (a + (j : Int)) v = none) ∨
    ∃ j, i ≤ j ∧ j < n ∧ s.abs (a + (j : Int)) v ≠ none ∧ (∀ j', i ≤ j' → j' < j → s.abs (a + (j' : Int)) v = none) ∧
      fillAt .next (spanCol s a n v) i = s.abs (a + (j : Int)) v :=
  fillAt_next s a n v i hi

/-- `previous`: the last observed period at or before it inside the span -/
theorem fill_rule_previous (s : Series) (a : Int) (n v i : Nat) (hi : i < n) :
    (fillAt .previous (spanCol s a n v) i = none ∧ ∀ j, j ≤ i → s.abs (a + (j : Int)) v = none) ∨
    ∃ j, j ≤ i ∧ s.abs (a + (j : Int)) v ≠ none ∧ (∀ j', j < j' → j' ≤ i → s.abs (a + (j' : Int)) v = none) ∧
      fillAt .previous (spanCol s a n v) i = s.abs (a + (j : Int)) v :=
  fillAt_previous s a n v i hi

/-- `nearest` and `linear` in terms of the two neighbours `p = prevObs`, `q = nextObs` (characterised by the two rules above):
nearest takes `p` when `i - p ≤ q - i` (ties go back) and the only neighbour at the ends; linear is
`x_p + (x_q - x_p)·((i - p)/(q - p))` (IEEE operations: NaN for `inf - inf`) between two neighbours and flat beyond the outer observations -/
theorem fill_rule_nearest_linear (col : List Cell) (i p q : Nat) (hp : prevObs col i = some p) (hq : nextObs col i = some q) :
    fillAt .nearest col i = (if i - p ≤ q - i then colAt col p else colAt col q) ∧
    fillAt .linear col i = (match colAt col p, colAt col q with
      | some x, some y =>
        (y.sub x).bind (fun d => (d.mul (.fin (((i : Rat) - (p : Rat)) / ((q : Rat) - (p : Rat))))).bind (fun e => x.add e))
      | _, _ => none) := by
  constructor
  · simp [fillAt, hp, hq]
  · simp only [fillAt, hp, hq]
    cases colAt col p <;> cases colAt col q <;> rfl

theorem fill_rule_one_sided (col : List Cell) (i : Nat) :
    (∀ p, prevObs col i = some p → nextObs col i = none →
      fillAt .nearest col i = colAt col p ∧ fillAt .linear col i = colAt col p) ∧
    (∀ q, prevObs col i = none → nextObs col i = some q →
      fillAt .nearest col i = colAt col q ∧ fillAt .linear col i = colAt col q) := by
  constructor
  · intro p hp hq; simp [fillAt, hp, hq]
  · intro q hp hq; simp [fillAt, hp, hq]

/-! ## 5b'. Every date collection the API accepts: stepped, backward, unordered lists -/

/-- **writing per-variant columns over any list of distinct periods** (what `set_data(dates, ndarray | list of columns)` does
after `resolve_periods`, e.g. for `Span(a, b, -2)` or an unordered tuple): the `i`-th listed period reads the `i`-th value of
the variant's column, every other cell is unchanged. (With repeated periods the general `write_refines_map` applies: the
writes happen in list order and the last one wins.) -/
theorem write_columns_distinct_periods (nv : Nat) (serials : List Int) (hnd : serials.Nodup) (data : DataArg)
    (colf : Nat → List Cell)
    (hcol : ∀ k, k < nv → (data.variant k).values serials.length = some (colf k) ∧ (colf k).length = serials.length)
    (m : Map) :
    ∃ m', Map.writeAll m nv serials data ((List.range' 0 nv).map (fun (i : Nat) => (i : Int))) 0 = some m' ∧
      (∀ (i : Nat) (t : Int) (v : Nat), serials[i]? = some t → v < nv → m' t v = ((colf v)[i]?).getD none) ∧
      (∀ t v, (t ∉ serials ∨ ¬ v < nv) → m' t v = m t v) := by
  obtain ⟨m', h1, h2, h3⟩ := writeAll_nodup nv serials hnd data colf hcol nv 0 m (by omega)
  exact ⟨m', h1, fun i t v hi hv => h2 i t v hi (by omega) hv, fun t v hc => h3 t v (by
    rcases hc with hc | hc
    · exact Or.inl hc
    · exact Or.inr (fun hh => hc hh.2))⟩

/-- **fill_missing over any list of distinct periods** (stepped, backward, unordered): the column the method sees is the
read in list order; a period outside the list is untouched; the `i`-th listed period keeps an observed cell and otherwise
receives `fillAt` at position `i` of that column (so "next"/"previous" mean next/previous *in the list*, as in the code) -/
theorem fill_missing_pointwise_list (s r : Series) (m : FillMethod) (serials : List Int) (hnd : serials.Nodup)
    (hne : serials ≠ []) (hI : Inv s) (st : Int) (hs : s.start = some st)
    (h : s.fillMissingP m (serials.map (fun x => (⟨s.freq, x⟩ : Period))) = .ok r) :
    (∀ t v, t ∉ serials → r.abs t v = s.abs t v) ∧
    (∀ (i : Nat) (t : Int) (v : Nat), serials[i]? = some t → v < s.nv →
      r.abs t v = match s.abs t v with
        | some x => some x
        | none => fillAt m (serials.map (fun u => s.abs u v)) i) :=
  abs_fillMissing_list s r m serials hnd hne hI st hs h

/-- **extrapolate over any list of distinct periods**: the recursion runs from the first listed period for `len(list)` steps
and its `k`-th value is stored at the `k`-th listed period (for a span of consecutive periods this is `extrapolate_pointwise`);
nothing else changes -/
theorem extrapolate_pointwise_list (s r : Series) (coeffs : List Rat) (c : Rat) (a : Int) (rest : List Int)
    (hnd : (a :: rest).Nodup) (hI : Inv s) (st : Int) (hs : s.start = some st)
    (h : s.extrapolate coeffs c (a :: rest) = .ok r) :
    (∀ t v, t ∉ a :: rest → r.abs t v = s.abs t v) ∧
    (∀ (k : Nat) (t : Int) (v : Nat), (a :: rest)[k]? = some t → v < s.nv →
      r.abs t v = ((arRun coeffs c (rest.length + 1) (lagsBefore s a coeffs.length v))[k]?).getD none) :=
  abs_extrapolate_list s r coeffs c a rest hnd hI st hs h

/-- the hypotheses are met by a backward stepped span resolved against the series' own ends: `Span(None, None, -2)` on a
series of 5 periods is the list end, end-2, start — distinct periods, not consecutive, not ascending -/
example : (⟨.Q, some 8080, 1, [[some 1], [none], [some 3], [none], [some 5]]⟩ : Series).resolveDates (.span none none (-2))
    = .ok [⟨.Q, 8084⟩, ⟨.Q, 8082⟩, ⟨.Q, 8080⟩] ∧ ([8084, 8082, 8080] : List Int).Nodup := by decide

/-! ## 5b''. Only NaN is missing: ±∞ are observed values -/

/-- a row counts as all-missing exactly when every cell is NaN: an infinite value keeps its row (and hence its period) -/
theorem allNan_iff (r : Row) : allNan r = true ↔ ∀ c ∈ r, c = none := by
  unfold allNan
  rw [List.all_eq_true]
  constructor
  · intro h c hc; have := h c hc; cases c <;> simp_all
  · intro h c hc; rw [h c hc]; rfl

/-- a leading row whose only observation is infinite is not trimmed, an all-infinite series is not emptied, and a written
`inf` reads back as `inf` (all the theorems above are about `Cell = Option Num`, where `none` is NaN only) -/
example : (⟨.Q, some 8080, 2, [[some .ninf, none], [none, none], [some 1, some .pinf]]⟩ : Series).trim
      = ⟨.Q, some 8080, 2, [[some .ninf, none], [none, none], [some 1, some .pinf]]⟩ ∧
    (⟨.Q, some 8080, 1, [[some 1]]⟩ : Series).setData [8083] (.scalar (some .pinf)) [0]
      = .ok ⟨.Q, some 8080, 1, [[some 1], [none], [none], [some .pinf]]⟩ := by decide

/-- IEEE corner cases of the operators on observed values: `inf - inf` and `0 * inf` are NaN, everything else with an infinite
operand is infinite -/
example : BinFn.sub.eval (some .pinf) (some .pinf) = none ∧ BinFn.mul.eval (some 0) (some .ninf) = none ∧
    BinFn.add.eval (some .pinf) (some 5) = some .pinf ∧ BinFn.mul.eval (some .ninf) (some .ninf) = some .pinf ∧
    CmpFn.lt.eval (some .ninf) (some 0) = some 1 := by decide

/-! ## 5c. NaN rules of the statistics (what `StatFn.eval` in `stat_pointwise` does with missing cells) -/

/-- the `nan*` statistics are the plain ones over the observed variants of the period -/
theorem stat_nan_rules (r : List Cell) :
    StatFn.nansum.eval r = sumQ (obsVals r) ∧ StatFn.nanprod.eval r = prodQ (obsVals r) ∧
    StatFn.nanmean.eval r = meanQ (obsVals r) ∧ StatFn.nanmin.eval r = minQ (obsVals r) ∧
    StatFn.nanmax.eval r = maxQ (obsVals r) := ⟨rfl, rfl, rfl, rfl, rfl⟩

/-- a period without any observation: `nansum` is 0, `nanprod` is 1, `nanmean`, `nanmin`, `nanmax` are missing -/
theorem stat_nan_all_missing (r : List Cell) (h : ∀ c ∈ r, c = none) :
    StatFn.nansum.eval r = some 0 ∧ StatFn.nanprod.eval r = some 1 ∧ StatFn.nanmean.eval r = none ∧
    StatFn.nanmin.eval r = none ∧ StatFn.nanmax.eval r = none := by
  simp [StatFn.eval, obsVals_nil_of_all_none r h, sumQ, prodQ, meanQ, minQ, maxQ]

/-- the plain statistics propagate a missing cell -/
theorem stat_plain_strict (r : List Cell) (h : none ∈ r) :
    StatFn.sum.eval r = none ∧ StatFn.prod.eval r = none ∧ StatFn.mean.eval r = none ∧
    StatFn.min.eval r = none ∧ StatFn.max.eval r = none := by
  simp [StatFn.eval, strictVals_none_of_mem r h]

/-! ## 6. Every operation keeps the invariant; arbitrary op sequences -/

theorem pool_get_inv (p : Pool) (i : Nat) (s : Series) (hp : ∀ x ∈ p, Inv x) (h : p.get i = .ok s) : Inv s := by
  unfold Pool.get at h
  split at h
  · rename_i s0 hs0
    simp only [pure, Except.pure, Except.ok.injEq] at h
    subst h; exact hp _ (List.mem_of_getElem? hs0)
  · cases h

theorem pool_put_inv (p : Pool) (k : Nat) (s : Series) (p' : Pool) (hp : ∀ x ∈ p, Inv x) (hs : Inv s)
    (h : p.put k s = .ok p') : ∀ x ∈ p', Inv x := by
  unfold Pool.put at h
  split at h
  · simp only [pure, Except.pure, Except.ok.injEq] at h
    subst h
    intro x hx
    rcases List.mem_or_eq_of_mem_set hx with h1 | h1
    · exact hp x h1
    · rw [h1]; exact hs
  · cases h

/-- one step of the protocol (any of the 29 operations, any arguments) keeps every series of the pool
rectangular and well-formed -/
theorem step_inv (p : Pool) (op : Op) (p' : Pool) (out : Output) (hp : ∀ x ∈ p, Inv x)
    (h : step p op = .ok (p', out)) : ∀ x ∈ p', Inv x := by
  cases op with
  | new k f nv =>
    simp only [step, bind_ok, pure, Except.pure, Except.ok.injEq, Prod.mk.injEq] at h
    obtain ⟨q, hq, rfl, _⟩ := h
    exact pool_put_inv p k _ q hp (inv_new f nv) hq
  | init k f st nv rows =>
    simp only [step] at h
    split at h
    · rename_i hall
      simp only [bind_ok, pure, Except.pure, Except.ok.injEq, Prod.mk.injEq] at h
      obtain ⟨q, hq, rfl, _⟩ := h
      refine pool_put_inv p k _ q hp (inv_trim _ ?_ (by intro _; rfl)) hq
      intro r hr
      have := (List.all_eq_true.mp hall) r hr
      simpa using this
    · cases h
  | set i dates vars src =>
    simp only [step, bind_ok, pure, Except.pure, Except.ok.injEq, Prod.mk.injEq] at h
    obtain ⟨s, hs, ps, _, d, _, s2, hs2, q, hq, rfl, _⟩ := h
    exact pool_put_inv p i _ q hp (inv_setDataP s ps d vars s2 (pool_get_inv p i s hp hs) hs2) hq
  | get i dates vars =>
    simp only [step, bind_ok, pure, Except.pure, Except.ok.injEq, Prod.mk.injEq] at h
    obtain ⟨s, _, ps, _, d, _, rfl, _⟩ := h
    exact hp
  | gfu i a b vars =>
    simp only [step, bind_ok, pure, Except.pure, Except.ok.injEq, Prod.mk.injEq] at h
    obtain ⟨s, _, d, _, rfl, _⟩ := h
    exact hp
  | call k i dates vars =>
    simp only [step, bind_ok, pure, Except.pure, Except.ok.injEq, Prod.mk.injEq] at h
    obtain ⟨s, _, ps, _, s2, hs2, q, hq, rfl, _⟩ := h
    exact pool_put_inv p k _ q hp (inv_recreateP s ps vars s2 hs2) hq
  | shift i b =>
    simp only [step, bind_ok, pure, Except.pure, Except.ok.injEq, Prod.mk.injEq] at h
    obtain ⟨s, hs, s2, hs2, q, hq, rfl, _⟩ := h
    exact pool_put_inv p i _ q hp (inv_shiftBy s b s2 (pool_get_inv p i s hp hs) hs2) hq
  | fshift k i b =>
    simp only [step, bind_ok, pure, Except.pure, Except.ok.injEq, Prod.mk.injEq] at h
    obtain ⟨s, hs, s2, hs2, q, hq, rfl, _⟩ := h
    exact pool_put_inv p k _ q hp (inv_shiftBy s b s2 (pool_get_inv p i s hp hs) hs2) hq
  | clip i a b =>
    simp only [step, bind_ok, pure, Except.pure, Except.ok.injEq, Prod.mk.injEq] at h
    obtain ⟨s, hs, s2, hs2, q, hq, rfl, _⟩ := h
    exact pool_put_inv p i _ q hp (inv_clipP s a b s2 (pool_get_inv p i s hp hs) hs2) hq
  | overlay i j =>
    simp only [step, bind_ok, pure, Except.pure, Except.ok.injEq, Prod.mk.injEq] at h
    obtain ⟨a, ha, b, hb, r, hr, q, hq, rfl, _⟩ := h
    exact pool_put_inv p i _ q hp (inv_overlayS a b r (pool_get_inv p i a hp ha) (pool_get_inv p j b hp hb) hr) hq
  | underlay i j =>
    simp only [step, bind_ok, pure, Except.pure, Except.ok.injEq, Prod.mk.injEq] at h
    obtain ⟨a, ha, b, hb, r, hr, q, hq, rfl, _⟩ := h
    exact pool_put_inv p i _ q hp (inv_underlayS a b r (pool_get_inv p i a hp ha) (pool_get_inv p j b hp hb) hr) hq
  | foverlay k i j =>
    simp only [step, bind_ok, pure, Except.pure, Except.ok.injEq, Prod.mk.injEq] at h
    obtain ⟨a, ha, b, hb, r, hr, q, hq, rfl, _⟩ := h
    exact pool_put_inv p k _ q hp (inv_overlayS a b r (pool_get_inv p i a hp ha) (pool_get_inv p j b hp hb) hr) hq
  | funderlay k i j =>
    simp only [step, bind_ok, pure, Except.pure, Except.ok.injEq, Prod.mk.injEq] at h
    obtain ⟨a, ha, b, hb, r, hr, q, hq, rfl, _⟩ := h
    exact pool_put_inv p k _ q hp (inv_underlayS a b r (pool_get_inv p i a hp ha) (pool_get_inv p j b hp hb) hr) hq
  | hstack k is =>
    simp only [step, bind_ok, pure, Except.pure, Except.ok.injEq, Prod.mk.injEq] at h
    obtain ⟨l, hl, r, hr, q, hq, rfl, _⟩ := h
    refine pool_put_inv p k _ q hp (inv_hstackS l r ?_ hr) hq
    intro s hs
    obtain ⟨i, _, hi⟩ := (mapM_ok_spec _ is l hl).2 s hs
    exact pool_get_inv p i s hp hi
  | binop k f i j =>
    simp only [step, bind_ok, pure, Except.pure, Except.ok.injEq, Prod.mk.injEq] at h
    obtain ⟨a, _, b, _, r, hr, q, hq, rfl, _⟩ := h
    exact pool_put_inv p k _ q hp (inv_binopS _ a b r hr) hq
  | cmp f i j =>
    simp only [step, bind_ok, pure, Except.pure, Except.ok.injEq, Prod.mk.injEq] at h
    obtain ⟨a, _, b, _, r, _, rfl, _⟩ := h
    exact hp
  | scalar k f i c r =>
    simp only [step, bind_ok, pure, Except.pure, Except.ok.injEq, Prod.mk.injEq] at h
    obtain ⟨s, hs, q, hq, rfl, _⟩ := h
    exact pool_put_inv p k _ q hp (inv_apply _ s (pool_get_inv p i s hp hs)) hq
  | unary k g i =>
    simp only [step, bind_ok, pure, Except.pure, Except.ok.injEq, Prod.mk.injEq] at h
    obtain ⟨s, hs, q, hq, rfl, _⟩ := h
    exact pool_put_inv p k _ q hp (inv_mapCells _ s (pool_get_inv p i s hp hs)) hq
  | trim i =>
    simp only [step, bind_ok, pure, Except.pure, Except.ok.injEq, Prod.mk.injEq] at h
    obtain ⟨s, hs, q, hq, rfl, _⟩ := h
    exact pool_put_inv p i _ q hp (inv_trim' s (pool_get_inv p i s hp hs)) hq
  | empty i =>
    simp only [step, bind_ok, pure, Except.pure, Except.ok.injEq, Prod.mk.injEq] at h
    obtain ⟨s, hs, q, hq, rfl, _⟩ := h
    exact pool_put_inv p i _ q hp (inv_empty s) hq
  | copy k i =>
    simp only [step, bind_ok, pure, Except.pure, Except.ok.injEq, Prod.mk.injEq] at h
    obtain ⟨s, hs, q, hq, rfl, _⟩ := h
    exact pool_put_inv p k _ q hp (pool_get_inv p i s hp hs) hq
  | stat k i f =>
    simp only [step, bind_ok, pure, Except.pure, Except.ok.injEq, Prod.mk.injEq] at h
    obtain ⟨s, hs, r, hr, q, hq, rfl, _⟩ := h
    exact pool_put_inv p k _ q hp (inv_rowStat f s r (pool_get_inv p i s hp hs) hr) hq
  | mov k i f w =>
    simp only [step, bind_ok, pure, Except.pure, Except.ok.injEq, Prod.mk.injEq] at h
    obtain ⟨s, hs, r, hr, q, hq, rfl, _⟩ := h
    exact pool_put_inv p k _ q hp (inv_movWindow f w s r (pool_get_inv p i s hp hs) hr) hq
  | fill k i m dates =>
    simp only [step, bind_ok, pure, Except.pure, Except.ok.injEq, Prod.mk.injEq] at h
    obtain ⟨s, hs, ps, _, r, hr, q, hq, rfl, _⟩ := h
    exact pool_put_inv p k _ q hp (inv_fillMissingP s m ps r (pool_get_inv p i s hp hs) hr) hq
  | replaceWhere i t new =>
    simp only [step, bind_ok, pure, Except.pure, Except.ok.injEq, Prod.mk.injEq] at h
    obtain ⟨s, hs, q, hq, rfl, _⟩ := h
    exact pool_put_inv p i _ q hp (inv_replaceWhere t new s (pool_get_inv p i s hp hs)) hq
  | extrap k i coeffs c dates =>
    simp only [step, bind_ok] at h
    obtain ⟨s, hs, h2⟩ := h
    have hIs := pool_get_inv p i s hp hs
    split at h2
    · simp only [bind_ok, pure, Except.pure, Except.ok.injEq, Prod.mk.injEq] at h2
      obtain ⟨q, hq, rfl, _⟩ := h2
      exact pool_put_inv p k _ q hp hIs hq
    · simp only [bind_ok, pure, Except.pure, Except.ok.injEq, Prod.mk.injEq] at h2
      obtain ⟨ps, _, r, hr, q, hq, rfl, _⟩ := h2
      exact pool_put_inv p k _ q hp (inv_extrapolateP s coeffs c ps r hIs hr) hq

/-- **Arbitrary op sequences.** Starting from a pool of well-formed series (e.g. `Series()` everywhere), after any
sequence of operations that runs to completion every series of the pool is rectangular and well-formed -/
theorem reachable_inv (ops : List Op) : ∀ (p p' : Pool), (∀ x ∈ p, Inv x) → run p ops = .ok p' → ∀ x ∈ p', Inv x := by
  induction ops with
  | nil =>
    intro p p' hp h
    simp only [run, pure, Except.pure, Except.ok.injEq] at h
    subst h; exact hp
  | cons op rest ih =>
    intro p p' hp h
    simp only [run, bind_ok] at h
    obtain ⟨⟨q, out⟩, hq, h2⟩ := h
    exact ih q p' (step_inv p op q out hp hq) h2

/-- hence in every reachable state the reported span covers every value, and a series without a start is empty -/
theorem reachable_covers (ops : List Op) (n : Nat) (p' : Pool) (h : run (List.replicate n (Series.new .I 1)) ops = .ok p')
    (x : Series) (hx : x ∈ p') : (∀ t v, x.abs t v ≠ none → InSpan x t) ∧ (x.start = none → x.rows = []) ∧ Rect x := by
  have hi := reachable_inv ops _ p' (by
    intro y hy
    rw [List.mem_replicate] at hy
    rw [hy.2]; exact inv_new _ _) h x hx
  exact ⟨fun t v => covers x t v, hi.2, hi.1⟩

/-! ## 6b. Isolation on the heap model (`Model/SeriesHeap.lean`): no two pool objects ever share a data buffer -/

/-- no two slots hold the same buffer class, and every class in use is older than the next fresh one -/
def Owned (h : Heap) : Prop :=
  (∀ (i j a : Nat), i ≠ j → h.arrs[i]? = some a → h.arrs[j]? ≠ some a) ∧ ∀ a ∈ h.arrs, a < h.next

theorem heap_init_owned (n : Nat) : Owned (Heap.init n) := by
  constructor
  · intro i j a hij hi hj
    simp only [Heap.init] at hi hj
    by_cases c1 : i < n
    · by_cases c2 : j < n
      · rw [List.getElem?_range c1] at hi
        rw [List.getElem?_range c2] at hj
        cases hi; cases hj; exact hij rfl
      · rw [List.getElem?_eq_none (by simp; omega)] at hj; cases hj
    · rw [List.getElem?_eq_none (by simp; omega)] at hi; cases hi
  · intro a ha
    simp only [Heap.init, List.mem_range] at ha ⊢
    exact ha

/-- a functional form / `copy()` / `underlay` puts a buffer that no slot held before into its target slot and leaves every
other slot alone; an in-place method or a read changes no slot's buffer class at all -/
theorem heap_step_spec (h : Heap) (op : Op) (hO : Owned h) :
    (∀ k, op.target = some (k, .fresh) → k < h.arrs.length →
      (h.step op).arrs[k]? = some h.next ∧ h.next ∉ h.arrs ∧ ∀ j, j ≠ k → (h.step op).arrs[j]? = h.arrs[j]?) ∧
    ((∀ k, op.target ≠ some (k, .fresh)) → h.step op = h) := by
  constructor
  · intro k hk hlt
    simp only [Heap.step, hk, hlt, if_true]
    refine ⟨by simp [List.getElem?_set, hlt], ?_, ?_⟩
    · intro hm; have := hO.2 _ hm; omega
    · intro j hj
      rw [List.getElem?_set, if_neg (fun e => hj e.symm)]
  · intro hn
    unfold Heap.step
    cases ht : op.target with
    | none => rfl
    | some p =>
      obtain ⟨k, a⟩ := p
      cases a with
      | fresh => exact absurd ht (hn k)
      | own => rfl

theorem heap_step_owned (h : Heap) (op : Op) (hO : Owned h) : Owned (h.step op) := by
  unfold Heap.step
  cases ht : op.target with
  | none => exact hO
  | some p =>
    obtain ⟨k, a⟩ := p
    cases a with
    | own => exact hO
    | fresh =>
      simp only
      by_cases hlt : k < h.arrs.length
      · rw [if_pos hlt]
        constructor
        · intro i j a hij hi hj
          simp only [List.getElem?_set] at hi hj
          by_cases c1 : k = i
          · subst c1
            simp only [hlt, if_true, Option.some.injEq] at hi
            subst hi
            rw [if_neg (fun e => hij e)] at hj
            have := hO.2 _ (List.mem_of_getElem? (by simpa using hj))
            omega
          · rw [if_neg c1] at hi
            by_cases c2 : k = j
            · subst c2
              simp only [hlt, if_true, Option.some.injEq] at hj
              subst hj
              have := hO.2 _ (List.mem_of_getElem? hi)
              omega
            · rw [if_neg c2] at hj
              exact hO.1 i j a hij hi (by simpa using hj)
        · intro a ha
          rcases List.mem_or_eq_of_mem_set ha with h1 | h1
          · have := hO.2 a h1; simp only; omega
          · subst h1; simp only; omega
      · rw [if_neg hlt]; exact hO

/-- **Isolation over op sequences**: from a pool of distinct objects, after any sequence of operations no two pool objects
share a data buffer (the model's counterpart of the `np.shares_memory` partition the harness observes after every op) -/
theorem heap_reachable_owned (ops : List Op) : ∀ (h : Heap), Owned h → Owned (h.run ops) := by
  induction ops with
  | nil => intro h hO; exact hO
  | cons op rest ih => intro h hO; exact ih _ (heap_step_owned h op hO)

example : ((Heap.init 3).run [.copy 1 0, .underlay 1 0, .shift 0 (.by_ 1), .binop 2 .add 0 1]).classes = [0, 1, 2] := by decide

/-! ## 6c. Every variant request; the code's rejections; a Series on the right-hand side (statement audit, last round) -/

/-- **A read returns the map for every variant request the code accepts** — bare or listed indices, negative ones, slices:
whatever `_resolve_variants` produces, `vs` being the indices numpy normalises it to (`Normalises`). (`read_is_abs` is the
special case of non-negative indices.) -/
theorem read_is_abs_general (s : Series) (hW : WF s) (serials : List Int) (vids : List Int) (vs : List Nat)
    (h : Normalises s.nv vids vs) :
    s.getData serials vids = .ok (serials.map (fun t => vs.map (fun v => s.abs t v))) :=
  getData_eq_abs_general s hW serials vids vs h

example : Normalises 3 [-1, 0, -3] [2, 0, 0] := by
  refine ⟨rfl, ?_⟩
  intro i c v h1 h2
  match i with
  | 0 => simp at h1 h2; subst h1; subst h2; decide
  | 1 => simp at h1 h2; subst h1; subst h2; decide
  | 2 => simp at h1 h2; subst h1; subst h2; decide
  | (k + 3) => simp at h1

/-- a read rejects what the code rejects: a variant index outside `[-nv, nv)` raises, whatever the dates -/
theorem read_rejects (s : Series) (serials : List Int) (vids : List Int) (h : ∃ c ∈ vids, normIdx s.nv c = none) :
    s.getData serials vids = .error .badInput :=
  getData_rejects s serials vids h

/-- a write rejects what the code rejects: when the elementary writes are undefined (`Map.writeAll = none`: a variant index
numpy rejects, a column whose length fits neither the dates nor 1) and the call is not the "no dates, no data" no-op,
`set_data` raises — the converse of `write_refines_map` -/
theorem write_rejects (s : Series) (serials : List Int) (data : DataArg) (vids : List Int)
    (hne : ¬ (serials.isEmpty = true ∧ data.isEmptyData = true))
    (h : Map.writeAll s.abs s.nv serials data vids 0 = none) :
    s.setData serials data vids = .error .badInput :=
  setData_rejects s serials data vids hne h

example : Map.writeAll (fun _ _ => none) 2 [8080, 8081] (.array [[some 1, some 2, some 3]]) [0] 0 = none ∧
    Map.writeAll (fun _ _ => none) 2 [8080] (.scalar (some 1)) [2] 0 = none := by decide

/-- mixing frequencies in the dates of a write or a read is rejected (as `t - base` raises in `_get_date_positions`) -/
theorem dates_mixed_frequencies_rejected (s : Series) (ps : List Period) (data : DataArg) (vars : VarArg)
    (h : ∃ p ∈ ps, p.freq ≠ s.freqFor ps) :
    s.setDataP ps data vars = .error .mixedFreq ∧ s.getDataP ps vars = .error .mixedFreq :=
  dates_mixed_rejected s ps data vars h

/-- **a Series on the right-hand side of a write** (`x[dates] = y`, serial level, any list of distinct periods): the values
are read from the source period by period and written with the exhaust-then-last rule; everything else is unchanged -/
theorem write_from_series (s y r : Series) (serials : List Int) (hnd : serials.Nodup) (hne : serials ≠ [])
    (hI : Inv s) (hy : Inv y) (hynv : 0 < y.nv) (d : List Row)
    (hd : y.getData serials (allVids y) = .ok d)
    (h : s.setData serials (.array (transpose y.nv d)) (allVids s) = .ok r) :
    (∀ t v, t ∉ serials → r.abs t v = s.abs t v) ∧
    (∀ (i : Nat) (t : Int) (v : Nat), serials[i]? = some t → v < s.nv → r.abs t v = y.abs t (min v (y.nv - 1))) :=
  abs_setFromSeries s y r serials hnd hne hI hy hynv d hd h

/-- **`x[dates] = y` end to end, relative dates included** (composition of `resolveDates` on the receiver, the read from the
source and the write; hypotheses on the inputs only): see `step_set_from_series` in the lemma file for the proof -/
theorem set_from_series_end_to_end (p p' : Pool) (out : Output) (i j : Nat) (dates : DatesArg) (s y : Series)
    (serials : List Int) (hs : p.get i = .ok s) (hy : p.get j = .ok y) (hIs : Inv s) (hIy : Inv y)
    (st sy : Int) (hst : s.start = some st) (hsy : y.start = some sy) (hf : y.freq = s.freq) (hynv : 0 < y.nv)
    (hres : s.resolveDates dates = .ok (serials.map (fun x => (⟨s.freq, x⟩ : Period))))
    (hnd : serials.Nodup) (hne : serials ≠ [])
    (h : step p (.set i dates .all (.series j)) = .ok (p', out)) :
    ∃ r, p'[i]? = some r ∧ (∀ t v, t ∉ serials → r.abs t v = s.abs t v) ∧
      (∀ (k : Nat) (t : Int) (v : Nat), serials[k]? = some t → v < s.nv → r.abs t v = y.abs t (min v (y.nv - 1))) :=
  step_set_from_series p p' out i j dates s y serials hs hy hIs hIy st sy hst hsy hf hynv hres hnd hne h

/-- `x[...] = y` with `x` on 8080…8082 and `y` on 8081…8084: `...` is resolved against the receiver (three periods), `y` is read
there (missing at 8080), and the all-missing first period is trimmed away -/
example : (match step [⟨.Q, some 8080, 1, [[some 1], [some 2], [some 3]]⟩, ⟨.Q, some 8081, 1, [[some 7], [some 8], [some 9], [some 10]]⟩]
      (.set 0 .all .all (.series 1)) with | .ok (p', _) => some p' | .error _ => none)
    = some [⟨.Q, some 8081, 1, [[some 7], [some 8]]⟩, ⟨.Q, some 8081, 1, [[some 7], [some 8], [some 9], [some 10]]⟩] := by
  decide +kernel

/-! ## 6d. Concrete non-trivial instances of the hypotheses (the operations succeed on real data, arithmetic included) -/

/-- `binop_pointwise`: overlapping spans with a hole -/
example : (⟨.Q, some 8080, 1, [[some 1], [some 2], [some 3]]⟩ : Series).binop BinFn.add.eval ⟨.Q, some 8081, 1, [[some 5], [none], [some 7]]⟩
    = .ok ⟨.Q, some 8081, 1, [[some 7]]⟩ := by decide +kernel

/-- `overlay_by_span_broadcast` / `underlay_by_span_broadcast`: 2 vs 1 variants, the hole of `other` inside its span wins -/
example : (⟨.Q, some 8080, 2, [[some 1, some 2], [some 3, some 4], [some 5, some 6]]⟩ : Series).overlay ⟨.Q, some 8081, 1, [[none], [some 9], [some 8]]⟩
    = .ok ⟨.Q, some 8080, 2, [[some 1, some 2], [none, none], [some 9, some 9], [some 8, some 8]]⟩ ∧
    (⟨.Q, some 8081, 1, [[some 9], [none]]⟩ : Series).underlay ⟨.Q, some 8080, 2, [[some 1, some 2], [some 3, some 4], [some 5, some 6], [some 7, some 8]]⟩
    = .ok ⟨.Q, some 8080, 2, [[some 1, some 2], [some 9, some 9], [none, none], [some 7, some 8]]⟩ := by decide +kernel

/-- `hstackS_pointwise`: different spans, 1 + 2 variants -/
example : hstackS [⟨.Q, some 8080, 1, [[some 1], [some 2]]⟩, ⟨.Q, some 8081, 2, [[some 3, none], [some 5, some 6]]⟩]
    = .ok ⟨.Q, some 8080, 3, [[some 1, none, none], [some 2, some 3, none], [none, some 5, some 6]]⟩ := by decide +kernel

/-- `stat_pointwise`, `moving_window_pointwise`: sums with a missing cell and with an infinite value -/
example : (⟨.Q, some 8080, 2, [[some 1, some 3], [none, some .pinf], [some 2, some .ninf]]⟩ : Series).rowStat .sum
      = .ok ⟨.Q, some 8080, 1, [[some 4], [none], [some .ninf]]⟩ ∧
    (⟨.Q, some 8080, 2, [[some 1, some 3], [none, some .pinf], [some 2, some .ninf]]⟩ : Series).rowStat .nansum
      = .ok ⟨.Q, some 8080, 1, [[some 4], [some .pinf], [some .ninf]]⟩ ∧
    (⟨.Q, some 8080, 1, [[some 1], [some 2], [some 4], [some 8]]⟩ : Series).movWindow .sum (some (-2))
      = .ok ⟨.Q, some 8081, 1, [[some 3], [some 6], [some 12]]⟩ := by decide +kernel

/-- `extrapolate_pointwise`: the lag order matters from order 2 on — history 1, 2 and ρ = (0, 1) give 1, 2, 1 -/
example : (⟨.Q, some 8080, 1, [[some 1], [some 2]]⟩ : Series).extrapolate [0, 1] 0 (spanList 8082 3)
    = .ok ⟨.Q, some 8080, 1, [[some 1], [some 2], [some 1], [some 2], [some 1]]⟩ := by decide +kernel

/-- `fill_missing_pointwise`: linear interpolation over a gap of two, flat beyond the last observation -/
example : (⟨.Q, some 8080, 1, [[some 1], [none], [none], [some 4]]⟩ : Series).fillMissingP .linear
      ((spanList 8080 5).map (fun x => (⟨.Q, x⟩ : Period)))
    = .ok ⟨.Q, some 8080, 1, [[some 1], [some 2], [some 3], [some 4], [some 4]]⟩ := by decide +kernel

/-- `clip_restricts`, `replace_where_pointwise` -/
example : (⟨.Q, some 8080, 1, [[some 1], [none], [some 3], [some 4]]⟩ : Series).clip (some 8081) none
      = .ok ⟨.Q, some 8081, 1, [[none], [some 3], [some 4]]⟩ ∧
    (⟨.Q, some 8080, 1, [[some 1], [none], [some 3], [some 4]]⟩ : Series).replaceWhere (.gt 2) none
      = ⟨.Q, some 8080, 1, [[some 1]]⟩ := by decide +kernel

/-! ## 7. The refinement statement in one place -/

/-- **Every operation refines the map.** The conjunction of the `abs`-level equations proved above, per op kind of `step`:
* `set` / `x[dates, variants] = data`, `call`, `init` — `write_refines_map` (+ frame, scalar closed form), `read_is_abs` (`get`),
  `slice_is_abs` (`gfu`)
* `shift`, `fshift`, `idx` — `shift_moves_abs`;  `clip` — `clip_restricts`;  `trim` — `trim_preserves_abs` + `trim_establishes_trimmed`
* `overlay`, `foverlay`, `underlay`, `funderlay` — `overlay_by_span_broadcast`, `underlay_by_span_broadcast`
* `hstack` — `hstackS_pointwise`
* `bin`, `cmp` — `binop_pointwise_broadcast`;  `sc`, `rsc` — `apply_pointwise`;  `un` — `unary_pointwise`
* `stat`, `mstat` — `stat_pointwise`;  `mov`, `mmov` — `moving_window_pointwise`
* `fill`, `mfill` — `fill_missing_pointwise`;  `rw` — `replace_where_pointwise`;  `extrap`, `mextrap` — `extrapolate_pointwise`
* every op, every sequence — `step_inv`, `reachable_inv`, `covers`
(`new`, `empty`, `copy` are the empty map, the empty map with the start kept, and the identity, by definition.) -/
theorem op_refines_map : type_of% (And.intro @write_refines_map (And.intro @read_is_abs (And.intro @slice_is_abs
    (And.intro @shift_moves_abs (And.intro @clip_restricts (And.intro @trim_preserves_abs (And.intro @overlay_by_span_broadcast
    (And.intro @underlay_by_span_broadcast (And.intro @hstackS_pointwise (And.intro @binop_pointwise_broadcast
    (And.intro @apply_pointwise (And.intro @unary_pointwise (And.intro @stat_pointwise (And.intro @moving_window_pointwise
    (And.intro @fill_missing_pointwise (And.intro @replace_where_pointwise (And.intro @extrapolate_pointwise
    (And.intro @step_inv (And.intro @reachable_inv @covers))))))))))))))))))) :=
  And.intro @write_refines_map (And.intro @read_is_abs (And.intro @slice_is_abs
    (And.intro @shift_moves_abs (And.intro @clip_restricts (And.intro @trim_preserves_abs (And.intro @overlay_by_span_broadcast
    (And.intro @underlay_by_span_broadcast (And.intro @hstackS_pointwise (And.intro @binop_pointwise_broadcast
    (And.intro @apply_pointwise (And.intro @unary_pointwise (And.intro @stat_pointwise (And.intro @moving_window_pointwise
    (And.intro @fill_missing_pointwise (And.intro @replace_where_pointwise (And.intro @extrapolate_pointwise
    (And.intro @step_inv (And.intro @reachable_inv @covers))))))))))))))))))

end IrisVerif.C10
