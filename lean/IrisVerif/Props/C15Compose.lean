/-
Property C15 -- the end-to-end statement about the executable model, composed from the stage theorems
(`Props/C15.lean`, `Props/BridgeC15.lean`, `Props/QMatSolveBridge.lean`).

One theorem whose hypotheses are the shape of the input (what the driver's parser constructs) and "the model answered":
an answer of `observeAcov` / `acov` on the zero-shift selection IS the stationary solution of the second-moment recursion of
the solved model, restricted to the current-dated rows, NaN exactly on the rows and columns loading on unit-root states.
-/
import IrisVerif.Props.QMatSolveBridge

open Matrix Kronecker

namespace IrisVerif.C15Compose
open IrisVerif IrisVerif.QMat IrisVerif.Acov IrisVerif.BridgeC15

/-- **C15, end to end on the model.** Let `s` be a solution of driver shape (`Dims s`) and `shifts` the time shifts of the joint
token vector. If the model answers `acov s (zeroShiftSel shifts) k = some l`, then there is a covariance `Ω` of the stable block
such that

1. *(certificate)* `Ω` is symmetric and satisfies the Lyapunov equation of the stable block, `Ω = T_s Ω T_sᵀ + P_s Σ_u P_sᵀ`, as an
   identity of Mathlib matrices;
2. *(uniqueness)* `I − T_s ⊗ T_s` is non-singular, so (`C15.lyapunov_unique_kron`) `Ω` is THE solution: the stationary covariance;
3. *(all lags)* the `j`-th triangular matrix is `𝒜^j Γ₀` with `Γ₀ = get_cov_triangular_00`, which is a fixed point of the
   second-moment propagation of the joint `(α, y)` system (`BridgeC15.covTriangular00_fixed_point`) and the lag-`j` cross moment of
   every stationary family (`C15.lag_cross_moment`);
4. *(what is reported)* `l` has `k+1` matrices; cell `(a, b)` of the `j`-th one is NaN iff the variable at the `a`-th or at the
   `b`-th selected position loads on a unit-root state, and otherwise it is the cell of the square form `U Γ_j Uᵀ` at those
   positions;
5. *(which rows)* the selected positions are exactly the zero-shift positions of the token vector, in vector order;
6. *(which mask)* a measurement variable is masked iff one of its loadings `Za[i, :nu]` on the unit-root states exceeds the
   tolerance — not according to which transition variables it touches.

Missing link to a purely input-level hypothesis: "the model answers" ⇔ `det (I − T_s⊗T_s) ≠ 0` needs, besides the completeness of
the checked solver on non-singular systems (`QMatSolve.solveChecked_isSome_iff`, proved), that the unique solution passes the
model's symmetry re-check (true when `Σ_u` is symmetric; not proved at the `QMat` level). -/
theorem acov_end_to_end (s : Sol) (hd : Dims s) (shifts : List Int) (k : Nat) (l : List CMat)
    (h : acov s (zeroShiftSel shifts) k = some l) :
    ∃ OmS : QMat,
      -- 1. certificate
      (OmS.toMat (s.na - s.nu) (s.na - s.nu)
          = (TaStable s).toMat (s.na - s.nu) (s.na - s.nu) * OmS.toMat (s.na - s.nu) (s.na - s.nu)
              * ((TaStable s).toMat (s.na - s.nu) (s.na - s.nu))ᵀ + (sigmaU s).toMat (s.na - s.nu) (s.na - s.nu)
        ∧ (OmS.toMat (s.na - s.nu) (s.na - s.nu))ᵀ = OmS.toMat (s.na - s.nu) (s.na - s.nu)) ∧
      -- 2. uniqueness
      IsUnit (1 - (TaStable s).toMat (s.na - s.nu) (s.na - s.nu) ⊗ₖ (TaStable s).toMat (s.na - s.nu) (s.na - s.nu)).det ∧
      -- 3. all lags
      (∀ j, (autocovTriangular s OmS j).toMat (s.na + s.ny) (s.na + s.ny)
          = ((Acov.calA s).toMat (s.na + s.ny) (s.na + s.ny)) ^ j * (covTriangular00 s OmS).toMat (s.na + s.ny) (s.na + s.ny)) ∧
      -- 4. what is reported
      (l = (List.range (k + 1)).map
          (fun j => select (fillNaN s (toSquare s (autocovTriangular s OmS j))) (zeroShiftSel shifts)) ∧
        ∀ j a b, a < (zeroShiftSel shifts).length → b < (zeroShiftSel shifts).length →
          let g := toSquare s (autocovTriangular s OmS j)
          let ia := (zeroShiftSel shifts).getD a 0
          let ib := (zeroShiftSel shifts).getD b 0
          ia < g.rows → ib < g.cols →
          (((select (fillNaN s g) (zeroShiftSel shifts)).get a b = none ↔ (isStable s ia = false ∨ isStable s ib = false)) ∧
           (isStable s ia = true → isStable s ib = true →
              (select (fillNaN s g) (zeroShiftSel shifts)).get a b = some (g.get ia ib)))) ∧
      -- 5. which rows
      ((∀ i, i ∈ zeroShiftSel shifts ↔ (i < shifts.length ∧ shifts.getD i 1 = 0)) ∧ (zeroShiftSel shifts).Pairwise (· < ·)) ∧
      -- 6. which mask
      (∀ i, isStable s (s.na + i) = true ↔ ∀ j, j < s.nu → absQ (s.Za.get i j) ≤ s.tol) := by
  obtain ⟨OmS, hO, hl⟩ := acov_ok s _ k l h
  have hT : (TaStable s).rows = s.na - s.nu ∧ (TaStable s).cols = s.na - s.nu := ⟨rfl, rfl⟩
  obtain ⟨_, _, _, hLy, hsym⟩ := lyapunov_view (TaStable s) (sigmaU s) OmS (s.na - s.nu) hT.1 hT.2 hO
  refine ⟨OmS, ⟨hLy, hsym⟩, QMatSolveBridge.lyapunov_isUnit_det _ _ _ _ hT.1 hT.2 hO,
    fun j => autocovTriangular_view s hd OmS j, ⟨hl, ?_⟩, C15.zeroShiftSel_spec shifts,
    fun i => C15.measurement_mask_by_states s i⟩
  intro j a b ha hb g ia ib hia hib
  have hsel := C15.select_get (fillNaN s g) (zeroShiftSel shifts) a b ha hb
  rw [hsel]
  exact C15.nan_pattern s g ia ib hia hib

/-- non-vacuity: the hypothesis "the model answered" is met by the bridge's example system (AR(1), one measurement) -/
example : ∃ l, acov BridgeC15.Examples.exSol (zeroShiftSel [0, 0]) 1 = some l := by
  have : (acov BridgeC15.Examples.exSol (zeroShiftSel [0, 0]) 1).isSome = true := by decide +kernel
  exact Option.isSome_iff_exists.1 this

end IrisVerif.C15Compose
