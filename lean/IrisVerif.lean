-- Root of the `IrisVerif` library: models, lemmas and property theorems.
-- The drivers (IrisVerif/Driver/*.lean) each define `main`; they are built as separate targets (see MANIFEST setup_cmd).
import IrisVerif.Props.C09
import IrisVerif.Props.C11
import IrisVerif.Model.QMat
import IrisVerif.Props.C05
import IrisVerif.Props.C02
import IrisVerif.Props.C07
import IrisVerif.Props.C17
import IrisVerif.Props.C03
import IrisVerif.Props.C08
import IrisVerif.Props.C10
import IrisVerif.Props.C12
import IrisVerif.Props.C16
import IrisVerif.Props.C19
import IrisVerif.Props.C20
import IrisVerif.Props.C01
import IrisVerif.Props.C06
import IrisVerif.Props.C14
import IrisVerif.Props.C04
import IrisVerif.Props.C18
import IrisVerif.Props.C15
import IrisVerif.Props.C13
import IrisVerif.Props.QMatBridge
