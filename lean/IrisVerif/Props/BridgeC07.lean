/-
Bridge for property C07 (simulation plans).  `Plans.stackedSolve` -- the specification side of the C07 driver --
builds the impact matrix `M` by differencing the executable simulation, solves `M e = target − x⁰` with
`QMat.solveChecked` and simulates with the solved instruments.  Proved here, about the executable model itself:

* **`model_exogenized_affine`** (the model-level `C07.exogenized_affine`): for *every* instrument vector `e`, the
  exogenized cells of `Plans.simulate` run on the inputs with `e` added to the endogenized shock cells are
  `x⁰ + M e`, with `(x⁰, M) = Plans.impact c`.  Proof: every `QVec` operation of the simulator (`vadd`,
  `QMat.mulVec`, `colOf`, the `antImpact` fold, `simStep`, the `simulate` fold, `selectExo`) preserves the relation
  `Aff` "x = x0 + Σ_k e_k (x_k − x0)"; `applyInstruments` satisfies it by construction.
* `stackedSolve_ok`, `stackedSolve_system`: what a successful `stackedSolve` returns, and `M e = target − x⁰`
  exactly (from the solver's re-check).
* **`stackedSolve_hits_targets`** (unconditional): every exogenized cell of the output equals its target.
* `stackedSolve_unique` and **`stackedSolve_roundtrip`** (`C07.roundtrip_recovers` on the model): if the targets were
  read off a simulation with instruments `eTrue` and `det M` is a unit, `stackedSolve` returns exactly that
  simulation (same instruments, shocks and states).

Only hypotheses left: `u0`, `v0` well-shaped (the driver builds them with `QMat.ofFn`) and, for the round trip,
`det M ≠ 0` (not derivable from `solveChecked` returning `some`).
-/
import IrisVerif.Lemmas.QMatRefines
import IrisVerif.Props.C07

open Matrix

namespace IrisVerif.BridgeC07

open IrisVerif IrisVerif.QMat IrisVerif.Plans

/-! ## reads of the `QVec` operations of the model -/

theorem vadd_size (a b : QVec) : (vadd a b).size = a.size := by simp [vadd]
theorem vadd_getD (a b : QVec) (i : Nat) :
    (vadd a b).getD i 0 = if i < a.size then a.getD i 0 + b.getD i 0 else 0 := by
  unfold vadd
  by_cases h : i < a.size <;> simp [h]

theorem vsub_size (a b : QVec) : (vsub a b).size = a.size := by simp [vsub]
theorem vsub_getD (a b : QVec) (i : Nat) :
    (vsub a b).getD i 0 = if i < a.size then a.getD i 0 - b.getD i 0 else 0 := by
  unfold vsub
  by_cases h : i < a.size <;> simp [h]

theorem vzero_size (n : Nat) : (vzero n).size = n := by simp [vzero]
theorem vzero_getD (n i : Nat) : (vzero n).getD i 0 = 0 := by
  unfold vzero
  by_cases h : i < n <;> simp [h]

theorem colOf_size (a : QMat) (j : Nat) : (colOf a j).size = a.rows := by simp [colOf]
theorem colOf_getD (a : QMat) (j i : Nat) : (colOf a j).getD i 0 = if i < a.rows then a.get i j else 0 := by
  unfold colOf
  by_cases h : i < a.rows <;> simp [h]

theorem mulVec_getD (a : QMat) (v : QVec) (i : Nat) :
    (a.mulVec v).getD i 0 = if i < a.rows then ∑ l ∈ Finset.range a.cols, a.get i l * v.getD l 0 else 0 := by
  unfold QMat.mulVec
  rw [toVec_getD, mul_rows]
  by_cases h : i < a.rows
  · simp only [h, if_true, get_mul, col_cols, Nat.lt_one_iff, and_self, get_col_zero]
  · simp only [h, if_false]

/-! ## affine dependence on an instrument vector -/

/-- `x = x0 + Σ_{k<ni} e k • (xs k − x0)` entrywise, all of the same size -/
structure Aff (ni : Nat) (e : Nat → ℚ) (x0 : QVec) (xs : Nat → QVec) (x : QVec) : Prop where
  size : x.size = x0.size
  sizes : ∀ k, k < ni → (xs k).size = x0.size
  get : ∀ i, x.getD i 0 = x0.getD i 0 + ∑ k ∈ Finset.range ni, e k * ((xs k).getD i 0 - x0.getD i 0)

/-- the same for matrices (rows equal, every read affine) -/
structure MAff (ni : Nat) (e : Nat → ℚ) (u0 : QMat) (us : Nat → QMat) (u : QMat) : Prop where
  rows : u.rows = u0.rows
  rowss : ∀ k, k < ni → (us k).rows = u0.rows
  get : ∀ i t, u.get i t = u0.get i t + ∑ k ∈ Finset.range ni, e k * ((us k).get i t - u0.get i t)

variable {ni : Nat} {e : Nat → ℚ}

theorem Aff.const (x : QVec) : Aff ni e x (fun _ => x) x :=
  ⟨rfl, fun _ _ => rfl, fun i => by simp⟩

theorem Aff.vadd {a0 b0 a b : QVec} {as bs : Nat → QVec} (ha : Aff ni e a0 as a) (hb : Aff ni e b0 bs b) :
    Aff ni e (vadd a0 b0) (fun k => vadd (as k) (bs k)) (vadd a b) := by
  refine ⟨by rw [vadd_size, vadd_size, ha.size], fun k hk => by rw [vadd_size, vadd_size, ha.sizes k hk], fun i => ?_⟩
  rw [vadd_getD, vadd_getD, ha.size]
  by_cases h : i < a0.size
  · rw [if_pos h, if_pos h, ha.get, hb.get]
    have : ∀ k ∈ Finset.range ni, e k * ((Plans.vadd (as k) (bs k)).getD i 0 - (a0.getD i 0 + b0.getD i 0))
        = e k * ((as k).getD i 0 - a0.getD i 0) + e k * ((bs k).getD i 0 - b0.getD i 0) := by
      intro k hk
      rw [vadd_getD, ha.sizes k (Finset.mem_range.1 hk), if_pos h]; ring
    rw [Finset.sum_congr rfl this, Finset.sum_add_distrib]; ring
  · rw [if_neg h, if_neg h]
    have : ∀ k ∈ Finset.range ni, e k * ((Plans.vadd (as k) (bs k)).getD i 0 - 0) = 0 := by
      intro k hk
      rw [vadd_getD, ha.sizes k (Finset.mem_range.1 hk), if_neg h]; ring
    rw [Finset.sum_congr rfl this]; simp

theorem Aff.mulVec {x0 x : QVec} {xs : Nat → QVec} (h : Aff ni e x0 xs x) (A : QMat) :
    Aff ni e (A.mulVec x0) (fun k => A.mulVec (xs k)) (A.mulVec x) := by
  refine ⟨by rw [mulVec_size, mulVec_size], fun k _ => by rw [mulVec_size, mulVec_size], fun i => ?_⟩
  simp only [mulVec_getD]
  by_cases hi : i < A.rows
  · simp only [hi, if_true]
    have : ∀ k ∈ Finset.range ni,
        e k * (∑ l ∈ Finset.range A.cols, A.get i l * (xs k).getD l 0 - ∑ l ∈ Finset.range A.cols, A.get i l * x0.getD l 0)
        = ∑ l ∈ Finset.range A.cols, A.get i l * (e k * ((xs k).getD l 0 - x0.getD l 0)) := by
      intro k _
      rw [← Finset.sum_sub_distrib, Finset.mul_sum]
      exact Finset.sum_congr rfl (fun l _ => by ring)
    rw [Finset.sum_congr rfl this, Finset.sum_comm, ← Finset.sum_add_distrib]
    refine Finset.sum_congr rfl (fun l _ => ?_)
    rw [h.get l, ← Finset.mul_sum]; ring
  · simp [hi]

theorem MAff.colOf {u0 u : QMat} {us : Nat → QMat} (h : MAff ni e u0 us u) (t : Nat) :
    Aff ni e (colOf u0 t) (fun k => colOf (us k) t) (colOf u t) := by
  refine ⟨by rw [colOf_size, colOf_size, h.rows], fun k hk => by rw [colOf_size, colOf_size, h.rowss k hk], fun i => ?_⟩
  rw [colOf_getD, colOf_getD, h.rows]
  by_cases hi : i < u0.rows
  · rw [if_pos hi, if_pos hi, h.get]
    congr 1
    refine Finset.sum_congr rfl (fun k hk => ?_)
    rw [colOf_getD, h.rowss k (Finset.mem_range.1 hk), if_pos hi]
  · rw [if_neg hi, if_neg hi]
    have : ∀ k ∈ Finset.range ni, e k * ((Plans.colOf (us k) t).getD i 0 - 0) = 0 := by
      intro k hk
      rw [colOf_getD, h.rowss k (Finset.mem_range.1 hk), if_neg hi]; ring
    rw [Finset.sum_congr rfl this]; simp

/-! ## the simulation is affine in the shocks -/

theorem antImpact_size (s : Sol) (v : QMat) (N t : Nat) : (antImpact s v N t).size = s.numXi := by
  unfold antImpact
  generalize (List.range (N - t)) = l
  suffices h : ∀ acc : QVec, acc.size = s.numXi →
      (l.foldl (fun acc k => Plans.vadd acc ((s.R k).mulVec (Plans.colOf v (t + k)))) acc).size = s.numXi from
    h _ (vzero_size _)
  induction l with
  | nil => intro acc h; exact h
  | cons k l ih => intro acc h; rw [List.foldl_cons]; exact ih _ (by rw [vadd_size, h])

theorem antImpact_aff {v0 v : QMat} {vs : Nat → QMat} (s : Sol) (h : MAff ni e v0 vs v) (N t : Nat) :
    Aff ni e (antImpact s v0 N t) (fun k => antImpact s (vs k) N t) (antImpact s v N t) := by
  unfold antImpact
  generalize (List.range (N - t)) = l
  suffices hh : ∀ (a0 a : QVec) (as : Nat → QVec), Aff ni e a0 as a →
      Aff ni e (l.foldl (fun acc k => Plans.vadd acc ((s.R k).mulVec (Plans.colOf v0 (t + k)))) a0)
        (fun j => l.foldl (fun acc k => Plans.vadd acc ((s.R k).mulVec (Plans.colOf (vs j) (t + k)))) (as j))
        (l.foldl (fun acc k => Plans.vadd acc ((s.R k).mulVec (Plans.colOf v (t + k)))) a) from
    hh _ _ _ (Aff.const _)
  induction l with
  | nil => intro a0 a as ha; exact ha
  | cons k l ih =>
    intro a0 a as ha
    simp only [List.foldl_cons]
    exact ih _ _ _ (ha.vadd ((h.colOf (t + k)).mulVec (s.R k)))

theorem simStep_aff {u0 u v0 v : QMat} {us vs : Nat → QMat} {x0 x : QVec} {xs : Nat → QVec} (s : Sol)
    (hu : MAff ni e u0 us u) (hv : MAff ni e v0 vs v) (hx : Aff ni e x0 xs x) (N t : Nat) :
    Aff ni e (simStep s u0 v0 N t x0) (fun k => simStep s (us k) (vs k) N t (xs k)) (simStep s u v N t x) := by
  unfold simStep
  exact (((hx.mulVec s.T).vadd (Aff.const s.K)).vadd ((hu.colOf t).mulVec s.P)).vadd (antImpact_aff s hv N t)

/-- the state after `t` steps of `simulate_flat` -/
def stateAt (s : Sol) (init : QVec) (u v : QMat) (N : Nat) : Nat → QVec
  | 0 => init
  | t + 1 => simStep s u v N t (stateAt s init u v N t)

theorem stateAt_aff {u0 u v0 v : QMat} {us vs : Nat → QMat} (s : Sol) (init : QVec)
    (hu : MAff ni e u0 us u) (hv : MAff ni e v0 vs v) (N t : Nat) :
    Aff ni e (stateAt s init u0 v0 N t) (fun k => stateAt s init (us k) (vs k) N t) (stateAt s init u v N t) := by
  induction t with
  | zero => exact Aff.const init
  | succ t ih => exact simStep_aff s hu hv ih N t

theorem simulate_fold (s : Sol) (init : QVec) (u v : QMat) (N n : Nat) :
    ((List.range n).foldl (fun (acc : List QVec × QVec) t =>
        let xi := simStep s u v N t acc.2
        (xi :: acc.1, xi)) ([], init))
      = (((List.range n).map (fun t => stateAt s init u v N (t + 1))).reverse, stateAt s init u v N n) := by
  induction n with
  | zero => rfl
  | succ n ih =>
    rw [List.range_succ, List.foldl_append, ih]
    simp [stateAt]

theorem simulate_eq (s : Sol) (init : QVec) (u v : QMat) (N : Nat) :
    simulate s init u v N = (List.range N).map (fun t => stateAt s init u v N (t + 1)) := by
  unfold simulate
  rw [simulate_fold, List.reverse_reverse]

theorem simulate_getD (s : Sol) (init : QVec) (u v : QMat) (N t : Nat) (ht : t < N) :
    (simulate s init u v N).getD t #[] = stateAt s init u v N (t + 1) := by
  rw [simulate_eq]
  simp [List.getD_eq_getElem?_getD, ht]

/-! ## the exogenized cells -/

/-- (period, position in `xi`) of the exogenized cells, in the order of `selectExo` -/
def exoSpots (c : CondInput) : List (Nat × Nat) :=
  (List.range c.N).flatMap fun t => (c.exoCellsAt t).map fun i => (t, c.currIdx.getD i 0)

theorem selectExo_eq (c : CondInput) (xi : List QVec) :
    selectExo c xi = ((exoSpots c).map fun p => (xi.getD p.1 #[]).getD p.2 0).toArray := by
  unfold selectExo exoSpots
  simp [List.map_flatMap, List.map_map, Function.comp_def]

theorem selectExo_size (c : CondInput) (xi : List QVec) : (selectExo c xi).size = (exoSpots c).length := by
  rw [selectExo_eq]; simp

theorem exoSpots_lt (c : CondInput) (r : Nat) (hr : r < (exoSpots c).length) : ((exoSpots c)[r]).1 < c.N := by
  have hall : ∀ p ∈ exoSpots c, p.1 < c.N := by
    intro p hp
    unfold exoSpots at hp
    rw [List.mem_flatMap] at hp
    obtain ⟨t, ht, hm⟩ := hp
    rw [List.mem_map] at hm
    obtain ⟨i, _, hi⟩ := hm
    rw [← hi]
    exact List.mem_range.1 ht
  exact hall _ (List.getElem_mem hr)

theorem selectExo_getD (c : CondInput) (u v : QMat) (r : Nat) :
    (selectExo c (simulate c.sol c.init u v c.N)).getD r 0 =
      if h : r < (exoSpots c).length then
        (stateAt c.sol c.init u v c.N ((exoSpots c)[r].1 + 1)).getD (exoSpots c)[r].2 0 else 0 := by
  rw [selectExo_eq]
  by_cases h : r < (exoSpots c).length
  · simp only [h, dite_true]
    rw [Array.getD_eq_getD_getElem?, List.getElem?_toArray, List.getElem?_map, List.getElem?_eq_getElem h]
    simp only [Option.map_some, Option.getD_some]
    rw [simulate_getD _ _ _ _ _ _ (exoSpots_lt c r h)]
  · simp only [h, dite_false]
    rw [Array.getD_eq_getD_getElem?, List.getElem?_toArray, List.getElem?_map, List.getElem?_eq_none (by omega)]
    rfl

theorem selectExo_aff {u0 u v0 v : QMat} {us vs : Nat → QMat} (c : CondInput)
    (hu : MAff ni e u0 us u) (hv : MAff ni e v0 vs v) :
    Aff ni e (selectExo c (simulate c.sol c.init u0 v0 c.N))
      (fun k => selectExo c (simulate c.sol c.init (us k) (vs k) c.N))
      (selectExo c (simulate c.sol c.init u v c.N)) := by
  refine ⟨by rw [selectExo_size, selectExo_size], fun k _ => by rw [selectExo_size, selectExo_size], fun r => ?_⟩
  simp only [selectExo_getD]
  by_cases h : r < (exoSpots c).length
  · simp only [h, dite_true]
    exact (stateAt_aff c.sol c.init hu hv c.N _).get _
  · simp [h]

/-! ## adding instruments is affine in the instrument vector -/

theorem unitVec_getD (n k i : Nat) : (unitVec n k).getD i 0 = if i < n ∧ i = k then 1 else 0 := by
  unfold unitVec
  by_cases h : i < n <;> simp [h]

theorem sum_unit (n k' : Nat) (f : Nat → ℚ) (h : k' < n) :
    ∑ k ∈ Finset.range n, f k * (if k' < n ∧ k' = k then (1 : ℚ) else 0) = f k' := by
  simp only [h, true_and, mul_ite, mul_one, mul_zero]
  rw [Finset.sum_ite_eq]
  simp [h]

theorem applyInstruments_u_aff (c : CondInput) (hw : c.u0.wellShaped = true) (e : QVec) :
    MAff (numInstruments c) (fun k => e.getD k 0) c.u0
      (fun k => (applyInstruments c (unitVec (numInstruments c) k)).1) (applyInstruments c e).1 := by
  refine ⟨rfl, fun _ _ => rfl, fun i t => ?_⟩
  unfold applyInstruments
  simp only [get_ofFn]
  by_cases h : i < c.u0.rows ∧ t < c.u0.cols
  · simp only [h, and_self, if_true, add_sub_cancel_left]
    congr 1
    cases hidx : (cellsColMajor c.endoU c.N).idxOf? (i, t) with
    | none => simp
    | some k' =>
      simp only
      obtain ⟨hk', _⟩ := List.idxOf?_eq_some_iff.1 hidx
      have hlt : k' < numInstruments c := by unfold numInstruments; omega
      simp only [unitVec_getD]
      rw [sum_unit _ _ _ hlt]
  · simp only [h, if_false]
    rw [get_of_out c.u0 hw i t (by omega)]
    simp

theorem applyInstruments_v_aff (c : CondInput) (hw : c.v0.wellShaped = true) (e : QVec) :
    MAff (numInstruments c) (fun k => e.getD k 0) c.v0
      (fun k => (applyInstruments c (unitVec (numInstruments c) k)).2) (applyInstruments c e).2 := by
  refine ⟨rfl, fun _ _ => rfl, fun i t => ?_⟩
  unfold applyInstruments
  simp only [get_ofFn]
  by_cases h : i < c.v0.rows ∧ t < c.v0.cols
  · simp only [h, and_self, if_true, add_sub_cancel_left]
    congr 1
    cases hidx : (cellsColMajor c.endoV c.N).idxOf? (i, t) with
    | none => simp
    | some k' =>
      simp only
      obtain ⟨hk', _⟩ := List.idxOf?_eq_some_iff.1 hidx
      have hlt : (cellsColMajor c.endoU c.N).length + k' < numInstruments c := by unfold numInstruments; omega
      simp only [unitVec_getD]
      rw [sum_unit _ _ _ hlt]
  · simp only [h, if_false]
    rw [get_of_out c.v0 hw i t (by omega)]
    simp

/-! ## the impact matrix -/

theorem impact_fst (c : CondInput) : (impact c).1 = selectExo c (simulate c.sol c.init c.u0 c.v0 c.N) := rfl

theorem impact_rows (c : CondInput) : (impact c).2.rows = (exoSpots c).length := by
  show (selectExo c _).size = _
  exact selectExo_size c _

theorem impact_cols (c : CondInput) : (impact c).2.cols = numInstruments c := by
  show (List.map _ (List.range (numInstruments c))).length = _
  simp

theorem impact_get (c : CondInput) (r k : Nat) (hr : r < (exoSpots c).length) (hk : k < numInstruments c) :
    (impact c).2.get r k =
      (selectExo c (simulate c.sol c.init (applyInstruments c (unitVec (numInstruments c) k)).1
        (applyInstruments c (unitVec (numInstruments c) k)).2 c.N)).getD r 0 - (impact c).1.getD r 0 := by
  unfold impact ofCols
  simp only
  rw [get_ofFn_of_lt _ _ _ _ _ (by rw [selectExo_size]; exact hr) (by simp; exact hk)]
  rw [List.getD_eq_getElem?_getD, List.getElem?_map, List.getElem?_range hk]
  simp only [Option.map_some, Option.getD_some]
  rw [vsub_getD, selectExo_size, if_pos hr]

/-- **`exogenized_affine` for the executable model**: the exogenized cells of the simulation with the instruments `e`
added to the endogenized shock cells are `x⁰ + M e`, entry by entry, for every instrument vector -/
theorem model_exogenized_affine (c : CondInput) (hu : c.u0.wellShaped = true) (hv : c.v0.wellShaped = true)
    (e : QVec) (r : Nat) (hr : r < (exoSpots c).length) :
    (selectExo c (simulate c.sol c.init (applyInstruments c e).1 (applyInstruments c e).2 c.N)).getD r 0
      = (impact c).1.getD r 0 + ∑ k ∈ Finset.range (numInstruments c), (impact c).2.get r k * e.getD k 0 := by
  have h := (selectExo_aff c (applyInstruments_u_aff c hu e) (applyInstruments_v_aff c hv e)).get r
  rw [h, impact_fst]
  congr 1
  refine Finset.sum_congr rfl (fun k hk => ?_)
  rw [impact_get c r k hr (Finset.mem_range.1 hk), impact_fst]
  ring

/-! ## `stackedSolve` -/

theorem stackedSolve_ok (c : CondInput) (o : CondOutput) (M : QMat) (h : stackedSolve c = .ok (o, M)) :
    M = (impact c).2 ∧ M.rows = M.cols ∧
    ∃ e : QMat, QMat.solveChecked M (QMat.col (vsub (targetVec c) (impact c).1)) = some e ∧
      o.u = (applyInstruments c e.toVec).1 ∧ o.v = (applyInstruments c e.toVec).2 ∧
      o.xi = simulate c.sol c.init o.u o.v c.N := by
  unfold stackedSolve at h
  simp only at h
  split at h
  · cases h
  · rename_i hsq
    simp only [bne_iff_ne, ne_eq, Decidable.not_not] at hsq
    split at h
    · cases h
    · rename_i e he
      simp only [Except.ok.injEq, Prod.mk.injEq] at h
      obtain ⟨ho, hM⟩ := h
      subst ho
      refine ⟨hM.symm, by rw [← hM]; exact hsq, e, ?_, rfl, rfl, rfl⟩
      rw [← hM]; exact he

/-- the exact re-check of the solver, read entry by entry -/
theorem solve_system (M : QMat) (b : QVec) (e : QMat) (he : QMat.solveChecked M (QMat.col b) = some e) :
    e.rows = M.rows ∧ b.size = M.rows ∧ M.cols = M.rows ∧
    ∀ r, r < M.rows → ∑ k ∈ Finset.range M.cols, M.get r k * e.toVec.getD k 0 = b.getD r 0 := by
  obtain ⟨hs, hq⟩ := solveChecked_eq_some _ _ e he
  obtain ⟨h1, h2, h3, h4, _⟩ := solve_dims _ _ e hs
  obtain ⟨_, _, hget⟩ := (eqv_iff_get _ _).1 hq
  refine ⟨h3, by rw [h2]; rfl, h1.symm, fun r hr => ?_⟩
  have := hget r 0 hr (by rw [mul_cols, h4]; exact Nat.one_pos)
  rw [get_mul, if_pos ⟨hr, by rw [h4]; exact Nat.one_pos⟩, get_col_zero] at this
  rw [← this]
  refine Finset.sum_congr rfl (fun k hk => ?_)
  rw [toVec_getD, h3, if_pos (by rw [h1]; exact Finset.mem_range.1 hk)]

/-- **the stacked system holds exactly**: `M e = target − x⁰` for the instruments `e` the output was simulated with -/
theorem stackedSolve_system (c : CondInput) (o : CondOutput) (M : QMat) (h : stackedSolve c = .ok (o, M)) :
    ∃ e : QVec, o.u = (applyInstruments c e).1 ∧ o.v = (applyInstruments c e).2 ∧
      o.xi = simulate c.sol c.init o.u o.v c.N ∧
      (targetVec c).size = (exoSpots c).length ∧ numInstruments c = (exoSpots c).length ∧
      ∀ r, r < (exoSpots c).length →
        ∑ k ∈ Finset.range (numInstruments c), (impact c).2.get r k * e.getD k 0
          = (targetVec c).getD r 0 - (impact c).1.getD r 0 := by
  obtain ⟨hM, _, e, he, hu, hv, hxi⟩ := stackedSolve_ok c o M h
  rw [hM] at he
  obtain ⟨_, h2, h3, h4⟩ := solve_system _ _ e he
  rw [impact_rows] at h2 h3 h4
  rw [impact_cols] at h3 h4
  rw [vsub_size] at h2
  refine ⟨e.toVec, hu, hv, hxi, h2, h3, fun r hr => ?_⟩
  rw [h4 r hr, vsub_getD, if_pos (by rw [h2]; exact hr)]

/-- **every exogenized cell of the output of `stackedSolve` equals its target** -- unconditionally -/
theorem stackedSolve_hits_targets (c : CondInput) (hu : c.u0.wellShaped = true) (hv : c.v0.wellShaped = true)
    (o : CondOutput) (M : QMat) (h : stackedSolve c = .ok (o, M)) :
    ∀ r, (selectExo c o.xi).getD r 0 = (targetVec c).getD r 0 := by
  obtain ⟨e, hou, hov, hxi, hsz, _, hsys⟩ := stackedSolve_system c o M h
  intro r
  by_cases hr : r < (exoSpots c).length
  · rw [hxi, hou, hov, model_exogenized_affine c hu hv e r hr, hsys r hr]; ring
  · have h1 : (selectExo c o.xi).getD r 0 = 0 := by
      rw [Array.getD_eq_getD_getElem?, Array.getElem?_eq_none (by rw [selectExo_size]; omega)]; rfl
    have h2 : (targetVec c).getD r 0 = 0 := by
      rw [Array.getD_eq_getD_getElem?, Array.getElem?_eq_none (by rw [hsz]; omega)]; rfl
    rw [h1, h2]

/-- the output depends on the instrument vector only through its first `numInstruments` entries -/
theorem applyInstruments_congr (c : CondInput) (e e' : QVec)
    (h : ∀ k, k < numInstruments c → e.getD k 0 = e'.getD k 0) : applyInstruments c e = applyInstruments c e' := by
  unfold applyInstruments
  simp only [Prod.mk.injEq]
  constructor
  · congr 1
    funext i t
    congr 1
    cases hidx : (cellsColMajor c.endoU c.N).idxOf? (i, t) with
    | none => rfl
    | some k' =>
      obtain ⟨hk', _⟩ := List.idxOf?_eq_some_iff.1 hidx
      exact h k' (by unfold numInstruments; omega)
  · congr 1
    funext i t
    congr 1
    cases hidx : (cellsColMajor c.endoV c.N).idxOf? (i, t) with
    | none => rfl
    | some k' =>
      obtain ⟨hk', _⟩ := List.idxOf?_eq_some_iff.1 hidx
      exact h _ (by unfold numInstruments; omega)

/-- the impact matrix as a square Mathlib matrix (`m` = number of exogenized cells = number of instruments) -/
def impactM (c : CondInput) : Matrix (Fin (exoSpots c).length) (Fin (exoSpots c).length) ℚ :=
  (impact c).2.toMat _ _

/-- `C07.instruments_unique` on the model -/
theorem stackedSolve_unique (c : CondInput) (hdet : IsUnit (impactM c).det)
    (e e' : Fin (exoSpots c).length → ℚ) (he : impactM c *ᵥ e = impactM c *ᵥ e') : e = e' :=
  C07.instruments_unique _ hdet e e' he

/-- **`C07.roundtrip_recovers` on the executable model.**  If the targets are the exogenized cells of the simulation
with instrument values `eTrue` and the impact matrix is non-singular, `stackedSolve` returns exactly that simulation:
the same shocks and the same states. -/
theorem stackedSolve_roundtrip (c : CondInput) (hu : c.u0.wellShaped = true) (hv : c.v0.wellShaped = true)
    (eTrue : QVec)
    (htar : ∀ r, r < (exoSpots c).length → (targetVec c).getD r 0 =
      (selectExo c (simulate c.sol c.init (applyInstruments c eTrue).1 (applyInstruments c eTrue).2 c.N)).getD r 0)
    (hdet : IsUnit (impactM c).det)
    (o : CondOutput) (M : QMat) (h : stackedSolve c = .ok (o, M)) :
    o.u = (applyInstruments c eTrue).1 ∧ o.v = (applyInstruments c eTrue).2 ∧
      o.xi = simulate c.sol c.init (applyInstruments c eTrue).1 (applyInstruments c eTrue).2 c.N := by
  obtain ⟨e, hou, hov, hxi, _, hni, hsys⟩ := stackedSolve_system c o M h
  have hmul : ∀ (w : QVec), (impactM c *ᵥ fun k : Fin (exoSpots c).length => w.getD k 0)
      = fun r : Fin (exoSpots c).length =>
          ∑ k ∈ Finset.range (numInstruments c), (impact c).2.get r k * w.getD k 0 := by
    intro w
    funext r
    rw [hni, ← Fin.sum_univ_eq_sum_range (fun k => (impact c).2.get r k * w.getD k 0)]
    rfl
  have heq : (fun k : Fin (exoSpots c).length => e.getD k 0) = fun k : Fin (exoSpots c).length => eTrue.getD k 0 := by
    apply stackedSolve_unique c hdet
    rw [hmul, hmul]
    funext r
    rw [hsys r r.isLt, htar r r.isLt, model_exogenized_affine c hu hv eTrue r r.isLt]
    ring
  have hread : ∀ k, k < numInstruments c → e.getD k 0 = eTrue.getD k 0 := by
    intro k hk
    exact congrFun heq ⟨k, hni ▸ hk⟩
  have := applyInstruments_congr c e eTrue hread
  rw [this] at hou hov
  refine ⟨hou, hov, ?_⟩
  rw [hxi, hou, hov]

/-! ## non-vacuity (kernel evaluation of the executable model) -/

namespace Examples

/-- one state `x_t = 1/2 x_{t-1} + u_t + (anticipated)`, two periods, `x` exogenized in both, the unanticipated shock
endogenized in period 0 and the anticipated one in period 1: a 2 × 2 stacked system -/
def exIn : CondInput :=
  { sol := ⟨QMat.ofRows [[1/2]], #[0], QMat.ofRows [[1]], QMat.ofRows [[1]], QMat.ofRows [[1/2]], QMat.ofRows [[1]]⟩,
    currIdx := [0], init := #[1], N := 2,
    u0 := QMat.ofFn 1 2 (fun _ _ => 0), v0 := QMat.ofFn 1 2 (fun _ _ => 0),
    stdU := QMat.ofFn 1 2 (fun _ _ => 1), stdV := QMat.ofFn 1 2 (fun _ _ => 1),
    exo := [[true, true]], target := QMat.ofRows [[3, 5]],
    endoU := [[true, false]], endoV := [[false, true]] }

/-- the stacked solve succeeds and the exogenized cells hit `3` and `5` (evaluated by the kernel) -/
theorem ex_stacked :
    (match stackedSolve exIn with
      | .ok (o, _) => decide ((selectExo exIn o.xi).getD 0 0 = 3 ∧ (selectExo exIn o.xi).getD 1 0 = 5)
      | .error _ => false) = true := by decide +kernel

/-- the hypotheses of `stackedSolve_hits_targets` are met -/
example : (∃ o M, stackedSolve exIn = .ok (o, M)) ∧ exIn.u0.wellShaped = true ∧ exIn.v0.wellShaped = true := by
  refine ⟨?_, wellShaped_ofFn _ _ _, wellShaped_ofFn _ _ _⟩
  have h := ex_stacked
  cases hs : stackedSolve exIn with
  | error err => rw [hs] at h; cases h
  | ok p => exact ⟨p.1, p.2, rfl⟩

end Examples

end IrisVerif.BridgeC07
