/-
Bridge for property C07 (simulation plans), partial.  `Plans.stackedSolve` -- the specification side of the C07
driver -- builds the impact matrix `M` by differencing the executable simulation, solves `M e = target − x⁰` with
`QMat.solveChecked` and simulates with the solved instruments.  Derived here through the `QMat → Matrix` bridge:

* `stackedSolve_ok`: the output *is* a plain simulation (from the same initial condition) of shocks that differ from
  the inputs by the instrument vector `e` in the endogenized cells only, `M` is square, and
* `stackedSolve_system`: `M e = target − x⁰` holds exactly as a Mathlib `mulVec` equation (from the solver's exact
  re-check);
* `stackedSolve_unique`: with `det M` a unit, `e` is the only instrument vector solving the system
  (`C07.instruments_unique` carried down);
* `stackedSolve_hits_targets_partial`: *given* the affinity of the executable simulation in the instruments
  (`selectExo (simulate (input + E e)) = x⁰ + M e`, the statement `C07.exogenized_affine` proves for the matrix-level
  recursion), every exogenized cell of the output equals its target.

NOT bridged (the remaining gap, see notes/QMatRefines.md): the affinity hypothesis itself, i.e. the refinement of the
executable `Plans.simulate` (`QVec` folds: `vadd`, `mulVec`, `antImpact`) to `C07.simPath`/`drive`; with it
`exogenized_affine` and `roundtrip_recovers` would apply to `stackedSolve` without any assumption but `det M ≠ 0`.
-/
import IrisVerif.Lemmas.QMatRefines
import IrisVerif.Props.C07

open Matrix

namespace IrisVerif.BridgeC07

open IrisVerif IrisVerif.QMat IrisVerif.Plans

theorem stackedSolve_ok (c : CondInput) (o : CondOutput) (M : QMat) (h : stackedSolve c = .ok (o, M)) :
    M = (impact c).2 ∧ M.rows = M.cols ∧
    ∃ e : QMat, QMat.solveChecked M (QMat.col (vsub (targetVec c) (impact c).1)) = some e ∧
      o.u = (applyInstruments c e.toVec).1 ∧ o.v = (applyInstruments c e.toVec).2 ∧
      o.xi = simulate c.sol c.init o.u o.v c.N := by
  unfold stackedSolve at h
  simp only at h
  split at h
  · cases h
  · rename_i hsq
    simp only [bne_iff_ne, ne_eq, Decidable.not_not] at hsq
    split at h
    · cases h
    · rename_i e he
      simp only [Except.ok.injEq, Prod.mk.injEq] at h
      obtain ⟨ho, hM⟩ := h
      subst ho
      refine ⟨hM.symm, by rw [← hM]; exact hsq, e, ?_, rfl, rfl, rfl⟩
      rw [← hM]; exact he

theorem vsub_getD (a b : QVec) (i : Nat) :
    (vsub a b).getD i 0 = if i < a.size then a.getD i 0 - b.getD i 0 else 0 := by
  unfold vsub
  by_cases h : i < a.size <;> simp [h]

/-- **the stacked system holds exactly**: `M e = target − x⁰` as a Mathlib equation, `k = M.rows` exogenized cells
and as many instruments -/
theorem stackedSolve_system (c : CondInput) (o : CondOutput) (M : QMat) (h : stackedSolve c = .ok (o, M)) :
    ∃ e : QMat, o.u = (applyInstruments c e.toVec).1 ∧ o.v = (applyInstruments c e.toVec).2 ∧
      (targetVec c).size = M.rows ∧
      M.toMat M.rows M.rows *ᵥ (fun i : Fin M.rows => e.get i 0) =
        fun i : Fin M.rows => (targetVec c).getD i 0 - (impact c).1.getD i 0 := by
  obtain ⟨_, _, e, he, hu, hv, _⟩ := stackedSolve_ok c o M h
  obtain ⟨_, h2, _, _, _, h6⟩ := solveChecked_sound _ _ e he
  have hsz : (targetVec c).size = M.rows := by
    rw [← h2, col_rows]; simp [vsub]
  refine ⟨e, hu, hv, hsz, ?_⟩
  rw [col_cols] at h6
  have := mulVec_of_mul_col _ e _ h6
  rw [this]
  funext i
  rw [get_col_zero, vsub_getD, if_pos (by rw [hsz]; exact i.isLt)]

/-- `C07.instruments_unique` on the model: a non-singular impact matrix admits no other instrument vector -/
theorem stackedSolve_unique (c : CondInput) (o : CondOutput) (M : QMat) (_h : stackedSolve c = .ok (o, M))
    (hdet : IsUnit (M.toMat M.rows M.rows).det) (e e' : Fin M.rows → ℚ)
    (he : M.toMat M.rows M.rows *ᵥ e = fun i : Fin M.rows => (targetVec c).getD i 0 - (impact c).1.getD i 0)
    (he' : M.toMat M.rows M.rows *ᵥ e' = fun i : Fin M.rows => (targetVec c).getD i 0 - (impact c).1.getD i 0) :
    e = e' :=
  C07.instruments_unique _ hdet e e' (he.trans he'.symm)

/-- **exogenized cells hit their targets -- given the affinity of the executable simulation.**
Full statement (not proved here): the hypothesis `haff` holds for every `c` (it is `C07.exogenized_affine` for the
executable `Plans.simulate`); what is missing is the refinement of `Plans.simulate` to `C07.simPath`. -/
theorem stackedSolve_hits_targets_partial (c : CondInput) (o : CondOutput) (M : QMat)
    (h : stackedSolve c = .ok (o, M))
    (haff : ∀ e : QMat, ∀ i : Fin M.rows,
      (selectExo c (simulate c.sol c.init (applyInstruments c e.toVec).1 (applyInstruments c e.toVec).2 c.N)).getD i 0
        = (impact c).1.getD i 0 + (M.toMat M.rows M.rows *ᵥ (fun i : Fin M.rows => e.get i 0)) i) :
    ∀ i : Fin M.rows, (selectExo c o.xi).getD i 0 = (targetVec c).getD i 0 := by
  obtain ⟨_, _, e', _, hu', hv', hxi⟩ := stackedSolve_ok c o M h
  obtain ⟨e, hu, hv, _, hsys⟩ := stackedSolve_system c o M h
  intro i
  have := haff e i
  rw [← hu, ← hv, ← hxi, hsys] at this
  rw [this]; ring

end IrisVerif.BridgeC07
