/-
Line-protocol driver for the stacked-time model (property C06).

Requests (whitespace separated words; rationals as `num/den`, non-finite cells as `nan`):

  spots  <nEndo> q… <first> <simLast>                         -> `q:c q:c …`   (wrt_spots, plan = None)
  catch  <nEndo> q… <first> <simLast> <fallback> <data>        -> `reported spots | data after _catch_missing`
  resid  <system> <data> <guess>                              -> residual vector in row order
  frames <baseFirst> <n> <nUnant> row… <data>                 -> `breaks | stacked frames | period frames`
  writers <method st|pp> <baseFirst> <n> <nRows> <nUnant> row… <data>
                                                              -> final main array after the frame loop with a marking solver
  cert   <system(term = ford)> <data> <nG> <QMat g>…          -> `residual vector | path cells`
  simlin <system> <data>                                      -> exact zero of the affine stacked system, `singular`, or `nan`

  iguess <first_order|data> <termspec as after `ford`> <baseFirst> <n> <data>   -> the main array after simulate_initial_guess
  settings <nCalls> (none | <n> (key value)…)…                -> per call the settings handed to the solver `k=v,…` (dict order), joined by ` | `
  method <string>                                             -> METHOD_NAME of the simulator module the string selects, or `KeyError`
  pair   <N> <nModel> <nData>                                 -> `k:modelVariant:dataVariant …` (`-` = none) of the zip in Inlay.simulate
  hist   <nP> q… <nInit> (q v)… <nOps> (a obj q v | c obj | s obj)…   -> per op `-` or the parameter overwrites `q=v,…`, joined by ` | `
  termlog <nRows> logly… <nTok> (q s)… <nCurr> (q i)… <maxLead> <last> <n> T… K… <rows> <cols> cell…   (floats as their 64 bits)
                                                              -> bits of the terminal cells (curr-major, then column) computed over Float
  finding <QMat T> <QMat K>                                   -> `first-order path | stacked residual on it | exact stacked zero` on the finding's corpus input

  <system> = S <nE> <expr>… <nEndo> q… <first> <simLast> <term>
  <expr>   = c <rat> | v <qid> <shift> | n <expr> | + a b | - a b | * a b | / a b | ^ <nat> <expr>     (prefix)
  <term>   = data | ford <maxLead> <QMat T> <QMat K (n×1)> <nTok> (q s)… <nCurr> (q i)…
  <data>   = D <rows> <cols> cell…        <guess> = G none | G <n> val…
-/
import IrisVerif.Model.StackedGlue
import IrisVerif.Driver.Util

open IrisVerif IrisVerif.Stacked IrisVerif.Driver

namespace IrisVerif.Driver.C06

abbrev P := StateT (List String) Option

def word : P String := fun ws => match ws with | w :: r => some (w, r) | [] => none
def nat : P Nat := do let w ← word; match w.toNat? with | some n => pure n | none => failure
def int : P Int := do let w ← word; match w.toInt? with | some n => pure n | none => failure
def rat : P Rat := do let w ← word; match QMat.parseRat? w with | some n => pure n | none => failure
def cellP : P (Option Rat) := do
  let w ← word
  if w = "nan" then pure none else match QMat.parseRat? w with | some n => pure (some n) | none => failure
def expect (s : String) : P Unit := do let w ← word; if w = s then pure () else failure

def rep {α} (n : Nat) (p : P α) : P (List α) := (List.range n).mapM (fun _ => p)

def qmat : P QMat := fun ws => QMat.parse? ws

partial def expr : P Expr := do
  let w ← word
  match w with
  | "c" => do let r ← rat; pure (.const r)
  | "v" => do let q ← nat; let s ← int; pure (.var q s)
  | "n" => do let a ← expr; pure (.neg a)
  | "+" => do let a ← expr; let b ← expr; pure (.add a b)
  | "-" => do let a ← expr; let b ← expr; pure (.sub a b)
  | "*" => do let a ← expr; let b ← expr; pure (.mul a b)
  | "/" => do let a ← expr; let b ← expr; pure (.div a b)
  | "^" => do let n ← nat; let a ← expr; pure (.pow a n)
  | _ => failure

def termSpec : P TermSpec := do
  let maxLead ← nat
  let T ← qmat
  let K ← qmat
  let nTok ← nat
  let toks ← rep nTok (do let q ← nat; let s ← int; pure (q, s))
  let nCurr ← nat
  let curr ← rep nCurr (do let q ← nat; let i ← nat; pure (q, i))
  pure ⟨T, K.toVec, toks, curr, maxLead⟩

def terminal : P Terminal := do
  let w ← word
  match w with
  | "data" => pure .data
  | "ford" => do let s ← termSpec; pure (.firstOrder s)
  | _ => failure

def system : P System := do
  expect "S"
  let nE ← nat
  let eqs ← rep nE expr
  let nEndo ← nat
  let endo ← rep nEndo nat
  let first ← nat
  let simLast ← nat
  let term ← terminal
  pure ⟨eqs, endo, first, simLast, term⟩

def dataP : P Data := do
  expect "D"
  let r ← nat
  let c ← nat
  let cells ← rep (r * c) cellP
  let arr := cells.toArray
  pure (Data.tabulate r c (fun i j => arr.getD (i * c + j) none))

def guessP : P (Option (List Rat)) := do
  expect "G"
  let w ← word
  if w = "none" then pure none else
  match w.toNat? with
  | some n => do let v ← rep n rat; pure (some v)
  | none => failure

def showCell : Option Rat → String
  | none => "nan"
  | some q => QMat.showRat q

def showCells (l : List (Option Rat)) : String := " ".intercalate (l.map showCell)

def showFrame (f : Frame) : String := s!"{f.first}:{f.last}:{f.simLast}"

def showData (d : Data) : String :=
  " ".intercalate ((List.range d.rows).flatMap (fun q => (List.range d.cols).map (fun (c : Nat) => showCell (d.get q (c : Int)))))

/-- a "solver" that only marks what it touched: every regular row over `first … simLast` gets
`100*first + column`; the unanticipated-shock rows are left as the frame sees them (pruned) -/
def markSolve (un : List Nat) (f : Frame) (d : Data) : Data :=
  d.modify (fun q c => if ¬ un.contains q ∧ f.first ≤ c ∧ c ≤ f.simLast then some (some ((100 * f.first + c : Nat) : Rat)) else none)


/-! ### Float instance of the terminator's linear operations (execution only; the theorems are over abstract `log`/`exp`) -/

def fOps (n : Nat) : LinOps (Array (Array Float)) (Array Float) :=
  { mulMM := fun a b => (Array.range n).map (fun i => (Array.range n).map (fun j =>
      (List.range n).foldl (fun acc k => acc + (a.getD i #[]).getD k 0 * (b.getD k #[]).getD j 0) 0)),
    mulMV := fun a v => (Array.range n).map (fun i =>
      (List.range n).foldl (fun acc k => acc + (a.getD i #[]).getD k 0 * v.getD k 0) 0),
    addV := fun a b => (Array.range n).map (fun i => a.getD i 0 + b.getD i 0),
    one := (Array.range n).map (fun i => (Array.range n).map (fun j => if i = j then 1 else 0)),
    zeroV := (Array.range n).map (fun _ => 0) }

def floatP : P Float := do let b ← nat; pure (Float.ofBits (UInt64.ofNat b))

def showOpt {α} (f : α → String) : Option α → String
  | none => "-"
  | some a => f a

def hopP : P HOp := do
  let w ← word
  match w with
  | "a" => do let i ← nat; let q ← nat; let v ← rat; pure (.assign i q v)
  | "c" => do let i ← nat; pure (.copy i)
  | "s" => do let i ← nat; pure (.simulate i)
  | _ => failure

def showObs (o : Option (List (Nat × Option Rat))) : String :=
  match o with
  | none => "-"
  | some l => ",".intercalate (l.map (fun (q, v) => s!"{q}=" ++ showCell v))

def run (p : P String) (ws : List String) : String :=
  match p ws with
  | some (s, []) => s
  | _ => "bad-op"

def stepP : P String := do
  let op ← word
  match op with
  | "spots" => do
    let n ← nat; let endo ← rep n nat; let first ← nat; let simLast ← nat
    pure (" ".intercalate ((wrtSpots endo (columnsToRun first simLast)).map (fun (q, c) => s!"{q}:{c}")))
  | "catch" => do
    let n ← nat; let endo ← rep n nat; let first ← nat; let simLast ← nat; let fb ← rat; let d ← dataP
    let spots := wrtSpots endo (columnsToRun first simLast)
    pure (" ".intercalate ((missingSpots spots d).map (fun (q, c) => s!"{q}:{c}")) ++ " | " ++ showData (catchMissing spots fb d))
  | "iguess" => do
    let w ← word; let ts ← termSpec; let baseFirst ← nat; let n ← nat; let d ← dataP
    let mode := if w = "first_order" then GuessMode.firstOrder else GuessMode.data
    if w ≠ "first_order" ∧ w ≠ "data" then failure
    pure (showData (initialGuess mode ts baseFirst n d))
  | "settings" => do
    let nCalls ← nat
    let calls ← rep nCalls (do
      let w ← word
      if w = "none" then pure none else
      match w.toNat? with
      | some n => do let kv ← rep n (do let k ← word; let v ← word; pure (k, v)); pure (some kv)
      | none => failure)
    pure (" | ".intercalate ((settingsHistory calls).map (fun st => ",".intercalate (st.map (fun (k, v) => k ++ "=" ++ v)))))
  | "method" => do
    let w ← word
    pure (match resolveMethod w with | some m => m.name | none => "KeyError")
  | "pair" => do
    let n ← nat; let nM ← nat; let nD ← nat
    pure (" ".intercalate ((pairVariants n (List.range nM) (List.range nD)).map
      (fun (k, m, d) => s!"{k}:" ++ showOpt toString m ++ ":" ++ showOpt toString d)))
  | "hist" => do
    let nP ← nat; let ps ← rep nP nat
    let nI ← nat; let init ← rep nI (do let q ← nat; let v ← rat; pure (q, v))
    let nO ← nat; let ops ← rep nO hopP
    pure (" | ".intercalate ((runH ps [⟨init.reverse⟩] ops).map showObs))
  | "termlog" => do
    let nR ← nat; let logly ← rep nR nat
    let nT ← nat; let toks ← rep nT (do let q ← nat; let s ← int; pure (q, s))
    let nC ← nat; let curr ← rep nC (do let q ← nat; let i ← nat; pure (q, i))
    let maxLead ← nat; let last ← nat; let n ← nat
    let tf ← rep (n * n) floatP; let kf ← rep n floatP
    let rows ← nat; let cols ← nat; let cells ← rep (rows * cols) floatP
    let ca := cells.toArray; let ta := tf.toArray
    let T : Array (Array Float) := (Array.range n).map (fun i => (Array.range n).map (fun j => ta.getD (i * n + j) 0))
    let isLog : Nat → Bool := fun q => logly.getD q 0 == 1
    let rd : Nat → Int → Float := fun q c =>
      if 0 ≤ c ∧ q < rows ∧ c.toNat < cols then ca.getD (q * cols + c.toNat) (0.0 / 0.0) else 0.0 / 0.0
    let xi0 := (termXiLog Float.log isLog (fun _ => true) rd toks last).toArray
    let out := curr.flatMap (fun (q, i) => (List.range maxLead).map (fun k =>
      let xk := terminalXi (fOps n) T kf.toArray xi0 (k + 1)
      termCellLog Float.exp isLog q (fun j => xk.getD j 0) i))
    pure (" ".intercalate (out.map (fun x => toString x.toBits.toNat)))
  | "finding" => do
    let T ← qmat; let K ← qmat
    let sh : Option (List (Option Rat)) → String := fun o => match o with | some l => showCells l | none => "nan"
    pure (sh (findingFordPath T K.toVec) ++ " | " ++ sh (findingFordResidual T K.toVec) ++ " | " ++
      sh ((findingSys.solveAffine findingData).map (fun l => l.map some)))
  | "resid" => do
    let s ← system; let d ← dataP; let g ← guessP
    pure (showCells (s.evalFunc g d))
  | "frames" => do
    let baseFirst ← nat; let n ← nat; let nU ← nat; let rows ← rep nU nat; let d ← dataP
    let br := breakPoints d rows baseFirst n
    pure (" ".intercalate (br.map showBool) ++ " | " ++
      " ".intercalate ((stackedFrames baseFirst n br).map showFrame) ++ " | " ++
      " ".intercalate ((periodFrames baseFirst n).map showFrame))
  | "writers" => do
    let m ← word; let baseFirst ← nat; let n ← nat; let nU ← nat; let rows ← rep nU nat; let d ← dataP
    let frames := if m = "pp" then periodFrames baseFirst n else stackedFrames baseFirst n (breakPoints d rows baseFirst n)
    pure (showData (runFrames (markSolve rows) rows frames d))
  | "cert" => do
    let s ← system; let d ← dataP; let nG ← nat; let gs ← rep nG qmat
    match s.term with
    | .firstOrder ts =>
      match simulateFlat ts s.first (gs.map QMat.toVec) d with
      | none => pure "nan"
      | some d' =>
        let path := s.spots.map (fun (q, c) => d'.get q c)
        pure (showCells (s.evalFunc none d') ++ " | " ++ showCells path)
    | .data => failure
  | "simlin" => do
    let s ← system; let d ← dataP
    match s.affineParts d with
    | none => pure "nan"
    | some _ =>
      match s.solveAffine d with
      | none => pure "singular"
      | some x => pure (showCells (x.map some))
  | _ => failure

def step (line : String) : String := run stepP (words line)

end IrisVerif.Driver.C06

def main : IO Unit := IrisVerif.Driver.runMain IrisVerif.Driver.C06.step
