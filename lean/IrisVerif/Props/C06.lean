/-
C06 — Nonlinear simulations satisfy the equations; match first order when linear.

Theorems about the model `IrisVerif/Model/Stacked.lean` (stacked-time / period-by-period simulators).
PARTIAL by design: Newton's iteration, the sparse LU solve, convergence and floating point are runtime
and are validated per run by the harness; log-variables are outside the model.
-/
import IrisVerif.Model.Stacked
import IrisVerif.Model.StackedGlue
import IrisVerif.Lemmas.QMatRefines
import Mathlib.Data.Matrix.Mul
import Mathlib.Tactic.Abel
import Mathlib.Tactic.Linarith
import Mathlib.Tactic.NormNum
import Mathlib.Tactic.Ring
import Mathlib.Tactic.FinCases
import Mathlib.LinearAlgebra.Matrix.Notation

namespace IrisVerif.C06

open IrisVerif IrisVerif.Stacked

/-! ## 1. (equation, column) ↔ row of the stacked residual vector is a bijection, for all sizes -/

theorem rowOf_lt {nE nT e k : Nat} (he : e < nE) (hk : k < nT) : rowOf nE e k < nE * nT := by
  unfold rowOf
  calc e + nE * k < nE + nE * k := by omega
    _ = nE * (k + 1) := by rw [Nat.mul_succ]; omega
    _ ≤ nE * nT := Nat.mul_le_mul_left nE hk

theorem unrow_rowOf {nE e k : Nat} (he : e < nE) : unrow nE (rowOf nE e k) = (e, k) := by
  unfold unrow rowOf
  have hpos : 0 < nE := by omega
  rw [Nat.add_mul_mod_self_left, Nat.mod_eq_of_lt he, Nat.add_mul_div_left _ _ hpos, Nat.div_eq_of_lt he]
  simp

theorem rowOf_unrow {nE r : Nat} : rowOf nE (unrow nE r).1 (unrow nE r).2 = r := by
  unfold unrow rowOf
  exact Nat.mod_add_div r nE

theorem unrow_lt {nE nT r : Nat} (hr : r < nE * nT) : (unrow nE r).1 < nE ∧ (unrow nE r).2 < nT := by
  unfold unrow
  have hpos : 0 < nE := by
    rcases Nat.eq_zero_or_pos nE with h | h
    · subst h; simp at hr
    · exact h
  exact ⟨Nat.mod_lt _ hpos, (Nat.div_lt_iff_lt_mul hpos).2 (by rw [Nat.mul_comm]; exact hr)⟩

/-- injective: two (equation, column) pairs never share a row -/
theorem rowOf_injective {nE e k e' k' : Nat} (he : e < nE) (he' : e' < nE)
    (h : rowOf nE e k = rowOf nE e' k') : e = e' ∧ k = k' := by
  have h1 := unrow_rowOf (k := k) he
  have h2 := unrow_rowOf (k := k') he'
  rw [h, h2] at h1
  exact ⟨(Prod.mk.inj h1).1.symm, (Prod.mk.inj h1).2.symm⟩

/-- surjective: every row of the `nE * nT` vector is the row of some (equation, column) -/
theorem rowOf_surjective {nE nT r : Nat} (hr : r < nE * nT) :
    ∃ e k, e < nE ∧ k < nT ∧ rowOf nE e k = r :=
  ⟨(unrow nE r).1, (unrow nE r).2, (unrow_lt hr).1, (unrow_lt hr).2, rowOf_unrow⟩

/-! ## 2. the entry of row (e, k) IS equation e evaluated at the k-th column -/

theorem stackedResidual_length (eqs : List Expr) (cols : List Nat) (d : Data) :
    (stackedResidual eqs cols d).length = eqs.length * cols.length := by
  simp [stackedResidual, flattenF]

theorem stackedResidual_entry (eqs : List Expr) (cols : List Nat) (d : Data) {e k : Nat}
    (he : e < eqs.length) (hk : k < cols.length) :
    (stackedResidual eqs cols d)[rowOf eqs.length e k]? = some ((eqs[e]).eval d (cols[k])) := by
  have hr := rowOf_lt he hk
  have hu := unrow_rowOf (k := k) he
  unfold unrow at hu
  simp only [stackedResidual, flattenF, equatorEval]
  rw [List.getElem?_map, List.getElem?_range hr]
  simp only [Option.map_some, (Prod.mk.inj hu).1, (Prod.mk.inj hu).2]
  simp [List.getD_eq_getElem?_getD, he, hk]

/-- every entry of the stacked vector is some equation at some simulated column (nothing else is in it) -/
theorem stackedResidual_entry_inv (eqs : List Expr) (cols : List Nat) (d : Data) {r : Nat}
    (hr : r < eqs.length * cols.length) :
    ∃ e k, ∃ (he : e < eqs.length) (hk : k < cols.length),
      (stackedResidual eqs cols d)[r]? = some ((eqs[e]).eval d (cols[k])) := by
  obtain ⟨e, k, he, hk, h⟩ := rowOf_surjective hr
  exact ⟨e, k, he, hk, h ▸ stackedResidual_entry eqs cols d he hk⟩

/-! ## 3. `‖F‖_∞ < tol` at exit ⇒ every transition equation holds to `tol` in every simulated period -/

theorem absR_nonneg (x : Rat) : 0 ≤ absR x := by
  unfold absR; split <;> linarith

theorem normInf_bound : ∀ (v : List (Option Rat)) (m : Rat), normInf v = some m →
    ∀ x ∈ v, ∃ r, x = some r ∧ absR r ≤ m
  | [], _, _, x, hx => by simp at hx
  | none :: _, _, h, _, _ => by simp [normInf] at h
  | some y :: rest, m, h, x, hx => by
    simp only [normInf, Option.map_eq_some_iff] at h
    obtain ⟨m', hm', hm⟩ := h
    have ih := normInf_bound rest m' hm'
    rcases List.mem_cons.1 hx with hx | hx
    · refine ⟨y, hx, ?_⟩
      rw [← hm]; split <;> linarith
    · obtain ⟨r, hr, hb⟩ := ih x hx
      refine ⟨r, hr, ?_⟩
      rw [← hm]; split <;> linarith

/-- The norm the solver reports bounds the residual of EVERY equation at EVERY simulated column. -/
theorem residual_small_all_equations (eqs : List Expr) (cols : List Nat) (d : Data) (m tol : Rat)
    (hn : normInf (stackedResidual eqs cols d) = some m) (hm : m < tol)
    {e k : Nat} (he : e < eqs.length) (hk : k < cols.length) :
    ∃ r, (eqs[e]).eval d (cols[k]) = some r ∧ absR r < tol := by
  have hmem : (eqs[e]).eval d (cols[k]) ∈ stackedResidual eqs cols d :=
    List.mem_of_getElem? (stackedResidual_entry eqs cols d he hk)
  obtain ⟨r, hr, hb⟩ := normInf_bound _ _ hn _ hmem
  exact ⟨r, hr, lt_of_le_of_lt hb hm⟩

/-- for a frame's system: success of the solver's test on `eval_func(guess)` means every equation holds to
`tol` at every column `first … simLast` on the candidate array -/
theorem System.success_all_equations (s : System) (g : Option (List Rat)) (d : Data) (m tol : Rat)
    (hn : normInf (s.evalFunc g d) = some m) (hm : m < tol)
    {e k : Nat} (he : e < s.eqs.length) (hk : k < s.cols.length) :
    ∃ r, (s.eqs[e]).eval (s.candidate g d) (s.cols[k]) = some r ∧ absR r < tol :=
  residual_small_all_equations s.eqs s.cols (s.candidate g d) m tol hn hm he hk

/-- the columns to run are exactly `first, first+1, …, simLast` -/
theorem columnsToRun_getElem (first simLast k : Nat) (hk : k < (columnsToRun first simLast).length) :
    (columnsToRun first simLast)[k] = first + k := by
  simp [columnsToRun]

theorem columnsToRun_length (first simLast : Nat) :
    (columnsToRun first simLast).length = simLast + 1 - first := by
  simp [columnsToRun]

theorem mem_columnsToRun (first simLast c : Nat) :
    c ∈ columnsToRun first simLast ↔ first ≤ c ∧ c ≤ simLast := by
  simp [columnsToRun, List.mem_range'_1]; omega

/-! ## 4. what the candidate array holds: guess at the unknown cells, input elsewhere -/

/-- an equation reads only the cells of its incidence -/
theorem evalWith_congr (rd rd' : Nat → Int → Option Rat) (t : Int) :
    ∀ (e : Expr), (∀ q s, (q, s) ∈ e.tokens → rd q (t + s) = rd' q (t + s)) →
      e.evalWith rd t = e.evalWith rd' t
  | .const _, _ => rfl
  | .var q s, h => by simpa [Expr.evalWith] using h q s (by simp [Expr.tokens])
  | .neg a, h => by
    simp only [Expr.evalWith]; rw [evalWith_congr rd rd' t a (fun q s hm => h q s (by simpa [Expr.tokens] using hm))]
  | .add a b, h => by
    simp only [Expr.evalWith]
    rw [evalWith_congr rd rd' t a (fun q s hm => h q s (by simp [Expr.tokens, hm])),
        evalWith_congr rd rd' t b (fun q s hm => h q s (by simp [Expr.tokens, hm]))]
  | .sub a b, h => by
    simp only [Expr.evalWith]
    rw [evalWith_congr rd rd' t a (fun q s hm => h q s (by simp [Expr.tokens, hm])),
        evalWith_congr rd rd' t b (fun q s hm => h q s (by simp [Expr.tokens, hm]))]
  | .mul a b, h => by
    simp only [Expr.evalWith]
    rw [evalWith_congr rd rd' t a (fun q s hm => h q s (by simp [Expr.tokens, hm])),
        evalWith_congr rd rd' t b (fun q s hm => h q s (by simp [Expr.tokens, hm]))]
  | .div a b, h => by
    simp only [Expr.evalWith]
    rw [evalWith_congr rd rd' t a (fun q s hm => h q s (by simp [Expr.tokens, hm])),
        evalWith_congr rd rd' t b (fun q s hm => h q s (by simp [Expr.tokens, hm]))]
  | .pow a n, h => by
    simp only [Expr.evalWith]; rw [evalWith_congr rd rd' t a (fun q s hm => h q s (by simpa [Expr.tokens] using hm))]

/-- two data arrays that agree on the incidence of an equation at column `t` give the same residual -/
theorem eval_congr (e : Expr) (d d' : Data) (t : Nat)
    (h : ∀ q s, (q, s) ∈ e.tokens → d.get q ((t : Int) + s) = d'.get q ((t : Int) + s)) :
    e.eval d t = e.eval d' t :=
  evalWith_congr d.get d'.get t e h

theorem Data.get_tabulate {r c : Nat} {f : Nat → Nat → Option Rat} {q t : Nat} (hq : q < r) (ht : t < c) :
    (Data.tabulate r c f).get q (t : Int) = f q t := by
  simp [Data.get, Data.tabulate, hq, ht]

theorem Data.get_tabulate_out {r c : Nat} {f : Nat → Nat → Option Rat} {q : Nat} {t : Int}
    (h : ¬ (0 ≤ t ∧ q < r ∧ t.toNat < c)) : (Data.tabulate r c f).get q t = none := by
  unfold Data.get
  split
  · rename_i h'; exact absurd h' h
  · rfl

theorem Data.get_out (d : Data) {q : Nat} {t : Int} (h : ¬ (0 ≤ t ∧ q < d.rows ∧ t.toNat < d.cols)) :
    d.get q t = none := by
  unfold Data.get
  split
  · rename_i h'; exact absurd h' h
  · rfl

/-- `modify` changes exactly the selected in-range cells -/
theorem Data.get_modify (d : Data) (v : Nat → Nat → Option (Option Rat)) (q t : Nat)
    (hq : q < d.rows) (ht : t < d.cols) :
    (d.modify v).get q (t : Int) = (v q t).getD (d.get q (t : Int)) := by
  unfold Data.modify
  rw [Data.get_tabulate hq ht]

theorem Data.modify_rows (d : Data) (v) : (d.modify v).rows = d.rows := rfl
theorem Data.modify_cols (d : Data) (v) : (d.modify v).cols = d.cols := rfl

/-- outside the array nothing is readable, before and after `modify` -/
theorem Data.get_modify_out (d : Data) (v : Nat → Nat → Option (Option Rat)) {q : Nat} {t : Int}
    (h : ¬ (0 ≤ t ∧ q < d.rows ∧ t.toNat < d.cols)) : (d.modify v).get q t = d.get q t := by
  rw [Data.get_out d h]; exact Data.get_tabulate_out h

theorem mem_wrtSpots (endo cols : List Nat) (q c : Nat) :
    (q, c) ∈ wrtSpots endo cols ↔ c ∈ cols ∧ q ∈ endo := by
  simp [wrtSpots, List.mem_flatMap]

/-- the unknown cells of a frame's system: the endogenous rows over `first … simLast` -/
theorem System.mem_spots (s : System) (q c : Nat) :
    (q, c) ∈ s.spots ↔ q ∈ s.endo ∧ s.first ≤ c ∧ c ≤ s.simLast := by
  unfold System.spots System.cols
  rw [mem_wrtSpots, mem_columnsToRun]; tauto

theorem update_rows (spots g d) : (update spots g d).rows = d.rows := rfl
theorem update_cols (spots g d) : (update spots g d).cols = d.cols := rfl

/-- `update` leaves every cell that is not an unknown exactly as it came in
(initial conditions, shocks, exogenous variables, parameters, measurement variables, terminal columns) -/
theorem update_get_other (spots : List (Nat × Nat)) (g : List Rat) (d : Data) (q : Nat) (t : Int)
    (h : ∀ c : Nat, t = (c : Int) → (q, c) ∉ spots) : (update spots g d).get q t = d.get q t := by
  by_cases hin : 0 ≤ t ∧ q < d.rows ∧ t.toNat < d.cols
  · obtain ⟨h0, hq, ht⟩ := hin
    obtain ⟨c, rfl⟩ := Int.eq_ofNat_of_zero_le h0
    simp only [Int.toNat_natCast] at ht
    unfold update
    rw [Data.get_modify _ _ _ _ hq ht]
    have : ¬ (List.idxOf (q, c) spots < spots.length) := by
      rw [List.idxOf_lt_length_iff]; exact h c rfl
    simp [this]
  · exact Data.get_modify_out d _ hin

/-- `update` puts the `i`-th entry of the guess into the `i`-th unknown cell -/
theorem update_get_spot (spots : List (Nat × Nat)) (g : List Rat) (d : Data) (hnd : spots.Nodup)
    (i : Nat) (hi : i < spots.length) (hq : (spots[i]).1 < d.rows) (ht : (spots[i]).2 < d.cols) :
    (update spots g d).get (spots[i]).1 (((spots[i]).2 : Nat) : Int) = g[i]? := by
  unfold update
  rw [Data.get_modify _ _ _ _ hq ht]
  have : List.idxOf ((spots[i]).1, (spots[i]).2) spots = i := hnd.idxOf_getElem i hi
  simp [this, hi]

/-- `_catch_missing` never touches a cell that is not solved for: a missing measurement variable, exogenous value,
initial or terminal condition stays missing (and a present one stays as it is) -/
theorem catchMissing_get_other (spots : List (Nat × Nat)) (fb : Rat) (d : Data) (q : Nat) (t : Int)
    (h : ∀ c : Nat, t = (c : Int) → (q, c) ∉ spots) : (catchMissing spots fb d).get q t = d.get q t := by
  by_cases hin : 0 ≤ t ∧ q < d.rows ∧ t.toNat < d.cols
  · obtain ⟨h0, hq, ht⟩ := hin
    obtain ⟨c, rfl⟩ := Int.eq_ofNat_of_zero_le h0
    simp only [Int.toNat_natCast] at ht
    unfold catchMissing
    rw [Data.get_modify _ _ _ _ hq ht]
    simp [h c rfl]
  · exact Data.get_modify_out d _ hin

/-- … a finite value at an unknown cell is kept, a missing one becomes the fallback value -/
theorem catchMissing_get_spot (spots : List (Nat × Nat)) (fb : Rat) (d : Data) (q c : Nat)
    (hq : q < d.rows) (hc : c < d.cols) (hs : (q, c) ∈ spots) :
    (catchMissing spots fb d).get q (c : Int) = some ((d.get q (c : Int)).getD fb) := by
  unfold catchMissing
  rw [Data.get_modify _ _ _ _ hq hc]
  cases hv : d.get q (c : Int) <;> simp [hs]

/-- after `_catch_missing` no unknown cell inside the array is missing -/
theorem catchMissing_spots_finite (spots : List (Nat × Nat)) (fb : Rat) (d : Data) (q c : Nat)
    (hq : q < d.rows) (hc : c < d.cols) (hs : (q, c) ∈ spots) :
    (catchMissing spots fb d).get q (c : Int) ≠ none := by
  rw [catchMissing_get_spot spots fb d q c hq hc hs]; simp

theorem wrtSpots_nodup (endo cols : List Nat) (he : endo.Nodup) (hc : cols.Nodup) :
    (wrtSpots endo cols).Nodup := by
  unfold wrtSpots
  induction cols with
  | nil => simp
  | cons c cs ih =>
    rw [List.nodup_cons] at hc
    simp only [List.flatMap_cons]
    rw [List.nodup_append]
    refine ⟨?_, ih hc.2, ?_⟩
    · exact (List.nodup_map_iff (fun a b h => (Prod.mk.inj h).1)).2 he
    · intro a ha b hb
      simp only [List.mem_map] at ha
      obtain ⟨q, _, rfl⟩ := ha
      simp only [List.mem_flatMap, List.mem_map] at hb
      obtain ⟨c', hc', q', _, rfl⟩ := hb
      intro heq
      exact hc.1 ((Prod.mk.inj heq).2 ▸ hc')

theorem System.spots_nodup (s : System) (he : s.endo.Nodup) : s.spots.Nodup :=
  wrtSpots_nodup _ _ he (List.nodup_range' (step := 1))

/-! ### the terminal condition touches only the terminal columns -/

theorem terminate_get_other (ts : TermSpec) (lastSim : Nat) (d : Data) (q : Nat) (t : Int)
    (h : t ≤ (lastSim : Int)) : (terminate ts lastSim d).get q t = d.get q t := by
  by_cases hin : 0 ≤ t ∧ q < d.rows ∧ t.toNat < d.cols
  · obtain ⟨h0, hq, ht⟩ := hin
    obtain ⟨c, rfl⟩ := Int.eq_ofNat_of_zero_le h0
    simp only [Int.toNat_natCast] at ht
    unfold terminate
    simp only []
    rw [Data.get_modify _ _ _ _ hq ht]
    have : ¬ (lastSim < c ∧ c ≤ lastSim + ts.maxLead) := by omega
    simp [this]
  · exact Data.get_modify_out d _ hin

theorem applyTerminal_get_other (term : Terminal) (lastSim : Nat) (d : Data) (q : Nat) (t : Int)
    (h : t ≤ (lastSim : Int)) : (applyTerminal term lastSim d).get q t = d.get q t := by
  cases term with
  | data => rfl
  | firstOrder ts => exact terminate_get_other ts lastSim d q t h

/-- the terminal cell `(q, lastSim + k)` of a current-dated transition variable holds row `i` of
`cum_T^k @ xi + cum_K^k`, `xi` read from the array at the last simulated column -/
theorem terminate_get_terminal (ts : TermSpec) (lastSim : Nat) (d : Data) (q i k : Nat)
    (hk : 1 ≤ k ∧ k ≤ ts.maxLead) (hq : q < d.rows) (ht : lastSim + k < d.cols)
    (hfind : ts.curr.find? (fun qi => qi.1 == q) = some (q, i)) :
    (terminate ts lastSim d).get q ((lastSim + k : Nat) : Int) =
      (initXi ts.xiTokens d (lastSim + 1)).map
        (fun x0 => (terminalXi (qOps ts.xiTokens.length) ts.T ts.K x0 k).getD i 0) := by
  unfold terminate
  simp only []
  rw [Data.get_modify _ _ _ _ hq ht]
  have h1 : lastSim < lastSim + k ∧ lastSim + k ≤ lastSim + ts.maxLead := by omega
  simp [h1, hfind]

/-- **What the equations are evaluated on.** In the candidate array of a frame's system, an unknown cell
holds the guess; every other cell up to the last simulated column holds the input data unchanged
(initial conditions, shocks, exogenous data, parameters); with `terminal = data` the same is true of the
columns beyond the frame (the terminal values in force are the input data). -/
theorem System.candidate_get_input (s : System) (g : List Rat) (d : Data) (q : Nat) (t : Int)
    (hns : ∀ c : Nat, t = (c : Int) → (q, c) ∉ s.spots)
    (hterm : t ≤ (s.simLast : Int) ∨ s.term = .data) :
    (s.candidate (some g) d).get q t = d.get q t := by
  unfold System.candidate
  simp only []
  rcases hterm with h | h
  · rw [applyTerminal_get_other _ _ _ _ _ h]; exact update_get_other _ _ _ _ _ hns
  · rw [h]; exact update_get_other _ _ _ _ _ hns

theorem System.candidate_get_spot (s : System) (g : List Rat) (d : Data) (he : s.endo.Nodup)
    (i : Nat) (hi : i < s.spots.length) (hq : (s.spots[i]).1 < d.rows) (ht : (s.spots[i]).2 < d.cols) :
    (s.candidate (some g) d).get (s.spots[i]).1 (((s.spots[i]).2 : Nat) : Int) = g[i]? := by
  unfold System.candidate
  simp only []
  have hmem : ((s.spots[i]).1, (s.spots[i]).2) ∈ s.spots := List.getElem_mem hi
  have hle : (s.spots[i]).2 ≤ s.simLast := ((System.mem_spots s _ _).1 hmem).2.2
  rw [applyTerminal_get_other _ _ _ _ _ (by exact_mod_cast hle)]
  exact update_get_spot _ _ _ (System.spots_nodup s he) i hi hq ht

/-! ## 5. the first-order terminal formula is the first-order recursion (any commutative ring) -/

section Terminal
open Matrix
variable {n : Type} [Fintype n] [DecidableEq n] {K : Type} [CommRing K]

/-- the operations of the terminator, read over Mathlib matrices -/
def matOps : LinOps (Matrix n n K) (n → K) :=
  { mulMM := (· * ·), mulMV := Matrix.mulVec, addV := (· + ·), one := 1, zeroV := 0 }

/-- before the first terminal column the "continuation" is the state itself -/
theorem terminalXi_zero (T : Matrix n n K) (Kc x : n → K) : terminalXi matOps T Kc x 0 = x := by
  simp [terminalXi, cumT, cumK, matOps]

/-- terminal column `k+1` is one step `xi ↦ T xi + K` of the first-order recursion from terminal column `k`:
the values written by `terminate_simulation` are the first-order simulation (no shocks) of the last state -/
theorem terminalXi_succ (T : Matrix n n K) (Kc x : n → K) (k : Nat) :
    terminalXi matOps T Kc x (k + 1) = T *ᵥ terminalXi matOps T Kc x k + Kc := by
  simp only [terminalXi, cumT, cumK, matOps, Matrix.mulVec_add, ← Matrix.mulVec_mulVec]
  abel

/-- … and therefore equal to `simulate_flat`'s recursion with zero impacts -/
theorem terminalXi_eq_fordStep (T : Matrix n n K) (Kc x : n → K) (k : Nat) :
    terminalXi matOps T Kc x (k + 1) = fordStep matOps T Kc 0 (terminalXi matOps T Kc x k) := by
  rw [terminalXi_succ]; simp [fordStep, matOps]

end Terminal

/-! ## 6. frames tile the base span; the last writer of a period is the frame that owns it -/

/-- the columns of a frame's own slice `first … last` -/
def sliceOf (p : Nat × Nat) : List Nat := List.range' p.1 (p.2 + 1 - p.1)

theorem framesFrom_tile : ∀ (ps : List Nat) (p e : Nat), (p :: ps).Pairwise (· < ·) → (∀ x ∈ p :: ps, x < e) →
    (framesFrom (p :: ps) e).flatMap sliceOf = List.range' p (e - p)
  | [], p, e, _, hb => by
    have : p < e := hb p (by simp)
    simp only [framesFrom, List.flatMap_cons, List.flatMap_nil, List.append_nil, sliceOf]
    congr 1; omega
  | q :: rest, p, e, hs, hb => by
    have hpq : p < q := (List.pairwise_cons.1 hs).1 q (by simp)
    have hqe : q < e := hb q (by simp)
    have ih := framesFrom_tile rest q e (List.pairwise_cons.1 hs).2 (fun x hx => hb x (List.mem_cons_of_mem _ hx))
    simp only [framesFrom, List.flatMap_cons, sliceOf]
    rw [ih]
    have h1 : q - 1 + 1 - p = q - p := by omega
    have key := List.range'_append_1 (s := p) (m := q - p) (n := e - q)
    rw [show p + (q - p) = q by omega, show q - p + (e - q) = e - p by omega] at key
    rw [h1]
    exact key

theorem breakPositions_sorted (breaks : List Bool) : (breakPositions breaks).Pairwise (· < ·) :=
  List.Pairwise.filter _ List.pairwise_lt_range

theorem breakPositions_lt (breaks : List Bool) : ∀ x ∈ breakPositions breaks, x < breaks.length := by
  intro x hx
  simp only [breakPositions, List.mem_filter, List.mem_range] at hx
  exact hx.1

theorem breakPositions_cons_true (rest : List Bool) :
    breakPositions (true :: rest) = 0 :: (breakPositions rest).map (· + 1) := by
  simp only [breakPositions, List.length_cons, List.range_succ_eq_map, List.filter_cons, List.filter_map]
  simp [Function.comp_def]

/-- **Frames tile the span.** Whatever the pattern of break points (its first entry is always `true` in the
code), the frames' own slices, concatenated in order, are exactly the base columns: no period is
simulated by no frame, none is owned by two. -/
theorem splitFrames_tile (baseFirst : Nat) (rest : List Bool) (simEnd : Nat → Nat → Nat) :
    (splitFrames baseFirst (rest.length + 1) (true :: rest) simEnd).flatMap
        (fun f => List.range' f.first (f.last + 1 - f.first))
      = List.range' baseFirst (rest.length + 1) := by
  unfold splitFrames
  rw [breakPositions_cons_true]
  simp only [List.map_cons, Nat.zero_add, List.flatMap_map]
  have hs : ((baseFirst :: ((breakPositions rest).map (· + 1)).map (· + baseFirst))).Pairwise (· < ·) := by
    have := (breakPositions_sorted (true :: rest))
    rw [breakPositions_cons_true] at this
    have h2 := this.map (f := (· + baseFirst)) (S := (· < ·)) (fun a b h => by simpa using h)
    simpa using h2
  have hb : ∀ x ∈ (baseFirst :: ((breakPositions rest).map (· + 1)).map (· + baseFirst)), x < baseFirst + (rest.length + 1) := by
    intro x hx
    rcases List.mem_cons.1 hx with rfl | hx
    · omega
    · simp only [List.mem_map] at hx
      obtain ⟨y, ⟨z, hz, rfl⟩, rfl⟩ := hx
      have := breakPositions_lt rest z hz
      omega
  have := framesFrom_tile _ baseFirst (baseFirst + (rest.length + 1)) hs hb
  rw [show baseFirst + (rest.length + 1) - baseFirst = rest.length + 1 by omega] at this
  exact this

/-- the break points computed by the model always start a frame in the first base period -/
theorem breakPoints_head (d : Data) (un : List Nat) (baseFirst n : Nat) :
    ∃ rest, breakPoints d un baseFirst (n + 1) = true :: rest ∧ rest.length = n := by
  refine ⟨((breakPoints d un baseFirst (n + 1)).tail), ?_, by simp [breakPoints]⟩
  simp [breakPoints, List.range_succ_eq_map]

/-- stacked time: every frame is simulated to the end of the base span -/
theorem stackedFrames_simLast (baseFirst n : Nat) (breaks : List Bool) :
    ∀ f ∈ stackedFrames baseFirst n breaks, f.simLast = baseFirst + n - 1 := by
  intro f hf
  simp only [stackedFrames, splitFrames, List.mem_map] at hf
  obtain ⟨p, _, rfl⟩ := hf
  rfl

theorem framesFrom_range' : ∀ (n s : Nat), framesFrom (List.range' s n) (s + n) = (List.range' s n).map (fun p => (p, p))
  | 0, s => by simp [framesFrom]
  | 1, s => by simp [framesFrom, List.range']
  | n + 2, s => by
    have ih := framesFrom_range' (n + 1) (s + 1)
    simp only [List.range'_succ] at ih ⊢
    simp only [framesFrom, List.map_cons]
    rw [show s + (n + 2) = s + 1 + (n + 1) by omega, ih]
    simp

/-- **Period by period**: the frames are exactly the single base periods, each simulated over itself only. -/
theorem periodFrames_eq (baseFirst n : Nat) :
    periodFrames baseFirst n = (List.range' baseFirst n).map (fun c => ⟨c, c, c⟩) := by
  unfold periodFrames splitFrames
  have h1 : breakPositions (List.replicate n true) = List.range n := by
    unfold breakPositions
    rw [List.length_replicate, List.filter_eq_self]
    intro a ha
    simp only [List.mem_range] at ha
    simp [List.getD_eq_getElem?_getD, ha]
  have h2 : (List.range n).map (· + baseFirst) = List.range' baseFirst n := by
    rw [List.range'_eq_map_range]; apply List.map_congr_left; intro a _; omega
  rw [h1, h2, framesFrom_range']
  simp

/-! ### the frame loop -/

theorem writeBack_rows (f un m fr) : (writeBack f un m fr).rows = m.rows := rfl
theorem writeBack_cols (f un m fr) : (writeBack f un m fr).cols = m.cols := rfl

theorem runFrames_rows (solve un) : ∀ (fs : List Frame) (m : Data), (runFrames solve un fs m).rows = m.rows
  | [], _ => rfl
  | f :: fs, m => by
    simp only [runFrames, List.foldl_cons]
    exact (runFrames_rows solve un fs _).trans rfl

theorem runFrames_cols (solve un) : ∀ (fs : List Frame) (m : Data), (runFrames solve un fs m).cols = m.cols
  | [], _ => rfl
  | f :: fs, m => by
    simp only [runFrames, List.foldl_cons]
    exact (runFrames_cols solve un fs _).trans rfl

/-- a frame writes its own result into its own slice (regular rows) -/
theorem writeBack_get_own (f : Frame) (un : List Nat) (m fr : Data) (q c : Nat) (hq : q < m.rows) (hc : c < m.cols)
    (hreg : q ∉ un) (hin : f.first ≤ c ∧ c ≤ f.last) :
    (writeBack f un m fr).get q (c : Int) = fr.get q (c : Int) := by
  unfold writeBack
  rw [Data.get_modify _ _ _ _ hq hc]
  simp [hreg, hin]

/-- a frame whose slice starts after column `c` leaves column `c` of the main array alone (all rows) -/
theorem writeBack_get_before (f : Frame) (un : List Nat) (m fr : Data) (q c : Nat) (hq : q < m.rows) (hc : c < m.cols)
    (hlt : c < f.first) : (writeBack f un m fr).get q (c : Int) = m.get q (c : Int) := by
  unfold writeBack
  rw [Data.get_modify _ _ _ _ hq hc]
  have h1 : ¬ c = f.first := by omega
  have h2 : ¬ (f.first ≤ c ∧ c ≤ f.last) := by omega
  by_cases hu : un.contains q <;> simp [h1, h2]

theorem runFrames_get_before (solve : Frame → Data → Data) (un : List Nat) (q c : Nat) :
    ∀ (fs : List Frame) (m : Data), q < m.rows → c < m.cols → (∀ f ∈ fs, c < f.first) →
      (runFrames solve un fs m).get q (c : Int) = m.get q (c : Int)
  | [], _, _, _, _ => rfl
  | f :: fs, m, hq, hc, h => by
    simp only [runFrames, List.foldl_cons]
    have := runFrames_get_before solve un q c fs (writeBack f un m (solve f (prune f un m))) hq hc
      (fun g hg => h g (List.mem_cons_of_mem _ hg))
    simp only [runFrames] at this
    rw [this]
    exact writeBack_get_before f un m _ q c hq hc (h f (by simp))

/-- **Last writer = the frame the code intends.** Run the loop of `Inlay.simulate` over frames whose slices are
in increasing order. For a column `c` in the slice of frame `f`, a regular row of the final main array
holds what `simulate_frame` computed for `f` (from the main array as it stood when `f` started, pruned);
no later frame overwrites it. -/
theorem runFrames_owner (solve : Frame → Data → Data) (un : List Nat) (pre post : List Frame) (f : Frame)
    (main : Data) (q c : Nat) (hq : q < main.rows) (hc : c < main.cols) (hreg : q ∉ un)
    (hin : f.first ≤ c ∧ c ≤ f.last) (hpost : ∀ g ∈ post, f.last < g.first) :
    (runFrames solve un (pre ++ f :: post) main).get q (c : Int) =
      (solve f (prune f un (runFrames solve un pre main))).get q (c : Int) := by
  have hsplit : runFrames solve un (pre ++ f :: post) main =
      runFrames solve un post (writeBack f un (runFrames solve un pre main)
        (solve f (prune f un (runFrames solve un pre main)))) := by
    simp [runFrames, List.foldl_append]
  rw [hsplit]
  have hq' : q < (runFrames solve un pre main).rows := by rw [runFrames_rows]; exact hq
  have hc' : c < (runFrames solve un pre main).cols := by rw [runFrames_cols]; exact hc
  have key := runFrames_get_before solve un q c post
    (writeBack f un (runFrames solve un pre main) (solve f (prune f un (runFrames solve un pre main))))
    hq' hc' (fun g hg => lt_of_le_of_lt hin.2 (hpost g hg))
  rw [key]
  exact writeBack_get_own f un _ _ q c hq' hc' hreg hin

/-- pruning hides from a frame the unanticipated shocks after its first column, and nothing else -/
theorem prune_get (f : Frame) (un : List Nat) (d : Data) (q c : Nat) (hq : q < d.rows) (hc : c < d.cols) :
    (prune f un d).get q (c : Int) =
      if f.first ≠ f.simLast ∧ q ∈ un ∧ f.first + 1 ≤ c then some 0 else d.get q (c : Int) := by
  unfold prune
  by_cases h : f.first = f.simLast
  · simp [h]
  · rw [if_neg h, Data.get_modify _ _ _ _ hq hc]
    by_cases h2 : q ∈ un ∧ f.first + 1 ≤ c
    · simp [h, h2]
    · have : ¬ (un.contains q = true ∧ f.first + 1 ≤ c) := by simpa using h2
      simp only [this, if_false, Option.getD_none]
      rw [if_neg]; tauto

/-! ## 7. linear models: the first-order path is THE zero of the stacked system -/

section Linear
open Matrix

/-- uniqueness of the zero of an affine map with injective linear part -/
theorem affine_zero_unique {m n : Nat} (J : Matrix (Fin m) (Fin n) ℚ) (c : Fin m → ℚ)
    (hinj : Function.Injective J.mulVec) (x y : Fin n → ℚ)
    (hx : J *ᵥ x + c = 0) (hy : J *ᵥ y + c = 0) : x = y := by
  apply hinj
  have : J *ᵥ x + c = J *ᵥ y + c := hx.trans hy.symm
  exact add_right_cancel this

/-- approximate zeros: with a left inverse `L` of the stacked Jacobian, the distance between two candidate
paths is `L` applied to the difference of their residual vectors -/
theorem affine_error_identity {m n : Nat} (J : Matrix (Fin m) (Fin n) ℚ) (L : Matrix (Fin n) (Fin m) ℚ)
    (c : Fin m → ℚ) (hL : L * J = 1) (x y : Fin n → ℚ) :
    x - y = L *ᵥ ((J *ᵥ x + c) - (J *ᵥ y + c)) := by
  have : (J *ᵥ x + c) - (J *ᵥ y + c) = J *ᵥ (x - y) := by rw [Matrix.mulVec_sub]; abel
  rw [this, Matrix.mulVec_mulVec, hL, Matrix.one_mulVec]

theorem ofFn_map_some_eq_replicate {m : Nat} (v : Fin m → ℚ)
    (h : (List.ofFn v).map some = List.replicate m (some (0 : ℚ))) : v = 0 := by
  funext i
  have := congrArg (fun l => l[i.val]?) h
  simp [i.isLt] at this
  simpa using this

/-- **Linear model: stacked time coincides with first order.** Let the stacked system of a frame be affine in
the guess (`haff`: linear model; `J` is the stacked Jacobian including the terminal-condition correction) with
`J` non-singular (`hinj`). If the first-order path `xF` passes the equation-residual certificate — it zeroes
every stacked equation when the columns beyond the frame are its own first-order continuation, which is what
`evalFunc` with the first-order terminal computes — then every exact zero `x` of the stacked system, in
particular the limit of Newton's iteration, IS the first-order path. -/
theorem firstOrder_is_unique_zero (s : System) (d : Data) {m : Nat} (J : Matrix (Fin m) (Fin s.spots.length) ℚ)
    (c : Fin m → ℚ)
    (haff : ∀ x : Fin s.spots.length → ℚ, s.evalFunc (some (List.ofFn x)) d = (List.ofFn (J *ᵥ x + c)).map some)
    (hinj : Function.Injective J.mulVec)
    (xF x : Fin s.spots.length → ℚ)
    (hcert : s.evalFunc (some (List.ofFn xF)) d = List.replicate m (some 0))
    (hzero : s.evalFunc (some (List.ofFn x)) d = List.replicate m (some 0)) : x = xF := by
  have h1 := ofFn_map_some_eq_replicate _ ((haff xF).symm.trans hcert)
  have h2 := ofFn_map_some_eq_replicate _ ((haff x).symm.trans hzero)
  exact affine_zero_unique J c hinj x xF h2 h1

/-- the quantitative version for the solver's approximate zero: the gap to the first-order path is the left
inverse of the Jacobian applied to the gap between the two residual vectors (each below tolerance) -/
theorem firstOrder_gap (s : System) (d : Data) {m : Nat} (J : Matrix (Fin m) (Fin s.spots.length) ℚ)
    (L : Matrix (Fin s.spots.length) (Fin m) ℚ) (c : Fin m → ℚ) (hL : L * J = 1)
    (haff : ∀ x : Fin s.spots.length → ℚ, s.evalFunc (some (List.ofFn x)) d = (List.ofFn (J *ᵥ x + c)).map some)
    (xF x : Fin s.spots.length → ℚ) (rF r : Fin m → ℚ)
    (hF : s.evalFunc (some (List.ofFn xF)) d = (List.ofFn rF).map some)
    (hx : s.evalFunc (some (List.ofFn x)) d = (List.ofFn r).map some) : x - xF = L *ᵥ (r - rF) := by
  have e1 : J *ᵥ xF + c = rF := by
    have := (haff xF).symm.trans hF
    exact List.ofFn_injective ((List.map_injective_iff.2 (Option.some_injective _)) this)
  have e2 : J *ᵥ x + c = r := by
    have := (haff x).symm.trans hx
    exact List.ofFn_injective ((List.map_injective_iff.2 (Option.some_injective _)) this)
  rw [← e1, ← e2]
  exact affine_error_identity J L c hL x xF

end Linear

/-! ## 8. non-vacuity: the hypotheses above are met by a concrete, non-trivial system

`x_t - x_{t-1}/2 = 0` over two columns with `x_0 = 1` given (one lag, data terminal). -/

namespace Ex
open Matrix

def exEq : Expr := .sub (.var 0 0) (.mul (.const (1/2)) (.var 0 (-1)))
def exData : Data := Data.tabulate 1 4 (fun _ c => if c = 0 then some 1 else if c = 3 then some 0 else none)
def exSys : System := ⟨[exEq], [0], 1, 2, .data⟩

theorem exSys_spots : exSys.spots = [(0,1),(0,2)] := by decide

theorem ex_eval (a b : ℚ) : exSys.evalFunc (some [a, b]) exData = [some (a - 1/2 * 1), some (b - 1/2 * a)] := by
  simp (config := {decide := true}) [exSys, exEq, exData, System.evalFunc, System.candidate, System.spots, System.cols, columnsToRun, wrtSpots,
    stackedResidual, flattenF, equatorEval, applyTerminal, update, Data.modify, Expr.eval, Expr.evalWith, Data.get,
    Data.tabulate, List.range', List.idxOf, List.range, List.range.loop, List.findIdx, List.findIdx.go]
  have h : (((0:ℕ), (1:ℕ)) == ((0:ℕ), (2:ℕ))) = false := by decide
  simp [h]

theorem ex_zero : exSys.evalFunc (some [1/2, 1/4]) exData = [some 0, some 0] := by
  rw [ex_eval]; norm_num

example : normInf (exSys.evalFunc (some [1/2, 1/4]) exData) = some 0 := by
  rw [ex_zero]; simp [normInf, absR]

def exJ : Matrix (Fin 2) (Fin 2) ℚ := !![1, 0; -1/2, 1]
def exL : Matrix (Fin 2) (Fin 2) ℚ := !![1, 0; 1/2, 1]
def exC : Fin 2 → ℚ := ![-1/2, 0]

theorem exL_exJ : exL * exJ = 1 := by
  ext i j; fin_cases i <;> fin_cases j <;> (simp [exL, exJ, Matrix.mul_apply, Fin.sum_univ_two]; try norm_num)


theorem exJ_inj : Function.Injective exJ.mulVec := fun x y h => by
  have h2 : exL *ᵥ (exJ *ᵥ x) = exL *ᵥ (exJ *ᵥ y) := congrArg (fun v => exL *ᵥ v) h
  rw [Matrix.mulVec_mulVec, Matrix.mulVec_mulVec, exL_exJ, Matrix.one_mulVec, Matrix.one_mulVec] at h2
  exact h2

theorem ex_haff (x : Fin 2 → ℚ) :
    exSys.evalFunc (some (List.ofFn x)) exData = (List.ofFn (exJ *ᵥ x + exC)).map some := by
  have : List.ofFn x = [x 0, x 1] := by simp [List.ofFn_succ]
  rw [this, ex_eval]
  simp [List.ofFn_succ, exJ, exC, dotProduct, Fin.sum_univ_two]
  constructor <;> ring

example : ∃ (J : Matrix (Fin 2) (Fin exSys.spots.length) ℚ) (c : Fin 2 → ℚ) (xF : Fin exSys.spots.length → ℚ),
    (∀ x : Fin exSys.spots.length → ℚ, exSys.evalFunc (some (List.ofFn x)) exData = (List.ofFn (J *ᵥ x + c)).map some) ∧
    Function.Injective J.mulVec ∧
    exSys.evalFunc (some (List.ofFn xF)) exData = List.replicate 2 (some 0) :=
  ⟨exJ, exC, ![1/2, 1/4], ex_haff,
    exJ_inj,
    by
      have : List.ofFn (![1/2, 1/4] : Fin 2 → ℚ) = [1/2, 1/4] := by simp [List.ofFn_succ]
      show exSys.evalFunc (some (List.ofFn (![1/2, 1/4] : Fin 2 → ℚ))) exData = _
      rw [this, ex_zero]; rfl⟩

/-- the solver's exit test is met at the zero: hypotheses of `System.success_all_equations` -/
example : ∃ m : ℚ, normInf (exSys.evalFunc (some [1/2, 1/4]) exData) = some m ∧ m < 1/1000000 :=
  ⟨0, by rw [ex_zero]; simp [normInf, absR], by norm_num⟩

/-- two frames (break at the third base period): hypotheses of `runFrames_owner` for the first frame -/
example : stackedFrames 1 4 [true, false, true, false] = [⟨1, 2, 4⟩, ⟨3, 4, 4⟩] ∧
    (∀ g ∈ [(⟨3, 4, 4⟩ : Frame)], (⟨1, 2, 4⟩ : Frame).last < g.first) := by decide

example : periodFrames 5 3 = [⟨5, 5, 5⟩, ⟨6, 6, 6⟩, ⟨7, 7, 7⟩] := by decide

end Ex

section Glue
open Matrix

/-! ## 9. variants: which model variant simulates which data variant -/

theorem exhaustThenLast_eq {α} (own : List α) (h : own ≠ []) (k : Nat) :
    exhaustThenLast own k = own[min k (own.length - 1)]? := by
  unfold exhaustThenLast
  have hpos : 0 < own.length := List.length_pos_iff.2 h
  by_cases hk : k < own.length
  · rw [if_pos hk, Nat.min_eq_left (by omega)]
  · rw [if_neg hk, Nat.min_eq_right (by omega), List.getLast?_eq_getElem?]

theorem pairVariants_length {M D} (n : Nat) (ms : List M) (ds : List D) : (pairVariants n ms ds).length = n := by
  simp [pairVariants]

theorem pairVariants_get {M D} (n : Nat) (ms : List M) (ds : List D) (k : Nat) (hk : k < n) :
    (pairVariants n ms ds)[k]? = some (k, exhaustThenLast ms k, exhaustThenLast ds k) := by
  simp [pairVariants, hk]

theorem simulateVariants_length {M D O} (sim : M → D → O) (n : Nat) (ms : List M) (ds : List D) :
    (simulateVariants sim n ms ds).length = n := by
  simp [simulateVariants, pairVariants]

/-- **Variant locality.** The output has exactly `num_variants` entries, and entry `k` is the simulation of data variant
`min k (last data variant)` with parameter variant `min k (last model variant)` — nothing else enters it. -/
theorem simulateVariants_get {M D O} (sim : M → D → O) (n : Nat) (ms : List M) (ds : List D)
    (hm : ms ≠ []) (hd : ds ≠ []) (k : Nat) (hk : k < n) :
    (simulateVariants sim n ms ds)[k]? =
      some (do let m ← ms[min k (ms.length - 1)]?; let d ← ds[min k (ds.length - 1)]?; pure (sim m d)) := by
  simp only [simulateVariants, List.getElem?_map, pairVariants_get n ms ds k hk, Option.map_some,
    exhaustThenLast_eq ms hm, exhaustThenLast_eq ds hd]

/-- every requested variant IS simulated when the model and the data have at least one variant -/
theorem simulateVariants_get_isSome {M D O} (sim : M → D → O) (n : Nat) (ms : List M) (ds : List D)
    (hm : ms ≠ []) (hd : ds ≠ []) (k : Nat) (hk : k < n) :
    ∃ o, (simulateVariants sim n ms ds)[k]? = some (some o) := by
  have h1 : min k (ms.length - 1) < ms.length := by
    have := List.length_pos_iff.2 hm; omega
  have h2 : min k (ds.length - 1) < ds.length := by
    have := List.length_pos_iff.2 hd; omega
  refine ⟨sim ms[min k (ms.length - 1)] ds[min k (ds.length - 1)], ?_⟩
  rw [simulateVariants_get sim n ms ds hm hd k hk]
  simp [List.getElem?_eq_getElem h1, List.getElem?_eq_getElem h2]

/-- the finite zip stops after the shorter side: with fewer model variants than requested, data variants are dropped -/
theorem pairOwn_length {M D} (n : Nat) (ms : List M) (ds : List D) :
    (pairOwn n ms ds).length = min n (min ms.length ds.length) := by
  simp [pairOwn]

/-- a single-variant model over three data variants: the code's pairing serves all three with the one model variant;
the finite zip would simulate one only (this is seeded change C06-r4-1) -/
example : pairVariants 3 ["m0"] ["d0", "d1", "d2"] =
      [(0, some "m0", some "d0"), (1, some "m0", some "d1"), (2, some "m0", some "d2")]
    ∧ (pairOwn 3 ["m0"] ["d0", "d1", "d2"]).length = 1 := by decide

example : simulateVariants (fun (m d : Nat) => 10 * m + d) 3 [1, 2] [5, 6, 7] = [some 15, some 26, some 27] := by decide

/-! ## 10. histories on model objects: every `simulate` sees the parameters in force -/

theorem Obj.lookup_assign (o : Obj) (q q' : Nat) (v : Rat) :
    (o.assign q v).lookup q' = if q' = q then some v else o.lookup q' := by
  unfold Obj.assign Obj.lookup
  by_cases h : q' = q
  · subst h; simp
  · have : (q == q') = false := by simpa using fun h' => h h'.symm
    simp [this, h]

/-- the heap of objects refines the stateless specification -/
def Rel (heap : List Obj) (size : Nat) (sp : PSpec) : Prop :=
  heap.length = size ∧ ∀ i, (heap[i]?).map Obj.lookup = sp i

theorem stepH_refines (P : List Nat) (heap : List Obj) (size : Nat) (sp : PSpec) (h : Rel heap size sp) (op : HOp) :
    (stepH P heap op).2 = (specStep P size sp op).2.2 ∧
      Rel (stepH P heap op).1 (specStep P size sp op).1 (specStep P size sp op).2.1 := by
  obtain ⟨hlen, hrel⟩ := h
  cases op with
  | assign i q v =>
    refine ⟨rfl, by simp [stepH, specStep, hlen], ?_⟩
    intro j
    simp only [stepH, specStep, List.getElem?_modify]
    by_cases hj : j = i
    · subst hj
      rw [← hrel j]
      cases heap[j]? with
      | none => simp
      | some o =>
        have : (o.assign q v).lookup = fun q' => if q' = q then some v else o.lookup q' := by
          funext q'; exact Obj.lookup_assign o q q' v
        simp [this]
    · have : ¬ i = j := fun h' => hj h'.symm
      rw [if_neg hj, ← hrel j]
      cases heap[j]? <;> simp [this]
  | copy i =>
    simp only [stepH, specStep]
    have hi := hrel i
    cases ho : heap[i]? with
    | none =>
      rw [ho] at hi
      simp only [Option.map_none] at hi
      rw [← hi]
      exact ⟨rfl, hlen, hrel⟩
    | some o =>
      rw [ho] at hi
      simp only [Option.map_some] at hi
      rw [← hi]
      refine ⟨rfl, by simp [hlen], ?_⟩
      intro j
      show Option.map Obj.lookup (heap ++ [o])[j]? = if j = size then some o.lookup else sp j
      by_cases hj : j = size
      · subst hj
        simp [← hlen]
      · rw [if_neg hj, ← hrel j]
        by_cases hlt : j < heap.length
        · rw [List.getElem?_append_left hlt]
        · have : heap.length < j := by omega
          rw [List.getElem?_eq_none (by simp; omega), List.getElem?_eq_none (by omega)]
  | simulate i =>
    refine ⟨?_, hlen, hrel⟩
    simp only [stepH, specStep]
    rw [← hrel i]
    cases heap[i]? <;> simp [overwritesOf]

/-- **Refinement.** For every sequence of `assign` / `copy` / `simulate` operations on a heap of model objects, what each
`simulate` writes into the parameter rows is the pure function of the parameter values in force for that object at that
moment (the stateless specification): nothing of an earlier call survives. -/
theorem runH_refines (P : List Nat) : ∀ (ops : List HOp) (heap : List Obj) (size : Nat) (sp : PSpec),
    Rel heap size sp → runH P heap ops = runSpec P size sp ops
  | [], _, _, _, _ => rfl
  | op :: ops, heap, size, sp, h => by
    obtain ⟨h1, h2⟩ := stepH_refines P heap size sp h op
    simp only [runH, runSpec]
    rw [h1, runH_refines P ops _ _ _ h2]

/-- the specification of a freshly built heap -/
theorem Rel_init (heap : List Obj) : Rel heap heap.length (fun i => (heap[i]?).map Obj.lookup) := ⟨rfl, fun _ => rfl⟩

/-- simulate, re-assign, simulate again, copy, re-assign the copy: each observation shows the values in force -/
example : runH [7] [⟨[(7, 1/2)]⟩]
      [.simulate 0, .assign 0 7 (3/4), .simulate 0, .copy 0, .assign 1 7 2, .simulate 1, .simulate 0] =
    [some [(7, some (1/2))], none, some [(7, some (3/4))], none, none, some [(7, some 2)], some [(7, some (3/4))]] := by
  decide +kernel

theorem applyOverwrites_get_param (ow : List (Nat × Option Rat)) (d : Data) (q c : Nat) (v : Rat)
    (hq : q < d.rows) (hc : c < d.cols) (h : ow.find? (fun p => p.1 == q) = some (q, some v)) :
    (applyOverwrites ow d).get q (c : Int) = some v := by
  unfold applyOverwrites
  rw [Data.get_modify _ _ _ _ hq hc]
  simp [h]

theorem applyOverwrites_get_other (ow : List (Nat × Option Rat)) (d : Data) (q c : Nat)
    (hq : q < d.rows) (hc : c < d.cols) (h : ow.find? (fun p => p.1 == q) = none) :
    (applyOverwrites ow d).get q (c : Int) = d.get q (c : Int) := by
  unfold applyOverwrites
  rw [Data.get_modify _ _ _ _ hq hc]
  simp [h]

/-- **Parameters in force.** On the working array of a `simulate()` call, every column of the row of a parameter the object
has a value for holds that value: the equations are evaluated with the object's current parameters, whatever the input
databox or an earlier call put there. -/
theorem overwrites_in_force (P : List Nat) (o : Obj) (d : Data) (q c : Nat) (v : Rat)
    (hq : q < d.rows) (hc : c < d.cols) (hP : q ∈ P) (hv : o.lookup q = some v) :
    (applyOverwrites (overwritesOf P o) d).get q (c : Int) = some v := by
  apply applyOverwrites_get_param _ _ _ _ _ hq hc
  unfold overwritesOf
  induction P with
  | nil => simp at hP
  | cons p ps ih =>
    simp only [List.map_cons, List.find?_cons]
    by_cases hp : p = q
    · subst hp; simp [hv]
    · have : (p == q) = false := by simpa using hp
      simp only [this]
      exact ih (by simpa [Ne.symm hp] using hP)


/-! ## 11. the terminal condition with log-variables: which cells of the state vector are logarithms -/

section LogTerminal
variable {K : Type}

/-- with the logarithm taken in EVERY column (the code), every entry of the state vector that belongs to a log-variable —
current-dated or lagged by 1, 2, 3 … periods — enters the first-order recursion as a logarithm -/
theorem termXiLog_all_get (lg : K → K) (logly : Nat → Bool) (rd : Nat → Int → K) (toks : List (Nat × Int))
    (last j : Nat) :
    (termXiLog lg logly (fun _ => true) rd toks last)[j]? =
      (toks[j]?).map (fun qs => if logly qs.1 then lg (rd qs.1 ((last : Int) + qs.2)) else rd qs.1 ((last : Int) + qs.2)) := by
  simp [termXiLog]

/-- taking the logarithm in a window of columns only gives the same state vector **iff** every log-variable entry outside the
window happens to be a fixed point of `log` — so the window must cover every column the state vector reaches back to -/
theorem termXiLog_window_iff (lg : K → K) (logly : Nat → Bool) (W : Int → Bool) (rd : Nat → Int → K)
    (toks : List (Nat × Int)) (last : Nat) :
    termXiLog lg logly W rd toks last = termXiLog lg logly (fun _ => true) rd toks last ↔
      ∀ qs ∈ toks, logly qs.1 = true → W ((last : Int) + qs.2) = false →
        rd qs.1 ((last : Int) + qs.2) = lg (rd qs.1 ((last : Int) + qs.2)) := by
  unfold termXiLog
  rw [List.map_inj_left]
  constructor
  · intro h qs hqs hl hw
    have := h qs hqs
    simpa [hl, hw] using this
  · intro h qs hqs
    by_cases hl : logly qs.1 = true
    · by_cases hw : W ((last : Int) + qs.2) = true
      · simp [hl, hw]
      · have hw' : W ((last : Int) + qs.2) = false := by simpa using hw
        simpa [hl, hw'] using h qs hqs hl hw'
    · simp [hl]

/-- a cell that is not written comes back unchanged from the `log` / `exp` round trip, when `exp ∘ log` is the identity on the
values of log-variables (positive reals in the code) -/
theorem roundTripCell_id (lg ex : K → K) (logly : Nat → Bool) (W : Int → Bool) (pos : K → Prop)
    (hexp : ∀ x, pos x → ex (lg x) = x) (q : Nat) (c : Int) (x : K) (hx : logly q = true → pos x) :
    roundTripCell lg ex logly W q c x = x := by
  unfold roundTripCell
  by_cases h : (logly q && W c) = true
  · rw [if_pos h]
    exact hexp x (hx (by simpa using (Bool.and_eq_true _ _ ▸ h).1))
  · rw [if_neg h]

/-- a log-variable's terminal cell is the exponential of its row of the continuation, a level variable's is the row itself -/
theorem termCellLog_logly (ex : K → K) (logly : Nat → Bool) (q : Nat) (xiK : Nat → K) (i : Nat) :
    termCellLog ex logly q xiK i = if logly q then ex (xiK i) else xiK i := rfl

/-- non-vacuity over ℚ with `log x = x - 1`, `exp y = y + 1`: a log-variable (qid 0) at lag 1 — the window "last column and
beyond" (seeded change C06-r4-3) reads it unlogged, the code reads its logarithm -/
example :
    termXiLog (fun x : ℚ => x - 1) (fun q => q == 0) (fun _ => true) (fun _ c => if c = 4 then 3 else 5) [(0, 0), (0, -1), (1, -1)] 5
        = [4, 2, 3]
    ∧ termXiLog (fun x : ℚ => x - 1) (fun q => q == 0) (fun c => decide (5 ≤ c)) (fun _ c => if c = 4 then 3 else 5) [(0, 0), (0, -1), (1, -1)] 5
        = [4, 3, 3] := by decide +kernel

end LogTerminal

/-! ## 12. the executable terminator (over `QMat`) IS the first-order recursion: refinement through `toMat` -/

theorem cumT_qOps_shape (n : Nat) (T : QMat) (hr : T.rows = n) (hc : T.cols = n) :
    ∀ k, (cumT (qOps n) T k).rows = n ∧ (cumT (qOps n) T k).cols = n
  | 0 => ⟨rfl, rfl⟩
  | k + 1 => ⟨hr, (cumT_qOps_shape n T hr hc k).2⟩

theorem toMat_cumT_qOps (n : Nat) (T : QMat) (hr : T.rows = n) (hc : T.cols = n) :
    ∀ k, (cumT (qOps n) T k).toMat n n = cumT (matOps (n := Fin n) (K := ℚ)) (T.toMat n n) k
  | 0 => by simp only [cumT, qOps, matOps]; exact QMat.toMat_identity n
  | k + 1 => by
    have ih := toMat_cumT_qOps n T hr hc k
    have hs := cumT_qOps_shape n T hr hc k
    show (T * cumT (qOps n) T k).toMat n n = _
    rw [QMat.toMat_mul T _ n n n hr hc hs.2, ih]
    rfl

theorem toFn_qOps_addV (n : Nat) (a b : QVec) :
    QVec.toFn ((qOps n).addV a b) n = QVec.toFn a n + QVec.toFn b n := by
  funext i
  simp [qOps, QVec.toFn]

theorem toFn_qOps_zeroV (n : Nat) : QVec.toFn ((qOps n).zeroV) n = 0 := by
  funext i
  simp [qOps, QVec.toFn]

theorem toFn_cumK_qOps (n : Nat) (T : QMat) (K : QVec) (hr : T.rows = n) (hc : T.cols = n) :
    ∀ k, QVec.toFn (cumK (qOps n) T K k) n = cumK (matOps (n := Fin n) (K := ℚ)) (T.toMat n n) (QVec.toFn K n) k
  | 0 => toFn_qOps_zeroV n
  | k + 1 => by
    have ih := toFn_cumK_qOps n T K hr hc k
    show QVec.toFn ((qOps n).addV (T.mulVec (cumK (qOps n) T K k)) K) n = _
    rw [toFn_qOps_addV, QMat.toFn_mulVec T _ n n hr hc, ih]
    rfl

/-- **Refinement of the terminator.** The vector the executable model (exact rationals, `QMat`) writes into terminal column
`k` is, read through `toFn`/`toMat`, the Mathlib-matrix expression `cum_T^k ξ + cum_K^k` -/
theorem terminalXi_qOps_refines (n : Nat) (T : QMat) (K x : QVec) (hr : T.rows = n) (hc : T.cols = n) (k : Nat) :
    QVec.toFn (terminalXi (qOps n) T K x k) n =
      terminalXi (matOps (n := Fin n) (K := ℚ)) (T.toMat n n) (QVec.toFn K n) (QVec.toFn x n) k := by
  have hs := cumT_qOps_shape n T hr hc k
  show QVec.toFn ((qOps n).addV ((cumT (qOps n) T k).mulVec x) (cumK (qOps n) T K k)) n = _
  rw [toFn_qOps_addV, QMat.toFn_mulVec _ _ n n hs.1 hs.2, toMat_cumT_qOps n T hr hc k, toFn_cumK_qOps n T K hr hc k]
  rfl

/-- … hence the EXECUTABLE terminal values obey the first-order recursion `ξ_{k+1} = T ξ_k + K` (no ring-law hypothesis on
`QMat` is left: the laws come from `Matrix` through the refinement) -/
theorem terminalXi_qOps_succ (n : Nat) (T : QMat) (K x : QVec) (hr : T.rows = n) (hc : T.cols = n) (k : Nat) :
    QVec.toFn (terminalXi (qOps n) T K x (k + 1)) n =
      T.toMat n n *ᵥ QVec.toFn (terminalXi (qOps n) T K x k) n + QVec.toFn K n := by
  rw [terminalXi_qOps_refines n T K x hr hc (k + 1), terminalXi_succ, ← terminalXi_qOps_refines n T K x hr hc k]

theorem terminalXi_qOps_zero (n : Nat) (T : QMat) (K x : QVec) (hr : T.rows = n) (hc : T.cols = n) :
    QVec.toFn (terminalXi (qOps n) T K x 0) n = QVec.toFn x n := by
  rw [terminalXi_qOps_refines n T K x hr hc 0, terminalXi_zero]

example : QVec.toFn (terminalXi (qOps 1) (QMat.ofRows [[1/2]]) #[1] #[4] 2) 1 = ![5/2] := by
  funext i; fin_cases i; decide +kernel

/-! ## 13. the known finding, machine-checked on the model of the current first-order code -/

/-- with the first-order solution the current code computes for `x = 0.5*x{-1} + w + ex` (`T = [1/2]`, `K = [0]`: the
exogenous variable is in neither), `simulate_flat` returns `x = 0, 0, 0, 0` on the corpus input (`w = 3` in the second period) … -/
theorem finding_firstOrder_path :
    findingFordPath (QMat.ofRows [[1/2]]) #[0] = some [some 0, some 0, some 0, some 0] := by decide +kernel

/-- … that path does NOT pass the equation-residual certificate: the second stacked equation is off by `w = 3` … -/
theorem finding_certificate_fails :
    findingFordResidual (QMat.ofRows [[1/2]]) #[0] = some [some 0, some 3, some 0, some 0] := by decide +kernel

/-- … while the stacked system has the exact zero `0, 3, 3/2, 3/4` (what stacked_time and period_by_period return): the two
methods disagree on this linear model, which is the recorded finding. `firstOrder_is_unique_zero` does not apply here
precisely because its hypothesis `hcert` is false (`finding_certificate_fails`). -/
theorem finding_stacked_zero :
    findingSys.solveAffine findingData = some [0, 3, 3/2, 3/4] ∧
      findingSys.evalFunc (some [0, 3, 3/2, 3/4]) findingData = [some 0, some 0, some 0, some 0] := by decide +kernel


/-! ## 14. converse of the exit test, and the composition of the stages of one `simulate_frame` -/

/-- the norm is attained: a positive `‖F‖_∞` is the absolute value of some entry -/
theorem normInf_attained : ∀ (v : List (Option Rat)) (m : Rat), normInf v = some m → 0 < m →
    ∃ r, some r ∈ v ∧ absR r = m
  | [], m, h, hm => by simp [normInf] at h; linarith
  | none :: _, _, h, _ => by simp [normInf] at h
  | some y :: rest, m, h, hm => by
    simp only [normInf, Option.map_eq_some_iff] at h
    obtain ⟨m', hm', hmm⟩ := h
    by_cases hlt : m' < absR y
    · rw [if_pos hlt] at hmm
      exact ⟨y, by simp, hmm⟩
    · rw [if_neg hlt] at hmm
      subst hmm
      obtain ⟨r, hr, hb⟩ := normInf_attained rest m' hm' hm
      exact ⟨r, List.mem_cons_of_mem _ hr, hb⟩

/-- **Converse of the exit test.** If the solver's norm is NOT below the tolerance, some transition equation at some simulated
column is violated by at least the tolerance (the failure is never spurious) -/
theorem residual_large_some_equation (eqs : List Expr) (cols : List Nat) (d : Data) (m tol : Rat)
    (hn : normInf (stackedResidual eqs cols d) = some m) (htol : 0 < tol) (hm : tol ≤ m) :
    ∃ e k, ∃ (he : e < eqs.length) (hk : k < cols.length), ∃ r,
      (eqs[e]).eval d (cols[k]) = some r ∧ tol ≤ absR r := by
  obtain ⟨r, hr, hb⟩ := normInf_attained _ _ hn (lt_of_lt_of_le htol hm)
  obtain ⟨i, hi, hget⟩ := List.getElem_of_mem hr
  rw [stackedResidual_length] at hi
  obtain ⟨e, k, he, hk, hent⟩ := stackedResidual_entry_inv eqs cols d hi
  refine ⟨e, k, he, hk, r, ?_, by rw [hb]; exact hm⟩
  have : (stackedResidual eqs cols d)[i]? = some (some r) := by
    rw [List.getElem?_eq_getElem (by rw [stackedResidual_length]; exact hi), hget]
  rw [this] at hent
  exact (Option.some.inj hent).symm

example : ∃ m : ℚ, normInf (Ex.exSys.evalFunc (some [1, 1/4]) Ex.exData) = some m ∧ (1/4 : ℚ) ≤ m := by
  refine ⟨1/2, ?_, by norm_num⟩
  rw [Ex.ex_eval]; simp [normInf, absR]; norm_num

/-- the array one frame is solved on: the parameter rows overwritten with the object's current values, then `_catch_missing` -/
def frameArray (s : System) (P : List Nat) (o : Obj) (fb : Rat) (d : Data) : Data :=
  catchMissing s.spots fb (applyOverwrites (overwritesOf P o) d)

/-- **One frame, end to end** (only input-level hypotheses besides the solver's exit test). If the exit test
`‖eval_func(guess)‖_∞ < tol` is met on the frame's array, then on the candidate array
(1) every transition equation at every simulated column is finite and below `tol`;
(2) every parameter the object has a value for reads that value, at every column up to the end of the frame;
(3) every other cell that is not solved for, up to the end of the frame, reads the input databox's value (missing if missing). -/
theorem frame_end_to_end (s : System) (P : List Nat) (o : Obj) (fb : Rat) (d : Data) (g : List Rat) (m tol : Rat)
    (hn : normInf (s.evalFunc (some g) (frameArray s P o fb d)) = some m) (hm : m < tol) :
    (∀ e k, ∀ (he : e < s.eqs.length) (hk : k < s.cols.length), ∃ r,
        (s.eqs[e]).eval (s.candidate (some g) (frameArray s P o fb d)) (s.cols[k]) = some r ∧ absR r < tol) ∧
    (∀ q c v, q < d.rows → c < d.cols → c ≤ s.simLast → q ∈ P → q ∉ s.endo → o.lookup q = some v →
        (s.candidate (some g) (frameArray s P o fb d)).get q (c : Int) = some v) ∧
    (∀ q c, q < d.rows → c < d.cols → c ≤ s.simLast → (q, c) ∉ s.spots →
        (overwritesOf P o).find? (fun p => p.1 == q) = none →
        (s.candidate (some g) (frameArray s P o fb d)).get q (c : Int) = d.get q (c : Int)) := by
  refine ⟨fun e k he hk => System.success_all_equations s (some g) _ m tol hn hm he hk, ?_, ?_⟩
  · intro q c v hq hc hle hP hendo hv
    have hns : ∀ c' : Nat, ((c : Int) = (c' : Int)) → (q, c') ∉ s.spots := by
      intro c' _ hmem
      exact hendo ((System.mem_spots s q c').1 hmem).1
    rw [System.candidate_get_input s g _ q c hns (Or.inl (by exact_mod_cast hle))]
    unfold frameArray
    rw [catchMissing_get_other _ _ _ _ _ hns]
    exact overwrites_in_force P o d q c v hq hc hP hv
  · intro q c hq hc hle hns how
    have hns' : ∀ c' : Nat, ((c : Int) = (c' : Int)) → (q, c') ∉ s.spots := by
      intro c' hcc
      have : c = c' := by exact_mod_cast hcc
      subst this; exact hns
    rw [System.candidate_get_input s g _ q c hns' (Or.inl (by exact_mod_cast hle))]
    unfold frameArray
    rw [catchMissing_get_other _ _ _ _ _ hns']
    exact applyOverwrites_get_other _ d q c hq hc how



/-! ## 15. the `method` option: spellings, and pruning never leaks into the main array -/

/-- the documented aliases select the same simulator -/
theorem resolveMethod_alias :
    resolveMethod "stacked" = resolveMethod "stacked_time" ∧ resolveMethod "period" = resolveMethod "period_by_period" := by
  decide

theorem resolveMethod_names :
    resolveMethod "stacked" = some .stackedTime ∧ resolveMethod "period" = some .periodByPeriod ∧
      resolveMethod "first_order" = some .firstOrder ∧ resolveMethod "newton" = none := by decide

/-- **Spelling equivalence.** A run depends on the method string only through the simulator it resolves to: two spellings of
one method give the same result, frame by frame (same frames, same pruning, same write-back) -/
theorem runMethod_spelling (solve : Frame → Data → Data) (un : List Nat) (s₁ s₂ : String) (baseFirst n : Nat) (main : Data)
    (h : resolveMethod s₁ = resolveMethod s₂) :
    runMethod solve un s₁ baseFirst n main = runMethod solve un s₂ baseFirst n main := by
  unfold runMethod; rw [h]

example (solve : Frame → Data → Data) (un : List Nat) (b n : Nat) (d : Data) :
    runMethod solve un "stacked" b n d = runMethod solve un "stacked_time" b n d :=
  runMethod_spelling solve un _ _ b n d resolveMethod_alias.1

/-- write-back touches an unanticipated-shock row at the frame's first column only -/
theorem writeBack_get_unant_other (f : Frame) (un : List Nat) (m fr : Data) (q c : Nat) (hq : q < m.rows) (hc : c < m.cols)
    (hu : q ∈ un) (hne : c ≠ f.first) : (writeBack f un m fr).get q (c : Int) = m.get q (c : Int) := by
  unfold writeBack
  rw [Data.get_modify _ _ _ _ hq hc]
  simp [hu, hne]

/-- **Pruning works on the frame's private copy.** Whatever the frames' solver does, an unanticipated shock at a date where no
frame of the list starts is in the main array after the loop exactly as it came in — in particular the shocks of LATER frames
are still there when their frames start (they are zeroed in the earlier frames' copies only). -/
theorem runFrames_unant_untouched (solve : Frame → Data → Data) (un : List Nat) (q c : Nat) (hu : q ∈ un) :
    ∀ (fs : List Frame) (m : Data), q < m.rows → c < m.cols → (∀ f ∈ fs, c ≠ f.first) →
      (runFrames solve un fs m).get q (c : Int) = m.get q (c : Int)
  | [], _, _, _, _ => rfl
  | f :: fs, m, hq, hc, h => by
    simp only [runFrames, List.foldl_cons]
    have := runFrames_unant_untouched solve un q c hu fs (writeBack f un m (solve f (prune f un m))) hq hc
      (fun g hg => h g (List.mem_cons_of_mem _ hg))
    simp only [runFrames] at this
    rw [this]
    exact writeBack_get_unant_other f un m _ q c hq hc hu (h f (by simp))

/-- the array frame `f` starts from holds, at `f`'s own first column, the unanticipated shocks of the INPUT (earlier frames
start earlier, so none of them wrote there; the frame's own pruning keeps its first column) -/
theorem frame_sees_own_shock (solve : Frame → Data → Data) (un : List Nat) (pre : List Frame) (f : Frame) (main : Data)
    (q : Nat) (hq : q < main.rows) (hc : f.first < main.cols) (hu : q ∈ un) (hpre : ∀ g ∈ pre, g.first < f.first) :
    (prune f un (runFrames solve un pre main)).get q (f.first : Int) = main.get q (f.first : Int) := by
  have hq' : q < (runFrames solve un pre main).rows := by rw [runFrames_rows]; exact hq
  have hc' : f.first < (runFrames solve un pre main).cols := by rw [runFrames_cols]; exact hc
  rw [prune_get f un _ q f.first hq' hc']
  have : ¬ (f.first ≠ f.simLast ∧ q ∈ un ∧ f.first + 1 ≤ f.first) := by omega
  rw [if_neg this]
  exact runFrames_unant_untouched solve un q f.first hu pre main hq hc (fun g hg => by have := hpre g hg; omega)



/-! ## 16. statement audit: rejection branches, the recursion for every terminal column, composed corollaries, examples -/

/-- rejection: a non-finite entry (a NaN read, a division by zero, an out-of-range read) makes the norm undefined — the
solver's exit test can not be met, and conversely (the code raises on a non-finite first evaluation) -/
theorem normInf_eq_none_iff : ∀ (v : List (Option Rat)), normInf v = none ↔ none ∈ v
  | [] => by simp [normInf]
  | none :: _ => by simp [normInf]
  | some x :: rest => by
    have ih := normInf_eq_none_iff rest
    simp only [normInf, Option.map_eq_none_iff, ih, List.mem_cons]
    constructor
    · intro h; exact Or.inr h
    · rintro (h | h)
      · cases h
      · exact h

/-- rejection: a division by zero is not a number -/
theorem evalWith_div_zero (rd : Nat → Int → Option Rat) (t : Int) (a b : Expr) (hb : b.evalWith rd t = some 0) :
    (Expr.div a b).evalWith rd t = none := by
  simp only [Expr.evalWith, hb]
  cases a.evalWith rd t <;> simp

/-- rejection: an equation that reads a missing cell has no residual -/
theorem evalWith_var_missing (rd : Nat → Int → Option Rat) (t : Int) (q : Nat) (s : Int) (h : rd q (t + s) = none) :
    (Expr.var q s).evalWith rd t = none := by simp [Expr.evalWith, h]

/-- rejection: exactly the documented strings are methods (anything else is the code's `KeyError`) -/
theorem resolveMethod_eq_none_iff (s : String) :
    resolveMethod s = none ↔ s ∉ ["first_order", "period_by_period", "period", "stacked_time", "stacked"] := by
  unfold resolveMethod
  by_cases h1 : s = "first_order" <;> by_cases h2 : s = "period_by_period" <;> by_cases h3 : s = "period" <;>
    by_cases h4 : s = "stacked_time" <;> by_cases h5 : s = "stacked" <;> simp [h1, h2, h3, h4, h5]

/-- rejection: a model without variants simulates nothing (every requested output is `none`) -/
theorem simulateVariants_no_model {D O} (sim : Unit → D → O) (n : Nat) (ds : List D) :
    ∀ o ∈ simulateVariants sim n [] ds, o = none := by
  intro o ho
  simp only [simulateVariants, pairVariants, List.map_map, List.mem_map, List.mem_range] at ho
  obtain ⟨k, _, rfl⟩ := ho
  simp [exhaustThenLast]

example : normInf [some 1, none, some 2] = none ∧ (Expr.div (.const 1) (.const 0)).evalWith (fun _ _ => none) 0 = none := by
  decide +kernel

/-! ### the terminal recursion for EVERY terminal column -/

/-- closed form of the terminal values over Mathlib matrices: column `k` is the `k`-fold iterate of `ξ ↦ Tξ + K` from the
last state — for every `k`, which pins `cum_K^k = K + T K + … + T^{k-1} K` (any other recursion for the constant, e.g.
`cum_T·cum_K + K`, differs from it as soon as `k ≥ 2`) -/
theorem terminalXi_eq_iterate {n : Type} [Fintype n] [DecidableEq n] {K : Type} [CommRing K]
    (T : Matrix n n K) (Kc x : n → K) : ∀ k, terminalXi matOps T Kc x k = (fun ξ => T *ᵥ ξ + Kc)^[k] x
  | 0 => terminalXi_zero T Kc x
  | k + 1 => by
    rw [terminalXi_succ, terminalXi_eq_iterate T Kc x k, Function.iterate_succ_apply']

/-- the same for the EXECUTABLE terminator, every terminal column -/
theorem terminalXi_qOps_eq_iterate (n : Nat) (T : QMat) (K x : QVec) (hr : T.rows = n) (hc : T.cols = n) (k : Nat) :
    QVec.toFn (terminalXi (qOps n) T K x k) n = (fun ξ => T.toMat n n *ᵥ ξ + QVec.toFn K n)^[k] (QVec.toFn x n) := by
  rw [terminalXi_qOps_refines n T K x hr hc k, terminalXi_eq_iterate]

/-- two terminal columns, non-zero constant: `T = 1/2, K = 1, ξ = 4`: columns 1, 2, 3 hold 3, 5/2, 9/4 -/
example : (List.range 4).map (fun k => (terminalXi (qOps 1) (QMat.ofRows [[1/2]]) #[1] #[4] k).getD 0 0) = [4, 3, 5/2, 9/4] := by
  decide +kernel

/-- `terminate_get_terminal` on a concrete array (max_lead = 2): cells `(0, 3)` and `(0, 4)` of a one-variable model whose last
simulated column 2 holds 4 -/
example :
    let ts : TermSpec := ⟨QMat.ofRows [[1/2]], #[1], [(0, 0)], [(0, 0)], 2⟩
    let d := Data.tabulate 1 5 (fun _ c => if c = 2 then some 4 else some 0)
    (terminate ts 2 d).get 0 3 = some 3 ∧ (terminate ts 2 d).get 0 4 = some (5/2) ∧ (terminate ts 2 d).get 0 2 = some 4 := by
  decide +kernel

/-! ### composed corollaries -/

/-- **Frames from data tile the span** (composition of `breakPoints_head` and `splitFrames_tile`; input-level hypotheses
only): whatever the data, the stacked-time frames computed from its unanticipated shocks cover every base period exactly once -/
theorem stackedFrames_of_data_tile (d : Data) (un : List Nat) (baseFirst n : Nat) :
    (stackedFrames baseFirst (n + 1) (breakPoints d un baseFirst (n + 1))).flatMap
        (fun f => List.range' f.first (f.last + 1 - f.first)) = List.range' baseFirst (n + 1) := by
  obtain ⟨rest, hbp, hlen⟩ := breakPoints_head d un baseFirst n
  rw [hbp, ← hlen]
  exact splitFrames_tile baseFirst rest _

/-- the break points of a data variant depend only on ITS unanticipated-shock rows over the base span -/
theorem breakPoints_congr (d d' : Data) (un : List Nat) (baseFirst n : Nat)
    (h : ∀ q ∈ un, ∀ i < n, d.get q ((baseFirst + i : Nat) : Int) = d'.get q ((baseFirst + i : Nat) : Int)) :
    breakPoints d un baseFirst n = breakPoints d' un baseFirst n := by
  unfold breakPoints
  apply List.map_congr_left
  intro i hi
  have hi' : i < n := List.mem_range.1 hi
  congr 1
  rw [Bool.eq_iff_iff, List.any_eq_true, List.any_eq_true]
  constructor
  · rintro ⟨q, hq, hp⟩; exact ⟨q, hq, by rw [← h q hq i hi']; exact hp⟩
  · rintro ⟨q, hq, hp⟩; exact ⟨q, hq, by rw [h q hq i hi']; exact hp⟩

/-- **Frames per variant: locality.** The frames of data variant `k` are computed from data variant `k` alone: one list per
variant, and two families of data variants that agree in variant `k` (on the unanticipated shocks over the base span) give
variant `k` the same frames — nothing of variant 0 enters (seeded change C06-r6-3 reused variant 0's frames) -/
theorem framesPerVariant_get (un : List Nat) (baseFirst n : Nat) (datas : List Data) (k : Nat) :
    (framesPerVariant un baseFirst n datas)[k]? =
      (datas[k]?).map (fun d => stackedFrames baseFirst n (breakPoints d un baseFirst n)) := by
  simp [framesPerVariant]

theorem framesPerVariant_local (un : List Nat) (baseFirst n : Nat) (datas datas' : List Data) (k : Nat) (d d' : Data)
    (hk : datas[k]? = some d) (hk' : datas'[k]? = some d')
    (h : ∀ q ∈ un, ∀ i < n, d.get q ((baseFirst + i : Nat) : Int) = d'.get q ((baseFirst + i : Nat) : Int)) :
    (framesPerVariant un baseFirst n datas)[k]? = (framesPerVariant un baseFirst n datas')[k]? := by
  rw [framesPerVariant_get, framesPerVariant_get, hk, hk']
  simp only [Option.map_some]
  rw [breakPoints_congr d d' un baseFirst n h]

/-- two data variants with unanticipated shocks (row 1) at different dates get different frames -/
example :
    let d0 := Data.tabulate 2 6 (fun q c => if q = 1 ∧ c = 3 then some 1 else some 0)
    let d1 := Data.tabulate 2 6 (fun q c => if q = 1 ∧ c = 2 then some 1 else some 0)
    framesPerVariant [1] 1 4 [d0, d1] = [[⟨1, 2, 4⟩, ⟨3, 4, 4⟩], [⟨1, 1, 4⟩, ⟨2, 4, 4⟩]] := by decide +kernel

/-! ### the initial guess writes the base span only -/

theorem storeCurr_get_other (curr : List (Nat × Nat)) (first : Nat) (xs : List QVec) (d : Data) (q : Nat) (t : Int)
    (h : ∀ c : Nat, t = (c : Int) → ¬ (first ≤ c ∧ c < first + xs.length ∧ (curr.find? (fun qi => qi.1 == q)).isSome)) :
    (storeCurr curr first xs d).get q t = d.get q t := by
  by_cases hin : 0 ≤ t ∧ q < d.rows ∧ t.toNat < d.cols
  · obtain ⟨h0, hq, ht⟩ := hin
    obtain ⟨c, rfl⟩ := Int.eq_ofNat_of_zero_le h0
    simp only [Int.toNat_natCast] at ht
    unfold storeCurr
    rw [Data.get_modify _ _ _ _ hq ht]
    have := h c rfl
    by_cases hr : first ≤ c ∧ c < first + xs.length
    · have hnone : curr.find? (fun qi => qi.1 == q) = none := by
        cases hf : curr.find? (fun qi => qi.1 == q) with
        | none => rfl
        | some x => exact absurd ⟨hr.1, hr.2, by simp [hf]⟩ this
      simp [hr, hnone]
    · simp [hr]
  · exact Data.get_modify_out d _ hin

theorem fordPath_length {M V} (o : LinOps M V) (T : M) (K : V) : ∀ (gs : List V) (x0 : V), (fordPath o T K x0 gs).length = gs.length
  | [], _ => rfl
  | g :: gs, x0 => by simp [fordPath, fordPath_length o T K gs]

/-- **Which cells an initial guess may write.** Whatever the mode, the initial guess leaves every cell outside
(current-dated transition rows) × (base span) exactly as it came in: initial conditions, shocks, exogenous and measurement
variables, and — for `terminal="data"` decisive — the user's TERMINAL columns beyond the base span (seeded change C06-r6-2
let the first-order guess run into them). The `data` mode writes nothing at all. -/
theorem initialGuess_get_other (mode : GuessMode) (s : TermSpec) (baseFirst n : Nat) (d : Data) (q : Nat) (t : Int)
    (h : ∀ c : Nat, t = (c : Int) → ¬ (baseFirst ≤ c ∧ c < baseFirst + n ∧ (s.curr.find? (fun qi => qi.1 == q)).isSome)) :
    (initialGuess mode s baseFirst n d).get q t = d.get q t := by
  cases mode with
  | data => rfl
  | firstOrder =>
    simp only [initialGuess, initialGuessFO]
    cases hsf : simulateFlat s baseFirst (List.replicate n ((qOps s.xiTokens.length).zeroV)) d with
    | some d' =>
      simp only [simulateFlat, Option.bind_eq_bind, Option.bind_eq_some_iff] at hsf
      obtain ⟨x0, _, hd'⟩ := hsf
      simp only [Option.pure_def, Option.some.injEq] at hd'
      subst hd'
      apply storeCurr_get_other
      intro c hc
      rw [fordPath_length, List.length_replicate]
      exact h c hc
    | none =>
      by_cases hin : 0 ≤ t ∧ q < d.rows ∧ t.toNat < d.cols
      · obtain ⟨h0, hq, ht⟩ := hin
        obtain ⟨c, rfl⟩ := Int.eq_ofNat_of_zero_le h0
        simp only [Int.toNat_natCast] at ht
        show (d.modify _).get q (c : Int) = _
        rw [Data.get_modify _ _ _ _ hq ht]
        rw [if_neg (h c rfl)]; rfl
      · exact Data.get_modify_out d _ hin

/-- in particular: the terminal columns are the input's, for both modes -/
theorem initialGuess_keeps_terminal (mode : GuessMode) (s : TermSpec) (baseFirst n : Nat) (d : Data) (q c : Nat)
    (hc : baseFirst + n ≤ c) : (initialGuess mode s baseFirst n d).get q (c : Int) = d.get q (c : Int) := by
  apply initialGuess_get_other
  intro c' hcc
  have : c = c' := by exact_mod_cast hcc
  subst this; omega

/-- first-order guess of `x_t = x_{t-1}/2 + 1` from `x = 4` over two base periods; the terminal column (3) keeps the user's 7 -/
example :
    let ts : TermSpec := ⟨QMat.ofRows [[1/2]], #[1], [(0, 0)], [(0, 0)], 1⟩
    let d := Data.tabulate 1 4 (fun _ c => if c = 0 then some 4 else if c = 3 then some 7 else none)
    (List.range 4).map (fun c => (initialGuess .firstOrder ts 1 2 d).get 0 (c : Int)) = [some 4, some 3, some (5/2), some 7]
    ∧ (List.range 4).map (fun c => (initialGuess .data ts 1 2 d).get 0 (c : Int)) = [some 4, none, none, some 7] := by
  decide +kernel

/-! ### examples for the composed theorems -/

/-- `frame_end_to_end` on a model with a parameter: `x_t = ρ x_{t-1}` (ρ = row 1, in force: 1/2; the input array holds garbage
there), `x_0 = 1`: the exit test is met at `1/2, 1/4` and the hypotheses are input-level -/
example :
    let s : System := ⟨[.sub (.var 0 0) (.mul (.var 1 0) (.var 0 (-1)))], [0], 1, 2, .data⟩
    let d := Data.tabulate 2 3 (fun q c => if q = 0 ∧ c = 0 then some 1 else if q = 1 then some 99 else none)
    normInf (s.evalFunc (some [1/2, 1/4]) (frameArray s [1] ⟨[(1, 1/2)]⟩ (1/9) d)) = some 0
      ∧ (⟨[(1, 1/2)]⟩ : Obj).lookup 1 = some (1/2) := by decide +kernel

/-- `runFrames_owner` on two frames with a marking solver: column 2 (owned by the first frame) holds the first frame's mark
after the second frame has run over columns 3…4 -/
example :
    let solve : Frame → Data → Data := fun f d => d.modify (fun _ c => if f.first ≤ c ∧ c ≤ f.simLast then some (some (f.first : Rat)) else none)
    let d := Data.tabulate 1 6 (fun _ _ => some 0)
    (List.range 6).map (fun c => (runFrames solve [] [⟨1, 2, 4⟩, ⟨3, 4, 4⟩] d).get 0 (c : Int))
      = [some 0, some 1, some 1, some 3, some 3, some 0] := by decide +kernel



/-! ## 17. solver settings: an explicit setting wins, the default fills the rest, and no call sees another call's settings -/

/-- the one default: `norm_order` is `inf` unless the call says otherwise, and an explicit value wins -/
theorem effectiveSettings_norm_order (custom : Settings) :
    (effectiveSettings (some custom)).lookup "norm_order" = some ((custom.lookup "norm_order").getD "inf") := by
  simp [effectiveSettings, mergeSettings, defaultSolverSettings, Settings.lookup]
  cases List.find? (fun p => p.1 == "norm_order") custom <;> rfl

/-- every other key a call passes reaches the solver with the value the call gave it -/
theorem effectiveSettings_custom (custom : Settings) (k : String) (hk : k ≠ "norm_order") :
    (effectiveSettings (some custom)).lookup k = custom.lookup k := by
  have hb : ("norm_order" == k) = false := by simpa using fun h => hk h.symm
  simp only [effectiveSettings, mergeSettings, defaultSolverSettings, Settings.lookup, Option.getD_some, List.map_cons,
    List.map_nil, List.cons_append, List.nil_append, List.find?_cons, hb]
  congr 1
  induction custom with
  | nil => rfl
  | cons p ps ih =>
    obtain ⟨k', v'⟩ := p
    by_cases h1 : k' = "norm_order"
    · subst h1
      simp only [List.filter_cons, List.find?_cons, beq_self_eq_true, Option.map_some, Option.isNone_some, hb]
      exact ih
    · have hb' : ("norm_order" == k') = false := by simpa using fun h => h1 h.symm
      simp only [List.filter_cons, List.find?_cons, hb', List.find?_nil, Option.map_none, Option.isNone_none, if_true]
      by_cases h2 : (k' == k) = true
      · simp [h2]
      · simp only [h2]; exact ih

/-- what a call hands to the solver depends on that call's `solver_settings` only: calls with equal settings get equal
effective settings wherever they stand in a history (no leak from earlier calls) -/
theorem settingsHistory_get (calls : List (Option Settings)) (i : Nat) :
    (settingsHistory calls)[i]? = (calls[i]?).map effectiveSettings := by simp [settingsHistory]

theorem settingsHistory_local (calls calls' : List (Option Settings)) (i j : Nat) (c : Option Settings)
    (h : calls[i]? = some c) (h' : calls'[j]? = some c) : (settingsHistory calls)[i]? = (settingsHistory calls')[j]? := by
  rw [settingsHistory_get, settingsHistory_get, h, h']

/-- a default-settings call after a loose-tolerance call gets the defaults (the in-place merge of seeded change C06-r7-2 would
hand it `func_tolerance = 0.5`) -/
example : settingsHistory [some [("func_tolerance", "0.5"), ("norm_order", "2")], none, some [("max_iterations", "7")]] =
    [[("norm_order", "2"), ("func_tolerance", "0.5")], [("norm_order", "inf")], [("norm_order", "inf"), ("max_iterations", "7")]] := by
  decide

example : (effectiveSettings (some [("max_iterations", "7")])).lookup "norm_order" = some "inf"
    ∧ (effectiveSettings (some [("max_iterations", "7")])).lookup "max_iterations" = some "7"
    ∧ (effectiveSettings none).lookup "func_tolerance" = none := by decide


end Glue

end IrisVerif.C06
