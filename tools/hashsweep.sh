#!/bin/bash
# hashsweep.sh <hashseeds> <verifseeds> [props...]: quick tier under other string-hash seeds / generator seeds (soundness sweep)
cd /verif
hs="$1"; vs="$2"; shift 2
props="${@:-C01 C02 C03 C04 C05 C06 C07 C08 C09 C10 C11 C12 C13 C14 C15 C16 C17 C18 C19 C20}"
for h in $hs; do for s in $vs; do for p in $props; do
  out=$(PYTHONHASHSEED=$h VERIF_SEED=$s VERIF_EVIDENCE_DIR=/tmp/hs-evidence ./check $p 2>&1); rc=$?
  echo "$p hash=$h seed=$s rc=$rc $(echo "$out" | tail -1)"
  [ $rc -ne 0 ] && echo "$out" | grep -a "VIOLATION\|INTERNAL" | head -3
done; done; done
