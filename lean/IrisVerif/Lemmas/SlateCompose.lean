/-
Helper lemmas for the composed dataslate theorem of property C19.
-/
import IrisVerif.Model.Dataslate
import IrisVerif.Lemmas.GridRoundTrip
namespace IrisVerif.Dataslate
open IrisVerif.Databox
open IrisVerif.Dates (Err R)

theorem mapM_ok_inv {α β : Type} (f : α → R β) (l : List α) (ys : List β) (h : l.mapM f = .ok ys) :
    ys.length = l.length ∧ ∀ (i : Nat) (x : α), l[i]? = some x → ∃ y, ys[i]? = some y ∧ f x = .ok y := by
  induction l generalizing ys with
  | nil =>
    simp [List.mapM_nil, pure, Except.pure] at h
    subst h
    exact ⟨rfl, by intro i x hx; simp at hx⟩
  | cons a l ih =>
    rw [List.mapM_cons] at h
    cases hfa : f a with
    | error e => simp [hfa, bind, Except.bind] at h
    | ok y0 =>
      cases hl : l.mapM f with
      | error e => simp [hfa, hl, bind, Except.bind] at h
      | ok ys' =>
        simp [hfa, hl, bind, Except.bind, pure, Except.pure] at h
        subst h
        obtain ⟨hlen, hget⟩ := ih ys' hl
        refine ⟨by simp [hlen], ?_⟩
        intro i x hx
        cases i with
        | zero => simp at hx; subst hx; exact ⟨y0, by simp, hfa⟩
        | succ j => simp at hx; obtain ⟨y, hy, hf⟩ := hget j x hx; exact ⟨y, by simpa using hy, hf⟩

theorem lookup_zip_range {β : Type} (names : List String) (a : Nat) (G : Nat → β) (n : String) (hn : n ∈ names) :
    ∃ k, names[k]? = some n ∧
      lookup (((List.range' a names.length).zip names).map (fun (qn : Nat × String) => (qn.2, G qn.1))) n = some (G (a + k)) := by
  induction names generalizing a with
  | nil => simp at hn
  | cons m ms ih =>
    simp only [List.length_cons, List.range'_succ, List.zip_cons_cons, List.map_cons, lookup]
    by_cases hm : m = n
    · exact ⟨0, by simp [hm], by simp [hm]⟩
    · have hn' : n ∈ ms := by
        rcases List.mem_cons.mp hn with h | h
        · exact absurd h.symm hm
        · exact h
      obtain ⟨k, hk, hl⟩ := ih (a + 1) hn'
      refine ⟨k + 1, by simpa using hk, ?_⟩
      simp only [hm, if_false]
      rw [hl]
      congr 2
      omega


end IrisVerif.Dataslate
