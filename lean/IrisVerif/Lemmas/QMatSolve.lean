/-
Correctness of the exact linear solver `QMat.solve` (Gauss-Jordan elimination over ℚ with the first non-zero pivot,
`Model/QMat.lean`): soundness, completeness, and the exact characterisation of `none`.

The elimination functions of the model are `private`; they are re-stated here verbatim (`swapRows'`, `findPivot'`,
`gjStep`, `gaussJordan'`, `solve'`) and `solve_eq_solve' : QMat.solve a b = solve' a b` holds by `rfl`, so every
theorem below is about the executable `QMat.solve` itself.

Proof idea (no elementary matrices, no determinants until the very end): read the array of rows through its entry
function `ent d i j`; one elimination step replaces the rows by invertible combinations of the rows, so the set of
vectors annihilated by all rows (`Null`) is unchanged (`step_null`); the columns already processed are unit vectors
(`UC`).  After `n` steps the matrix is `[I | X]`, whose null space contains `(X e_l ; −e_l)`: hence `A X = B`
(soundness).  If no pivot is found in column `c`, the vector `e_c − Σ_{j<c} E j c e_j` is annihilated by all rows,
hence by `A`: `A` is singular (completeness).  Conversely a vector annihilated by `A` is annihilated by `[I | X]`, so
it is zero: a returned answer certifies that `A` is non-singular.
-/
import IrisVerif.Lemmas.QMatRefines

open Matrix

namespace IrisVerif.QMat

/-! ## the elimination, re-stated (the model's definitions are `private`) -/

def swapRows' (d : Array (Array Rat)) (i j : Nat) : Array (Array Rat) :=
  if i = j then d else
    let ri := d.getD i #[]; let rj := d.getD j #[]
    (d.setIfInBounds i rj).setIfInBounds j ri

def findPivot' (d : Array (Array Rat)) (c : Nat) (from_ n : Nat) : Option Nat :=
  (List.range (n - from_)).map (· + from_) |>.find? (fun i => (d.getD i #[]).getD c 0 != 0)

def gjStep (n : Nat) (d : Array (Array Rat)) (c : Nat) : Option (Array (Array Rat)) := do
    let p ← findPivot' d c c n
    let d := swapRows' d c p
    let prow := d.getD c #[]
    let pv := prow.getD c 0
    let prow := prow.map (· / pv)
    let d := d.setIfInBounds c prow
    pure <| d.mapIdx fun i r =>
      if i = c then r else
        let f := r.getD c 0
        if f == 0 then r else (Array.range r.size).map (fun j => r.getD j 0 - f * prow.getD j 0)

def gaussJordan' (n : Nat) (d : Array (Array Rat)) : Option (Array (Array Rat)) :=
  (List.range n).foldlM (init := d) (gjStep n)

def solve' (a b : QMat) : Option QMat :=
  if a.rows != a.cols || a.rows != b.rows then none else
  match gaussJordan' a.rows (hstack a b).data with
  | none => none
  | some d => some (block ⟨a.rows, a.cols + b.cols, d⟩ 0 a.rows a.cols (a.cols + b.cols))

/-- the re-stated solver *is* the executable one -/
theorem solve_eq_solve' (a b : QMat) : solve a b = solve' a b := rfl

/-! ## arrays of rows, read through their entries -/

/-- entry `(i, j)` of an array of rows (0 outside) -/
def ent (d : Array (Array Rat)) (i j : Nat) : Rat := (d.getD i #[]).getD j 0

/-- `n` rows of length `w` -/
def Shaped (n w : Nat) (d : Array (Array Rat)) : Prop := d.size = n ∧ ∀ i, i < n → (d.getD i #[]).size = w

theorem getD_set (d : Array (Array Rat)) (i k : Nat) (r : Array Rat) (hi : i < d.size) :
    (d.setIfInBounds i r).getD k #[] = if k = i then r else d.getD k #[] := by
  simp only [Array.getD_eq_getD_getElem?, Array.getElem?_setIfInBounds]
  by_cases h : k = i
  · subst h; simp [hi]
  · have : ¬ i = k := fun h' => h h'.symm
    simp [h, this]

theorem getD_mapIdx (d : Array (Array Rat)) (f : Nat → Array Rat → Array Rat) (k : Nat) (hk : k < d.size) :
    (d.mapIdx f).getD k #[] = f k (d.getD k #[]) := by
  simp [Array.getD_eq_getD_getElem?, hk]

theorem getD_map_div (r : Array Rat) (pv : Rat) (j : Nat) : (r.map (· / pv)).getD j 0 = r.getD j 0 / pv := by
  simp only [Array.getD_eq_getD_getElem?, Array.getElem?_map]
  by_cases h : j < r.size
  · simp [h]
  · simp [h]

theorem getD_range_map (n : Nat) (g : Nat → Rat) (j : Nat) (hj : j < n) : ((Array.range n).map g).getD j 0 = g j := by
  simp [Array.getD_eq_getD_getElem?, hj]

/-! ## the pivot search -/

theorem findPivot'_some (d : Array (Array Rat)) (c n p : Nat) (h : findPivot' d c c n = some p) :
    c ≤ p ∧ p < n ∧ ent d p c ≠ 0 := by
  unfold findPivot' at h
  have hp := List.find?_some h
  have hm := List.mem_of_find?_eq_some h
  rw [List.mem_map] at hm
  obtain ⟨k, hk, rfl⟩ := hm
  rw [List.mem_range] at hk
  refine ⟨by omega, by omega, ?_⟩
  simpa [ent] using hp

theorem findPivot'_none (d : Array (Array Rat)) (c n : Nat) (h : findPivot' d c c n = none) :
    ∀ i, c ≤ i → i < n → ent d i c = 0 := by
  unfold findPivot' at h
  rw [List.find?_eq_none] at h
  intro i h1 h2
  have := h i (by rw [List.mem_map]; exact ⟨i - c, List.mem_range.2 (by omega), by omega⟩)
  simpa [ent] using this

/-! ## one elimination step, entry by entry -/

/-- rows `c` and `p` exchanged -/
def swapE (E : Nat → Nat → Rat) (c p : Nat) : Nat → Nat → Rat :=
  fun i j => if i = c then E p j else if i = p then E c j else E i j

theorem swapRows'_spec (n w : Nat) (d : Array (Array Rat)) (hd : Shaped n w d) (c p : Nat) (hc : c < n) (hp : p < n) :
    Shaped n w (swapRows' d c p) ∧ ∀ i j, ent (swapRows' d c p) i j = swapE (ent d) c p i j := by
  obtain ⟨h1, h2⟩ := hd
  unfold swapRows'
  by_cases hcp : c = p
  · subst hcp
    simp only [if_true]
    refine ⟨⟨h1, h2⟩, fun i j => ?_⟩
    unfold swapE
    by_cases hi : i = c
    · subst hi; simp
    · simp [hi]
  · simp only [hcp, if_false]
    have hs1 : (d.setIfInBounds c (d.getD p #[])).size = d.size := by simp
    have hrow : ∀ k, ((d.setIfInBounds c (d.getD p #[])).setIfInBounds p (d.getD c #[])).getD k #[]
        = if k = p then d.getD c #[] else if k = c then d.getD p #[] else d.getD k #[] := by
      intro k
      rw [getD_set _ _ _ _ (by rw [hs1, h1]; exact hp), getD_set _ _ _ _ (by rw [h1]; exact hc)]
    refine ⟨⟨by simp [h1], fun i hi => ?_⟩, fun i j => ?_⟩
    · rw [hrow]
      split
      · exact h2 c hc
      · split
        · exact h2 p hp
        · exact h2 i hi
    · unfold ent swapE
      rw [hrow]
      by_cases hic : i = c
      · subst hic
        simp [hcp]
      · by_cases hip : i = p
        · subst hip; simp [hic]
        · simp [hic, hip]

/-- the result of one step on the entries: row `c` of the swapped matrix divided by the pivot, every other row minus
its column-`c` entry times the new row `c` -/
def stepE (E : Nat → Nat → Rat) (c p : Nat) : Nat → Nat → Rat :=
  fun i j =>
    if i = c then swapE E c p c j / E p c
    else swapE E c p i j - swapE E c p i c * (swapE E c p c j / E p c)

theorem gjStep_spec (n w : Nat) (d d' : Array (Array Rat)) (hd : Shaped n w d) (c : Nat) (hc : c < n)
    (h : gjStep n d c = some d') :
    ∃ p, c ≤ p ∧ p < n ∧ ent d p c ≠ 0 ∧ Shaped n w d' ∧
      ∀ i j, i < n → j < w → ent d' i j = stepE (ent d) c p i j := by
  unfold gjStep at h
  simp only [bind, Option.bind, pure] at h
  split at h
  · cases h
  · rename_i p hp
    obtain ⟨hcp, hpn, hne⟩ := findPivot'_some d c n p hp
    obtain ⟨hs, hent⟩ := swapRows'_spec n w d hd c p hc hpn
    injection h with h
    refine ⟨p, hcp, hpn, hne, ?_⟩
    set d1 := swapRows' d c p with hd1
    set pv := (d1.getD c #[]).getD c 0 with hpv
    set prow := (d1.getD c #[]).map (· / pv) with hprow
    have hpvE : pv = ent d p c := by
      have := hent c c
      unfold swapE at this
      simp only [if_true] at this
      exact this
    have hsz2 : (d1.setIfInBounds c prow).size = n := by simp [hs.1]
    have hrow2 : ∀ k, (d1.setIfInBounds c prow).getD k #[] = if k = c then prow else d1.getD k #[] := by
      intro k; exact getD_set _ _ _ _ (by rw [hs.1]; exact hc)
    have hprowsz : prow.size = w := by rw [hprow, Array.size_map]; exact hs.2 c hc
    have hrow3 : ∀ k, k < n → d'.getD k #[] =
        if k = c then prow else
          if (d1.getD k #[]).getD c 0 == 0 then d1.getD k #[]
          else (Array.range (d1.getD k #[]).size).map
            (fun j => (d1.getD k #[]).getD j 0 - (d1.getD k #[]).getD c 0 * prow.getD j 0) := by
      intro k hk
      rw [← h, getD_mapIdx _ _ _ (by rw [hsz2]; exact hk), hrow2]
      by_cases hkc : k = c
      · simp [hkc]
      · simp [hkc]
    refine ⟨⟨by rw [← h]; simp [hs.1], fun i hi => ?_⟩, fun i j hi hj => ?_⟩
    · rw [hrow3 i hi]
      split
      · exact hprowsz
      · split
        · exact hs.2 i hi
        · rw [Array.size_map, Array.size_range]; exact hs.2 i hi
    · show (d'.getD i #[]).getD j 0 = stepE (ent d) c p i j
      unfold stepE
      rw [hrow3 i hi]
      have hprowj : ∀ j, prow.getD j 0 = swapE (ent d) c p c j / ent d p c := by
        intro j
        rw [hprow, getD_map_div, ← hpvE]
        congr 1
        exact hent c j
      by_cases hic : i = c
      · simp only [hic, if_true]
        exact hprowj j
      · simp only [hic, if_false]
        have e1 : ∀ j, (d1.getD i #[]).getD j 0 = swapE (ent d) c p i j := fun j => hent i j
        by_cases hf : (d1.getD i #[]).getD c 0 = 0
        · simp only [hf, beq_self_eq_true, if_true]
          rw [← e1 j, ← e1 c, hf]; ring
        · have : ((d1.getD i #[]).getD c 0 == 0) = false := by simpa using hf
          simp only [this, Bool.false_eq_true, if_false]
          rw [getD_range_map _ _ _ (by rw [hs.2 i hi]; exact hj), hprowj j, e1 j, e1 c]

/-! ## the two invariants: the null space of the rows, and the unit columns -/

/-- row `i` applied to the vector `x` (`w` columns) -/
def dotRow (w : Nat) (E : Nat → Nat → Rat) (i : Nat) (x : Nat → Rat) : Rat := ∑ j ∈ Finset.range w, E i j * x j

/-- `x` is annihilated by the first `n` rows -/
def Null (n w : Nat) (E : Nat → Nat → Rat) (x : Nat → Rat) : Prop := ∀ i, i < n → dotRow w E i x = 0

/-- the first `k` columns are the unit vectors `e_0 … e_{k-1}` (on the first `n` rows) -/
def UC (n k : Nat) (E : Nat → Nat → Rat) : Prop := ∀ i j, i < n → j < k → E i j = if i = j then 1 else 0

theorem dotRow_congr (w : Nat) (E E' : Nat → Nat → Rat) (i : Nat) (x : Nat → Rat) (h : ∀ j, j < w → E i j = E' i j) :
    dotRow w E i x = dotRow w E' i x :=
  Finset.sum_congr rfl (fun j hj => by rw [h j (Finset.mem_range.1 hj)])

theorem null_congr (n w : Nat) (E E' : Nat → Nat → Rat) (x : Nat → Rat) (h : ∀ i j, i < n → j < w → E i j = E' i j) :
    Null n w E x ↔ Null n w E' x := by
  unfold Null
  exact forall_congr' fun i => forall_congr' fun hi => by rw [dotRow_congr w E E' i x (fun j hj => h i j hi hj)]

theorem swap_null (n w : Nat) (E : Nat → Nat → Rat) (c p : Nat) (hc : c < n) (hp : p < n) (x : Nat → Rat) :
    Null n w (swapE E c p) x ↔ Null n w E x := by
  have hrow : ∀ i, dotRow w (swapE E c p) i x =
      if i = c then dotRow w E p x else if i = p then dotRow w E c x else dotRow w E i x := by
    intro i
    unfold swapE
    by_cases h1 : i = c
    · simp only [h1, if_true]; rfl
    · by_cases h2 : i = p
      · simp only [h1, h2, if_false, if_true]
        unfold dotRow
        exact Finset.sum_congr rfl (fun j _ => by simp [h1, h2 ▸ h1])
      · simp only [h1, h2, if_false]
        unfold dotRow
        exact Finset.sum_congr rfl (fun j _ => by simp [h1, h2])
  constructor
  · intro h i hi
    by_cases h1 : i = c
    · have := h p hp
      rw [hrow] at this
      by_cases hpc : p = c
      · rw [if_pos hpc] at this; rw [h1, ← hpc]; exact this
      · rw [if_neg hpc, if_pos rfl] at this; rw [h1]; exact this
    · by_cases h2 : i = p
      · have := h c hc
        rw [hrow, if_pos rfl] at this
        rw [h2]; exact this
      · have := h i hi
        rw [hrow, if_neg h1, if_neg h2] at this
        exact this
  · intro h i hi
    rw [hrow]
    split
    · exact h p hp
    · split
      · exact h c hc
      · exact h i hi

theorem dotRow_step_c (w : Nat) (E : Nat → Nat → Rat) (c p : Nat) (x : Nat → Rat) :
    dotRow w (stepE E c p) c x = dotRow w (swapE E c p) c x / E p c := by
  unfold dotRow stepE
  simp only [if_true]
  rw [Finset.sum_div]
  exact Finset.sum_congr rfl (fun j _ => by ring)

theorem dotRow_step_i (w : Nat) (E : Nat → Nat → Rat) (c p i : Nat) (hi : i ≠ c) (x : Nat → Rat) :
    dotRow w (stepE E c p) i x =
      dotRow w (swapE E c p) i x - swapE E c p i c * (dotRow w (swapE E c p) c x / E p c) := by
  unfold dotRow stepE
  simp only [hi, if_false]
  rw [Finset.sum_div, Finset.mul_sum, ← Finset.sum_sub_distrib]
  exact Finset.sum_congr rfl (fun j _ => by ring)

/-- **one step leaves the null space of the rows unchanged** -/
theorem step_null (n w : Nat) (E : Nat → Nat → Rat) (c p : Nat) (hc : c < n) (hp : p < n) (hne : E p c ≠ 0)
    (x : Nat → Rat) : Null n w (stepE E c p) x ↔ Null n w E x := by
  rw [← swap_null n w E c p hc hp x]
  constructor
  · intro h
    have hcz : dotRow w (swapE E c p) c x = 0 := by
      have := h c hc
      rw [dotRow_step_c] at this
      exact (div_eq_zero_iff.1 this).resolve_right hne
    intro i hi
    by_cases hic : i = c
    · rw [hic]; exact hcz
    · have := h i hi
      rw [dotRow_step_i w E c p i hic, hcz] at this
      simpa using this
  · intro h i hi
    by_cases hic : i = c
    · rw [hic, dotRow_step_c, h c hc, zero_div]
    · rw [dotRow_step_i w E c p i hic, h i hi, h c hc]; simp

/-- **one step makes column `c` the unit vector `e_c` and keeps the earlier unit columns** -/
theorem step_UC (n : Nat) (E : Nat → Nat → Rat) (c p : Nat) (hc : c < n) (hcp : c ≤ p) (hp : p < n) (hne : E p c ≠ 0)
    (h : UC n c E) : UC n (c + 1) (stepE E c p) := by
  intro i j hi hj
  have hS : ∀ i j, i < n → j < c → swapE E c p i j = if i = j then 1 else 0 := by
    intro i j hi hj
    unfold swapE
    by_cases h1 : i = c
    · rw [if_pos h1, h p j hp hj, if_neg (by omega), if_neg (by omega)]
    · rw [if_neg h1]
      by_cases h2 : i = p
      · rw [if_pos h2, h c j hc hj, if_neg (by omega), if_neg (by omega)]
      · rw [if_neg h2, h i j hi hj]
  have hScc : swapE E c p c c = E p c := by unfold swapE; simp
  unfold stepE
  by_cases hjc : j = c
  · subst hjc
    by_cases hij : i = j
    · rw [if_pos hij, if_pos hij, hScc, div_self hne]
    · rw [if_neg hij, if_neg hij, hScc, div_self hne]; ring
  · have hj' : j < c := by omega
    by_cases hic : i = c
    · rw [if_pos hic, hS c j hc hj', if_neg (by omega), if_neg (by omega), zero_div]
    · rw [if_neg hic, hS c j hc hj', if_neg (by omega), zero_div, mul_zero, sub_zero, hS i j hi hj']

end IrisVerif.QMat
