/-
Helper lemmas for property C19: the two state machines of the CSV importer (`scan` = `_block_iterator`,
`colScan` = `column_iterator`) run on what the exporter writes, and `Series.trim()` on padded rows.
-/
import IrisVerif.Model.Grid

namespace IrisVerif.Grid
open IrisVerif.Databox

/-! scan -/
theorem scan_body (f : BFreq) (dc : Nat) (body : List String) (hb : ∀ c ∈ body, isEnd c = false) (col : Nat) (tl : List String) :
    scan (some (f, dc)) col (body ++ tl) = scan (some (f, dc)) (col + body.length) tl := by
  induction body generalizing col with
  | nil => simp
  | cons c rest ih =>
    have hc : isEnd c = false := hb c (by simp)
    have hr : ∀ c ∈ rest, isEnd c = false := fun x hx => hb x (List.mem_cons_of_mem _ hx)
    simp only [List.cons_append, scan, hc]
    simp only [Bool.false_eq_true, if_false, List.nil_append]
    rw [ih hr]
    simp only [List.length_cons]
    congr 1
    omega

theorem scan_end (f : BFreq) (dc col : Nat) (e : String) (he : isEnd e = true) (tl : List String) :
    scan (some (f, dc)) col (e :: tl) = ⟨f, dc, col - (dc + 1)⟩ :: scan none col (e :: tl) := by
  simp [scan, he]

def shiftBlock (w : Nat) (b : RawBlock) : RawBlock := { b with dateCol := b.dateCol + w }

theorem scan_shift (w : Nat) (st : Option (BFreq × Nat)) (col : Nat) (cells : List String) :
    scan (st.map (fun s => (s.1, s.2 + w))) (col + w) cells = (scan st col cells).map (shiftBlock w) := by
  induction cells generalizing st col with
  | nil => simp [scan]
  | cons c rest ih =>
    cases st with
    | none =>
      simp only [Option.map_none, scan, List.nil_append]
      cases hs : startFreq c with
      | none =>
        have := ih none (col + 1)
        simp only [Option.map_none] at this
        simp only [Option.map_none]
        rw [← this]; congr 1; omega
      | some g =>
        have := ih (some (g, col)) (col + 1)
        simp only [Option.map_some] at this
        simp only [Option.map_some]
        rw [← this]; congr 1; omega
    | some s =>
      obtain ⟨f, dc⟩ := s
      simp only [Option.map_some, scan]
      by_cases he : isEnd c = true
      · simp only [he, if_true, List.map_append, List.map_cons, List.map_nil]
        congr 1
        · simp [shiftBlock]; omega
        · cases hs : startFreq c with
          | none =>
            have := ih none (col + 1)
            simp only [Option.map_none] at this
            simp only [Option.map_none]
            rw [← this]; congr 1; omega
          | some g =>
            have := ih (some (g, col)) (col + 1)
            simp only [Option.map_some] at this
            simp only [Option.map_some]
            rw [← this]; congr 1; omega
      · simp only [he, Bool.false_eq_true, if_false, List.nil_append]
        have := ih (some (f, dc)) (col + 1)
        simp only [Option.map_some] at this
        rw [← this]; congr 1; omega

section
variable {V : Type}

/-- what the block iterator should find: one raw block per exported block, at the cumulated widths -/
def rawOf (off : Nat) : List (Block V) → List RawBlock
  | [] => []
  | b :: bs => ⟨b.freq, off, b.width - 1⟩ :: rawOf (off + b.width) bs

def GoodNames (m : List (String × Ser V)) : Prop :=
  ∀ p ∈ m, isEnd p.1 = false ∧ p.1 ≠ "" ∧ p.1 ≠ "*" ∧ 1 ≤ p.2.nv

theorem starCont_length (x : String) (nv : Nat) (h : 1 ≤ nv) : (starCont x nv).length = nv := by
  simp [starCont]; omega

theorem nameCells_length (m : List (String × Ser V)) (h : GoodNames m) :
    (m.flatMap (fun p => starCont p.1 p.2.nv)).length = (m.map (fun p => p.2.nv)).sum := by
  induction m with
  | nil => rfl
  | cons p rest ih =>
    have hp := h p (by simp)
    have hr : GoodNames rest := fun q hq => h q (List.mem_cons_of_mem _ hq)
    simp [List.flatMap_cons, starCont_length _ _ hp.2.2.2, ih hr]

theorem nameCells_notEnd (m : List (String × Ser V)) (h : GoodNames m) :
    ∀ c ∈ m.flatMap (fun p => starCont p.1 p.2.nv) ++ [""], isEnd c = false := by
  intro c hc
  simp only [List.mem_append, List.mem_flatMap, List.mem_singleton] at hc
  rcases hc with ⟨p, hp, hc⟩ | rfl
  · simp only [starCont, List.mem_cons, List.mem_replicate] at hc
    rcases hc with rfl | ⟨_, rfl⟩
    · exact (h p hp).1
    · decide
  · decide

theorem startFreq_mark (f : BFreq) : startFreq (mark f) = some f := by cases f <;> decide
theorem isEnd_mark (f : BFreq) : isEnd (mark f) = true := by cases f <;> decide

theorem tail_head_end (bs : List (Block V)) :
    ∃ e tl, bs.flatMap Block.nameRow ++ ["__"] = e :: tl ∧ isEnd e = true := by
  cases bs with
  | nil => exact ⟨"__", [], rfl, by decide⟩
  | cons b rest =>
    refine ⟨mark b.freq, (b.members.flatMap (fun p => starCont p.1 p.2.nv) ++ [""]) ++ (rest.flatMap Block.nameRow ++ ["__"]), ?_, isEnd_mark _⟩
    simp [List.flatMap_cons, Block.nameRow]

theorem scan_export (Bs : List (Block V)) (h : ∀ b ∈ Bs, GoodNames b.members) (off : Nat) :
    scan none off (Bs.flatMap Block.nameRow ++ ["__"]) = rawOf off Bs := by
  induction Bs generalizing off with
  | nil =>
    simp [scan, rawOf]
  | cons b bs ih =>
    have hb := h b (by simp)
    have hbs : ∀ b ∈ bs, GoodNames b.members := fun x hx => h x (List.mem_cons_of_mem _ hx)
    obtain ⟨e, tl, htl, he⟩ := tail_head_end bs
    have hlen : (b.members.flatMap (fun p => starCont p.1 p.2.nv) ++ [""]).length = b.width - 1 := by
      simp [nameCells_length _ hb, Block.width]; omega
    have hw : 1 ≤ b.width := by simp [Block.width]
    simp only [List.flatMap_cons, Block.nameRow, List.cons_append, List.append_assoc]
    rw [scan]
    simp only [List.nil_append, startFreq_mark, Option.map_some]
    have e0 : b.members.flatMap (fun p => starCont p.1 p.2.nv) ++ "" :: (bs.flatMap Block.nameRow ++ ["__"])
        = (b.members.flatMap (fun p => starCont p.1 p.2.nv) ++ [""]) ++ (bs.flatMap Block.nameRow ++ ["__"]) := by simp
    rw [e0, scan_body _ _ _ (nameCells_notEnd _ hb), hlen, htl, scan_end _ _ _ _ he, ← htl, rawOf]
    have e1 : off + 1 + (b.width - 1) = off + b.width := by omega
    rw [e1, ih hbs]
    congr 1
    congr 1
    omega


end


theorem colScan_stars (cs : ColSpec) (k i : Nat) (tl : List (String × String)) :
    colScan (some cs) i (List.replicate k ("*", "*") ++ tl) = colScan (some { cs with count := cs.count + k }) (i + k) tl := by
  induction k generalizing cs i with
  | zero => simp
  | succ k ih =>
    simp only [List.replicate_succ, List.cons_append, colScan]
    simp only [ne_eq, not_true_eq_false, if_false, if_true, List.nil_append]
    rw [ih]
    simp only [Nat.add_assoc, Nat.add_comm 1 k]

theorem colScan_close (cs : ColSpec) (i : Nat) (n d : String) (hn : n ≠ "*") (tl : List (String × String)) :
    colScan (some cs) i ((n, d) :: tl) = cs :: colScan none i ((n, d) :: tl) := by
  simp [colScan, hn]

theorem colScan_open (i : Nat) (n d : String) (h1 : n ≠ "") (h2 : n ≠ "*") (tl : List (String × String)) :
    colScan none i ((n, d) :: tl) = colScan (some ⟨i, 1, n, d⟩) (i + 1) tl := by
  simp [colScan, h1, h2]

section
variable {V : Type}

def colsOf (off : Nat) : List (String × Ser V) → List ColSpec
  | [] => []
  | p :: ps => ⟨off, p.2.nv, p.1, p.2.desc⟩ :: colsOf (off + p.2.nv) ps

def pairCells (p : String × Ser V) : List (String × String) :=
  (p.1, p.2.desc) :: List.replicate (p.2.nv - 1) ("*", "*")

theorem pair_head_not_star (ps : List (String × Ser V)) (h : GoodNames ps) (z : List (String × String)) :
    ∃ n d tl, ps.flatMap pairCells ++ ("", "") :: z = (n, d) :: tl ∧ n ≠ "*" := by
  cases ps with
  | nil => exact ⟨"", "", z, rfl, by decide⟩
  | cons q rest =>
    exact ⟨q.1, q.2.desc, List.replicate (q.2.nv - 1) ("*", "*") ++ (rest.flatMap pairCells ++ ("", "") :: z),
      by simp [List.flatMap_cons, pairCells], (h q (by simp)).2.2.1⟩

theorem colScan_export (m : List (String × Ser V)) (h : GoodNames m) (off : Nat) :
    colScan none off (m.flatMap pairCells ++ [("", ""), ("", "")]) = colsOf off m := by
  induction m generalizing off with
  | nil => simp [colScan, colsOf]
  | cons p ps ih =>
    have hp := h p (by simp)
    have hps : GoodNames ps := fun q hq => h q (List.mem_cons_of_mem _ hq)
    obtain ⟨n, d, tl, htl, hn⟩ := pair_head_not_star ps hps [("", "")]
    simp only [List.flatMap_cons, pairCells, List.cons_append, List.append_assoc]
    rw [colScan_open _ _ _ hp.2.1 hp.2.2.1, colScan_stars, htl, colScan_close _ _ _ _ hn, ← htl, colsOf]
    have e1 : off + 1 + (p.2.nv - 1) = off + p.2.nv := by have := hp.2.2.2; omega
    rw [e1, ih hps]
    congr 1
    simp
    have := hp.2.2.2; omega

theorem zip_starCont (x y : String) (nv : Nat) :
    (starCont x nv).zip (starCont y nv) = (x, y) :: List.replicate (nv - 1) ("*", "*") := by
  simp [starCont]

theorem zip_flatMap_starCont (m : List (String × Ser V)) (a b : List String) :
    (m.flatMap (fun p => starCont p.1 p.2.nv) ++ a).zip (m.flatMap (fun p => starCont p.2.desc p.2.nv) ++ b)
      = m.flatMap pairCells ++ a.zip b := by
  induction m with
  | nil => simp
  | cons p ps ih =>
    simp only [List.flatMap_cons, List.append_assoc]
    rw [List.zip_append (by simp [starCont]), ih, zip_starCont]
    rfl


end

/-- `Series` invariant after `trim()`: there is data and the first and last rows hold an observation -/
def Trimmed {V : Type} (s : Ser V) : Prop :=
  (∃ r, s.rows.head? = some r ∧ allNan r = false) ∧ (∃ l, s.rows.getLast? = some l ∧ allNan l = false)

theorem dropWhile_of_head {α : Type} (p : α → Bool) (l : List α) (r : α) (hr : l.head? = some r) (h : p r = false) :
    l.dropWhile p = l := by
  cases l with
  | nil => rfl
  | cons a t => simp at hr; subst hr; simp [List.dropWhile, h]

theorem takeWhile_of_head {α : Type} (p : α → Bool) (l : List α) (r : α) (hr : l.head? = some r) (h : p r = false) :
    l.takeWhile p = [] := by
  cases l with
  | nil => rfl
  | cons a t => simp at hr; subst hr; simp [List.takeWhile, h]

theorem allNan_nanRow {V : Type} (nv : Nat) : allNan (nanRow nv : List (Option V)) = true := by
  simp [allNan, nanRow]

theorem takeWhile_replicate_append {α : Type} (p : α → Bool) (x : α) (hx : p x = true) (a : Nat) (l : List α) :
    (List.replicate a x ++ l).takeWhile p = List.replicate a x ++ l.takeWhile p := by
  induction a with
  | zero => simp
  | succ a ih => simp [List.replicate_succ, List.takeWhile_cons, hx, ih]

theorem dropWhile_replicate_append {α : Type} (p : α → Bool) (x : α) (hx : p x = true) (a : Nat) (l : List α) :
    (List.replicate a x ++ l).dropWhile p = l.dropWhile p := by
  induction a with
  | zero => simp
  | succ a ih => simp [List.replicate_succ, List.dropWhile_cons, hx, ih]



/-! ### the grid actually exported: first row and header slices -/

theorem zipRowsN_cons (R : Nat) (Bs : List (List String × List (List String))) :
    zipRowsN (R + 1) (Bs.map (fun b => b.1 :: b.2)) = (Bs.flatMap (·.1)) :: zipRowsN R (Bs.map (·.2)) := by
  induction Bs with
  | nil => simp [zipRowsN, List.replicate_succ]
  | cons b bs ih => simp [zipRowsN, ih]

section
variable {V : Type}

def Block.tailRows (c : Codec V) (descRow : Bool) (total : Nat) (b : Block V) : List (List String) :=
  (if descRow then [b.descRow] else []) ++ b.periods.map (b.dataRow c) ++ List.replicate (total - b.periods.length) b.emptyRow

theorem rows_eq (c : Codec V) (d : Bool) (total : Nat) (b : Block V) :
    b.rows c d total = b.nameRow :: b.tailRows c d total := by
  simp [Block.rows, Block.tailRows]

/-- the first row of the zipped grid is the concatenation of the blocks' name rows -/
theorem zipRows_nameRow (c : Codec V) (d : Bool) (total R : Nat) (Bs : List (Block V)) :
    zipRowsN (R + 1) (Bs.map (Block.rows c d total))
      = Bs.flatMap Block.nameRow :: zipRowsN R (Bs.map (Block.tailRows c d total)) := by
  induction Bs with
  | nil => simp [zipRowsN, List.replicate_succ]
  | cons b bs ih => simp [zipRowsN, ih, rows_eq]

theorem goodNames_withFreq (ss : List (String × Ser V)) (h : GoodNames ss) (f : BFreq) : GoodNames (withFreq ss f) :=
  fun p hp => h p (List.mem_filter.mp hp).1

theorem goodNames_exportBlocksWith (fs : FSpan) (ss : List (String × Ser V)) (h : GoodNames ss) :
    ∀ b ∈ exportBlocksWith fs ss, GoodNames b.members := by
  intro b hb
  unfold exportBlocksWith at hb
  obtain ⟨e, _, he⟩ := List.mem_filterMap.mp hb
  dsimp only at he
  split at he
  · simp at he
  · simp only [Option.some.injEq] at he
    subst he
    exact goodNames_withFreq ss h e.1

/-- the name row of the grid actually exported (any frequency-span selection) -/
theorem exportGridWith_nameRow (c : Codec V) (d : Bool) (fs : FSpan) (db : Box (Ser V) V)
    (hne : (exportBlocksWith fs (seriesOf db)).isEmpty = false) :
    ∃ rest, exportGridWith c d fs db = (exportBlocksWith fs (seriesOf db)).flatMap Block.nameRow :: rest := by
  unfold exportGridWith
  simp only [hne, Bool.false_eq_true, if_false]
  have : headerRows d + totalRowsWith fs (seriesOf db) = (headerRows d - 1 + totalRowsWith fs (seriesOf db)) + 1 := by
    cases d <;> simp [headerRows] <;> omega
  rw [this, zipRows_nameRow]
  exact ⟨_, rfl⟩

theorem slice_at (f : BFreq) (pre : List String) (x : String) (body post : List String) :
    sliceRow ⟨f, pre.length, body.length⟩ (pre ++ x :: (body ++ post)) = body
      ∧ dateCell ⟨f, pre.length, body.length⟩ (pre ++ x :: (body ++ post)) = x := by
  constructor
  · have e : pre ++ x :: (body ++ post) = (pre ++ [x]) ++ (body ++ post) := by simp
    have l : (pre ++ [x]).length = pre.length + 1 := by simp
    simp only [sliceRow]
    rw [e, ← l, List.drop_left]
    simp
  · simp [dateCell, List.getD_eq_getElem?_getD]

theorem descCells_length (m : List (String × Ser V)) (h : GoodNames m) :
    (m.flatMap (fun p => starCont p.2.desc p.2.nv)).length = (m.map (fun p => p.2.nv)).sum := by
  induction m with
  | nil => rfl
  | cons p rest ih =>
    have hp := h p (by simp)
    have hr : GoodNames rest := fun q hq => h q (List.mem_cons_of_mem _ hq)
    simp [List.flatMap_cons, starCont_length _ _ hp.2.2.2, ih hr]

theorem nameRow_length (b : Block V) (h : GoodNames b.members) : b.nameRow.length = b.width := by
  simp [Block.nameRow, Block.width, nameCells_length _ h]; omega

theorem descRow_length (b : Block V) (h : GoodNames b.members) : b.descRow.length = b.width := by
  simp [Block.descRow, Block.width, descCells_length _ h]; omega

theorem flatMap_rows_length (Bs : List (Block V)) (h : ∀ b ∈ Bs, GoodNames b.members) :
    (Bs.flatMap Block.descRow).length = (Bs.flatMap Block.nameRow).length := by
  induction Bs with
  | nil => rfl
  | cons b bs ih =>
    simp only [List.flatMap_cons, List.length_append]
    rw [ih (fun x hx => h x (List.mem_cons_of_mem _ hx)), nameRow_length b (h b (by simp)), descRow_length b (h b (by simp))]

/-- on the concatenated header rows, the slice of the block at its own offset is that block's own cells -/
theorem header_slices (B1 B2 : List (Block V)) (b : Block V) (h : ∀ x ∈ B1 ++ b :: B2, GoodNames x.members) :
    let raw : RawBlock := ⟨b.freq, (B1.flatMap Block.nameRow).length, b.width - 1⟩
    sliceRow raw ((B1 ++ b :: B2).flatMap Block.nameRow) = b.members.flatMap (fun p => starCont p.1 p.2.nv) ++ [""]
      ∧ sliceRow raw ((B1 ++ b :: B2).flatMap Block.descRow) = b.members.flatMap (fun p => starCont p.2.desc p.2.nv) ++ [""] := by
  have hb : GoodNames b.members := h b (by simp)
  have h1 : ∀ x ∈ B1, GoodNames x.members := fun x hx => h x (by simp [hx])
  have ln : (b.members.flatMap (fun p => starCont p.1 p.2.nv) ++ [""]).length = b.width - 1 := by
    simp [nameCells_length _ hb, Block.width]; omega
  have ld : (b.members.flatMap (fun p => starCont p.2.desc p.2.nv) ++ [""]).length = b.width - 1 := by
    simp [descCells_length _ hb, Block.width]; omega
  constructor
  · have := (slice_at b.freq (B1.flatMap Block.nameRow) (mark b.freq)
      (b.members.flatMap (fun p => starCont p.1 p.2.nv) ++ [""]) (B2.flatMap Block.nameRow)).1
    rw [ln] at this
    simpa [List.flatMap_append, Block.nameRow] using this
  · have := (slice_at b.freq (B1.flatMap Block.descRow) ""
      (b.members.flatMap (fun p => starCont p.2.desc p.2.nv) ++ [""]) (B2.flatMap Block.descRow)).1
    rw [ld, flatMap_rows_length B1 h1] at this
    simpa [List.flatMap_append, Block.descRow] using this

end

end IrisVerif.Grid
