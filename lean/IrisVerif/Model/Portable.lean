/-
Portable codec (format 0.3.0) of `Simultaneous` models, as structured data (C20).  No Mathlib.

Modelled (irispie `quantities.py`, `equations.py`, `simultaneous/_flags.py`, `contexts.py`,
`simultaneous/_variants.py: to_portable`, `simultaneous/main.py: to_portable / from_portable`), as the code is
INTENDED to work (pending fixes C20-portable-attributes / -flags / -anticipated):

* `_TO_PORTABLES` / `_FROM_PORTABLES` kind codes; std quantities have no code and are not exported (they are re-created
  by `from_source`);
* the export order: by kind in the order of the code table, within a kind by position;
* attributes: `None` and the empty set are both exported as no tokens; the tokens are the sorted attribute strings
  (the textual join/split by one blank is left to the correspondence run);
* equations: the steady version is exported as `None` when it equals the dynamic one and restored on import;
* flags: three booleans carried verbatim;
* context: the keys except `__builtins__`;
* variant values: a `name -> (level, change)` dictionary per variant, looked up by name on import.
-/
import IrisVerif.Model.Heap

namespace IrisVerif.Portable
open IrisVerif.Heap

def kindCode : QKind → Option String
  | .transVar => some "#x" | .measVar => some "#y" | .transShock => some "#u" | .antShock => some "#v"
  | .measShock => some "#w" | .param => some "#p" | .exog => some "#z" | .transStd => none | .measStd => none

def kindOfCode : String → Option QKind
  | "#x" => some .transVar | "#y" => some .measVar | "#u" => some .transShock | "#v" => some .antShock
  | "#w" => some .measShock | "#p" => some .param | "#z" => some .exog | _ => none

/-- the order of `_TO_PORTABLES.keys()` -/
def exportOrder : List QKind := [.transVar, .measVar, .transShock, .antShock, .measShock, .param, .exog]

structure PQuantity where
  code : String
  name : String
  logly : Option Bool
  desc : String
  attrs : List String
  deriving DecidableEq, Repr

def encodeQ (q : Quantity) : Option PQuantity :=
  (kindCode q.kind).map (fun c => ⟨c, q.name, q.logly, q.desc, q.attrs.getD []⟩)

def decodeQ (p : PQuantity) : Option Quantity :=
  (kindOfCode p.code).map (fun k => { name := p.name, kind := k, logly := p.logly, desc := p.desc, attrs := some p.attrs })

/-- `quantities.to_portable`: one pass per kind code -/
def encodeQs (qs : List Quantity) : List PQuantity :=
  exportOrder.flatMap (fun k => (qs.filter (fun q => q.kind = k)).filterMap encodeQ)

def ekindCode : EKind → String
  | .transition => "#T" | .measurement => "#M" | .autovalue => "#A"

def ekindOfCode : String → Option EKind
  | "#T" => some .transition | "#M" => some .measurement | "#A" => some .autovalue | _ => none

structure PEquation where
  code : String
  dynamic : String
  steady : Option String
  desc : String
  attrs : List String
  deriving DecidableEq, Repr

def encodeE (e : Equation) : PEquation :=
  ⟨ekindCode e.kind, e.dynamic, if e.steady ≠ e.dynamic then some e.steady else none, e.desc, e.attrs.getD []⟩

def decodeE (p : PEquation) : Option Equation :=
  (ekindOfCode p.code).map (fun k =>
    { kind := k, dynamic := p.dynamic, steady := p.steady.getD p.dynamic, desc := p.desc, attrs := some p.attrs })

def eexportOrder : List EKind := [.transition, .measurement, .autovalue]

def encodeEs (es : List Equation) : List PEquation :=
  eexportOrder.flatMap (fun k => (es.filter (fun e => e.kind = k)).map encodeE)

def encodeContext (keys : List String) : List String := keys.filter (· ≠ "__builtins__")

/-- `Variant.to_portable`: `{name: (level, change)}` over ALL quantities (std names included) -/
def encodeVariant (names : List String) (lv cv : List Val) : List (String × Val × Val) :=
  names.zip (lv.zip cv)

def lookupName (d : List (String × Val × Val)) (n : String) : Option (Val × Val) :=
  match d with
  | [] => none
  | (k, v) :: rest => if k = n then some v else lookupName rest n

/-- import of one variant: the values of the names the new model has, looked up in the dictionary -/
def decodeVariant (names : List String) (d : List (String × Val × Val)) : List (Option (Val × Val)) :=
  names.map (lookupName d)

end IrisVerif.Portable
