"""
py2lean plugin for C17: closed-form fragments of the sequential simulator.

  explanatories/_transforms.py   LhsTransform*._LHS_PATTERN            -> lhs_<T>   (the transform itself, read off the pattern
                                                                                    that recognises the preparsed LHS text)
                                 LhsTransform*.create_eval_level_str   -> level_<T> (the f-string template, as an expression)
                                 _ALL_LHS_TRANSFORMS                   -> lhsTransforms (recognition order)
  explanatories/main.py          _create_eval_residual  body           -> residualBody
                                 _add_residual_to_rhs   suffix         -> rhsWithResidual
                                 Explanatory.simulate / exogenize      -> simulateSteps / exogenizeSteps (statement codes)
                                 _RESIDUAL_NAME_FORMAT                 -> residualNameFormat
  plans/transforms.py            PlanTransform*.eval_exogenized        -> plan_<T>
                                 PlanTransform.__init__ default shift  -> planDefaultShift
                                 _DEFAULT_NAME_FORMAT, CHOOSE_TRANSFORM_CLASS -> planNameFormats, planChoose

Everything is emitted over an abstract carrier `α` with `+ - * /`, the numerals that occur, and abstract unary `exp log`.
Anything that is not of the expected shape raises Untranslatable (the tie no longer checks).
"""
from __future__ import annotations
import ast, re

from py2lean import Source, ExprTr, Untranslatable, HEADER, strip_doc

TRANSFORMS_PY = "src/irispie/explanatories/_transforms.py"
EXPLANATORY_PY = "src/irispie/explanatories/main.py"
PLANS_PY = "src/irispie/plans/transforms.py"
SIMULATE_PY = "src/irispie/sequentials/_simulate.py"
SLATABLE_PY = "src/irispie/sequentials/_slatable_protocols.py"

CALLS = {"exp": ("fn", "exp"), "log": ("fn", "log"), "_np.exp": ("fn", "exp"), "_np.log": ("fn", "log")}

# statement codes of Explanatory.simulate / Explanatory.exogenize (interpreted by Model/Sequential.lean `runSteps`)
STEP_SET_LHS_VALUES = 0      # data[lhs_row, columns] = values
STEP_ZERO_RESIDUAL = 1       # data[residual_row, columns] = 0
STEP_SET_RES_EVAL = 2        # data[residual_row, columns] = self.eval_residual(data, columns, )
STEP_SET_LHS_LEVEL = 3       # data[lhs_row, columns] = self.eval_level(data, columns, )


def _numerals(node) -> set[int]:
    out = set()
    for n in ast.walk(node):
        if isinstance(n, ast.Constant) and isinstance(n.value, int) and not isinstance(n.value, bool):
            out.add(abs(n.value))
    return out


def _short(cls_name: str, prefix: str) -> str:
    if not cls_name.startswith(prefix):
        raise Untranslatable(f"class name {cls_name} does not start with {prefix}")
    return cls_name[len(prefix):]


def _render_template(node, subst: dict[str, str], where: str, wrapped: set[str]) -> str:
    """an f-string (or a bare name) whose fields are names in `subst` -> expression text.
    Names in `wrapped` are substituted textually by the code, so every occurrence must be the whole string or sit directly
    inside parentheses (otherwise the meaning would depend on the precedence of the inserted text)."""
    if isinstance(node, ast.Name):
        if node.id not in subst:
            raise Untranslatable(f"{where}: returns unknown name {node.id}")
        return subst[node.id]
    if not isinstance(node, ast.JoinedStr):
        raise Untranslatable(f"{where}: not an f-string")
    parts = []
    for v in node.values:
        if isinstance(v, ast.Constant) and isinstance(v.value, str):
            parts.append(("s", v.value))
        elif isinstance(v, ast.FormattedValue) and isinstance(v.value, ast.Name) and v.conversion == -1 and v.format_spec is None:
            if v.value.id not in subst:
                raise Untranslatable(f"{where}: unknown field {{{v.value.id}}}")
            parts.append(("f", v.value.id))
        else:
            raise Untranslatable(f"{where}: unsupported f-string part")
    for i, (k, x) in enumerate(parts):
        if k == "f" and x in wrapped:
            before = parts[i - 1][1] if i > 0 and parts[i - 1][0] == "s" else ""
            after = parts[i + 1][1] if i + 1 < len(parts) and parts[i + 1][0] == "s" else ""
            if not (before.endswith("(") and after.startswith(")")):
                raise Untranslatable(f"{where}: field {{{x}}} is inserted without enclosing parentheses")
    return "".join(x if k == "s" else f" {subst[x]} " for k, x in parts)


def _expr(text: str, names: dict[str, str], where: str):
    try:
        tree = ast.parse(text.strip(), mode="eval").body
    except SyntaxError as e:
        raise Untranslatable(f"{where}: `{text}` is not an expression: {e}")
    tr = ExprTr(names, CALLS, False, where)
    return tr.tr(tree), tree


def _pattern_to_expr(pat: str, where: str) -> tuple[str, int | None]:
    """regex that recognises the preparsed LHS text -> expression text over `cur`, `lag`; returns (text, lag shift or None)"""
    if pat.count(r"(\w+)") != 1:
        raise Untranslatable(f"{where}: pattern has no single (\\w+) group: {pat}")
    s = pat.replace(r"(\w+)", "\0CUR\0")
    shifts = set()

    def lagrepl(m):
        shifts.add(int(m.group(1)))
        return "\0LAG\0"
    s = re.sub(r"\\1\\\[(-?\d+)\\\]", lagrepl, s)
    if len(shifts) > 1:
        raise Untranslatable(f"{where}: several lag shifts in pattern {pat}")
    # un-escape regex literals; nothing else may remain
    out, i = [], 0
    while i < len(s):
        c = s[i]
        if c == "\\":
            if i + 1 < len(s) and s[i + 1] in "()*+-/[].":
                out.append(s[i + 1]); i += 2; continue
            raise Untranslatable(f"{where}: regex escape {s[i:i+2]!r} in pattern {pat}")
        if c in "[]{}?|^$+*.":
            raise Untranslatable(f"{where}: regex operator {c!r} in pattern {pat}")
        out.append(c); i += 1
    text = "".join(out).replace("\0CUR\0", "cur").replace("\0LAG\0", "lag")
    # cross-check: the original pattern matches the text it was turned into
    shift = next(iter(shifts)) if shifts else None
    probe = text.replace("cur", "zz9").replace("lag", f"zz9[{shift}]")
    m = re.fullmatch(pat, probe)
    if m is None or m.group(1) != "zz9":
        raise Untranslatable(f"{where}: derived text `{probe}` is not matched by its own pattern {pat}")
    return text, shift


def gen_explanatory(repo: str) -> str:
    src = Source(repo, TRANSFORMS_PY)
    main = Source(repo, EXPLANATORY_PY)
    plans = Source(repo, PLANS_PY)
    body: list[str] = []
    numerals: set[int] = set()

    # ---- _ALL_LHS_TRANSFORMS --------------------------------------------------------------
    node = src.find("_ALL_LHS_TRANSFORMS")
    if not (isinstance(node, ast.Tuple) and all(isinstance(e, ast.Name) for e in node.elts)):
        raise Untranslatable("_ALL_LHS_TRANSFORMS is not a tuple of class names")
    classes = [e.id for e in node.elts]
    shorts = [_short(c, "LhsTransform") for c in classes]
    body.append("/-- `_ALL_LHS_TRANSFORMS` in recognition order (class names without the `LhsTransform` prefix). -/")
    body.append("def lhsTransforms : List String := [" + ", ".join(f'"{s}"' for s in shorts) + "]\n")

    lhs_texts = {}
    for cls, short in zip(classes, shorts):
        where = f"{cls}"
        # the pattern
        pnode = src.find(cls, "_LHS_PATTERN")
        if not (isinstance(pnode, ast.Call) and pnode.args and isinstance(pnode.args[0], ast.Constant) and isinstance(pnode.args[0].value, str)):
            raise Untranslatable(f"{where}._LHS_PATTERN is not _re.compile(<literal>)")
        pat = pnode.args[0].value
        text, pshift = _pattern_to_expr(pat, where + "._LHS_PATTERN")
        lhs_texts[short] = text
        lean, tree = _expr(text, {"cur": "cur", "lag": "lag"}, where + "._LHS_PATTERN")
        numerals |= _numerals(tree)
        # the level template
        fn = src.find(cls, "create_eval_level_str")
        args = [a.arg for a in fn.args.posonlyargs + fn.args.args]
        if args != ["self", "lhs_token", "rhs_xtring"]:
            raise Untranslatable(f"{where}.create_eval_level_str: arguments {args}")
        stmts = strip_doc(fn.body)
        lshift = None
        subst = {"rhs_xtring": "rhs"}
        if len(stmts) == 2:
            st = stmts[0]
            ok = (isinstance(st, ast.Assign) and len(st.targets) == 1 and isinstance(st.targets[0], ast.Name)
                  and isinstance(st.value, ast.Call) and isinstance(st.value.func, ast.Attribute) and st.value.func.attr == "print_xtring"
                  and not st.value.args and isinstance(st.value.func.value, ast.Call)
                  and isinstance(st.value.func.value.func, ast.Attribute) and st.value.func.value.func.attr == "shifted"
                  and isinstance(st.value.func.value.func.value, ast.Name) and st.value.func.value.func.value.id == "lhs_token"
                  and len(st.value.func.value.args) == 1)
            if not ok:
                raise Untranslatable(f"{where}.create_eval_level_str: first statement is not `v = lhs_token.shifted(k).print_xtring()`")
            try:
                lshift = int(ast.literal_eval(st.value.func.value.args[0]))
            except Exception:
                raise Untranslatable(f"{where}.create_eval_level_str: shift is not a literal")
            subst[st.targets[0].id] = "lag"
            stmts = stmts[1:]
        if len(stmts) != 1 or not isinstance(stmts[0], ast.Return) or stmts[0].value is None:
            raise Untranslatable(f"{where}.create_eval_level_str: body is not [lag assignment;] return <f-string>")
        ltext = _render_template(stmts[0].value, subst, where + ".create_eval_level_str", {"rhs_xtring"})
        llean, ltree = _expr(ltext, {"lag": "lag", "rhs": "rhs"}, where + ".create_eval_level_str")
        numerals |= _numerals(ltree)
        uses_lag_level = any(isinstance(n, ast.Name) and n.id == "lag" for n in ast.walk(ltree))
        uses_lag_lhs = pshift is not None
        if uses_lag_level != uses_lag_lhs or (uses_lag_lhs and pshift != lshift):
            raise Untranslatable(f"{where}: lag in pattern ({pshift}) and lag in level template ({lshift}) differ")
        body.append(f"/-- `{cls}._LHS_PATTERN = {pat}`  i.e. the preparsed LHS text `{text}` -/")
        body.append(f"def lhs_{short} BINDERS (cur lag : α) : α := {lean}")
        body.append(f"/-- `{cls}.create_eval_level_str`: `{ltext.strip()}` -/")
        body.append(f"def level_{short} BINDERS (lag rhs : α) : α := {llean}")
        body.append(f"def lagShift_{short} : Option Int := {'none' if pshift is None else 'some (' + str(pshift) + ')'}\n")

    # ---- residual body, residual appended to the RHS ---------------------------------------------
    fn = main.find("Explanatory", "_create_eval_residual")
    bodies = [s for s in ast.walk(fn) if isinstance(s, ast.Assign) and len(s.targets) == 1
              and isinstance(s.targets[0], ast.Name) and s.targets[0].id == "body"]
    if len(bodies) != 1:
        raise Untranslatable("Explanatory._create_eval_residual: no single `body = ...`")
    rtext = _render_template(bodies[0].value, {"lhs_xtring": "lhs", "rhs_xtring": "rhs"}, "Explanatory._create_eval_residual", {"rhs_xtring"})
    rlean, rtree = _expr(rtext, {"lhs": "lhs", "rhs": "rhs"}, "Explanatory._create_eval_residual")
    numerals |= _numerals(rtree)
    # the LHS text is inserted without parentheses: check that with every recognised LHS text the parse is still <lhs> OP (rhs)
    for short, t in lhs_texts.items():
        whole = ast.parse(rtext.replace(" lhs ", t), mode="eval").body
        alone = ast.parse(t, mode="eval").body
        want = ast.parse(rtext.replace(" lhs ", "LHSMARK"), mode="eval").body

        class _Sub(ast.NodeTransformer):
            def visit_Name(self, n):
                return alone if n.id == "LHSMARK" else n
        if ast.dump(_Sub().visit(want)) != ast.dump(whole):
            raise Untranslatable(f"Explanatory._create_eval_residual: inserting the LHS text `{t}` changes the parse")
    body.append(f"/-- `Explanatory._create_eval_residual`: body `{rtext.strip()}` -/")
    body.append(f"def residualBody BINDERS (lhs rhs : α) : α := {rlean}")

    fn = main.find("Explanatory", "_add_residual_to_rhs")
    augs = [s for s in ast.walk(fn) if isinstance(s, ast.AugAssign) and isinstance(s.op, ast.Add)
            and isinstance(s.target, ast.Attribute) and s.target.attr == "_rhs_human"]
    if len(augs) != 1 or not isinstance(augs[0].value, ast.JoinedStr):
        raise Untranslatable("Explanatory._add_residual_to_rhs: no single `self._rhs_human += f\"...\"`")
    vals = augs[0].value.values
    ok = (len(vals) == 2 and isinstance(vals[0], ast.Constant) and isinstance(vals[1], ast.FormattedValue)
          and isinstance(vals[1].value, ast.Attribute) and vals[1].value.attr == "residual_name")
    if not ok:
        raise Untranslatable("Explanatory._add_residual_to_rhs: suffix is not f\"<op>{self.residual_name}\"")
    atext = " rhs " + vals[0].value + " res "
    alean, atree = _expr(atext, {"rhs": "rhs", "res": "res"}, "Explanatory._add_residual_to_rhs")
    if not (isinstance(atree, ast.BinOp) and isinstance(atree.op, (ast.Add, ast.Sub))):
        raise Untranslatable("Explanatory._add_residual_to_rhs: the residual is not added at additive precedence")
    body.append("/-- `Explanatory._add_residual_to_rhs`: the residual name is appended textually to the RHS (whose operators all bind")
    body.append("    at least as tightly as `+`, so the text means `(rhs) + res`). -/")
    body.append(f"def rhsWithResidual BINDERS (rhs res : α) : α := {alean}\n")

    node = main.find("_RESIDUAL_NAME_FORMAT")
    if not (isinstance(node, ast.Constant) and isinstance(node.value, str)):
        raise Untranslatable("_RESIDUAL_NAME_FORMAT is not a string literal")
    body.append(f'def residualNameFormat : String := "{node.value}"\n')

    # ---- Explanatory.simulate / exogenize as statement codes -----------------------------------
    def steps_of(method: str) -> list[int]:
        fn = main.find("Explanatory", method)
        rows = {}
        codes = []
        for st in strip_doc(fn.body):
            if isinstance(st, ast.Return):
                break
            if not isinstance(st, ast.Assign) or len(st.targets) != 1:
                raise Untranslatable(f"Explanatory.{method}: unsupported statement `{ast.unparse(st)[:60]}`")
            tgt, val = st.targets[0], st.value
            if isinstance(tgt, ast.Name):
                u = ast.unparse(val)
                if u == "self.lhs_qid":
                    rows[tgt.id] = "lhs"; continue
                if u == "self.residual_qid":
                    rows[tgt.id] = "res"; continue
                if tgt.id == "is_finite":
                    continue
                raise Untranslatable(f"Explanatory.{method}: unsupported binding `{ast.unparse(st)[:60]}`")
            ok = (isinstance(tgt, ast.Subscript) and isinstance(tgt.value, ast.Name) and tgt.value.id == "data"
                  and isinstance(tgt.slice, ast.Tuple) and len(tgt.slice.elts) == 2
                  and isinstance(tgt.slice.elts[0], ast.Name) and tgt.slice.elts[0].id in rows
                  and isinstance(tgt.slice.elts[1], ast.Name) and tgt.slice.elts[1].id == "columns")
            if not ok:
                raise Untranslatable(f"Explanatory.{method}: unsupported assignment target `{ast.unparse(tgt)}`")
            row = rows[tgt.slice.elts[0].id]
            u = ast.unparse(val).replace(" ", "")
            if row == "lhs" and u == "values":
                codes.append(STEP_SET_LHS_VALUES)
            elif row == "lhs" and u == "self.eval_level(data,columns)":
                codes.append(STEP_SET_LHS_LEVEL)
            elif row == "res" and u == "self.eval_residual(data,columns)":
                codes.append(STEP_SET_RES_EVAL)
            elif row == "res" and u in ("0", "0.0"):
                codes.append(STEP_ZERO_RESIDUAL)
            else:
                raise Untranslatable(f"Explanatory.{method}: unsupported assignment `{ast.unparse(st)[:80]}`")
        return codes
    body.append("/-- Statements of `Explanatory.simulate` / `Explanatory.exogenize` up to the `return`, as codes:")
    body.append("    0 `data[lhs_row, columns] = values`, 1 `data[residual_row, columns] = 0`,")
    body.append("    2 `data[residual_row, columns] = self.eval_residual(data, columns)`, 3 `data[lhs_row, columns] = self.eval_level(data, columns)`. -/")
    body.append(f"def simulateSteps : List Nat := {steps_of('simulate')}")
    body.append(f"def exogenizeSteps : List Nat := {steps_of('exogenize')}\n")

    # ---- plan transforms ---------------------------------------------------------------------------------
    node = plans.find("CHOOSE_TRANSFORM_CLASS")
    if not isinstance(node, ast.Dict):
        raise Untranslatable("CHOOSE_TRANSFORM_CLASS is not a dict literal")
    choose = []
    pclasses = []
    for k, v in zip(node.keys, node.values):
        if not (isinstance(k, ast.Constant) and (k.value is None or isinstance(k.value, str)) and isinstance(v, ast.Name)):
            raise Untranslatable("CHOOSE_TRANSFORM_CLASS entry shape")
        choose.append((k.value, _short(v.id, "PlanTransform")))
        if v.id not in pclasses:
            pclasses.append(v.id)
    init = plans.find("PlanTransform", "__init__")
    kw = {a.arg: d for a, d in zip(reversed(init.args.args), reversed(init.args.defaults))}
    if "shift" not in kw or "when_data" not in kw:
        raise Untranslatable("PlanTransform.__init__: no shift/when_data defaults")
    dshift = int(ast.literal_eval(kw["shift"]))
    body.append(f"def planDefaultShift : Int := {'(' + str(dshift) + ')' if dshift < 0 else dshift}")
    body.append("/-- `CHOOSE_TRANSFORM_CLASS`: keyword (\"\" stands for `None`) -> class (without the `PlanTransform` prefix). -/")
    body.append("def planChoose : List (String × String) := [" + ", ".join(f'("{k or ""}", "{c}")' for k, c in choose) + "]")
    fmts = []

    class _Sub2(ast.NodeTransformer):
        def __init__(self, where):
            self.where = where
            self.used = set()

        def visit_Subscript(self, n):
            u = ast.unparse(n).replace(" ", "")
            if u == "exogenized_values_after[0]":
                self.used.add("target"); return ast.copy_location(ast.Name("target", ast.Load()), n)
            if u == "values_before[self._shift]":
                self.used.add("lag"); return ast.copy_location(ast.Name("lag", ast.Load()), n)
            raise Untranslatable(f"{self.where}: unsupported subscript `{u}`")
    for cls in pclasses:
        short = _short(cls, "PlanTransform")
        fnode = plans.find(cls, "_DEFAULT_NAME_FORMAT")
        if not (isinstance(fnode, ast.Constant) and (fnode.value is None or isinstance(fnode.value, str))):
            raise Untranslatable(f"{cls}._DEFAULT_NAME_FORMAT is not a literal")
        fmts.append((short, fnode.value))
        fn = plans.find(cls, "eval_exogenized")
        args = [a.arg for a in fn.args.posonlyargs + fn.args.args]
        if args != ["self", "exogenized_values_after", "values_before", "values_after_inclusive"]:
            raise Untranslatable(f"{cls}.eval_exogenized: arguments {args}")
        stmts = strip_doc(fn.body)
        if len(stmts) != 1 or not isinstance(stmts[0], ast.Return) or stmts[0].value is None:
            raise Untranslatable(f"{cls}.eval_exogenized: body is not a single return")
        sub = _Sub2(f"{cls}.eval_exogenized")
        original = ast.unparse(stmts[0].value)
        tree = ast.fix_missing_locations(sub.visit(stmts[0].value))
        tr = ExprTr({"target": "target", "lag": "lag"}, CALLS, False, f"{cls}.eval_exogenized")
        lean = tr.tr(tree)
        numerals |= _numerals(tree)
        body.append(f"/-- `{cls}.eval_exogenized`: `{original}` -/")
        body.append(f"def plan_{short} BINDERS (target lag : α) : α := {lean}")
        body.append(f"def planUsesTarget_{short} : Bool := {'true' if 'target' in sub.used else 'false'}")
        body.append(f"def planUsesLag_{short} : Bool := {'true' if 'lag' in sub.used else 'false'}")
    body.append("/-- `_DEFAULT_NAME_FORMAT` per plan transform class; `none` = the transform reads no target series. -/")
    body.append("def planNameFormats : List (String × Option String) := ["
                + ", ".join(f'("{s}", {"none" if f is None else "some " + chr(34) + f + chr(34)})' for s, f in fmts) + "]")
    body.append("def planTransforms : List String := [" + ", ".join(f'"{_short(c, "PlanTransform")}"' for c in pclasses) + "]\n")

    # ---- data-source options of Sequential.simulate and the Slatable blocks that use them ------------------------
    sim = Source(repo, SIMULATE_PY)
    fn = sim.find("simulate")
    kwdefaults = {a.arg: d for a, d in zip(fn.args.kwonlyargs, fn.args.kw_defaults) if d is not None}
    for opt, lean_name in (("shocks_from_data", "shocksFromDataDefault"), ("parameters_from_data", "parametersFromDataDefault")):
        if opt not in kwdefaults or not isinstance(kwdefaults[opt], ast.Constant) or not isinstance(kwdefaults[opt].value, bool):
            raise Untranslatable(f"Sequential.simulate: no boolean keyword-only default for {opt}")
        body.append(f"/-- default of `Sequential.simulate(..., {opt}=)` -/")
        body.append(f"def {lean_name} : Bool := {'true' if kwdefaults[opt].value else 'false'}")
    sla = Source(repo, SLATABLE_PY)
    fn = sla.find("Inlay", "slatable_for_simulate")
    tests = {}
    for node in ast.walk(fn):
        if not isinstance(node, ast.If):
            continue
        def updates(stmts, attr):
            out = []
            for st in stmts:
                if (isinstance(st, ast.Expr) and isinstance(st.value, ast.Call) and isinstance(st.value.func, ast.Attribute)
                        and st.value.func.attr == "update" and isinstance(st.value.func.value, ast.Attribute)
                        and st.value.func.value.attr == attr and len(st.value.args) == 1 and isinstance(st.value.args[0], ast.Name)):
                    out.append(st.value.args[0].id)
            return out
        fb, ow = updates(node.body, "fallbacks"), updates(node.orelse, "overwrites")
        if len(fb) == 1 and fb == ow:
            if not isinstance(node.test, ast.Name):
                raise Untranslatable(f"slatable_for_simulate: the test of the {fb[0]} block is not a plain option name")
            if fb[0] in tests:
                raise Untranslatable(f"slatable_for_simulate: two blocks for {fb[0]}")
            tests[fb[0]] = node.test.id
    for var, lean_name in (("parameter_name_to_value", "parameterBlockOption"), ("residual_name_to_value", "residualBlockOption")):
        if var not in tests:
            raise Untranslatable(f"slatable_for_simulate: no `if <option>: fallbacks.update({var}) else: overwrites.update({var})` block")
        body.append(f"/-- the option tested by `if <option>: slatable.fallbacks.update({var}) else: slatable.overwrites.update({var})` -/")
        body.append(f'def {lean_name} : String := "{tests[var]}"')
    node = sla.find("_DEFAULT_RESIDUAL_VALUE")
    if not (isinstance(node, ast.Constant) and isinstance(node.value, (int, float)) and not isinstance(node.value, bool)):
        raise Untranslatable("_DEFAULT_RESIDUAL_VALUE is not a numeric literal")
    body.append("/-- `_DEFAULT_RESIDUAL_VALUE` is zero -/")
    body.append(f"def defaultResidualIsZero : Bool := {'true' if node.value == 0 else 'false'}\n")

    nums = sorted(n for n in numerals)
    binders = ("{α : Type} [Add α] [Sub α] [Mul α] [Div α] [Neg α] " + " ".join(f"[OfNat α {n}]" for n in nums)
               + " (exp log : α → α)")
    out = [HEADER.format(src=f"{TRANSFORMS_PY}, {EXPLANATORY_PY}, {PLANS_PY}, {SIMULATE_PY}, {SLATABLE_PY}"),
           "set_option linter.unusedVariables false\n",
           "namespace IrisVerif.Gen.Explanatory\n",
           f"/-- numerals that occur in the fragments: {nums} -/",
           f"def numerals : List Nat := {nums}\n"]
    out += [line.replace("BINDERS", binders) for line in body]
    out.append("end IrisVerif.Gen.Explanatory\n")
    return "\n".join(out)


GENERATORS = {
    "ExplanatoryGen.lean": (gen_explanatory, {"C17"}),
}
