"""C20: request/reply lines of the portable codec correspondence (driver C20, `port` lines)"""
from __future__ import annotations


def request_and_reply(m, p):
    """[(request, implementation reply)] for the quantities and the equations of model m with portable p (None: export failed)"""
    from . import c20 as H
    if p is None:
        return None
    inv = m._invariant
    qs = []
    for q in inv.quantities:
        l = "-" if q.logly is None else ("T" if q.logly else "F")
        a = "None" if q.attributes is None else ("+".join(sorted(q.attributes)) or "-")
        qs.append(f"{q.human}~{H.KCH[q.kind]}~{l}~{a}")
    req_q = "port q " + ",".join(qs)
    rep_q = ",".join(f"{k}~{n}~{'-' if l is None else ('T' if l else 'F')}~{'+'.join(sorted(a.split())) or '-'}"
                     for k, n, l, d, a in p["source"]["quantities"])
    ek = {"TRANSITION_EQUATION": "T", "MEASUREMENT_EQUATION": "M", "STEADY_AUTOVALUES": "A"}
    req_e = "port e " + "@".join(f"{ek[d.kind.name]};{d.human};{s.human}" for d, s in zip(inv.dynamic_equations, inv.steady_equations))
    rep_e = "@".join(f"{k};{d};{'None' if s is None else s}" for k, d, s, desc, a in p["source"]["equations"])
    return [(req_q, rep_q), (req_e, rep_e)]
