/-
Heap of model objects for property C20 (copies, pickles, variants).  No Mathlib.

What is modelled (irispie `simultaneous/main.py`, `simultaneous/_variants.py`, `simultaneous/_invariants.py`,
`has_variants.py`, `simultaneous/_assigns.py`, `simultaneous/_tolerance.py`):

* a heap `Ref → Option Obj` with a bump allocator (`next`); Python object identity = `Ref`;
* a model object `{_invariant, _variants}` (the `_variants` list is folded into the model object: no two
  model objects ever share a list -- `__init__` does `list(variants)`, `get_variant` builds a new list; the
  harness' heap walk checks that);
* an invariant object holding `InvData` (its mutable slots that the public API writes: description, tolerance);
* a variant object `{levels, changes, solution}` whose `levels`/`changes` are separate dict objects and whose
  `solution` is `None` or a reference to a solution object;
* operations: `newModel` (`from_source` + `_initialize_variants_from_invariant`), `copy`
  (`Simultaneous.copy`: deep copy of the invariant, per-variant `Variant.copy`), `pickle` (`pickle.loads(pickle.dumps(m))`
  / `copy.deepcopy`: one memo for the whole object graph, so a variant that occurs twice in `_variants` is
  copied once), `view` (`get_variant`, `m[i]`, `iter_own_variants`: a NEW model object that ALIASES the
  invariant and the selected variant objects), `alter` (`alter_num_variants`: shrinking drops, expansion appends
  copies of the last variant), `assign` (`_assign` with exhaust-then-last broadcasting of per-variant values,
  followed by `_enforce_assignment_rules`), `solve` (`solve_first_order`: a FRESH solution object per variant, an
  abstract deterministic function `F` of the invariant data and that variant's values), `steady` (`solve_steady`:
  two loops over the variants -- the solver `G`, then `update_steady_autovalues` `A` -- each an abstract
  function of the invariant data and that variant's values, written back IN PLACE into the two dicts),
  `setDesc` (`set_description`), `setTol` (`override_tolerance`, which rebinds a fresh dict: at this
  abstraction a write to the invariant object).

Every partial operation is an `Except` branch: `Err.bad` is what the code raises on user error
(`alter_num_variants(0)`, an index out of range), `Err.dangling` is a malformed heap (never produced by the
operations; the theorems show that).
-/
namespace IrisVerif.Heap

abbrev Ref := Nat
/-- a stored level/change: `None` or a number (`_update_from_dict` stores NaN as `None`) -/
abbrev Val := Option Rat
/-- content of a solution object: opaque (the driver uses a digest of the real matrices' bits) -/
abbrev Sol := String

inductive QKind
  | transVar | measVar | transShock | antShock | measShock | param | exog | transStd | measStd
  deriving DecidableEq, Repr, Inhabited

/-- `QuantityKind.ANY_SHOCK_OR_SHOCK_VALUE` -/
def QKind.isShock : QKind → Bool
  | .transShock | .antShock | .measShock => true
  | _ => false

/-- `QuantityKind.LOGGABLE_VARIABLE` -/
def QKind.isLoggable : QKind → Bool
  | .transVar | .measVar | .exog => true
  | _ => false

/-- `QuantityKind.ANY_STD` -/
def QKind.isStd : QKind → Bool
  | .transStd | .measStd => true
  | _ => false

structure Quantity where
  name : String
  kind : QKind
  logly : Option Bool
  desc : String := ""
  /-- `None` (derived quantities: `std_`, `ant_`, autodeclared) or a set, kept as a sorted duplicate-free list -/
  attrs : Option (List String) := some []
  deriving DecidableEq, Repr, Inhabited

inductive EKind | transition | measurement | autovalue
  deriving DecidableEq, Repr, Inhabited

/-- a dynamic/steady pair of equations (same position in `dynamic_equations` / `steady_equations`) -/
structure Equation where
  kind : EKind
  dynamic : String
  steady : String
  desc : String := ""
  attrs : Option (List String) := some []
  deriving DecidableEq, Repr, Inhabited

structure Flags where
  linear : Bool
  flat : Bool
  deterministic : Bool
  deriving DecidableEq, Repr, Inhabited

/-- the serialised slots of `Invariant` that matter here -/
structure InvData where
  desc : String
  flags : Flags
  quantities : List Quantity
  equations : List Equation := []
  contextKeys : List String := []
  tolEig : Rat
  tolEq : Rat
  defaultStd : Rat
  deriving DecidableEq, Repr, Inhabited

inductive Obj
  | model (inv : Ref) (vars : List Ref)
  | inv (d : InvData)
  | var (levels changes : Ref) (sol : Option Ref)
  | dict (vals : List Val)
  | sol (s : Sol)
  deriving DecidableEq, Repr, Inhabited

/-- references stored in an object -/
def Obj.refs : Obj → List Ref
  | .model i vs => i :: vs
  | .var l c s => l :: c :: s.toList
  | _ => []

inductive Err | bad | dangling
  deriving DecidableEq, Repr, Inhabited

structure Heap where
  get : Ref → Option Obj
  next : Nat

namespace Heap

def empty : Heap := ⟨fun _ => none, 0⟩

def alloc (h : Heap) (o : Obj) : Ref × Heap :=
  (h.next, ⟨fun r => if r = h.next then some o else h.get r, h.next + 1⟩)

def set (h : Heap) (x : Ref) (o : Obj) : Heap :=
  ⟨fun r => if r = x then some o else h.get r, h.next⟩

end Heap

abbrev R (α : Type) := Except Err α

/-- `for x in xs: h = f(h, x)` -/
def forEach {β : Type} (f : Heap → β → R Heap) : Heap → List β → R Heap
  | h, [] => .ok h
  | h, x :: xs =>
    match f h x with
    | .ok h1 => forEach f h1 xs
    | .error e => .error e

/-- the model object at `m`: (invariant ref, variant refs, invariant data) -/
def getModel (h : Heap) (m : Ref) : R (Ref × List Ref × InvData) :=
  match h.get m with
  | some (.model i vs) =>
    match h.get i with
    | some (.inv d) => .ok (i, vs, d)
    | _ => .error .dangling
  | _ => .error .dangling

/-- the variant object at `v`: (levels ref, changes ref, solution ref, level values, change values) -/
def getVar (h : Heap) (v : Ref) : R (Ref × Ref × Option Ref × List Val × List Val) :=
  match h.get v with
  | some (.var l c s) =>
    match h.get l, h.get c with
    | some (.dict lv), some (.dict cv) => .ok (l, c, s, lv, cv)
    | _, _ => .error .dangling
  | _ => .error .dangling

/-! ### values -/

/-- `_enforce_assignment_rules`: shock levels are reset to zero, changes of non-loggables are removed -/
def enforceLevels (qs : List Quantity) (lv : List Val) : List Val :=
  List.zipWith (fun q x => if q.kind.isShock then some 0 else x) qs lv

def enforceChanges (qs : List Quantity) (cv : List Val) : List Val :=
  List.zipWith (fun q x => if q.kind.isLoggable then x else none) qs cv

/-- `Variant.from_source` + `reset_stds` + `_enforce_assignment_rules` -/
def initLevels (d : InvData) : List Val :=
  d.quantities.map (fun q => if q.kind.isShock then some 0 else if q.kind.isStd then some d.defaultStd else none)

def initChanges (d : InvData) : List Val :=
  d.quantities.map (fun q =>
    if d.flags.flat && q.kind.isLoggable then
      (match q.logly with | some true => some 1 | some false => some 0 | none => none)
    else none)

/-- an assigned value: `none` = leave unchanged (`...`), `some v` = store `v` (`v = none` is `None`/NaN) -/
structure AVal where
  level : Option Val
  change : Option Val
  deriving DecidableEq, Repr, Inhabited

def AVal.unchanged : AVal := ⟨none, none⟩

/-- `exhaust_then_last(values, (..., ...))`: the value for variant number `i` -/
def valueFor (vals : List AVal) (i : Nat) : AVal :=
  match vals[i]? with
  | some a => a
  | none => vals.getLast?.getD AVal.unchanged

def qidOf (d : InvData) (name : String) : Option Nat :=
  let i := d.quantities.findIdx (fun q => q.name == name)
  if i < d.quantities.length then some i else none

def updateAt (l : List Val) (qid : Option Nat) (x : Option Val) : List Val :=
  match qid, x with
  | some q, some v => l.set q v
  | _, _ => l

/-! ### operations on one variant -/

/-- `variant.update_values_from_dict({qid: value})` then `_enforce_assignment_rules(variant)` -/
def assignVariant (d : InvData) (qid : Option Nat) (h : Heap) (va : Ref × AVal) : R Heap :=
  match getVar h va.1 with
  | .ok (l, c, _, lv, cv) =>
    .ok ((h.set l (.dict (enforceLevels d.quantities (updateAt lv qid va.2.level)))).set c
          (.dict (enforceChanges d.quantities (updateAt cv qid va.2.change))))
  | .error e => .error e

/-- `_solve_variant`: a fresh solution object holding `F(invariant, levels, changes)` -/
def solveVariant (F : InvData → List Val → List Val → Sol) (d : InvData) (h : Heap) (v : Ref) : R Heap :=
  match getVar h v with
  | .ok (l, c, _, lv, cv) =>
    let a := h.alloc (.sol (F d lv cv))
    .ok (a.2.set v (.var l c (some a.1)))
  | .error e => .error e

/-- in-place update of both dicts of a variant with `G(invariant, levels, changes)` -/
def updVariant (G : InvData → List Val → List Val → List Val × List Val) (d : InvData) (h : Heap) (v : Ref) : R Heap :=
  match getVar h v with
  | .ok (l, c, _, lv, cv) =>
    .ok ((h.set l (.dict (G d lv cv).1)).set c (.dict (G d lv cv).2))
  | .error e => .error e

/-- `Variant.copy`: new variant object, new dicts, `Solution.copy()` (a deep copy) when there is a solution -/
def copyVariant (h : Heap) (v : Ref) : R (Ref × Heap) :=
  match getVar h v with
  | .ok (_, _, s, lv, cv) =>
    let a := h.alloc (.dict lv)
    let b := a.2.alloc (.dict cv)
    match s with
    | none => .ok (b.2.alloc (.var a.1 b.1 none))
    | some sr =>
      match h.get sr with
      | some (.sol sd) =>
        let e := b.2.alloc (.sol sd)
        .ok (e.2.alloc (.var a.1 b.1 (some e.1)))
      | _ => .error .dangling
  | .error e => .error e

/-- `[v.copy() for v in variants]` -/
def copyVars : Heap → List Ref → R (List Ref × Heap)
  | h, [] => .ok ([], h)
  | h, v :: vs =>
    match copyVariant h v with
    | .ok (v', h1) =>
      (match copyVars h1 vs with
       | .ok (rest, h2) => .ok (v' :: rest, h2)
       | .error e => .error e)
    | .error e => .error e

def lookupRef (memo : List (Ref × Ref)) (v : Ref) : Option Ref :=
  match memo with
  | [] => none
  | (a, b) :: rest => if a = v then some b else lookupRef rest v

/-- pickle / deepcopy of the list of variants: one memo, a variant met again is not copied again -/
def pickleVars : Heap → List (Ref × Ref) → List Ref → R (List Ref × Heap)
  | h, _, [] => .ok ([], h)
  | h, memo, v :: vs =>
    match lookupRef memo v with
    | some v' =>
      (match pickleVars h memo vs with
       | .ok (rest, h2) => .ok (v' :: rest, h2)
       | .error e => .error e)
    | none =>
      match copyVariant h v with
      | .ok (v', h1) =>
        (match pickleVars h1 ((v, v') :: memo) vs with
         | .ok (rest, h2) => .ok (v' :: rest, h2)
         | .error e => .error e)
      | .error e => .error e

/-- `expand_num_variants`: `k` times append a copy of the (current) last variant -/
def expandVars : Heap → List Ref → Nat → R (List Ref × Heap)
  | h, vs, 0 => .ok (vs, h)
  | h, vs, k + 1 =>
    match vs.getLast? with
    | none => .error .bad
    | some last =>
      match copyVariant h last with
      | .ok (v', h1) => expandVars h1 (vs ++ [v']) k
      | .error e => .error e

/-! ### operations on a model object -/

/-- `from_source`: invariant, one initial variant, the model object; returns the model's reference -/
def newModel (h : Heap) (d : InvData) : Ref × Heap :=
  let i := h.alloc (.inv d)
  let l := i.2.alloc (.dict (enforceLevels d.quantities (initLevels d)))
  let c := l.2.alloc (.dict (enforceChanges d.quantities (initChanges d)))
  let v := c.2.alloc (.var l.1 c.1 none)
  v.2.alloc (.model i.1 [v.1])

/-- `Simultaneous.copy` -/
def copy (h : Heap) (m : Ref) : R (Ref × Heap) :=
  match getModel h m with
  | .ok (_, vs, d) =>
    let i := h.alloc (.inv d)
    (match copyVars i.2 vs with
     | .ok (vs', h2) => .ok (h2.alloc (.model i.1 vs'))
     | .error e => .error e)
  | .error e => .error e

/-- `pickle.loads(pickle.dumps(m))` (and `copy.deepcopy(m)`): the derived slots of the invariant are rebuilt from
the serialised ones (`__setstate__`), which at this abstraction is the same `InvData` -/
def pickle (h : Heap) (m : Ref) : R (Ref × Heap) :=
  match getModel h m with
  | .ok (_, vs, d) =>
    let i := h.alloc (.inv d)
    (match pickleVars i.2 [] vs with
     | .ok (vs', h2) => .ok (h2.alloc (.model i.1 vs'))
     | .error e => .error e)
  | .error e => .error e

/-- Python list indexing: `0 ≤ i < n` is position `i`, `-n ≤ i < 0` is position `n + i`, anything else is an `IndexError` -/
def resolveIdx (n : Nat) (i : Int) : Option Nat :=
  if 0 ≤ i ∧ i < n then some i.toNat
  else if -(n : Int) ≤ i ∧ i < 0 then some (i + n).toNat
  else none

/-- `range(*slice(start, stop, step).indices(n))` as positions (CPython's `PySlice_AdjustIndices`; the same clamping as
`sliceIndices` of `Model/Spans.lean`); `none` for step 0 (`ValueError`) -/
def sliceSel (n : Nat) (start stop step : Option Int) : Option (List Int) :=
  let st := step.getD 1
  if st = 0 then none
  else
    let lower : Int := if st < 0 then -1 else 0
    let upper : Int := if st < 0 then (n : Int) - 1 else n
    let adj : Int → Int := fun s => if s < 0 then max (s + n) lower else min s upper
    let a := match start with | none => if st < 0 then upper else lower | some s => adj s
    let b := match stop with | none => if st < 0 then lower else upper | some s => adj s
    let count : Nat :=
      if st > 0 then (if a < b then ((b - a + st - 1) / st).toNat else 0)
      else (if b < a then ((a - b + (-st) - 1) / (-st)).toNat else 0)
    some ((List.range count).map (fun (i : Nat) => a + (i : Int) * st))

/-- `[variants[k] for k in idxs]`; `none` when an index is out of range (`IndexError`) -/
def selectVars (vs : List Ref) : List Int → Option (List Ref)
  | [] => some []
  | k :: ks =>
    match (resolveIdx vs.length k).bind (fun j => vs[j]?), selectVars vs ks with
    | some v, some rest => some (v :: rest)
    | _, _ => none

/-- `get_variant(idxs)` / `m[i]`: a new model object sharing the invariant and the selected variant objects -/
def view (h : Heap) (m : Ref) (idxs : List Int) : R (Ref × Heap) :=
  match getModel h m with
  | .ok (i, vs, _) =>
    (match selectVars vs idxs with
     | some vs' => .ok (h.alloc (.model i vs'))
     | none => .error .bad)
  | .error e => .error e

/-- `alter_num_variants(n)` -/
def alter (h : Heap) (m : Ref) (n : Nat) : R Heap :=
  match getModel h m with
  | .ok (i, vs, _) =>
    if n < vs.length then
      (if n < 1 then .error .bad else .ok (h.set m (.model i (vs.take n))))
    else if vs.length < n then
      (match expandVars h vs (n - vs.length) with
       | .ok (vs', h1) => .ok (h1.set m (.model i vs'))
       | .error e => .error e)
    else .ok h
  | .error e => .error e

/-- `m.assign(name=values)`; an unknown name assigns nothing (the rules are still enforced) -/
def assign (h : Heap) (m : Ref) (name : String) (vals : List AVal) : R Heap :=
  match getModel h m with
  | .ok (_, vs, d) =>
    forEach (assignVariant d (qidOf d name)) h (vs.zip ((List.range vs.length).map (valueFor vals)))
  | .error e => .error e

/-- `m.solve()` -/
def solve (F : InvData → List Val → List Val → Sol) (h : Heap) (m : Ref) : R Heap :=
  match getModel h m with
  | .ok (_, vs, d) => forEach (solveVariant F d) h vs
  | .error e => .error e

/-- `m.steady()`: the solver for every variant, then the autovalue update for every variant -/
def steady (G A : InvData → List Val → List Val → List Val × List Val) (h : Heap) (m : Ref) : R Heap :=
  match getModel h m with
  | .ok (_, vs, d) =>
    (match forEach (updVariant G d) h vs with
     | .ok h1 => forEach (updVariant A d) h1 vs
     | .error e => .error e)
  | .error e => .error e

/-- `m.set_description(s)` -/
def setDesc (h : Heap) (m : Ref) (s : String) : R Heap :=
  match getModel h m with
  | .ok (i, _, d) => .ok (h.set i (.inv { d with desc := s }))
  | .error e => .error e

/-- ANY mutator of the invariant object reached through a model: `set_description`, `override_tolerance`, `reset_tolerance`,
`change_logly` (which rebinds `quantities`) ... -- the invariant data is replaced by `f` of itself, in place -/
def mutInv (h : Heap) (m : Ref) (f : InvData → InvData) : R Heap :=
  match getModel h m with
  | .ok (i, _, d) => .ok (h.set i (.inv (f d)))
  | .error e => .error e

/-- `change_logly(new, names)`: the log status of the named loggable variables (all of them when `names` is empty);
the new `Quantity` objects keep id, name and kind only -/
def changeLogly (new : Bool) (names : List String) (d : InvData) : InvData :=
  { d with quantities := d.quantities.map (fun q =>
      if q.logly.isSome && (names.isEmpty || names.contains q.name) then
        { name := q.name, kind := q.kind, logly := some new, desc := "", attrs := none }
      else q) }

/-- `reset_tolerance()` -/
def resetTol (tol : Rat) (d : InvData) : InvData := { d with tolEig := tol, tolEq := tol }

/-- `m.override_tolerance(eigenvalue=…)` / `(equality=…)` -/
def setTol (h : Heap) (m : Ref) (eig : Bool) (x : Rat) : R Heap :=
  match getModel h m with
  | .ok (i, _, d) => .ok (h.set i (.inv (if eig then { d with tolEig := x } else { d with tolEq := x })))
  | .error e => .error e

/-! ### observation -/

structure VarObs where
  levels : List Val
  changes : List Val
  sol : Option Sol
  deriving DecidableEq, Repr, Inhabited

structure Obs where
  inv : InvData
  vars : List VarObs
  deriving DecidableEq, Repr, Inhabited

def observeVar (h : Heap) (v : Ref) : Option VarObs :=
  match getVar h v with
  | .ok (_, _, s, lv, cv) =>
    (match s with
     | none => some ⟨lv, cv, none⟩
     | some sr =>
       match h.get sr with
       | some (.sol sd) => some ⟨lv, cv, some sd⟩
       | _ => none)
  | .error _ => none

def observeVars (h : Heap) : List Ref → Option (List VarObs)
  | [] => some []
  | v :: vs =>
    match observeVar h v, observeVars h vs with
    | some o, some os => some (o :: os)
    | _, _ => none

/-- everything the public API can read off a model object -/
def observe (h : Heap) (m : Ref) : Option Obs :=
  match getModel h m with
  | .ok (_, vs, d) =>
    (match observeVars h vs with
     | some os => some ⟨d, os⟩
     | none => none)
  | .error _ => none

/-- the references reachable from a model object, as a list (model, invariant, variants, their dicts and solutions) -/
def reachList (h : Heap) (m : Ref) : List Ref :=
  match h.get m with
  | some (.model i vs) =>
    m :: i :: vs.flatMap (fun v => v :: (match h.get v with | some o => o.refs | none => []))
  | _ => [m]

/-! ### reading values back: `m["name"]`, `get_value`, the getters with `unpack_singleton` -/

/-- what a read returns: one value (a singleton model, unpacked) or the list of per-variant values -/
inductive Read
  | scalar (v : Val)
  | list (vs : List Val)
  deriving DecidableEq, Repr, Inhabited

/-- `has_variants.unpack_singleton(values, is_singleton, unpack_singleton)` -/
def unpackSingleton (vs : List Val) (isSingleton unpack : Bool) : Read :=
  if unpack && isSingleton then
    (match vs with
     | v :: _ => .scalar v
     | [] => .list [])
  else .list vs

/-- `_get_values_as_dict("levels", [qid])[name]`: the level of quantity `qid` in every variant, in order -/
def levelsOf (h : Heap) (q : Nat) : List Ref → Option (List Val)
  | [] => some []
  | v :: vs =>
    match observeVar h v, levelsOf h q vs with
    | some o, some rest =>
      (match o.levels[q]? with          -- `levels[qid]`: a missing key is an error, not a default
       | some x => some (x :: rest)
       | none => none)
    | _, _ => none

/-- `m["name"]` / `m.get_value("name")` (and, with `unpack`, the getters `get_parameters`, `get_steady_levels` for one name):
per-variant values, unpacked only when the model has exactly ONE variant; an unknown name raises -/
def getValue (h : Heap) (m : Ref) (name : String) (unpack : Bool := true) : R Read :=
  match getModel h m with
  | .ok (_, vs, d) =>
    (match qidOf d name with
     | none => .error .bad
     | some q =>
       match levelsOf h q vs with
       | some vals => .ok (unpackSingleton vals (vs.length == 1) unpack)
       | none => .error .dangling)
  | .error e => .error e

/-! ### the operation language of the interleaving theorems and of the driver -/

inductive Op
  | assign (m : Ref) (name : String) (vals : List AVal)
  | solve (m : Ref)
  | steady (m : Ref)
  | alter (m : Ref) (n : Nat)
  | setDesc (m : Ref) (s : String)
  | setTol (m : Ref) (eig : Bool) (x : Rat)
  | copy (m : Ref)
  | pickle (m : Ref)
  | view (m : Ref) (idxs : List Int)
  | mutInv (m : Ref) (f : InvData → InvData)
  deriving Inhabited

def Op.target : Op → Ref
  | .assign m _ _ | .solve m | .steady m | .alter m _ | .setDesc m _ | .setTol m _ _ | .copy m | .pickle m
  | .view m _ | .mutInv m _ => m

/-- the abstract numerical routines -/
structure Funs where
  F : InvData → List Val → List Val → Sol
  G : InvData → List Val → List Val → List Val × List Val
  A : InvData → List Val → List Val → List Val × List Val

/-- one operation; a model-creating operation also returns the new model's reference -/
def step (fs : Funs) (h : Heap) : Op → R (Option Ref × Heap)
  | .assign m n vs => (assign h m n vs).map (fun h' => (none, h'))
  | .solve m => (solve fs.F h m).map (fun h' => (none, h'))
  | .steady m => (steady fs.G fs.A h m).map (fun h' => (none, h'))
  | .alter m n => (alter h m n).map (fun h' => (none, h'))
  | .setDesc m s => (setDesc h m s).map (fun h' => (none, h'))
  | .setTol m e x => (setTol h m e x).map (fun h' => (none, h'))
  | .copy m => (copy h m).map (fun p => (some p.1, p.2))
  | .pickle m => (pickle h m).map (fun p => (some p.1, p.2))
  | .view m ix => (view h m ix).map (fun p => (some p.1, p.2))
  | .mutInv m f => (mutInv h m f).map (fun h' => (none, h'))

end IrisVerif.Heap
