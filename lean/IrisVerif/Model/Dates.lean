/-
Model of irispie/dates.py: frequencies, periods as (frequency, serial), the proleptic
Gregorian calendar used by `datetime.date` (daily serial = ordinal), year/segment
decomposition, start/middle/end day tables, shift keywords and frequency conversion.

Core Lean only (no Mathlib) so that the driver can be interpreted quickly.
Closed-form fragments come from `IrisVerif.Generated.DatesGen`, which tools/py2lean.py
regenerates from /repo/src/irispie/dates.py on every run.
-/
import IrisVerif.Generated.DatesGen

namespace IrisVerif.Dates
open IrisVerif.Gen.Dates

inductive Freq where
  | I | Y | H | Q | M | D
  deriving DecidableEq, Repr, Inhabited

/-- `Frequency.<X>.value` (generated constants). -/
def Freq.value : Freq → Int
  | .I => freqInteger | .Y => freqYearly | .H => freqHalfyearly
  | .Q => freqQuarterly | .M => freqMonthly | .D => freqDaily

def Freq.isRegular : Freq → Bool
  | .Y | .H | .Q | .M => true
  | _ => false

def Freq.letter : Freq → String
  | .I => "I" | .Y => "Y" | .H => "H" | .Q => "Q" | .M => "M" | .D => "D"

def Freq.ofLetter? : String → Option Freq
  | "I" => some .I | "Y" => some .Y | "H" => some .H | "Q" => some .Q | "M" => some .M | "D" => some .D
  | _ => none

structure Period where
  freq : Freq
  serial : Int
  deriving DecidableEq, Repr, Inhabited

inductive Err where
  | mixedFreq   -- IrisPieError from _check_periods
  | badInput    -- ValueError / KeyError etc. raised by the code on this input
  | noPeriod    -- the code returns None (e.g. tty at segment 1)
  deriving DecidableEq, Repr

abbrev R := Except Err

deriving instance DecidableEq for Except

/-! ### Serial arithmetic and checked comparisons -/

def Period.add (p : Period) (n : Int) : Period := ⟨p.freq, p.serial + n⟩
def Period.subInt (p : Period) (n : Int) : Period := p.add (-n)

def checkPeriods (p q : Period) : R Unit :=
  if p.freq = q.freq then pure () else throw .mixedFreq

def Period.subPeriod (p q : Period) : R Int := do checkPeriods p q; pure (p.serial - q.serial)
def Period.eq (p q : Period) : R Bool := do checkPeriods p q; pure (p.serial == q.serial)
def Period.ne (p q : Period) : R Bool := do checkPeriods p q; pure (p.serial != q.serial)
def Period.lt (p q : Period) : R Bool := do checkPeriods p q; pure (decide (p.serial < q.serial))
def Period.le (p q : Period) : R Bool := do checkPeriods p q; pure (decide (p.serial ≤ q.serial))
def Period.gt (p q : Period) : R Bool := do checkPeriods p q; pure (decide (p.serial > q.serial))
def Period.ge (p q : Period) : R Bool := do checkPeriods p q; pure (decide (p.serial ≥ q.serial))

/-- The tuple whose CPython hash `Period.__hash__` returns: `(int(serial), hash(frequency))`;
the hash of an `IntEnum` member is the hash of its integer value. -/
def Period.hashKey (p : Period) : Int × Int := (p.serial, p.freq.value)

/-! ### The civil calendar (what `datetime.date` computes; tied by exhaustive correspondence) -/

def isLeap (y : Int) : Bool := y % 4 == 0 && (y % 100 != 0 || y % 400 == 0)

/-- days before January 1st of year `y` (CPython `_days_before_year`). -/
def dby (y : Int) : Int := (y-1)*365 + (y-1)/4 - (y-1)/100 + (y-1)/400

def yearLen (y : Int) : Int := if isLeap y then 366 else 365

/-- days in month `m` of year `y` (CPython `_days_in_month`; `calendar.monthrange(y, m)[1]`). -/
def daysInMonth (y m : Int) : Int :=
  if m == 2 then (if isLeap y then 29 else 28)
  else if m == 4 || m == 6 || m == 9 || m == 11 then 30 else 31

/-- days before the first of month `m` in year `y` (CPython `_days_before_month`). -/
def dbm (y m : Int) : Int :=
  let l : Int := if isLeap y then 1 else 0
  if m ≤ 1 then 0 else if m == 2 then 31 else if m == 3 then 59 + l else if m == 4 then 90 + l
  else if m == 5 then 120 + l else if m == 6 then 151 + l else if m == 7 then 181 + l
  else if m == 8 then 212 + l else if m == 9 then 243 + l else if m == 10 then 273 + l
  else if m == 11 then 304 + l else 334 + l

def ValidYmd (y m d : Int) : Prop := 1 ≤ m ∧ m ≤ 12 ∧ 1 ≤ d ∧ d ≤ daysInMonth y m

instance (y m d : Int) : Decidable (ValidYmd y m d) := by unfold ValidYmd; infer_instance

/-- `datetime.date(y, m, d).toordinal()`. -/
def ymd2ord (y m d : Int) : Int := dby y + dbm y m + d

/-- the year containing ordinal `n`: estimate, then at most one correction either way. -/
def yearOf (n : Int) : Int :=
  let y0 := (400 * (n - 1)) / 146097 + 1
  if n ≤ dby y0 then y0 - 1 else if dby (y0 + 1) < n then y0 + 1 else y0

/-- the month containing day-of-year `doy` (1-based) of year `y`. -/
def monthOf (y doy : Int) : Int :=
  if doy ≤ dbm y 2 then 1 else if doy ≤ dbm y 3 then 2 else if doy ≤ dbm y 4 then 3
  else if doy ≤ dbm y 5 then 4 else if doy ≤ dbm y 6 then 5 else if doy ≤ dbm y 7 then 6
  else if doy ≤ dbm y 8 then 7 else if doy ≤ dbm y 9 then 8 else if doy ≤ dbm y 10 then 9
  else if doy ≤ dbm y 11 then 10 else if doy ≤ dbm y 12 then 11 else 12

/-- `datetime.date.fromordinal(n)` as `(year, month, day)`. -/
def ord2ymd (n : Int) : Int × Int × Int :=
  let y := yearOf n
  let doy := n - dby y
  let m := monthOf y doy
  (y, m, doy - dbm y m)

/-! ### Year/segment decomposition, day tables, constructors -/

/-- `RegularPeriodMixin.from_year_segment`, `DailyPeriod.from_year_segment`, `IntegerPeriod.from_year_segment`. -/
def fromYearSegment (f : Freq) (year seg : Int) : Period :=
  match f with
  | .I => ⟨.I, seg⟩
  | .D => ⟨.D, ymd2ord year 1 1 + seg - 1⟩
  | f => ⟨f, serialFromYsf year seg f.value⟩

/-- `to_year_segment()` (regular: generated formula; daily: as repaired, `serial - ordinal(Jan 1) + 1`).
Integer periods have no such method in the code. -/
def toYearSegment (p : Period) : R (Int × Int) :=
  match p.freq with
  | .I => throw .badInput
  | .D => let y := yearOf p.serial; pure (y, p.serial - ymd2ord y 1 1 + 1)
  | f => pure (toYearSegmentYear p.serial f.value, toYearSegmentSeg p.serial f.value)

inductive Pos where | start | middle | end_
  deriving DecidableEq, Repr, Inhabited

def Pos.ofString? : String → Option Pos
  | "start" => some .start | "middle" => some .middle | "end" => some .end_ | _ => none

def mdrTable (f : Freq) (pos : Pos) : List (Int × Int × Option Int) :=
  match f, pos with
  | .Y, .start => mdrY_start | .Y, .middle => mdrY_middle | .Y, .end_ => mdrY_end
  | .H, .start => mdrH_start | .H, .middle => mdrH_middle | .H, .end_ => mdrH_end
  | .Q, .start => mdrQ_start | .Q, .middle => mdrQ_middle | .Q, .end_ => mdrQ_end
  | .M, .start => mdrM_start | .M, .middle => mdrM_middle | .M, .end_ => mdrM_end
  | _, _ => []

def lookupSeg (tbl : List (Int × Int × Option Int)) (seg : Int) : Option (Int × Option Int) :=
  match tbl with
  | [] => none
  | (s, m, d) :: rest => if s == seg then some (m, d) else lookupSeg rest seg

/-- `Period.to_ymd(position=…)`; daily ignores the position. -/
def toYmd (p : Period) (pos : Pos) : R (Int × Int × Int) :=
  match p.freq with
  | .I => throw .badInput
  | .D => pure (ord2ymd p.serial)
  | f => do
    let (year, seg) ← toYearSegment p
    match lookupSeg (mdrTable f pos) seg with
    | none => throw .badInput
    | some (month, some day) => pure (year, month, day)
    | some (month, none) => pure (year, month, daysInMonth year month)

def monthToSegment (f : Freq) (month : Int) : Int :=
  match f with
  | .Y => monthToSegmentY month | .H => monthToSegmentH month
  | .Q => monthToSegmentQ month | .M => monthToSegmentM month
  | _ => 0

/-- `<Class>.from_ymd(year, month, day)`; daily rejects invalid dates (`datetime.date` raises). -/
def fromYmd (f : Freq) (y m d : Int) : R Period :=
  match f with
  | .I => throw .badInput
  | .D => if ValidYmd y m d then pure ⟨.D, ymd2ord y m d⟩ else throw .badInput
  | f => pure (fromYearSegment f y (monthToSegment f m))

/-- `Period.refrequent(new_freq, position=…)`. -/
def refrequent (p : Period) (f' : Freq) (pos : Pos) : R Period := do
  let (y, m, d) ← toYmd p pos
  fromYmd f' y m d

def toDaily (p : Period) (pos : Pos) : R Period := refrequent p .D pos

/-! ### Accessors and shift keywords -/

def Period.year (p : Period) : R Int := do let (y, _) ← toYearSegment p; pure y
def Period.segment (p : Period) : R Int := do let (_, s) ← toYearSegment p; pure s

def createSoy (p : Period) : R Period := do
  let (y, _) ← toYearSegment p
  pure (fromYearSegment p.freq y 1)

def createEoy (p : Period) : R Period := do
  let (y, _) ← toYearSegment p
  match p.freq with
  | .D => pure ⟨.D, ymd2ord y 12 31⟩
  | f => pure (fromYearSegment f y f.value)

def createEopy (p : Period) : R Period := do
  let (y, _) ← toYearSegment p
  match p.freq with
  | .D => pure ⟨.D, ymd2ord (y - 1) 12 31⟩
  | f => pure (fromYearSegment f (y - 1) f.value)

def createTty (p : Period) : R Period := do
  let (_, s) ← toYearSegment p
  if s > 1 then pure (p.add (-1)) else throw .noPeriod

inductive ShiftBy where
  | yoy | soy | eopy | tty
  | by_ (k : Int)
  deriving DecidableEq, Repr

/-- `Period.shift(by)`. -/
def Period.shift (p : Period) : ShiftBy → R Period
  | .yoy => pure (p.add (-(p.freq.value)))
  | .soy => createSoy p
  | .eopy => createEopy p
  | .tty => createTty p
  | .by_ k => pure (p.add k)

end IrisVerif.Dates
