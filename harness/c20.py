"""
C20 -- Copies, pickles and parameter variants are independent, equivalent models.

Correspondence (class E): random operation histories (assign / solve / steady / alter_num_variants / copy /
pickle|dill|deepcopy|save+load / m[i] / get_variant / set_description / override_tolerance) over an original, its
copies, pickles and views of `Simultaneous` models built with `from_string`; after EVERY operation the real heap's
aliasing structure (object identities of model, invariant, variant, levels/changes dicts, solution objects,
canonically relabelled) and every stored value (exact rationals) are compared with the Lean model
(IrisVerif/Model/Heap.lean, driver C20).  The numerical routines are abstract functions in the model; the driver
instantiates them per operation with the table (inputs of variant i -> the result the implementation produced), so
"same inputs, same result" is part of the comparison.  The portable codec is compared field by field with
IrisVerif/Model/Portable.lean.

Oracles (independent of the Lean model, written from the property statement):
  * mutate one model, every model of another copy-family keeps its public observables (bit level);
  * a copy / pickle / dill / deepcopy / save+load has the same public observables as its source, and the same steady
    state, solution, simulation and Kalman filter output when the same calls are made on both;
  * a full object-graph walk (gc.get_referents over __slots__/__dict__, numpy buffers by address): no mutable
    object is reachable from two models of different copy-families;
  * variant k of a multi-variant model vs a fresh single-variant model assigned variant k's values: steady state,
    solution matrices, simulation at the bit level (1e-12 relative fallback is counted, never silent);
  * from_portable(to_portable(m)) keeps names, kinds, log status, equations, flags, parameter values.
"""
from __future__ import annotations

import contextlib
import copy as _copy
import enum
import gc
import hashlib
import io
import json
import math
import os
import pickle
import re
import tempfile
import types

import numpy as np

import irispie as ir
from irispie.quantities import QuantityKind

from .common import Ctx, float_bits, VERIF

DRIVERS = ["C20"]
LEVEL = "proof"
MANIFEST = {
    "category": "proof",
    "text": ("Lean 4 theorems about an executable heap model of Simultaneous models (model object -> invariant object, variant objects -> "
             "levels/changes dicts, solution objects): copy() and a pickle round trip return a model whose reachable mutable objects are all "
             "fresh (disjoint from everything allocated before) with the same observable state; for EVERY interleaving of assign / solve / "
             "steady / alter_num_variants / copy / pickle / get_variant operations AND any mutator of the invariant object (Op.mutInv f for every f: "
             "set_description, override_tolerance, reset_tolerance, change_logly) on two separated "
             "families of models each operation leaves every object of the other family untouched (invariant by induction over the operation "
             "list, all list lengths, all numbers of variants, the numerical routines being arbitrary functions); END-TO-END with input-level "
             "hypotheses only (copy_isolated_end_to_end / pickle_isolated_end_to_end): any invariant data, any history, a copy of any model object, "
             "then every interleaving is isolated -- separation is derived (no dangling pointers after any history, copy allocates only fresh "
             "objects), not assumed; after solve/steady the result "
             "stored for variant k of a model with pairwise distinct variant objects is the routine applied to the invariant data and variant k's own "
             "values only, hence equal to what a singleton model holding the same values stores (for steady under the ownership invariant 'distinct "
             "variants own distinct dicts', itself proved to hold after every history); the clause about SIMULATION and filtering of variant k vs a "
             "singleton is NOT a theorem (simulate is outside the model): it is checked at the bit level by the oracles; reading back (m[name], "
             "get_value, getters) unpacks to a scalar only for exactly one variant; rejection branches (m[k] with k outside -N..N-1, "
             "alter_num_variants(0), unknown names, foreign portable format or kind code) are theorems too; every equation kind and every non-std "
             "quantity kind is exported; WHOLE-RECORD portable theorem: for every "
             "model record satisfying the explicit well-formedness PortableWF (stds derived from the shocks and last, quantities and equations in kind "
             "order, every shock has its anticipated counterpart, distinct names, matching counts, variants obeying the assignment rules) "
             "fromPortable(toPortable(d, vars)) succeeds and returns the same description, flags, context keys, names, kinds, log status, descriptions, "
             "dynamic and steady equations and EXACTLY the same levels and changes of every variant; it forgets only attributes None (-> empty set), "
             "the tolerances/default std and context values, which the format does not carry; PortableWF is evaluated by the driver on every "
             "generated real model (portableWFb, proved sound); the same through JSON for the code as it is (levels survive, steady changes are reset: "
             "portable_json_roundtrip); flag resolution as total functions (from_kwargs with the is_ aliases, update_from_kwargs: an explicit value "
             "wins, also False over True; every flag combination survives the portable) proved on all inputs and compared exhaustively (953 lines); "
             "alter_num_variants adding k variants creates k pairwise distinct fresh objects; the per-Solution expansion memo as a state machine "
             "over an original, its copies and re-solved objects: after ANY history of longer/shorter horizon requests, copies and re-solves every "
             "answer equals that of a brand-new solution of the same version (memo invariant: entry k carries stamp k), compared with the real "
             "square/triangular expansion lists bitwise. The model is tied to the code on "
             "every run by exact correspondence after every operation of random histories (aliasing structure by object identity and all stored "
             "values as exact rationals) and by independent oracles on the real heap (gc object-graph walk for disjointness, mutate-one-observe-"
             "the-other, copy/pickle behavioural equivalence incl. simulation and Kalman filter, variant-vs-singleton bit equality, portable round trip)."),
    "design": "7/C20",
    "note": ("partial: deepcopy/pickle/dill are CPython mechanisms -- the theorems are about the modelled reference structure and the heap walk "
             "ties it to reality; solve/steady/simulate are abstract deterministic functions in the model (their determinism is checked, not proved)."),
    "technique": "Lean 4 proof over executable heap model + differential correspondence after every operation + object-graph walk oracle",
}
ASSUMPTIONS = [
    "CPython copy.deepcopy / pickle / dill are not modelled; the predicted reference structure is compared with the real heap after every operation",
    "solve_first_order / solve_steady / simulate / kalman_filter are abstract deterministic functions of (invariant, one variant's values) in the model; "
    "the harness checks functional consistency and bit equality on the implementation",
    "the `_variants` list object is folded into the model object (the heap walk checks that no two model objects share a list)",
    "Sequential and RedVAR are covered by operation histories with behavioural oracles and the heap walk only (no Lean model of their object layout); "
    "what RedVAR.copy shares on purpose (invariant, cached _companion_T, fitted periods) is not demanded to be disjoint: no operation can write into it",
]

KCH = {
    QuantityKind.TRANSITION_VARIABLE: "x", QuantityKind.MEASUREMENT_VARIABLE: "y", QuantityKind.TRANSITION_SHOCK: "u",
    QuantityKind.ANTICIPATED_SHOCK_VALUE: "v", QuantityKind.MEASUREMENT_SHOCK: "w", QuantityKind.PARAMETER: "p",
    QuantityKind.EXOGENOUS_VARIABLE: "z", QuantityKind.TRANSITION_STD: "s", QuantityKind.MEASUREMENT_STD: "t",
}


@contextlib.contextmanager
def quiet():
    with contextlib.redirect_stdout(io.StringIO()):
        yield


def rat(x) -> str:
    """exact value as num/den (always with the denominator, as the Lean driver prints it); None/NaN -> n"""
    if x is None:
        return "n"
    x = float(x)
    if x != x:
        return "n"
    n, d = x.as_integer_ratio()
    return f"{n}/{d}"


def bits(x):
    if x is None:
        return "n"
    x = float(x)
    return "nan" if x != x else float_bits(x)


# ---------------------------------------------------------------------------------------
# model programs
# ---------------------------------------------------------------------------------------

def gen_spec(rng) -> dict:
    n = rng.randint(1, 3)
    return {
        "n": n,
        "shocks": [rng.chance(0.6) for _ in range(n)],
        "fwd": rng.chance(0.5),
        "meas": rng.chance(0.5),
        "mshock": rng.chance(0.7),
        "exog": rng.chance(0.3),
        "log": rng.chance(0.3),
        "attrs": rng.chance(0.3),
        "steady_variant": rng.chance(0.3),
        "autoval": rng.chance(0.4),          # a `!steady-autovalues` equation (kind #A): every equation kind the language has
        "eqdesc": rng.chance(0.3),           # equation descriptions
        "linear": rng.chance(0.6), "flat": rng.chance(0.5), "deterministic": rng.chance(0.25),
    }


def source_of(spec: dict) -> str:
    n = spec["n"]
    xs = [f"x{i}" for i in range(1, n + 1)]
    tv = list(xs) + (["zf"] if spec["fwd"] else []) + (["lv"] if spec["log"] else [])
    pars = [f"r{i}" for i in range(1, n + 1)] + [f"c{i}" for i in range(1, n + 1)] + ["a"] + (["sx"] if spec.get("autoval") else [])
    shocks = [f"e{i}" for i in range(1, n + 1) if spec["shocks"][i - 1]]
    eqs = []
    for i in range(1, n + 1):
        rhs = f"r{i}*x{i}[-1] + c{i}"
        if i < n:
            rhs += f" + a*x{i + 1}[-1]"
        if spec["exog"] and i == 1:
            rhs += " + 0.5*g"
        if spec["shocks"][i - 1]:
            rhs += f" + e{i}"
        eqs.append((f'"Equation for x{i}" ' if spec.get("eqdesc") else "") + f"x{i} = {rhs};")
    if spec["fwd"]:
        eqs.append("zf = x1 + 0.5*zf[+1]" + (" !! zf = 2*x1;" if spec["steady_variant"] else ";"))
    if spec["log"]:
        eqs.append("log(lv) = 0.5*log(lv[-1]) + 0.25*a;")
    out = []
    att = "{:main :aux}" if spec["attrs"] else ""
    out.append(f"!transition_variables{att}\n    " + ", ".join(('"Variable ' + v + '" ' + v) if spec["attrs"] else v for v in tv))
    if spec["log"]:
        out.append("!log_variables\n    lv")
    out.append("!parameters\n    " + ", ".join(pars))
    if shocks:
        out.append("!transition_shocks\n    " + ", ".join(shocks))
    if spec["exog"]:
        out.append("!exogenous_variables\n    g")
    out.append(f"!transition_equations{att}\n    " + "\n    ".join(eqs))
    if spec.get("autoval"):
        out.append("!steady_autovalues\n    " + ('"Autovalue" ' if spec.get("eqdesc") else "") + "sx = 2*x1 + 1;")
    if spec["meas"]:
        out.append("!measurement_variables\n    o1")
        if spec["mshock"]:
            out.append("!measurement_shocks\n    w1")
        out.append("!measurement_equations\n    o1 = x1" + (" + w1" if spec["mshock"] else "") + ";")
    return "\n".join(out) + "\n"


def build(spec: dict):
    return ir.Simultaneous.from_string(source_of(spec), linear=spec["linear"], flat=spec["flat"], deterministic=spec["deterministic"])


def initial_values(spec: dict, rng) -> dict:
    """a stable, fully specified parameterisation (eigenvalues are the r_i: the transition matrix is triangular)"""
    n = spec["n"]
    vals = {}
    for i in range(1, n + 1):
        vals[f"r{i}"] = rng.choice([0.25, 0.5, 0.75, -0.5, 0.125])
        vals[f"c{i}"] = rng.randint(-8, 8) / 4.0
    vals["a"] = rng.choice([0.0, 0.125, 0.25])
    return vals


def variable_names(spec):
    v = [f"x{i}" for i in range(1, spec["n"] + 1)] + (["zf"] if spec["fwd"] else []) + (["lv"] if spec["log"] else [])
    return v + (["o1"] if spec["meas"] else [])


# ---------------------------------------------------------------------------------------
# values in cases (JSON-able) <-> python <-> request text
# ---------------------------------------------------------------------------------------

def item_to_py(it):
    if isinstance(it, list) and it and it[0] == "T":
        return (item_to_py(it[1]), item_to_py(it[2]))
    if it == "...":
        return ...
    if it == "nan":
        return float("nan")
    return it            # float or None


def part_text(p) -> str:
    return "_" if p == "..." else ("n" if p in ("nan", None) else rat(p))


def item_text(it) -> str:
    if isinstance(it, list) and it and it[0] == "T":
        return part_text(it[1]) + ";" + part_text(it[2])
    return part_text(it)


def vals_to_py(vals):
    if isinstance(vals, dict):
        return [item_to_py(i) for i in vals["list"]]
    return item_to_py(vals)


def vals_text(vals) -> str:
    if isinstance(vals, dict):
        return ",".join(item_text(i) for i in vals["list"]) if vals["list"] else "-"
    return item_text(vals)


# ---------------------------------------------------------------------------------------
# observation of the real heap in the driver's format
# ---------------------------------------------------------------------------------------

def canon_bytes(h, a):
    if isinstance(a, np.ndarray):
        h.update(b"A" + str(a.dtype).encode() + str(a.shape).encode() + np.ascontiguousarray(a).tobytes())
    elif isinstance(a, (list, tuple)):
        h.update(b"L%d" % len(a))
        for x in a:
            canon_bytes(h, x)
    elif isinstance(a, dict):
        h.update(b"D%d" % len(a))
        for k in a:
            h.update(repr(k).encode()); canon_bytes(h, a[k])
    elif isinstance(a, (float, np.floating)):
        h.update(b"F" + np.float64(a).tobytes())
    elif isinstance(a, (complex, np.complexfloating)):
        h.update(b"C" + np.complex128(a).tobytes())
    else:
        h.update(b"R" + repr(a).encode())


def sol_token(sol) -> str:
    """digest of every slot of a Solution object at the bit level"""
    h = hashlib.sha256()
    for n in type(sol).__slots__:
        h.update(n.encode())
        canon_bytes(h, getattr(sol, n, None))
    return h.hexdigest()[:16]


def header_of(m, spec) -> str:
    qs = []
    for q in m._invariant.quantities:
        l = "-" if q.logly is None else ("T" if q.logly else "F")
        qs.append(f"{q.human}:{KCH[q.kind]}:{l}")
    fl = "".join("1" if b else "0" for b in (m.is_linear, m.is_flat, m.is_deterministic))
    tol = m._invariant.tolerance
    return ",".join(qs) + " " + fl + " " + rat(m._invariant._default_std) + " " + rat(tol["eigenvalue"]) + " " + rat(tol["equality"])


def dump(handles) -> str:
    seen = {"m": {}, "i": {}, "v": {}, "d": {}, "s": {}}

    def lab(cat, o):
        d = seen[cat]
        if id(o) not in d:
            d[id(o)] = len(d)
            return d[id(o)], True
        return d[id(o)], False

    out = []
    for m in handles:
        km, _ = lab("m", m)
        inv = m._invariant
        ki, _ = lab("i", inv)
        nq = len(inv.quantities)
        tol = inv.tolerance
        lg = "".join("-" if q.logly is None else ("T" if q.logly else "F") for q in inv.quantities)
        s = f"M{km}:I{ki}" + "{" + str(m.get_description()) + ";" + rat(tol["eigenvalue"]) + ";" + rat(tol["equality"]) + ";" + lg + "}["
        vs = []
        for v in m._variants:
            kv, new = lab("v", v)
            if not new:
                vs.append(f"V{kv}")
                continue
            kl, _ = lab("d", v.levels)
            kc, _ = lab("d", v.changes)
            lv = ",".join(rat(v.levels[q]) for q in range(nq))
            cv = ",".join(rat(v.changes[q]) for q in range(nq))
            if v.solution is None:
                st = "-"
            else:
                ks, _ = lab("s", v.solution)
                st = f"S{ks}={sol_token(v.solution)}"
            vs.append(f"V{kv}(D{kl}={lv};D{kc}={cv};{st})")
        out.append(s + " ".join(vs) + "]")
    return " ".join(out)


# ---------------------------------------------------------------------------------------
# public observables (oracle side: public API only)
# ---------------------------------------------------------------------------------------

def pub(m) -> dict:
    out = {"nv": m.num_variants, "desc": m.get_description(), "names": tuple(m.get_names()),
           "tol": tuple(sorted((k, bits(v)) for k, v in m.get_tolerance().items())),
           "flags": (m.is_linear, m.is_flat, m.is_deterministic),
           "logly": tuple(sorted((k, v) for k, v in m.get_log_status().items()))}
    for key, db in (("levels", m.get_steady_levels(unpack_singleton=False)), ("changes", m.get_steady_changes(unpack_singleton=False)),
                    ("params", m.get_parameters_stds(unpack_singleton=False))):
        out[key] = tuple(sorted((k, tuple(bits(x) for x in v)) for k, v in db.items()))
    out["sol"] = tuple(None if s is None else sol_token(s) for s in m.get_solution(unpack_singleton=False))
    return out


def pub_diff(a: dict, b: dict) -> str:
    return ", ".join(k for k in a if a[k] != b.get(k))


# ---------------------------------------------------------------------------------------
# object-graph walk
# ---------------------------------------------------------------------------------------

ATOMIC = (str, bytes, int, float, complex, bool, type(None), type(Ellipsis), type, types.ModuleType, types.FunctionType,
          types.BuiltinFunctionType, types.CodeType, enum.Enum, np.dtype, np.generic, re.Pattern, range, slice, np.ufunc,
          types.MethodDescriptorType, types.WrapperDescriptorType, types.GetSetDescriptorType, types.MemberDescriptorType)
CONTAINER_ONLY = (tuple, frozenset)


def mutable_reach(root) -> dict:
    """key -> (type name, path) of every mutable object reachable from `root` (numpy buffers keyed by address of the base array)"""
    seen, keep, out = set(), [], {}
    stack = [(root, type(root).__name__)]
    while stack:
        o, path = stack.pop()
        if isinstance(o, ATOMIC):
            continue
        if id(o) in seen:
            continue
        seen.add(id(o)); keep.append(o)
        if isinstance(o, np.ndarray):
            base = o
            while isinstance(base.base, np.ndarray):
                base = base.base
            out[("buf", base.__array_interface__["data"][0])] = ("ndarray", path)
            if o.dtype == object:
                for x in o.flat:
                    stack.append((x, path + "/[]"))
            continue
        if not isinstance(o, CONTAINER_ONLY):
            out[("obj", id(o))] = (type(o).__name__, path)
        if isinstance(o, types.MethodType):
            stack.append((o.__self__, path + "/__self__"))
            continue
        for r in gc.get_referents(o):
            if isinstance(o, dict) or len(path) > 400:
                stack.append((r, path + "/" + type(r).__name__))
            else:
                stack.append((r, path + "/" + _slot_name(o, r)))
    out["__keep__"] = keep
    return out


def _slot_name(o, r) -> str:
    for n in getattr(type(o), "__slots__", ()) or ():
        try:
            if getattr(o, n, None) is r:
                return n
        except Exception:
            pass
    d = getattr(o, "__dict__", None)
    if isinstance(d, dict):
        for k, v in d.items():
            if v is r:
                return str(k)
    return type(r).__name__


def walk_oracle(ctx: Ctx, case, handles, fam, where: str):
    reaches = [mutable_reach(m) for m in handles]
    ctx.count("heap_walks")
    ctx.count("heap_walk_objects", sum(len(r) - 1 for r in reaches))
    for i in range(len(handles)):
        for j in range(i + 1, len(handles)):
            if fam[i] == fam[j]:
                continue
            common = [k for k in reaches[i] if k != "__keep__" and k in reaches[j]]
            if common:
                k = common[0]
                ctx.fail("copy-shares-mutable-state", case,
                         f"{where}: handles {i} and {j} (different copy families) both reach a {reaches[i][k][0]} via {reaches[i][k][1]} and {reaches[j][k][1]}"
                         f" ({len(common)} shared mutable objects)")
                return
    # the `_variants` list of a model object is never shared with another model object (the model folds it into the object)
    lists = {}
    for i, m in enumerate(handles):
        if id(m._variants) in lists:
            ctx.disagree("variants-list-shared", case, f"handles {lists[id(m._variants)]} and {i} share one _variants list", "never shared")
        lists[id(m._variants)] = i


# ---------------------------------------------------------------------------------------
# running a case on the implementation
# ---------------------------------------------------------------------------------------

MAX_HANDLES = 6
SPAN = None


def span():
    global SPAN
    if SPAN is None:
        SPAN = ir.qq(2020, 1) >> ir.qq(2021, 2)
    return SPAN


def roundtrip(m, via: str):
    if via == "pickle":
        return pickle.loads(pickle.dumps(m))
    if via == "deepcopy":
        return _copy.deepcopy(m)
    if via == "dill":
        import dill
        return dill.loads(dill.dumps(m))
    if via == "saveload":
        d = tempfile.mkdtemp(prefix="c20-")
        try:
            f = os.path.join(d, "m.dill")
            ir.save(f, m)
            return ir.load(f)
        finally:
            import shutil
            shutil.rmtree(d, ignore_errors=True)
    if via == "bytes":
        return pickle.loads(m.to_pickle_bytes())
    raise ValueError(via)


def has_dups(m) -> bool:
    return len({id(v) for v in m._variants}) < len(m._variants)


def exec_op(handles, fam, op):
    """runs one op on the implementation; returns request text; raises what the implementation raises"""
    k = op["op"]
    m = handles[op["h"]]
    if k == "assign":
        m.assign(**{op["name"]: vals_to_py(op["vals"])})
        return f"assign {op['h']} {op['name']} {vals_text(op['vals'])}"
    if k == "solve":
        m.solve()
        return f"solve {op['h']} " + " ".join(sol_token(v.solution) for v in m._variants)
    if k == "steady":
        with quiet():
            m.steady()
        nq = len(m._invariant.quantities)
        res = [",".join(rat(v.levels[q]) for q in range(nq)) + ";" + ",".join(rat(v.changes[q]) for q in range(nq)) for v in m._variants]
        return f"steady {op['h']} " + " ".join(res)
    if k == "alter":
        m.alter_num_variants(op["n"])
        return f"alter {op['h']} {op['n']}"
    if k == "copy":
        new = m.copy()
        handles.append(new); fam.append(max(fam) + 1)
        return f"copy {op['h']}"
    if k == "pickle":
        new = roundtrip(m, op.get("via", "pickle"))
        handles.append(new); fam.append(max(fam) + 1)
        return f"pickle {op['h']}"
    if k == "view":
        idx = op["idx"]
        how = op.get("how", "get_variant")
        if how == "slice":
            new = m[slice(*op["sl"])]
        elif how == "ellipsis":
            new = m[...]
        elif how == "item":
            new = m[idx[0]]
        elif how == "iter":
            new = list(m.iter_own_variants())[idx[0]]
        else:
            new = m.get_variant(idx)
        handles.append(new); fam.append(fam[op["h"]])
        return view_text(op)
    if k == "desc":
        m.set_description(op["s"])
        return f"desc {op['h']} {op['s']}"
    if k == "tol":
        m.override_tolerance(**{("eigenvalue" if op["key"] == "eig" else "equality"): op["x"]})
        return f"tol {op['h']} {op['key']} {rat(op['x'])}"
    if k == "logly":         # a mutator of the invariant that rebinds `quantities`
        m.change_logly(op["new"], op["names"] or None)
        return f"logly {op['h']} {'T' if op['new'] else 'F'} " + (",".join(op["names"]) if op["names"] else "-")
    if k == "rtol":
        m.reset_tolerance()
        return f"rtol {op['h']} {rat(1e-12)}"
    raise ValueError("bad op " + k)


def view_text(op) -> str:
    if op.get("how") == "slice":
        return f"views {op['h']} " + ":".join("n" if x is None else str(x) for x in op["sl"])
    if op.get("how") == "ellipsis":
        return f"views {op['h']} all"
    return f"view {op['h']} " + ",".join(str(i) for i in op["idx"])


def op_text_on_error(op) -> str:
    k = op["op"]
    if k == "alter":
        return f"alter {op['h']} {op['n']}"
    if k == "view":
        return view_text(op)
    return None


def logly_changed(m, spec) -> bool:
    st = m.get_log_status()
    return any(bool(v) != (spec["log"] and k == "lv") for k, v in st.items())


def gen_op(rng, spec, handles, nonlinear: bool):
    """one random op given the current real state (so that values stay meaningful); JSON-able"""
    h = rng.randint(0, len(handles) - 1)
    m = handles[h]
    nv = m.num_variants
    can_create = len(handles) < MAX_HANDLES
    kind = rng.weighted([("assign", 6), ("solve", 2), ("steady", 2), ("alter", 2), ("copy", 1.5 if can_create else 0),
                         ("pickle", 1.5 if can_create else 0), ("view", 1.5 if can_create else 0), ("desc", 0.8), ("tol", 0.5),
                         ("logly", 0.9 if (spec["log"] and spec["linear"]) else 0), ("rtol", 0.3), ("bad", 0.4)])
    if kind == "steady" and has_dups(m):
        kind = "solve"
    if kind in ("steady", "solve") and logly_changed(m, spec):
        # after change_logly the numerical routines may be fed log(<=0): LAPACK's lstsq then never returns (observed: linear flat
        # steady, > 40 s in one call).  The invariant mutator itself, copies, assigns and reads are still exercised on such handles.
        kind = "assign"
    if kind == "assign":
        n = spec["n"]
        cls = rng.weighted([("r", 4), ("c", 3), ("a", 1), ("std", 1), ("var", 2), ("shock", 0.7), ("unknown", 0.4)])
        names = m.get_names()
        lin_only_nan = False
        if cls == "r":
            name = f"r{rng.randint(1, n)}"; pool = [0.25, 0.5, 0.75, -0.5, 0.125, -0.25]
        elif cls == "c":
            name = f"c{rng.randint(1, n)}"; pool = [k / 4.0 for k in range(-8, 9)]
        elif cls == "a":
            name = "a"; pool = [0.0, 0.125, 0.25, -0.125]
        elif cls == "std":
            stds = [x for x in names if x.startswith("std_")]
            if not stds:
                name = "a"; pool = [0.0, 0.125]
            else:
                name = rng.choice(stds); pool = [0.5, 1.0, 2.0, 0.25]
        elif cls == "var":
            name = rng.choice(variable_names(spec)); pool = [0.5, 1.0, 2.0, 1.5, 3.0]
            lin_only_nan = not nonlinear
        elif cls == "shock":
            sh = [x for x in names if x.startswith(("e", "w", "ant_"))]
            name = rng.choice(sh) if sh else "a"; pool = [0.0, 0.125] if not sh else [1.0, 0.5, -2.0]
        else:
            name = "nosuchname"; pool = [1.0]

        def item():
            x = rng.choice(pool)
            form = rng.weighted([("scalar", 6), ("tuple", 2 if cls == "var" else 0.5), ("dots", 0.2), ("none", 0.6 if lin_only_nan else 0)])
            if form == "scalar":
                return x
            if form == "dots":
                return "..."
            if form == "none":
                return rng.choice([None, "nan"])
            chg_pool = ["...", 0.0, "nan", None] if (name == "lv" or nonlinear) else ["...", 0.0, 0.25, "nan", None]
            if name == "lv":
                chg_pool = ["...", 1.0]
            return ["T", rng.choice([x, "..."]), rng.choice(chg_pool)]

        if rng.chance(0.45):
            ln = rng.choice([0, 1, nv, nv, max(1, nv - 1), nv + 1]) if rng.chance(0.9) else 0
            vals = {"list": [item() for _ in range(ln)]}
        else:
            vals = item()
        return {"op": "assign", "h": h, "name": name, "vals": vals}
    if kind in ("solve", "steady"):
        return {"op": kind, "h": h}
    if kind == "alter":
        return {"op": "alter", "h": h, "n": rng.choice([1, 1, 2, 2, 3, 3, 4, 5, nv, nv + 1, nv + 2, nv + 3])}
    if kind == "copy":
        return {"op": "copy", "h": h}
    if kind == "pickle":
        return {"op": "pickle", "h": h, "via": rng.weighted([("pickle", 4), ("deepcopy", 2), ("dill", 1.5), ("saveload", 0.7), ("bytes", 0.7)])}
    if kind == "view" and rng.chance(0.35):
        # m[a:b:c] with any mix of None / negative / positive bounds and steps, and m[...]: the expected variants are
        # list(range(nv))[selector] (Python's own slicing: independent of irispie and of the Lean model)
        if rng.chance(0.15):
            return {"op": "view", "h": h, "idx": list(range(nv)), "how": "ellipsis"}
        for _ in range(6):
            b = lambda: rng.choice([None, None, 0, 1, 2, -1, -2, -3, nv, nv + 2, -nv, -nv - 2, rng.randint(-nv - 1, nv + 1)])
            sl = [b(), b(), rng.choice([None, None, 1, 1, 2, -1, -2, 3])]
            exp = list(range(nv))[slice(*sl)]
            if exp:
                return {"op": "view", "h": h, "idx": exp, "how": "slice", "sl": sl}
        return {"op": "view", "h": h, "idx": [nv - 1], "how": "slice", "sl": [-1, None, None]}
    if kind == "view":
        how = rng.weighted([("item", 4), ("get_variant", 3), ("iter", 1)])
        if how == "iter":
            return {"op": "view", "h": h, "idx": [rng.randint(0, nv - 1)], "how": how}
        if how == "item":       # m[k], k anywhere in -nv .. nv-1 (Python indexing)
            return {"op": "view", "h": h, "idx": [rng.randint(-nv, nv - 1)], "how": how}
        k = rng.randint(1, min(3, nv + 1))
        idx = [rng.randint(-nv, nv - 1) if rng.chance(0.3) else rng.randint(0, nv - 1) for _ in range(k)]   # duplicates are possible and intended
        return {"op": "view", "h": h, "idx": idx, "how": "get_variant"}
    if kind == "desc":
        return {"op": "desc", "h": h, "s": "d" + str(rng.randint(0, 99))}
    if kind == "logly":
        # only the log variable `lv` is ever toggled (the AR variables may be negative): by name, or `False` for all loggables;
        # only on LINEAR models: on a nonlinear one the iterative steady solver can then run into log(<=0) and grind through its
        # whole iteration budget with NaNs (minutes per history)
        if rng.chance(0.3):
            return {"op": "logly", "h": h, "new": False, "names": []}
        return {"op": "logly", "h": h, "new": rng.chance(0.5), "names": ["lv"]}
    if kind == "rtol":
        return {"op": "rtol", "h": h}
    if kind == "tol":
        return {"op": "tol", "h": h, "key": rng.choice(["eig", "eq"]), "x": 2.0 ** -rng.randint(30, 44)}
    # user errors that the code rejects without touching anything
    if rng.chance(0.35):
        return {"op": "alter", "h": h, "n": 0}
    # an index just outside -nv .. nv-1 (off-by-one loop bound, an index kept after shrinking), alone or inside a list
    out = rng.choice([nv, nv + 1, -nv - 1, -nv - 2, 2 * nv, nv + rng.randint(0, 2)])
    form = rng.weighted([("item", 3), ("single", 2), ("list", 2), ("step0", 1)])
    if form == "step0":
        return {"op": "view", "h": h, "idx": [nv], "how": "slice", "sl": [None, None, 0]}
    if form == "item":
        return {"op": "view", "h": h, "idx": [out], "how": "item"}
    if form == "single":
        return {"op": "view", "h": h, "idx": [out], "how": "get_variant"}
    idx = [rng.randint(0, nv - 1), out]
    return {"op": "view", "h": h, "idx": rng.shuffle(idx), "how": "get_variant"}


def impl_read(m, name, unpack) -> str:
    """the driver's `read` reply from the real model: m[name] (unpack) / the per-variant list (no unpack)"""
    try:
        if unpack:
            r = m[name]
            return "ok#read=" + ("[" + ",".join(rat(x) for x in r) + "]" if isinstance(r, list) else rat(r))
        qid = m.create_name_to_qid()[name]
        return "ok#read=[" + ",".join(rat(v.levels[qid]) for v in m._variants) + "]"
    except Exception:
        return "err:bad#read"


def _same(a, b) -> bool:
    return bits(a) == bits(b)


def readback_oracle(ctx: Ctx, snap, m, name, where):
    """every public spelling of "the value of `name`" agrees: m[name], m.get_value, the getters with unpack_singleton on and
    off, and the per-variant views m[k][name]; unpacked to a scalar exactly when the model has ONE variant"""
    if name not in m.get_names():
        return
    nv = m.num_variants
    ctx.count("readback_checks")
    per_variant = [m[k][name] for k in range(nv)]             # one-variant views: always a scalar
    if any(isinstance(x, list) for x in per_variant):
        ctx.fail("readback-spellings-disagree", snap, f"{where}: m[k]['{name}'] of a one-variant view is a list")
        return
    spellings = {"m[name]": m[name], "get_value": m.get_value(name)}
    for getter in ("get_parameters", "get_parameters_stds", "get_stds", "get_steady_levels"):
        full = getattr(m, getter)(unpack_singleton=False)
        if name in full.keys():
            spellings[getter + "(unpack_singleton=False)"] = ("list", list(full[name]))
            spellings[getter + "()"] = getattr(m, getter)()[name]
    for sp, val in spellings.items():
        if isinstance(val, tuple) and val[0] == "list":
            ok = len(val[1]) == nv and all(_same(a, b) for a, b in zip(val[1], per_variant))
        elif nv == 1:
            ok = (not isinstance(val, list)) and _same(val, per_variant[0])
        else:
            ok = isinstance(val, list) and len(val) == nv and all(_same(a, b) for a, b in zip(val, per_variant))
        if not ok:
            ctx.fail("readback-spellings-disagree", snap,
                     f"{where}: {sp} of '{name}' on a model with {nv} variant(s) gives {val!r} but the per-variant views m[k]['{name}'] give {per_variant!r}")
            return
    # steady changes: both forms of the getter agree with each other
    ch = m.get_steady_changes(unpack_singleton=False)
    if name in ch.keys():
        c2 = m.get_steady_changes()[name]
        full = list(ch[name])
        ok = (not isinstance(c2, list) and _same(c2, full[0])) if nv == 1 else (isinstance(c2, list) and all(_same(a, b) for a, b in zip(c2, full)) and len(c2) == nv)
        if not ok:
            ctx.fail("readback-spellings-disagree", snap, f"{where}: get_steady_changes()['{name}'] = {c2!r} but unpack_singleton=False gives {full!r}")


def run_case(ctx: Ctx, case: dict, gen_rng=None, n_ops: int = 0, oracles: bool = True):
    """executes `case` (spec + ops; when gen_rng is given, ops are generated on the fly and appended to case['ops']);
    returns (request line, implementation reply) or None when the history had to be abandoned"""
    spec = case["spec"]
    nonlinear = not spec["linear"]
    try:
        m0 = build(spec)
    except Exception as e:
        ctx.count("spec_rejected")
        return None
    handles, fam = [m0], [0]
    dfree = [True]      # oracle-side bookkeeping: handle cannot hold one variant object twice, given how it was created
    line = ["case " + header_of(m0, spec)]
    reply = ["ok#" + dump(handles)]
    ops = case["ops"]
    i = 0
    while True:
        if gen_rng is not None and i >= len(ops):
            if i >= n_ops:
                break
            ops.append(gen_op(gen_rng, spec, handles, nonlinear))
        if i >= len(ops):
            break
        op = ops[i]; i += 1
        if op["h"] >= len(handles):
            continue
        ctx.count("op_" + op["op"])
        tgt = op["h"]
        creating = op["op"] in ("copy", "pickle", "view")
        before = None
        if oracles:
            before = [pub(m) if (creating or fam[k] != fam[tgt]) else None for k, m in enumerate(handles)]
        nh = len(handles)
        try:
            text = exec_op(handles, fam, op)
            status = "ok"
        except Exception as e:
            text = op_text_on_error(op)
            if text is None or len(handles) != nh:
                # a numerical routine raised half-way (never expected on these well-conditioned programs): stop the history here
                ctx.count("history_abandoned:" + type(e).__name__)
                ops[:] = ops[:i - 1]
                break
            status = "err:bad"
            ctx.count("op_rejected")
        if len(handles) > nh:
            nsrc = handles[tgt].num_variants      # a view does not change its source; -k and N-k name the same variant
            dfree.append(dfree[tgt] and (op["op"] != "view" or len({k % nsrc for k in op["idx"]}) == len(op["idx"])))
        line.append(text)
        reply.append(status + "#" + dump(handles))
        if not oracles:
            continue
        ctx.evaluations += 1
        # oracle 1: nothing outside the target's family changes (for creating ops: nothing existing changes at all)
        for k in range(nh):
            if before[k] is None:
                continue
            now = pub(handles[k])
            if now != before[k]:
                ctx.fail("mutation-leaks-to-other-model", {"spec": spec, "ops": ops[:i]},
                         f"op #{i - 1} {op} on handle {tgt} (family {fam[tgt]}) changed {pub_diff(before[k], now)} of handle {k} (family {fam[k]})")
        # oracle 1b: what was assigned reads back, per variant (scalars go to every variant, lists with exhaust-then-last), through
        # the per-variant views m[k][name]; only for handles whose variants are distinct objects BY CONSTRUCTION, and for names that the
        # assignment rules leave alone (not shocks)
        if status == "ok" and op["op"] == "assign" and dfree[tgt]:
            items = op["vals"]["list"] if isinstance(op["vals"], dict) else [op["vals"]]
            name = op["name"]
            if items and all(isinstance(x, float) for x in items) and name in handles[tgt].get_names() \
                    and not re.match(r"(e\d|w\d|ant_)", name):
                for kk in range(handles[tgt].num_variants):
                    want = items[min(kk, len(items) - 1)]
                    got = handles[tgt][kk][name]
                    if got != want:
                        ctx.fail("variant-assign-readback", {"spec": spec, "ops": ops[:i]},
                                 f"op #{i - 1} {op}: variant {kk} of handle {tgt} reads {got!r}, assigned {want!r}")
                        break
        # oracle 1d + correspondence: read values back through ALL public spellings (on the target, and on the new handle)
        if status == "ok" and op["op"] in ("assign", "alter", "copy", "pickle", "view", "steady"):
            rnames = [op["name"]] if op["op"] == "assign" else []
            rnames.append(["r1", "c1", "a", "x1"][i % 4])
            for hk in ({tgt, len(handles) - 1} if len(handles) > nh else {tgt}):
                for rn in rnames:
                    readback_oracle(ctx, {"spec": spec, "ops": ops[:i]}, handles[hk], rn, f"op #{i - 1} {op['op']}, handle {hk}")
                    for u in ("T", "F"):
                        line.append(f"read {hk} {rn} {u}")
                        reply.append(impl_read(handles[hk], rn, u == "T"))
        # oracle 1c: m[k] / get_variant: Python indexing -- an index outside -N .. N-1 names no variant and must be rejected;
        # an index inside must give exactly that variant's values (variant k IS variant k)
        if op["op"] == "view":
            src = before[tgt] if before[tgt] is not None else pub(handles[tgt])
            N = src["nv"]
            outside = [k for k in op["idx"] if not (-N <= k < N)]
            snap = {"spec": spec, "ops": ops[:i]}
            if outside and status == "ok":
                ctx.fail("variant-index-out-of-range-accepted", snap,
                         f"op #{i - 1} {op}: index {outside[0]} on a model with {N} variant(s) returned a model instead of raising IndexError")
            elif not outside and status != "ok":
                ctx.fail("variant-view-wrong-variant", snap, f"op #{i - 1} {op}: an in-range index on a model with {N} variant(s) was rejected")
            elif not outside:
                got = pub(handles[-1])
                if got["nv"] != len(op["idx"]):
                    ctx.fail("variant-view-wrong-variant", snap,
                             f"op #{i - 1} {op}: the selector names {len(op['idx'])} variant(s) of {N} but the view has {got['nv']}")
                for j, k in enumerate(op["idx"][:got["nv"]]):
                    r = k % N
                    for key in ("levels", "changes", "params"):
                        for (n1, v1), (n2, v2) in zip(got[key], src[key]):
                            if v1[j] != v2[r]:
                                ctx.fail("variant-view-wrong-variant", snap,
                                         f"op #{i - 1} {op}: position {j} of the view shows {key}[{n1}] of another variant than variant {k} of {N}")
                    if got["sol"][j] != src["sol"][r]:
                        ctx.fail("variant-view-wrong-variant", snap, f"op #{i - 1} {op}: position {j} of the view carries another variant's solution")
        # oracle 2: a fresh copy / pickle has the observables of its source
        if status == "ok" and op["op"] in ("copy", "pickle"):
            a, b = pub(handles[tgt]), pub(handles[-1])
            if a != b:
                ctx.fail("copy-not-equivalent", {"spec": spec, "ops": ops[:i]},
                         f"op #{i - 1} {op}: the new model differs from its source in {pub_diff(a, b)}")
            walk_oracle(ctx, {"spec": spec, "ops": ops[:i]}, handles, fam, f"after op #{i - 1} {op['op']}")
    if oracles:
        walk_oracle(ctx, {"spec": spec, "ops": list(ops)}, handles, fam, "at the end")
        final_oracles(ctx, {"spec": spec, "ops": list(ops)}, handles, fam)
        kinds = {o["op"] for o in ops}
        if len(handles) >= 2 and any(m.num_variants > 1 for m in handles) and kinds & {"solve", "steady"}:
            ctx.nontriv(json.dumps([[o["op"], o["h"]] for o in ops]) + json.dumps(spec, sort_keys=True))
    return " | ".join(line), " | ".join(reply)


# ---------------------------------------------------------------------------------------
# end-of-history oracles: behavioural equivalence of copies; variant k vs singleton
# ---------------------------------------------------------------------------------------

def series_bits(db, names):
    out = {}
    for n in names:
        if n in db:
            s = db[n]
            d = getattr(s, "data", None)
            out[n] = None if d is None else (str(getattr(s, "start", None)), d.shape, np.ascontiguousarray(d, dtype=float).tobytes())
    return out


def behaviour(m, spec, with_filter=True):
    """steady -> solve -> simulate (-> kalman_filter): everything returned at the bit level"""
    with quiet():
        m.steady()
    m.solve()
    out = {"pub": pub(m)}
    sp = span()
    db = m.build_steady_paths(sp)
    shocks = [n for n in m.get_names() if re.fullmatch(r"e\d", n)]
    for j, e in enumerate(shocks):
        db[e] = ir.Series(periods=[sp.start + j], values=[1.0 + j])
    sim = m.simulate(db, sp)
    sim = sim[0] if isinstance(sim, tuple) else sim
    out["sim"] = series_bits(sim, variable_names(spec))
    if with_filter and spec["meas"] and not spec["deterministic"] and spec["mshock"]:
        fdb = ir.Databox()
        fdb["o1"] = ir.Series(start=sp.start, values=np.array([1.0, 2.0, 1.5, 1.25, 0.5, 1.0]))
        with quiet():
            k = m.kalman_filter(fdb, sp)
        k = k[0] if isinstance(k, tuple) else k
        out["kf"] = kalman_bits(k)
    return out


LONG_SPAN = None


def long_span():
    global LONG_SPAN
    if LONG_SPAN is None:
        LONG_SPAN = ir.qq(2020, 1) >> ir.qq(2022, 4)
    return LONG_SPAN


def use_step(m, spec, step):
    """one use of a solved model (no steady/solve: the Solution objects and whatever they cache are kept); bits of the result"""
    sp = long_span()
    kind = step[0]
    if kind == "kf":
        fdb = ir.Databox()
        fdb["o1"] = ir.Series(start=sp.start, values=np.array([1.0, 2.0, 1.5, 1.25, 0.5, 1.0, 0.75, 1.5]))
        with quiet():
            k = m.kalman_filter(fdb, sp.start >> sp.start + 7)
        return kalman_bits(k[0] if isinstance(k, tuple) else k)
    deviation = bool(step[3]) if len(step) > 3 else False
    db = m.build_steady_paths(sp, deviation=deviation)
    if kind == "ant":          # anticipated shock `ant_<name>` at horizon h: uses the forward expansion of the solution
        db["ant_" + step[1]] = ir.Series(periods=[sp.start + step[2]], values=[1.0])
    elif kind == "unant":
        db[step[1]] = ir.Series(periods=[sp.start + step[2]], values=[1.0])
    sim = m.simulate(db, sp, deviation=deviation)
    sim = sim[0] if isinstance(sim, tuple) else sim
    return series_bits(sim, variable_names(spec))


def used_oracle(ctx: Ctx, case, spec, a, x, rng):
    """`a` is solved (by `behaviour`).  Copies are taken BEFORE `a` is used, `a` is used (anticipated shocks at a short horizon,
    filter, deviation run: whatever a Solution object caches lazily gets filled), copies are taken AFTER, a twin gets brand-new
    solution objects; then the same probes (longer horizons in sequence, short again, unanticipated, deviation, filter) run on
    all of them and must agree with the used original at the bit level."""
    shocks = [f"e{i}" for i in range(1, spec["n"] + 1) if spec["shocks"][i - 1]]
    can_filter = spec["meas"] and not spec["deterministic"] and spec["mshock"]
    if not shocks and not can_filter:
        return
    h1, h2, h3 = rng.randint(1, 2), rng.randint(4, 6), rng.randint(8, 10)
    warm, probes = [], []
    for e in shocks[:2]:
        warm.append(["ant", e, h1, False])
    if can_filter:
        warm.append(["kf"])
    if shocks and rng.chance(0.5):
        warm.append(["ant", shocks[0], h1, True])
    for e in shocks[:2]:
        probes += [["ant", e, h2, False], ["ant", e, h3, False], ["ant", e, rng.randint(1, 3), False]]
    if shocks:
        probes += [["unant", shocks[0], 2, False], ["ant", shocks[0], h3, True]]
    if can_filter:
        probes.append(["kf"])
    usage = {"warm": warm, "probes": probes}
    try:
        before = {"copy-before-use": a.copy(), "pickle-before-use": roundtrip(a, "pickle")}
        fresh = x.copy()
        with quiet():
            fresh.steady()
        fresh.solve()
        for st in warm:
            use_step(a, spec, st)
        after = {"copy-after-use": a.copy(), rng.choice(["pickle", "deepcopy", "dill"]) + "-after-use": None}
        via = [k for k in after if after[k] is None][0]
        after[via] = roundtrip(a, via.split("-")[0])
        ref = [use_step(a, spec, st) for st in probes]
    except Exception as e:
        ctx.count("used_oracle_skipped:" + type(e).__name__)
        return
    ctx.count("used_oracle_compared")
    if spec["fwd"] and shocks:
        ctx.count("used_oracle_forward_looking_with_anticipated_shocks")
    for name, t in list(before.items()) + list(after.items()) + [("re-solved-twin", fresh)]:
        try:
            got = [use_step(t, spec, st) for st in probes]
        except Exception as e:
            ctx.fail("used-original-differs-from-copy", dict(case, usage=usage), f"{name} raises {e!r} on a probe the used original runs")
            continue
        ctx.evaluations += 1
        for st, r, g in zip(probes, ref, got):
            if r != g:
                ctx.fail("used-original-differs-from-copy", dict(case, usage=usage),
                         f"probe {st}: the original (used before with {warm}) and its {name} give different results")
                break


def kalman_bits(k):
    h = hashlib.sha256()

    def rec(o, depth=0):
        if depth > 6:
            return
        if hasattr(o, "data") and isinstance(getattr(o, "data"), np.ndarray):
            h.update(np.ascontiguousarray(o.data, dtype=float).tobytes())
        elif isinstance(o, dict) or hasattr(o, "keys"):
            for key in sorted(o.keys(), key=str):
                h.update(str(key).encode()); rec(o[key], depth + 1)
        elif isinstance(o, np.ndarray):
            h.update(np.ascontiguousarray(o).tobytes())
        elif isinstance(o, (list, tuple)):
            for x in o:
                rec(x, depth + 1)
        elif isinstance(o, (int, float, str, bool, type(None))):
            h.update(repr(o).encode())
    rec(k)
    return h.hexdigest()


def close_enough(a: bytes, b: bytes) -> bool:
    x, y = np.frombuffer(a, dtype=float), np.frombuffer(b, dtype=float)
    if x.shape != y.shape:
        return False
    both_nan = np.isnan(x) & np.isnan(y)
    scale = max(1.0, float(np.nanmax(np.abs(np.where(both_nan, 0, x)))) if x.size else 1.0)
    return bool(np.all(both_nan | (np.abs(x - y) <= 1e-12 * scale)))


def final_oracles(ctx: Ctx, case, handles, fam):
    spec = case["spec"]
    cands = [m for m in handles if not has_dups(m) and not logly_changed(m, spec)]
    if not cands:
        return
    # the choices below depend on the case only, so that a replay makes the same ones
    from .common import Rng
    rng = Rng(int.from_bytes(hashlib.sha256(json.dumps(case, sort_keys=True, default=str).encode()).digest()[:8], "big"))
    a = rng.choice(cands)
    # --- copies behave identically -----------------------------------------------------
    twins = {"copy": a.copy()}
    for via in ("pickle", "deepcopy", "dill", "saveload"):
        if via in ("pickle", "deepcopy") or rng.chance(0.34):
            twins[via] = roundtrip(a, via)
    x = a.copy()        # untouched pre-steady state for the variant oracle
    try:
        ref = behaviour(a, spec)
    except Exception as e:
        ctx.count("behaviour_skipped:" + type(e).__name__)
        return
    ctx.count("behaviour_compared")
    for name, t in twins.items():
        try:
            got = behaviour(t, spec)
        except Exception as e:
            ctx.fail("copy-behaves-differently", case, f"{name} of a model raises {e!r} where the original runs")
            continue
        for key in ref:
            if ref[key] != got[key]:
                ctx.fail("copy-behaves-differently", case, f"{name}: {key} differs from the original after the same steady/solve/simulate/filter calls")
        ctx.evaluations += 1
    # --- a USED original vs copies taken before / after the use vs a twin with brand-new solution objects -------------
    used_oracle(ctx, case, spec, a, x, rng)
    # --- variant k vs a singleton with the same values ----------------------------------
    nv = x.num_variants
    names_v = variable_names(spec)
    lev = x.get_steady_levels(unpack_singleton=False)
    chg = x.get_steady_changes(unpack_singleton=False)
    par = x.get_parameters_stds(unpack_singleton=False)
    sims = None
    for k in (range(nv) if nv <= 3 else rng.sample(range(nv), 3)):
        s = build(spec)
        s.override_tolerance(**dict(x.get_tolerance()))
        for n_, v_ in x.get_log_status().items():       # the singleton is the same model: same log status
            if s.get_log_status()[n_] != v_:
                s.change_logly(v_, [n_])
        s.assign(**{n: (lev[n][k], chg[n][k]) for n in lev.keys()})
        s.assign(**{n: par[n][k] for n in par.keys()})
        try:
            got = behaviour(s, spec, with_filter=False)
        except Exception as e:
            ctx.count("variant_singleton_skipped:" + type(e).__name__)
            continue
        ctx.count("variant_vs_singleton")
        ctx.evaluations += 1
        gp, rp = got["pub"], ref["pub"]
        for key in ("levels", "changes", "params"):
            for (n1, v1), (n2, v2) in zip(gp[key], rp[key]):
                if v1[0] != v2[k]:
                    fa, fb = _unbits(v1[0]), _unbits(v2[k])
                    if fa is not None and fb is not None and abs(fa - fb) <= 1e-12 * max(1.0, abs(fa)):
                        ctx.count("variant_equiv_tolerance_used")
                    else:
                        ctx.fail("variant-not-equivalent-to-singleton", case,
                                 f"variant {k} of {nv}: {key}[{n1}] = {fb!r} but a singleton with the same values gives {fa!r}")
        if gp["sol"][0] != rp["sol"][k]:
            ctx.fail("variant-not-equivalent-to-singleton", case, f"variant {k} of {nv}: solution matrices differ from those of a singleton with the same values")
        for n in got["sim"]:
            g, r = got["sim"][n], ref["sim"].get(n)
            if g is None or r is None:
                continue
            gd = np.frombuffer(g[2], dtype=float).reshape(g[1])
            rd = np.frombuffer(r[2], dtype=float).reshape(r[1])
            col = rd[:, k] if rd.ndim == 2 and rd.shape[1] > k else rd[:, 0]
            if g[0] != r[0] or gd[:, 0].tobytes() != np.ascontiguousarray(col).tobytes():
                if g[0] == r[0] and close_enough(gd[:, 0].tobytes(), np.ascontiguousarray(col).tobytes()):
                    ctx.count("variant_equiv_tolerance_used")
                else:
                    ctx.fail("variant-not-equivalent-to-singleton", case, f"variant {k} of {nv}: simulated {n} differs from the singleton's")


def _unbits(b):
    if b in ("n", "nan"):
        return None
    import struct
    return struct.unpack("<d", struct.pack("<Q", b))[0]


# ---------------------------------------------------------------------------------------
# entry points
# ---------------------------------------------------------------------------------------

def corpus_cases():
    d = os.path.join(VERIF, "corpus", "C20")
    out = []
    if os.path.isdir(d):
        for f in sorted(os.listdir(d)):
            if f.endswith(".json"):
                out.append((f, json.load(open(os.path.join(d, f)))))
    return out


def compare_lines(ctx: Ctx, stream: str, cases, lines, impl):
    model = ctx.model("C20", lines)
    if model is None:
        return
    ctx.streams_compared[stream] = ctx.streams_compared.get(stream, 0) + len(lines)
    for c, l, a, b in zip(cases, lines, impl, model):
        if a == b:
            continue
        fa, fb = a.split(" | "), b.split(" | ")
        k = next((i for i, (x, y) in enumerate(zip(fa, fb)) if x != y), min(len(fa), len(fb)))
        if len([d for d in ctx.disagreements if d["stream"] == stream]) < 10:
            ctx.disagree(stream, c, f"after op #{k - 1}: " + (fa[k] if k < len(fa) else "<missing>")[:1500],
                         f"after op #{k - 1}: " + (fb[k] if k < len(fb) else "<missing>")[:1500])


def history_stream(ctx: Ctx, n_cases: int, tag: str = "hist", oracles=True):
    rng = ctx.rng.fork(tag)
    cases, lines, impl = [], [], []
    for c in range(n_cases):
        r = rng.fork(c)
        spec = gen_spec(r)
        case = {"spec": spec, "ops": []}
        # every history starts from a fully specified, stable parameterisation
        init = initial_values(spec, r)
        for n, v in init.items():
            case["ops"].append({"op": "assign", "h": 0, "name": n, "vals": v})
        for n in variable_names(spec):
            case["ops"].append({"op": "assign", "h": 0, "name": n, "vals": ["T", r.choice([1.0, 2.0, 0.5]), 1.0 if n == "lv" else "..."]})
        if spec["exog"]:
            case["ops"].append({"op": "assign", "h": 0, "name": "g", "vals": 1.0})
        n_ops = len(case["ops"]) + r.randint(4, 14)
        res = run_case(ctx, case, gen_rng=r, n_ops=n_ops, oracles=oracles)
        ctx.count(f"flags_l{int(spec['linear'])}f{int(spec['flat'])}d{int(spec['deterministic'])}")
        if res is None:
            continue
        cases.append(case); lines.append(res[0]); impl.append(res[1])
        ctx.sample({"spec": spec, "ops": case["ops"][-6:]})
    return cases, lines, impl


def run(ctx: Ctx):
    ctx.rule = ("random histories of 4-14 operations (after a full stable parameterisation) over an original Simultaneous model built from a "
                "generated source (1-3 AR variables in a triangular system, optional forward-looking, log, exogenous, measurement block, "
                "attributes, all 8 flag combinations) and the copies / pickles / dill / deepcopy / save+load twins / views created on the way; "
                "non-trivial = a history with >= 2 live model objects, a multi-variant model and at least one solve/steady; distinct by "
                "(spec, op kinds and targets)")
    # corpus first
    for name, payload in corpus_cases():
        replay(ctx, payload, from_corpus=name)
    import time as _t
    walls = {}

    def timed(name, f):
        t0 = _t.time()
        r = f()
        walls[name] = round(walls.get(name, 0.0) + _t.time() - t0, 1)
        ctx.extra["stream_wall_s"] = dict(walls)
        return r

    cases, lines, impl = timed("history-impl", lambda: history_stream(ctx, ctx.n(150, 500)))
    timed("history-model", lambda: compare_lines(ctx, "history", cases, lines, impl))
    timed("portable", lambda: portable_stream(ctx, ctx.n(80, 300)))
    timed("other", lambda: other_models_stream(ctx, ctx.n(40, 300)))
    timed("flags", lambda: flags_stream(ctx))
    timed("memo", lambda: memo_stream(ctx, ctx.n(80, 600)))
    ctx.log(f"[C20] wall per stream (s): {walls}")


def search(ctx: Ctx, seeds):
    """failing-input search when a tie broke: the oracles alone, seeded by the disagreements; bounded (about 60-90 s)"""
    ctx.tier = "thorough"
    for s in seeds[:10]:
        if isinstance(s, dict) and "spec" in s and "ops" in s:
            run_case(ctx, {"spec": s["spec"], "ops": list(s["ops"])})
        elif isinstance(s, dict) and s.get("kind") == "portable":
            portable_case(ctx, s)
        elif isinstance(s, dict) and s.get("kind") == "other":
            other_case(ctx, dict(s, ops=list(s.get("ops", []))))
        if ctx.failures:
            return
    history_stream(ctx, 100, tag="search")
    if ctx.failures:
        return
    portable_stream(ctx, 150)
    other_models_stream(ctx, 100)
    flags_stream(ctx)
    memo_stream(ctx, 150)


def replay(ctx: Ctx, payload, from_corpus=None):
    case = payload.get("case", payload)
    if isinstance(case, dict) and case.get("kind") == "portable":
        portable_case(ctx, case)
        return
    if isinstance(case, dict) and case.get("kind") == "other":
        other_case(ctx, case)
        return
    if isinstance(case, dict) and case.get("kind") == "memo":
        req, rep = memo_case(ctx, case)
        if "?" in rep:
            ctx.fail("expansion-memo-entry-wrong", case, rep[:200])
        ctx.compare("memo", [case], [rep], ctx.model("C20", [req]))
        return
    if isinstance(case, dict) and case.get("kind") == "flags":
        flags_stream(ctx)
        return
    if isinstance(case, dict) and "spec" in case:
        c = {"spec": case["spec"], "ops": list(case["ops"])}
        res = run_case(ctx, c)
        if res is not None:
            compare_lines(ctx, "replay", [c], [res[0]], [res[1]])


# the portable codec and the Sequential / RedVAR oracles are defined below
from .c20_portable import portable_stream, portable_case        # noqa: E402
from .c20_other import other_models_stream, other_case          # noqa: E402
from .c20_state import flags_stream, memo_stream, memo_case      # noqa: E402
