/-
C11 — Period conversions round-trip; frequency conversion preserves containment.

Property theorems about the executable model in IrisVerif/Model/{Dates,DateFormats}.lean.
-/
import IrisVerif.Model.DateFormats
import IrisVerif.Lemmas.Calendar
import IrisVerif.Props.C09
import IrisVerif.Lemmas.Refrequent
import IrisVerif.Lemmas.DateStrings

set_option linter.unusedSimpArgs false

namespace IrisVerif.Dates.C11
open IrisVerif.Dates IrisVerif.Gen.Dates IrisVerif.Dates.C09

/-! ## 1. (year, month, day) at every position and back -/

/-- the round-trip statement in match form (easier to compute with) -/
def YmdRoundTrip (p : Period) (pos : Pos) : Prop :=
  match toYmd p pos with
  | .ok (y, m, d) => ValidYmd y m d ∧ fromYmd p.freq y m d = .ok p
  | .error _ => False

theorem YmdRoundTrip.exists {p : Period} {pos : Pos} (h : YmdRoundTrip p pos) :
    ∃ y m d, toYmd p pos = .ok (y, m, d) ∧ ValidYmd y m d ∧ fromYmd p.freq y m d = .ok p := by
  unfold YmdRoundTrip at h
  split at h
  · rename_i y m d heq; exact ⟨y, m, d, heq, h.1, h.2⟩
  · exact h.elim

/-- For every regular frequency, serial and position: `to_ymd` yields a valid calendar date of the
period's own year whose month maps back to the period's segment, so `from_ymd(to_ymd(p, pos)) = p`. -/
theorem fromYmd_toYmd_regular (f : Freq) (hf : f ∈ regularFreqs) (s : Int) (pos : Pos) :
    ∃ y m d, toYmd ⟨f, s⟩ pos = .ok (y, m, d) ∧ ValidYmd y m d ∧ fromYmd f y m d = .ok ⟨f, s⟩ := by
  apply YmdRoundTrip.exists (p := ⟨f, s⟩)
  unfold YmdRoundTrip
  simp [regularFreqs] at hf
  rcases hf with h | h | h | h <;> subst h
  · cases pos <;> cases hl : isLeap s <;>
      simp [toYmd, toYearSegment, toYearSegmentYear, toYearSegmentSeg, Freq.value, freqYearly,
        Int.fdiv_eq_ediv_of_nonneg, Int.fmod_eq_emod_of_nonneg, mdrTable, mdrY_start, mdrY_middle, mdrY_end,
        lookupSeg, bind, Except.bind, pure, Except.pure, ValidYmd, daysInMonth, hl, fromYmd, fromYearSegment,
        monthToSegment, monthToSegmentY, serialFromYsf]
  · have hr : s % 2 = 0 ∨ s % 2 = 1 := by omega
    rcases hr with h | h <;> cases pos <;>
      simp [toYmd, toYearSegment, toYearSegmentYear, toYearSegmentSeg, Freq.value, freqHalfyearly,
        Int.fdiv_eq_ediv_of_nonneg, Int.fmod_eq_emod_of_nonneg, mdrTable, mdrH_start, mdrH_middle, mdrH_end,
        lookupSeg, bind, Except.bind, pure, Except.pure, ValidYmd, daysInMonth, h, fromYmd, fromYearSegment,
        monthToSegment, monthToSegmentH, serialFromYsf] <;> omega
  · have hr : s % 4 = 0 ∨ s % 4 = 1 ∨ s % 4 = 2 ∨ s % 4 = 3 := by omega
    rcases hr with h | h | h | h <;> cases pos <;>
      simp [toYmd, toYearSegment, toYearSegmentYear, toYearSegmentSeg, Freq.value, freqQuarterly,
        Int.fdiv_eq_ediv_of_nonneg, Int.fmod_eq_emod_of_nonneg, mdrTable, mdrQ_start, mdrQ_middle, mdrQ_end,
        lookupSeg, bind, Except.bind, pure, Except.pure, ValidYmd, daysInMonth, h, fromYmd, fromYearSegment,
        monthToSegment, monthToSegmentQ, serialFromYsf] <;> omega
  · have hr : s % 12 = 0 ∨ s % 12 = 1 ∨ s % 12 = 2 ∨ s % 12 = 3 ∨ s % 12 = 4 ∨ s % 12 = 5 ∨ s % 12 = 6 ∨
        s % 12 = 7 ∨ s % 12 = 8 ∨ s % 12 = 9 ∨ s % 12 = 10 ∨ s % 12 = 11 := by omega
    rcases hr with h | h | h | h | h | h | h | h | h | h | h | h <;> cases pos <;>
      cases hl : isLeap (s / 12) <;>
      simp [toYmd, toYearSegment, toYearSegmentYear, toYearSegmentSeg, Freq.value, freqMonthly,
        Int.fdiv_eq_ediv_of_nonneg, Int.fmod_eq_emod_of_nonneg, mdrTable, mdrM_start, mdrM_middle, mdrM_end,
        lookupSeg, bind, Except.bind, pure, Except.pure, ValidYmd, daysInMonth, h, hl, fromYmd, fromYearSegment,
        monthToSegment, monthToSegmentM, serialFromYsf] <;> omega

/-- daily periods: `to_ymd` is the calendar date of the ordinal (valid), and `from_ymd` returns the ordinal -/
theorem fromYmd_toYmd_daily (n : Int) (pos : Pos) :
    ∃ y m d, toYmd ⟨.D, n⟩ pos = .ok (y, m, d) ∧ ValidYmd y m d ∧ fromYmd .D y m d = .ok ⟨.D, n⟩ := by
  refine ⟨(ord2ymd n).1, (ord2ymd n).2.1, (ord2ymd n).2.2, rfl, ord2ymd_valid n, ?_⟩
  simp [fromYmd, ord2ymd_valid n, ymd2ord_ord2ymd, pure, Except.pure]

def calendarFreqs : List Freq := [.Y, .H, .Q, .M, .D]

/-- **(y, m, d) round trip**, every calendar frequency, every position (also `to_python_date`/`from_python_date`,
which go through the same triple) -/
theorem fromYmd_toYmd (f : Freq) (hf : f ∈ calendarFreqs) (s : Int) (pos : Pos) :
    ∃ y m d, toYmd ⟨f, s⟩ pos = .ok (y, m, d) ∧ ValidYmd y m d ∧ fromYmd f y m d = .ok ⟨f, s⟩ := by
  simp [calendarFreqs] at hf
  rcases hf with h | h | h | h | h <;> subst h
  · exact fromYmd_toYmd_regular .Y (by simp [regularFreqs]) s pos
  · exact fromYmd_toYmd_regular .H (by simp [regularFreqs]) s pos
  · exact fromYmd_toYmd_regular .Q (by simp [regularFreqs]) s pos
  · exact fromYmd_toYmd_regular .M (by simp [regularFreqs]) s pos
  · exact fromYmd_toYmd_daily s pos


/-! ## 2. Frequency conversion -/

theorem fromYmd_regular (f : Freq) (hf : f ∈ regularFreqs) (y m d : Int) :
    fromYmd f y m d = .ok (fromYearSegment f y (monthToSegment f m)) := by
  rcases regular_cases f hf with h | h | h | h <;> subst h <;> rfl

/-- what `to_ymd` returns for the regular period with year `y` and in-range segment `seg` -/
theorem toYmd_regular_explicit (f : Freq) (hf : f ∈ regularFreqs) (y seg : Int) (h1 : 1 ≤ seg) (h2 : seg ≤ f.value)
    (pos : Pos) :
    ∃ m d, toYmd (fromYearSegment f y seg) pos = .ok (y, m, d) ∧ 1 ≤ m ∧ m ≤ 12 ∧ monthToSegment f m = seg ∧
      ValidYmd y m d ∧ ∃ od, mdAt f pos seg = some (m, od) ∧ d = od.getD (daysInMonth y m) := by
  obtain ⟨m, od, hmd, hm1, hm12, hseg, hv⟩ := mdAt_spec f hf seg h1 h2 pos y
  refine ⟨m, od.getD (daysInMonth y m), ?_, hm1, hm12, hseg, hv, od, hmd, rfl⟩
  rw [toYmd_fromYearSegment f hf y seg h1 h2 pos, hmd]
  cases od <;> rfl

/-- **coarse → fine → coarse** between regular frequencies: converting to an at-least-as-fine frequency at any
position and back at any position returns the original period. -/
theorem coarse_fine_coarse_regular (f f' : Freq) (hf : f ∈ regularFreqs) (hf' : f' ∈ regularFreqs)
    (hfin : f.value ∣ f'.value) (s : Int) (pos pos2 : Pos) :
    ∃ q, refrequent ⟨f, s⟩ f' pos = .ok q ∧ q.freq = f' ∧ refrequent q f pos2 = .ok ⟨f, s⟩ := by
  obtain ⟨y, seg, _, h1, h2, hback⟩ := fromYearSegment_toYearSegment ⟨f, s⟩ hf
  simp only at h2 hback
  obtain ⟨m, d, hymd, hm1, hm12, hseg, _, _⟩ := toYmd_regular_explicit f hf y seg h1 h2 pos
  obtain ⟨hs1, hs2⟩ := monthToSegment_range f' hf' m hm1 hm12
  obtain ⟨m2, d2, hymd2, _, _, _, _, od2, hmd2, _⟩ :=
    toYmd_regular_explicit f' hf' y (monthToSegment f' m) hs1 hs2 pos2
  have hnest := month_nesting f f' hf hf' hfin m hm1 hm12 pos2 m2 od2 hmd2
  have hq : (fromYearSegment f' y (monthToSegment f' m)).freq = f' := by
    rcases regular_cases f' hf' with h | h | h | h <;> subst h <;> rfl
  refine ⟨fromYearSegment f' y (monthToSegment f' m), ?_, hq, ?_⟩
  · rw [← hback]
    simp only [refrequent, hymd, bind, Except.bind, fromYmd_regular f' hf']
  · simp only [refrequent, hymd2, bind, Except.bind, fromYmd_regular f hf, hnest, hseg, hback]

/-- regular → daily → regular: the chosen day of the period converts back to the period -/
theorem coarse_daily_coarse (f : Freq) (hf : f ∈ regularFreqs) (s : Int) (pos pos2 : Pos) :
    ∃ q, refrequent ⟨f, s⟩ .D pos = .ok q ∧ q.freq = .D ∧ refrequent q f pos2 = .ok ⟨f, s⟩ := by
  obtain ⟨y, m, d, hymd, hv, hback⟩ := fromYmd_toYmd_regular f hf s pos
  refine ⟨⟨.D, ymd2ord y m d⟩, ?_, rfl, ?_⟩
  · simp [refrequent, hymd, bind, Except.bind, fromYmd, hv, pure, Except.pure]
  · simp only [refrequent, toYmd, ord2ymd_ymd2ord y m d hv, bind, Except.bind, pure, Except.pure, hback]

/-- the strict "finer than" relation on calendar frequencies used by the statement (Y < H < Q < M < D) -/
def finerPairs : List (Freq × Freq) :=
  [(.Y, .H), (.Y, .Q), (.Y, .M), (.Y, .D), (.H, .Q), (.H, .M), (.H, .D), (.Q, .M), (.Q, .D), (.M, .D)]

/-- **Converting to a finer frequency and back never leaves the original coarse period** — every pair of
calendar frequencies with `f'` finer than `f`, every serial, every pair of positions. -/
theorem coarse_fine_coarse (f f' : Freq) (h : (f, f') ∈ finerPairs) (s : Int) (pos pos2 : Pos) :
    ∃ q, refrequent ⟨f, s⟩ f' pos = .ok q ∧ q.freq = f' ∧ refrequent q f pos2 = .ok ⟨f, s⟩ := by
  simp only [finerPairs, List.mem_cons, Prod.mk.injEq, List.mem_nil_iff, or_false] at h
  rcases h with ⟨rfl, rfl⟩ | ⟨rfl, rfl⟩ | ⟨rfl, rfl⟩ | ⟨rfl, rfl⟩ | ⟨rfl, rfl⟩ | ⟨rfl, rfl⟩ | ⟨rfl, rfl⟩ | ⟨rfl, rfl⟩ |
    ⟨rfl, rfl⟩ | ⟨rfl, rfl⟩
  all_goals first
    | exact coarse_daily_coarse _ (by simp [regularFreqs]) s pos pos2
    | exact coarse_fine_coarse_regular _ _ (by simp [regularFreqs]) (by simp [regularFreqs])
        (by simp [Freq.value, freqYearly, freqHalfyearly, freqQuarterly, freqMonthly] <;> decide) s pos pos2


/-! ## 3. Containment: the target period contains the chosen day of the source period -/

/-- the regular period that `from_ymd` builds from a valid date contains that date -/
theorem fromYmd_contains_regular (f' : Freq) (hf' : f' ∈ regularFreqs) (y m d : Int) (hv : ValidYmd y m d) :
    ∃ q a b, fromYmd f' y m d = .ok q ∧ q.freq = f' ∧ dayOrd q .start = .ok a ∧ dayOrd q .end_ = .ok b ∧
      a ≤ ymd2ord y m d ∧ ymd2ord y m d ≤ b := by
  obtain ⟨hm1, hm12, hd1, hd2⟩ := hv
  obtain ⟨hs1, hs2⟩ := monthToSegment_range f' hf' m hm1 hm12
  obtain ⟨ms, ds, hs, _, _, _, _, ods, hmds, hds⟩ := toYmd_regular_explicit f' hf' y (monthToSegment f' m) hs1 hs2 .start
  obtain ⟨me, de, he, _, _, _, _, ode, hmde, hde⟩ := toYmd_regular_explicit f' hf' y (monthToSegment f' m) hs1 hs2 .end_
  have hq : (fromYearSegment f' y (monthToSegment f' m)).freq = f' := by
    rcases regular_cases f' hf' with h | h | h | h <;> subst h <;> rfl
  refine ⟨_, ymd2ord y ms ds, ymd2ord y me de, fromYmd_regular f' hf' y m d, hq, ?_, ?_, ?_⟩
  · simp [dayOrd, hs, bind, Except.bind, pure, Except.pure]
  · simp [dayOrd, he, bind, Except.bind, pure, Except.pure]
  · subst hds hde
    have hm : m = 1 ∨ m = 2 ∨ m = 3 ∨ m = 4 ∨ m = 5 ∨ m = 6 ∨ m = 7 ∨ m = 8 ∨ m = 9 ∨ m = 10 ∨ m = 11 ∨ m = 12 := by omega
    rcases regular_cases f' hf' with h | h | h | h <;> subst h <;>
    rcases hm with h | h | h | h | h | h | h | h | h | h | h | h <;> subst h <;>
    cases hl : isLeap y <;>
    simp [mdAt, mdrTable, lookupSeg, monthToSegment, monthToSegmentY, monthToSegmentH, monthToSegmentQ, monthToSegmentM,
      mdrY_start, mdrY_end, mdrH_start, mdrH_end, mdrQ_start, mdrQ_end, mdrM_start, mdrM_end,
      Int.fdiv_eq_ediv_of_nonneg] at hmds hmde <;>
    obtain ⟨rfl, rfl⟩ := hmds <;> obtain ⟨rfl, rfl⟩ := hmde <;>
    simp [ymd2ord, dbm, daysInMonth, hl] at hd2 ⊢ <;> omega

/-- **Containment.** Converting a period of any calendar frequency to any calendar frequency returns the
target-frequency period whose day interval `[start, end]` contains the chosen position day of the source. -/
theorem refrequent_contains (f f' : Freq) (hf : f ∈ calendarFreqs) (hf' : f' ∈ calendarFreqs) (s : Int) (pos : Pos) :
    ∃ q day a b, refrequent ⟨f, s⟩ f' pos = .ok q ∧ q.freq = f' ∧ dayOrd ⟨f, s⟩ pos = .ok day ∧
      dayOrd q .start = .ok a ∧ dayOrd q .end_ = .ok b ∧ a ≤ day ∧ day ≤ b := by
  obtain ⟨y, m, d, hymd, hv, _⟩ := fromYmd_toYmd f hf s pos
  have hday : dayOrd ⟨f, s⟩ pos = .ok (ymd2ord y m d) := by
    simp [dayOrd, hymd, bind, Except.bind, pure, Except.pure]
  simp only [calendarFreqs, List.mem_cons, List.mem_nil_iff, or_false] at hf'
  have hreg : f' ∈ regularFreqs ∨ f' = .D := by
    rcases hf' with h | h | h | h | h <;> simp [h, regularFreqs]
  rcases hreg with hr | rfl
  · obtain ⟨q, a, b, hq, hqf, ha, hb, hab⟩ := fromYmd_contains_regular f' hr y m d hv
    exact ⟨q, _, a, b, by simp only [refrequent, hymd, bind, Except.bind, hq], hqf, hday, ha, hb, hab⟩
  · refine ⟨⟨.D, ymd2ord y m d⟩, _, ymd2ord y m d, ymd2ord y m d, ?_, rfl, hday, ?_, ?_, Int.le_refl _, Int.le_refl _⟩
    · simp [refrequent, hymd, bind, Except.bind, fromYmd, hv, pure, Except.pure]
    · simp [dayOrd, toYmd, ord2ymd_ymd2ord y m d hv, bind, Except.bind, pure, Except.pure]
    · simp [dayOrd, toYmd, ord2ymd_ymd2ord y m d hv, bind, Except.bind, pure, Except.pure]


/-! ## 4. Monotonicity -/

/-- total version of `dayOrd` (the error branch is unreachable for calendar frequencies, see `dayOrd_eq_ordAt`) -/
def ordAt (f : Freq) (s : Int) (pos : Pos) : Int :=
  match dayOrd ⟨f, s⟩ pos with
  | .ok a => a
  | .error _ => 0

theorem dayOrd_eq_ordAt (f : Freq) (hf : f ∈ calendarFreqs) (s : Int) (pos : Pos) :
    dayOrd ⟨f, s⟩ pos = .ok (ordAt f s pos) := by
  obtain ⟨y, m, d, hymd, _, _⟩ := fromYmd_toYmd f hf s pos
  simp [ordAt, dayOrd, hymd, bind, Except.bind, pure, Except.pure]

theorem calendar_cases (f : Freq) (hf : f ∈ calendarFreqs) : f ∈ regularFreqs ∨ f = .D := by
  simp only [calendarFreqs, List.mem_cons, List.mem_nil_iff, or_false] at hf
  rcases hf with h | h | h | h | h <;> simp [h, regularFreqs]

theorem ordAt_daily (n : Int) (pos : Pos) : ordAt .D n pos = n := by
  simp [ordAt, dayOrd, toYmd, ymd2ord_ord2ymd, bind, Except.bind, pure, Except.pure]

/-- consecutive periods tile the day line (all calendar frequencies, total form) -/
theorem ordAt_tile (f : Freq) (hf : f ∈ calendarFreqs) (s : Int) :
    ordAt f (s + 1) .start = ordAt f s .end_ + 1 := by
  rcases calendar_cases f hf with hr | rfl
  · obtain ⟨a, b, ha, hb, hab⟩ := consecutive_periods_tile f hr s
    rw [dayOrd_eq_ordAt f hf] at ha hb
    cases ha; cases hb; exact hab
  · simp [ordAt_daily]

theorem ordAt_order (f : Freq) (hf : f ∈ calendarFreqs) (s : Int) (pos : Pos) :
    ordAt f s .start ≤ ordAt f s pos ∧ ordAt f s pos ≤ ordAt f s .end_ := by
  rcases calendar_cases f hf with hr | rfl
  · obtain ⟨a, m, b, ha, hm, hb, h1, h2⟩ := start_le_middle_le_end f hr s
    rw [dayOrd_eq_ordAt f hf] at ha hm hb
    cases ha; cases hm; cases hb
    cases pos <;> omega
  · simp [ordAt_daily]

/-- a later period starts after an earlier one ends -/
theorem end_lt_start_of_lt (f : Freq) (hf : f ∈ calendarFreqs) (s s' : Int) (h : s < s') :
    ordAt f s .end_ < ordAt f s' .start := by
  have key : ∀ n : Nat, ordAt f s .end_ < ordAt f (s + 1 + n) .start := by
    intro n
    induction n with
    | zero => simp [ordAt_tile f hf s]; omega
    | succ n ih =>
      have e : s + 1 + ((n : Nat) + 1 : Nat) = (s + 1 + n) + 1 := by omega
      rw [e, ordAt_tile f hf (s + 1 + n)]
      have := ordAt_order f hf (s + 1 + n) .end_
      omega
  have e : s' = s + 1 + ((s' - s - 1).toNat : Int) := by omega
  rw [e]; exact key _

/-- **Monotonicity.** Conversion to another frequency preserves the order of periods. -/
theorem refrequent_monotone (f f' : Freq) (hf : f ∈ calendarFreqs) (hf' : f' ∈ calendarFreqs) (s s' : Int)
    (h : s ≤ s') (pos : Pos) :
    ∃ q q', refrequent ⟨f, s⟩ f' pos = .ok q ∧ refrequent ⟨f, s'⟩ f' pos = .ok q' ∧ q.freq = f' ∧ q'.freq = f' ∧
      q.serial ≤ q'.serial := by
  obtain ⟨q, day, a, b, hq, hqf, hday, ha, hb, h1, h2⟩ := refrequent_contains f f' hf hf' s pos
  obtain ⟨q', day', a', b', hq', hqf', hday', ha', hb', h1', h2'⟩ := refrequent_contains f f' hf hf' s' pos
  refine ⟨q, q', hq, hq', hqf, hqf', ?_⟩
  rcases Int.lt_or_eq_of_le h with hlt | heq
  · -- day ≤ end(s) < start(s') ≤ day'
    rw [dayOrd_eq_ordAt f hf] at hday hday'
    cases hday; cases hday'
    have hd : ordAt f s pos < ordAt f s' pos := by
      have := (ordAt_order f hf s pos).2
      have := (ordAt_order f hf s' pos).1
      have := end_lt_start_of_lt f hf s s' hlt
      omega
    -- if q' were earlier than q then end(q') < start(q) ≤ day < day' ≤ end(q')
    apply Int.not_lt.mp
    intro hcontra
    obtain ⟨qf, qs⟩ := q
    obtain ⟨qf', qs'⟩ := q'
    simp only at hqf hqf' hcontra
    subst hqf
    subst hqf'
    rw [dayOrd_eq_ordAt _ hf'] at ha hb ha' hb'
    cases ha; cases hb; cases ha'; cases hb'
    have := end_lt_start_of_lt _ hf' qs' qs hcontra
    omega
  · subst heq
    rw [hq] at hq'; cases hq'; exact Int.le_refl _


/-! ## 5. repr, SDMX and ISO strings and back

Strings are produced on the supported range only (four-digit years `0 … 9999`; outside it Python's `:04g`
prints more digits or an exponent, the SDMX patterns cannot match and the model's formatter answers
`unsupported`). The frequency is auto-detected by the model's matcher running on the pattern text that the
translator regenerates from `SDMX_REXP_FORMATS` (`compiled_formats`). -/

/-- `eval(repr(p)) = p` for every period of every frequency -/
theorem repr_roundtrip (p : Period) : (toRepr p).bind fromRepr = .ok p := by
  obtain ⟨f, s⟩ := p
  cases f
  · rfl
  · obtain ⟨y, seg, hys, h1, h2, hb⟩ := fromYearSegment_toYearSegment ⟨.Y, s⟩ (by simp [regularFreqs])
    simp only [Freq.value, freqYearly] at h2
    have : seg = 1 := by omega
    subst this
    simp only [toRepr, hys, bind, Except.bind, pure, Except.pure, fromRepr]; exact congrArg _ hb
  · obtain ⟨y, seg, hys, _, _, hb⟩ := fromYearSegment_toYearSegment ⟨.H, s⟩ (by simp [regularFreqs])
    simp only [toRepr, hys, bind, Except.bind, pure, Except.pure, fromRepr]; exact congrArg _ hb
  · obtain ⟨y, seg, hys, _, _, hb⟩ := fromYearSegment_toYearSegment ⟨.Q, s⟩ (by simp [regularFreqs])
    simp only [toRepr, hys, bind, Except.bind, pure, Except.pure, fromRepr]; exact congrArg _ hb
  · obtain ⟨y, seg, hys, _, _, hb⟩ := fromYearSegment_toYearSegment ⟨.M, s⟩ (by simp [regularFreqs])
    simp only [toRepr, hys, bind, Except.bind, pure, Except.pure, fromRepr]; exact congrArg _ hb
  · obtain ⟨y, m, d, hymd, _, hb⟩ := fromYmd_toYmd_daily s .start
    simp only [toRepr, hymd, bind, Except.bind, pure, Except.pure, fromRepr]; exact hb

theorem fmtG4 (y : Int) (h0 : 0 ≤ y) (h1 : y ≤ 9999) : fmtG 4 y = some (pad4 y.toNat) := by
  have : ¬ y < 0 := by omega
  have : y < 10000 := by omega
  simp [fmtG, *]

theorem fmtG2 (m : Int) (h0 : 0 ≤ m) (h1 : m ≤ 99) : fmtG 2 m = some (pad2 m.toNat) := by
  have : ¬ m < 0 := by omega
  have : m < 100 := by omega
  simp [fmtG, *]

theorem fmtG1 (m : Int) (h0 : 0 ≤ m) (h1 : m ≤ 9) : fmtG 1 m = some (pad1 m.toNat) := by
  have : ¬ m < 0 := by omega
  have : m < 10 := by omega
  simp [fmtG, *]

/-- **SDMX round trip with auto-detected frequency**, regular frequencies, four-digit years -/
theorem sdmx_roundtrip_regular (f : Freq) (hf : f ∈ regularFreqs) (s : Int)
    (h0 : 0 ≤ s) (h1 : s < 10000 * f.value) : (toSdmx ⟨f, s⟩).bind fromSdmx = .ok ⟨f, s⟩ := by
  rcases regular_cases f hf with h | h | h | h <;> subst h <;>
    simp only [Freq.value, freqYearly, freqHalfyearly, freqQuarterly, freqMonthly] at h1
  · -- yearly
    have hy : toYearSegment ⟨.Y, s⟩ = .ok (s, 1) := by
      simp [toYearSegment, toYearSegmentYear, toYearSegmentSeg, Freq.value, freqYearly, Int.fdiv_eq_ediv_of_nonneg,
        Int.fmod_eq_emod_of_nonneg, pure, Except.pure]
    obtain ⟨d1, d2, d3, d4, hv⟩ := pad4_digits s.toNat (by omega)
    simp only [toSdmx, hy, bind, Except.bind, fmtG4 s h0 (by omega), needSome, pure, Except.pure, pad4]
    rw [sdmx_Y_shape _ _ _ _ _ _ _ _ d1 d2 d3 d4, hv]
    congr 2; omega
  · -- half-yearly
    have hy : toYearSegment ⟨.H, s⟩ = .ok (s / 2, s % 2 + 1) := by
      simp [toYearSegment, toYearSegmentYear, toYearSegmentSeg, Freq.value, freqHalfyearly, Int.fdiv_eq_ediv_of_nonneg,
        Int.fmod_eq_emod_of_nonneg, pure, Except.pure]
    obtain ⟨d1, d2, d3, d4, hv⟩ := pad4_digits (s / 2).toNat (by omega)
    have d5 := isDig_mk ((s % 2 + 1).toNat % 10) (by omega)
    simp only [toSdmx, hy, bind, Except.bind, fmtG4 (s / 2) (by omega) (by omega), fmtG1 (s % 2 + 1) (by omega) (by omega),
      needSome, pure, Except.pure, pad4, pad1, Freq.letter]
    show fromSdmx [_, _, _, _, '-', 'H', _] = _
    rw [sdmx_H_shape _ _ _ _ _ _ _ _ _ _ d1 d2 d3 d4 d5, hv]
    simp only [fromYearSegment, serialFromYsf, Freq.value, freqHalfyearly]
    congr 2; omega
  · -- quarterly
    have hy : toYearSegment ⟨.Q, s⟩ = .ok (s / 4, s % 4 + 1) := by
      simp [toYearSegment, toYearSegmentYear, toYearSegmentSeg, Freq.value, freqQuarterly, Int.fdiv_eq_ediv_of_nonneg,
        Int.fmod_eq_emod_of_nonneg, pure, Except.pure]
    obtain ⟨d1, d2, d3, d4, hv⟩ := pad4_digits (s / 4).toNat (by omega)
    have d5 := isDig_mk ((s % 4 + 1).toNat % 10) (by omega)
    simp only [toSdmx, hy, bind, Except.bind, fmtG4 (s / 4) (by omega) (by omega), fmtG1 (s % 4 + 1) (by omega) (by omega),
      needSome, pure, Except.pure, pad4, pad1, Freq.letter]
    show fromSdmx [_, _, _, _, '-', 'Q', _] = _
    rw [sdmx_Q_shape _ _ _ _ _ _ _ _ _ _ d1 d2 d3 d4 d5, hv]
    simp only [fromYearSegment, serialFromYsf, Freq.value, freqQuarterly]
    congr 2; omega
  · -- monthly
    have hy : toYearSegment ⟨.M, s⟩ = .ok (s / 12, s % 12 + 1) := by
      simp [toYearSegment, toYearSegmentYear, toYearSegmentSeg, Freq.value, freqMonthly, Int.fdiv_eq_ediv_of_nonneg,
        Int.fmod_eq_emod_of_nonneg, pure, Except.pure]
    obtain ⟨d1, d2, d3, d4, hv⟩ := pad4_digits (s / 12).toNat (by omega)
    obtain ⟨e1, e2, hw⟩ := pad2_digits (s % 12 + 1).toNat (by omega)
    simp only [toSdmx, hy, bind, Except.bind, fmtG4 (s / 12) (by omega) (by omega), fmtG2 (s % 12 + 1) (by omega) (by omega),
      needSome, pure, Except.pure, pad4, pad2]
    show fromSdmx [_, _, _, _, '-', _, _] = _
    rw [sdmx_M_shape _ _ _ _ _ _ _ _ _ _ _ _ d1 d2 d3 d4 e1 e2, hv, hw]
    simp only [fromYearSegment, serialFromYsf, Freq.value, freqMonthly]
    congr 2; omega


/-- the ten-character string of a valid date with a four-digit year parses back to the same triple -/
theorem ymd_string (y m d : Int) (hy0 : 0 ≤ y) (hy1 : y ≤ 9999) (hv : ValidYmd y m d) :
    ∃ str : Str,
      (do let ys ← needSome (fmtG 4 y); let ms ← needSome (fmtG 2 m); let ds ← needSome (fmtG 2 d)
          pure (ys ++ ['-'] ++ ms ++ ['-'] ++ ds) : R Str) = .ok str ∧
      detectFreq str = .ok (some .D) ∧ (∀ f, fromIso f str = fromYmd f y m d) ∧ fromSdmxAs .D str = fromYmd .D y m d := by
  obtain ⟨hm1, hm12, hd1, hd2⟩ := hv
  have hd31 := (daysInMonth_pos y m).2
  obtain ⟨a1, a2, a3, a4, hv4⟩ := pad4_digits y.toNat (by omega)
  obtain ⟨e1, e2, hw⟩ := pad2_digits m.toNat (by omega)
  obtain ⟨i1, i2, hz⟩ := pad2_digits d.toNat (by omega)
  obtain ⟨h1, h2, h3⟩ := ymd_string_shape _ _ _ _ _ _ _ _ _ _ _ _ _ _ _ _ a1 a2 a3 a4 e1 e2 i1 i2
  refine ⟨_, ?_, h1, ?_, ?_⟩
  · simp only [fmtG4 y hy0 hy1, fmtG2 m (by omega) (by omega), fmtG2 d (by omega) (by omega), needSome, bind, Except.bind,
      pure, Except.pure, pad4, pad2]
    rfl
  · intro f
    rw [h2 f, hv4, hw, hz]
    congr 1 <;> omega
  · rw [h3, hv4, hw, hz]
    congr 1 <;> omega

/-- **ISO round trip** for every calendar frequency and every position (four-digit years) -/
theorem iso_roundtrip (f : Freq) (hf : f ∈ calendarFreqs) (s : Int) (pos : Pos)
    (hyr : ∀ y m d, toYmd ⟨f, s⟩ pos = .ok (y, m, d) → 0 ≤ y ∧ y ≤ 9999) :
    (toIso ⟨f, s⟩ pos).bind (fromIso f) = .ok ⟨f, s⟩ := by
  obtain ⟨y, m, d, hymd, hv, hback⟩ := fromYmd_toYmd f hf s pos
  obtain ⟨hy0, hy1⟩ := hyr y m d hymd
  obtain ⟨str, hstr, _, hiso, _⟩ := ymd_string y m d hy0 hy1 hv
  have : toIso ⟨f, s⟩ pos = .ok str := by
    simp only [toIso, hymd, bind, Except.bind] at hstr ⊢
    exact hstr
  rw [this]
  show fromIso f str = _
  rw [hiso f, hback]

/-- **SDMX round trip for daily periods** with auto-detected frequency (years 0 … 9999 of the model's calendar;
`datetime` itself supports 1 … 9999) -/
theorem sdmx_roundtrip_daily (n : Int) (hyr : 0 ≤ (ord2ymd n).1 ∧ (ord2ymd n).1 ≤ 9999) :
    (toSdmx ⟨.D, n⟩).bind fromSdmx = .ok ⟨.D, n⟩ := by
  obtain ⟨y, m, d, hymd, hv, hback⟩ := fromYmd_toYmd_daily n .start
  have hy : y = (ord2ymd n).1 := by
    simp only [toYmd, pure, Except.pure] at hymd
    injection hymd with h; rw [h]
  obtain ⟨str, hstr, hdet, _, hsd⟩ := ymd_string y m d (by omega) (by omega) hv
  have : toSdmx ⟨.D, n⟩ = .ok str := by
    simp only [toSdmx, hymd, bind, Except.bind] at hstr ⊢
    exact hstr
  rw [this]
  show fromSdmx str = _
  simp only [fromSdmx, hdet, bind, Except.bind, hsd, hback]

/-! ### Integer periods: `(n)` with any number of digits -/

theorem matchPlus_digits (ds : Str) (hne : ds ≠ []) (hd : ∀ c ∈ ds, isDigit c = true) :
    matchItems [(.digit, .plus), (.lit ')', .one)] (ds ++ [')']) = true := by
  induction ds with
  | nil => exact absurd rfl hne
  | cons c cs ih =>
    have hc : isDigit c = true := hd c (by simp)
    cases cs with
    | nil => simp [matchItems, matchItems.go, Atom.accepts, hc]
    | cons c2 cs2 =>
      have := ih (by simp) (fun x hx => hd x (by simp at hx ⊢; right; exact hx))
      simp only [matchItems, List.cons_append] at this ⊢
      simp only [matchItems.go, Atom.accepts, hc, Bool.true_and]
      simp only [matchItems.go, Atom.accepts] at this
      rw [this]; simp


/-- every parenthesised non-empty digit string, optionally signed, is detected as an integer period -/
theorem detect_integer_shape (sign : Str) (hs : sign = [] ∨ sign = ['-'] ∨ sign = ['+']) (ds : Str) (hne : ds ≠ [])
    (hd : ∀ c ∈ ds, isDigit c = true) :
    detectFreq ('(' :: (sign ++ ds ++ [')'])) = .ok (some .I) := by
  have hlast : ∀ l : Str, strip ('(' :: (l ++ [')'])) = '(' :: (l ++ [')']) := fun l =>
    strip_of_nonblank_ends '(' l ')' (by decide) (by decide)
  have hm := matchPlus_digits ds hne hd
  obtain ⟨c, cs, rfl⟩ : ∃ c cs, ds = c :: cs := by
    cases ds with
    | nil => exact absurd rfl hne
    | cons c cs => exact ⟨c, cs, rfl⟩
  have hc : isDigit c = true := hd c (by simp)
  have hcm : (['-', '+'] : List Char).contains c = false := by
    have h1 : c ≠ '-' := by intro h; rw [h] at hc; revert hc; decide
    have h2 : c ≠ '+' := by intro h; rw [h] at hc; revert hc; decide
    have b1 : (c == '-') = false := by simp [h1]
    have b2 : (c == '+') = false := by simp [h2]
    simp [List.contains, List.elem, b1, b2]
  have e : '(' :: (sign ++ (c :: cs) ++ [')']) = '(' :: ((sign ++ (c :: cs)) ++ [')']) := rfl
  rw [detectFreq_eq, e, hlast]
  rcases hs with rfl | rfl | rfl
  · simp only [List.nil_append, List.cons_append] at hm ⊢
    simp [detectCompiled, matchItems, Atom.accepts, hcm, hm, freqOfValue?, freqInteger, isDigit, pure, Except.pure]
  · simp only [List.cons_append, List.nil_append] at hm ⊢
    simp [detectCompiled, matchItems, Atom.accepts, hm, freqOfValue?, freqInteger, isDigit, pure, Except.pure]
  · simp only [List.cons_append, List.nil_append] at hm ⊢
    simp [detectCompiled, matchItems, Atom.accepts, hm, freqOfValue?, freqInteger, isDigit, pure, Except.pure]


/-- **SDMX round trip for integer periods**, every integer serial (any number of digits, either sign), with the
frequency auto-detected by the regenerated pattern -/
theorem sdmx_roundtrip_integer (n : Int) : (toSdmx ⟨.I, n⟩).bind fromSdmx = .ok ⟨.I, n⟩ := by
  obtain ⟨hd, hne, hp⟩ := natDigits_spec n.natAbs
  obtain ⟨c, cs, hcs⟩ : ∃ c cs, natDigits n.natAbs = c :: cs := by
    cases h : natDigits n.natAbs with
    | nil => exact absurd h hne
    | cons c cs => exact ⟨c, cs, rfl⟩
  have hc : isDigit c = true := hd c (by rw [hcs]; simp)
  have hcd : IsDig c (digitVal c) := by
    refine ⟨?_, ?_⟩
    · -- a digit character is the digit character of its value
      have : ∀ ch : Char, isDigit ch = true → ch = digitChar (digitVal ch) ∧ digitVal ch < 10 := by
        intro ch h
        simp only [isDigit, Bool.and_eq_true, decide_eq_true_eq] at h
        have h1 : 48 ≤ ch.toNat := by simpa using h.1
        have h2 : ch.toNat ≤ 57 := by simpa using h.2
        refine ⟨?_, by simp only [digitVal]; omega⟩
        apply Char.ext
        simp only [digitChar, digitVal]
        have e : 48 + (ch.toNat - 48) = ch.toNat := by omega
        rw [e]
        exact (Char.ofNat_toNat ch).symm ▸ rfl
      exact (this c hc).1
    · simp only [isDigit, Bool.and_eq_true, decide_eq_true_eq] at hc
      have h1 : 48 ≤ c.toNat := by simpa using hc.1
      have h2 : c.toNat ≤ 57 := by simpa using hc.2
      simp only [digitVal]; omega
  have hstrip : ∀ l : Str, strip ('(' :: (l ++ [')'])) = '(' :: (l ++ [')']) := fun l =>
    strip_of_nonblank_ends '(' l ')' (by decide) (by decide)
  by_cases hneg : n < 0
  · -- negative: "(-ddd)"
    have hstr : toSdmx ⟨.I, n⟩ = .ok ('(' :: (['-'] ++ natDigits n.natAbs ++ [')'])) := by
      simp [toSdmx, hneg, pure, Except.pure]
    have hdet := detect_integer_shape ['-'] (Or.inr (Or.inl rfl)) (natDigits n.natAbs) hne hd
    rw [hstr]
    show fromSdmx _ = _
    simp only [fromSdmx, hdet, bind, Except.bind, fromSdmxAs]
    have e : '(' :: (['-'] ++ natDigits n.natAbs ++ [')']) = '(' :: ((['-'] ++ natDigits n.natAbs) ++ [')']) := rfl
    rw [e, hstrip]
    simp only [List.reverse_append, List.reverse_cons, List.reverse_nil, List.nil_append, List.singleton_append,
      List.cons_append, List.reverse_reverse, List.append_assoc]
    simp only [parseInt, hp, Option.map_some, needSome, pure, Except.pure]
    have e2 : -(n.natAbs : Int) = n := by omega
    simp [e2]
  · -- non-negative: "(ddd)"
    have hstr : toSdmx ⟨.I, n⟩ = .ok ('(' :: ([] ++ natDigits n.natAbs ++ [')'])) := by
      simp [toSdmx, hneg, pure, Except.pure]
    have hdet := detect_integer_shape [] (Or.inl rfl) (natDigits n.natAbs) hne hd
    rw [hstr]
    show fromSdmx _ = _
    simp only [fromSdmx, hdet, bind, Except.bind, fromSdmxAs]
    have e : '(' :: ([] ++ natDigits n.natAbs ++ [')']) = '(' :: ((natDigits n.natAbs) ++ [')']) := rfl
    rw [e, hstrip]
    simp only [List.reverse_append, List.reverse_cons, List.reverse_nil, List.nil_append, List.singleton_append,
      List.cons_append, List.reverse_reverse]
    rw [hcs, parseInt_of_digit_head c _ hcd cs, ← hcs, hp]
    simp only [Option.map_some, needSome, pure, Except.pure]
    have e2 : (n.natAbs : Int) = n := by omega
    simp [e2]

/-! ## 5b. Sequences of SDMX strings (`periods_from_sdmx_strings`) -/

theorem needSome_bind_ok {α β} (o : Option α) (k : α → R β) (b : β) (h : (needSome o >>= k) = .ok b) :
    ∃ a, o = some a ∧ k a = .ok b := by
  cases o with
  | none => simp [needSome, bind, Except.bind, throw, throwThe, MonadExceptOf.throw] at h
  | some a => exact ⟨a, rfl, by simpa [needSome, bind, Except.bind, pure, Except.pure] using h⟩

theorem fromYearSegment_freq (f : Freq) (y s : Int) : (fromYearSegment f y s).freq = f := by
  cases f <;> rfl

theorem fromSdmxAs_freq (f : Freq) (s : Str) (p : Period) (h : fromSdmxAs f s = .ok p) : p.freq = f := by
  cases f <;> simp only [fromSdmxAs] at h
  · obtain ⟨n, -, hk⟩ := needSome_bind_ok _ _ _ h
    cases hk; rfl
  · obtain ⟨n, -, hk⟩ := needSome_bind_ok _ _ _ h
    cases hk; rfl
  · split at h
    · obtain ⟨y, -, hk⟩ := needSome_bind_ok _ _ _ h
      obtain ⟨q, -, hk⟩ := needSome_bind_ok _ _ _ hk
      cases hk; exact fromYearSegment_freq _ _ _
    · cases h
  · split at h
    · obtain ⟨y, -, hk⟩ := needSome_bind_ok _ _ _ h
      obtain ⟨q, -, hk⟩ := needSome_bind_ok _ _ _ hk
      cases hk; exact fromYearSegment_freq _ _ _
    · cases h
  · split at h
    · obtain ⟨y, -, hk⟩ := needSome_bind_ok _ _ _ h
      obtain ⟨q, -, hk⟩ := needSome_bind_ok _ _ _ hk
      cases hk; exact fromYearSegment_freq _ _ _
    · cases h
  · split at h
    · obtain ⟨y, -, hk⟩ := needSome_bind_ok _ _ _ h
      obtain ⟨m, -, hk⟩ := needSome_bind_ok _ _ _ hk
      obtain ⟨d, -, hk⟩ := needSome_bind_ok _ _ _ hk
      simp only [fromYmd] at hk
      split at hk
      · cases hk; rfl
      · cases hk
    · cases h

theorem roundtrip_parts (p : Period) (s : Str) (hs : toSdmx p = .ok s) (hrt : (toSdmx p).bind fromSdmx = .ok p) :
    detectFreq s = .ok (some p.freq) ∧ fromSdmxAs p.freq s = .ok p := by
  rw [hs] at hrt
  have h : fromSdmx s = .ok p := hrt
  simp only [fromSdmx, bind, Except.bind] at h
  cases hd : detectFreq s with
  | error e => rw [hd] at h; cases h
  | ok o =>
    rw [hd] at h
    cases o with
    | none => cases h
    | some f' =>
      have h' : fromSdmxAs f' s = .ok p := h
      have := fromSdmxAs_freq f' s p h'
      subst this
      exact ⟨rfl, h'⟩

theorem mapM_fromSdmxAs (f : Freq) : ∀ (ps : List Period) (ss : List Str),
    (∀ p ∈ ps, p.freq = f) → ps.mapM toSdmx = .ok ss → (∀ p ∈ ps, (toSdmx p).bind fromSdmx = .ok p) →
    ss.mapM (fromSdmxAs f) = .ok ps
  | [], ss, _, hss, _ => by
    simp [pure, Except.pure] at hss; subst hss; rfl
  | p :: ps, ss, hf, hss, hrt => by
    rw [List.mapM_cons] at hss
    cases hp : toSdmx p with
    | error e => rw [hp] at hss; cases hss
    | ok s =>
      rw [hp] at hss
      cases hps : ps.mapM toSdmx with
      | error e => rw [hps] at hss; cases hss
      | ok ss' =>
        rw [hps] at hss
        have : ss = s :: ss' := by cases hss; rfl
        subst this
        have ih := mapM_fromSdmxAs f ps ss' (fun q hq => hf q (by simp [hq])) hps (fun q hq => hrt q (by simp [hq]))
        have hpf := hf p (by simp)
        obtain ⟨-, h2⟩ := roundtrip_parts p s hp (hrt p (by simp))
        rw [hpf] at h2
        rw [List.mapM_cons, h2, ih]; rfl

/-- **Sequences.** For periods `ps` of one frequency whose SDMX strings each round-trip (the hypotheses of
`sdmx_roundtrip_regular/_daily/_integer`), parsing the list of their strings -- in any order, with gaps or repetitions --
returns exactly `ps`, with the frequency given or auto-detected from the first string. -/
theorem periods_from_sdmx_roundtrip (f : Freq) (ps : List Period) (ss : List Str)
    (hf : ∀ p ∈ ps, p.freq = f) (hss : ps.mapM toSdmx = .ok ss)
    (hrt : ∀ p ∈ ps, (toSdmx p).bind fromSdmx = .ok p) :
    periodsFromSdmx none ss = .ok ps ∧ periodsFromSdmx (some f) ss = .ok ps := by
  have hm := mapM_fromSdmxAs f ps ss hf hss hrt
  cases ps with
  | nil =>
    simp [pure, Except.pure] at hss; subst hss
    exact ⟨rfl, rfl⟩
  | cons p ps =>
    rw [List.mapM_cons] at hss
    cases hp : toSdmx p with
    | error e => rw [hp] at hss; cases hss
    | ok s =>
      rw [hp] at hss
      cases hps : ps.mapM toSdmx with
      | error e => rw [hps] at hss; cases hss
      | ok ss' =>
        rw [hps] at hss
        have : ss = s :: ss' := by cases hss; rfl
        subst this
        obtain ⟨h1, -⟩ := roundtrip_parts p s hp (hrt p (by simp))
        rw [hf p (by simp)] at h1
        constructor
        · simp only [periodsFromSdmx, h1, bind, Except.bind, pure, Except.pure]
          exact hm
        · simp only [periodsFromSdmx, bind, Except.bind, pure, Except.pure]
          exact hm

theorem mapM_toSdmx_ok : ∀ (ps : List Period), (∀ p ∈ ps, (toSdmx p).bind fromSdmx = .ok p) → ∃ ss, ps.mapM toSdmx = .ok ss
  | [], _ => ⟨[], rfl⟩
  | p :: ps, hrt => by
    obtain ⟨ss, hss⟩ := mapM_toSdmx_ok ps (fun q hq => hrt q (by simp [hq]))
    have h := hrt p (by simp)
    cases hp : toSdmx p with
    | error e => rw [hp] at h; cases h
    | ok s => exact ⟨s :: ss, by rw [List.mapM_cons, hp, hss]; rfl⟩

/-- the same without assuming that the strings exist: they do, and parsing them gives the periods back -/
theorem periods_from_sdmx_roundtrip_exists (f : Freq) (ps : List Period) (hf : ∀ p ∈ ps, p.freq = f)
    (hrt : ∀ p ∈ ps, (toSdmx p).bind fromSdmx = .ok p) :
    ∃ ss, ps.mapM toSdmx = .ok ss ∧ periodsFromSdmx none ss = .ok ps ∧ periodsFromSdmx (some f) ss = .ok ps := by
  obtain ⟨ss, hss⟩ := mapM_toSdmx_ok ps hrt
  exact ⟨ss, hss, periods_from_sdmx_roundtrip f ps ss hf hss hrt⟩

/-- non-vacuity: a quarterly sequence with a gap, out of order and with a repetition (2021-Q3, 2020-Q1, 2021-Q3) -/
example : ∃ ss, [(⟨.Q, 8086⟩ : Period), ⟨.Q, 8080⟩, ⟨.Q, 8086⟩].mapM toSdmx = .ok ss ∧
    periodsFromSdmx none ss = .ok [⟨.Q, 8086⟩, ⟨.Q, 8080⟩, ⟨.Q, 8086⟩] := by
  obtain ⟨ss, h1, h2, -⟩ := periods_from_sdmx_roundtrip_exists .Q [⟨.Q, 8086⟩, ⟨.Q, 8080⟩, ⟨.Q, 8086⟩]
    (by intro p hp; simp at hp; rcases hp with h | h | h <;> subst h <;> rfl)
    (by
      intro p hp; simp at hp
      rcases hp with h | h | h <;> subst h
      · exact sdmx_roundtrip_regular .Q (by simp [regularFreqs]) 8086 (by decide) (by decide)
      · exact sdmx_roundtrip_regular .Q (by simp [regularFreqs]) 8080 (by decide) (by decide)
      · exact sdmx_roundtrip_regular .Q (by simp [regularFreqs]) 8086 (by decide) (by decide))
  exact ⟨ss, h1, h2⟩

/-! ## 6. Non-vacuity -/

/-- the hypotheses of the string round trips are met by concrete periods (2020-Q4, 2020-02-29) -/
example : (toSdmx ⟨.Q, 8083⟩).bind fromSdmx = .ok ⟨.Q, 8083⟩ :=
  sdmx_roundtrip_regular .Q (by simp [regularFreqs]) 8083 (by decide) (by decide)
example : (toSdmx ⟨.D, 737484⟩).bind fromSdmx = .ok ⟨.D, 737484⟩ := sdmx_roundtrip_daily 737484 (by decide)
example : refrequent ⟨.M, 24241⟩ .D .end_ = .ok ⟨.D, 737484⟩ := by decide
example : ((Freq.Q, Freq.M) ∈ finerPairs) ∧ Freq.M ∈ calendarFreqs := by decide
example : 0 ≤ (ord2ymd 737484).1 ∧ (ord2ymd 737484).1 ≤ 9999 := by decide

end IrisVerif.Dates.C11

