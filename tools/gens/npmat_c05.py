"""
py2lean plugin for property C05 (steady state), built on the numpy -> QMat engine of tools/gens/npmat.py:

* fords/steadiers.py  `solve_steady_linear_flat`, `solve_steady_linear_nonflat`  (`_solutions.left_div`, a
  least-squares solve, is an explicit parameter)                                  -> Generated/SteadyLinearGen.lean

The hand-written model (Model/Steady.lean, namespace `Linear`) is tied to these in Props/GenTieC05.lean.
"""
from __future__ import annotations
import importlib.util, os, sys


def _engine():
    name = "py2lean_npmat_engine"
    if name not in sys.modules:
        spec = importlib.util.spec_from_file_location(name, os.path.join(os.path.dirname(os.path.abspath(__file__)), "npmat.py"))
        mod = importlib.util.module_from_spec(spec)
        sys.modules[name] = mod
        spec.loader.exec_module(mod)
    return sys.modules[name]


def gen_steady_linear(repo: str) -> str:
    E = _engine()
    system = E.ClassSpec("System", "src/irispie/fords/systems.py",
                         {"A": E.MAT, "B": E.MAT, "C": E.MAT, "F": E.MAT, "G": E.MAT, "H": E.MAT},
                         doc="the unsolved first-order system A xi + B xi{-1} + C = 0, F y + G xi + H = 0 (C, H as columns)")
    unit = E.Unit(repo, "src/irispie/fords/steadiers.py", "IrisVerif.Gen.SteadyLinear",
                  externals={"_solutions.left_div": E.External("left_div", [E.MAT, E.MAT], E.MAT,
                                                               doc="fords/solutions.py left_div(A, B) = lstsq(A, B): a solution X of A X = B")},
                  classes={"System": system})
    for f in ("solve_steady_linear_flat", "solve_steady_linear_nonflat"):
        unit.function(f)
    return unit.render("The linear steady-state systems of fords/steadiers.py (property C05) as definitions over QMat.")


GENERATORS = {
    "SteadyLinearGen.lean": (gen_steady_linear, {"C05"}),
}
