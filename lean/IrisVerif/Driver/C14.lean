/-
Line-protocol driver for the Hodrick-Prescott / l1 trend-filter model (property C14).

requests (words separated by blanks; numbers are `num/den` or integers, a missing value is `nan`):
  hpf   <req>                 -> `ok <start> <len> <nv> <trend, variant-major> <gap, variant-major>` | `err:singular`
  hpfq  lam <spanreq> dstart dlen nv values.. lev .. chg ..   -> as `hpf`, or `err:bad` (empty selection, zero step);
        <spanreq> = dots | range a|- b|- step | list k p1..pk  (the span in the form the caller gave it)
  args  <req>                 -> per variant `<F as toText> b <len> <rhs values>`, joined by ` | `: the arguments of the linear solve
  obj   <req>                 -> `before <F> after <F> answered k`: self._F of the filter object before / after the variant loop
  setup <req>                 -> `lo hi n slo shi lw=[..] cw=[..] ld=[..] cd=[..]`
  sys   n lam kl lw.. kc cw.. mask(n words 0/1)   -> the system matrix as `QMat.toText`
  cert  <req> tau <n*nv values, variant-major>    -> `ok <stationarity residual> <constraint residual>` per variant | `err:singular`
  l1    order lam n y.. trend.. gap..             -> `ok rangeErr boxExcess dualGap tauErr maxAbsNu` | `err:singular`
  dmat  order n                                   -> the difference matrix of `_ell_one.py` as `QMat.toText`
<req> = lam slo|- shi|- dstart dlen nv <dlen*nv values, variant-major> lev (-| start len values..) chg (-| start len values..)
-/
import IrisVerif.Model.HPSpan
import IrisVerif.Driver.Util

open IrisVerif IrisVerif.HP IrisVerif.Driver

namespace IrisVerif.Driver.C14

abbrev P := StateT (List String) Option

def word : P String := do
  match ← get with
  | [] => failure
  | w :: rest => set rest; pure w

def lit (s : String) : P Unit := do
  let w ← word
  if w = s then pure () else failure

def int : P Int := do
  match (← word).toInt? with
  | some i => pure i
  | none => failure

def nat : P Nat := do
  match (← word).toNat? with
  | some i => pure i
  | none => failure

def rat : P Rat := do
  match QMat.parseRat? (← word) with
  | some q => pure q
  | none => failure

def orat : P (Option Rat) := do
  let w ← word
  if w = "nan" then pure none else
    match QMat.parseRat? w with
    | some q => pure (some q)
    | none => failure

def many {α} (n : Nat) (p : P α) : P (List α) := (List.range n).mapM (fun _ => p)

def optInt : P (Option Int) := do
  let w ← word
  if w = "-" then pure none else
    match w.toInt? with
    | some i => pure (some i)
    | none => failure

def ser (tag : String) : P (Option Ser) := do
  lit tag
  match ← get with
  | "-" :: rest => set rest; pure none
  | _ =>
    let s ← int
    let n ← nat
    let v ← many n orat
    pure (some ⟨s, v.toArray⟩)

def request : P Request := do
  let lam ← rat
  let slo ← optInt
  let shi ← optInt
  let dstart ← int
  let dlen ← nat
  let nv ← nat
  let cols ← many nv (do let v ← many dlen orat; pure v.toArray)
  let level ← ser "lev"
  let change ← ser "chg"
  let span := match slo, shi with
    | some a, some b => some (a, b)
    | _, _ => none
  pure ⟨lam, dstart, dlen, cols, level, change, span⟩

/-- `dots` | `range a|- b|- step` | `list k p1 … pk` -/
def spanReq : P SpanReq := do
  match ← word with
  | "dots" => pure .dots
  | "range" => do let a ← optInt; let b ← optInt; let st ← int; pure (.range a b st)
  | "list" => do let k ← nat; let l ← many k int; pure (.periods l)
  | _ => failure

/-- `<reqq>` = lam <spanreq> dstart dlen nv values… lev … chg … -/
def requestQ : P (Request × SpanReq) := do
  let lam ← rat
  let sp ← spanReq
  let dstart ← int
  let dlen ← nat
  let nv ← nat
  let cols ← many nv (do let v ← many dlen orat; pure v.toArray)
  let level ← ser "lev"
  let change ← ser "chg"
  pure (⟨lam, dstart, dlen, cols, level, change, none⟩, sp)

def showO : Option Rat → String
  | some q => QMat.showRat q
  | none => "nan"

def showRats (l : List Rat) : String := "[" ++ ",".intercalate (l.map QMat.showRat) ++ "]"
def showNats (l : List Nat) : String := "[" ++ ",".intercalate (l.map toString) ++ "]"

def runHpf (r : Request) : String :=
  match dataHpf id id r with
  | none => "err:singular"
  | some res =>
    let len := (res.trend.head?.map Array.size).getD 0
    let t := res.trend.flatMap (fun a => a.toList.map QMat.showRat)
    let g := res.gap.flatMap (fun a => a.toList.map showO)
    " ".intercalate (["ok", toString res.start, toString len, toString res.trend.length] ++ t ++ g)

def showResult : Option Result → String
  | none => "err:singular"
  | some res =>
    let len := (res.trend.head?.map Array.size).getD 0
    let t := res.trend.flatMap (fun a => a.toList.map QMat.showRat)
    let g := res.gap.flatMap (fun a => a.toList.map showO)
    " ".intercalate (["ok", toString res.start, toString len, toString res.trend.length] ++ t ++ g)

/-- `_data_hpf` with the span in the form it was given; the filter object is run over the variants as the code does -/
def runHpfQ (r : Request) (sp : SpanReq) : String :=
  match dataHpfReq id id r sp with
  | none => "err:bad"
  | some res => showResult res

/-- state of the filter object: `self._F` after `__init__` and after the variant loop (must be the same matrix) -/
def runObj (r : Request) : String :=
  let s := setup r
  let o := HPObject.init s.n r.lam s.lw s.cw
  let cols := r.dcols.map (fun col => (Ser.mk r.dstart col).fromUntil s.lo s.hi)
  let (o', outs) := o.run id id s.ld s.cd cols
  "before " ++ o.F.toText ++ " after " ++ o'.F.toText ++ " answered " ++ toString (outs.filter Option.isSome).length

/-- what goes into the linear solve, per variant: the system matrix and the bordered right-hand side -/
def runArgs (r : Request) : String :=
  let s := setup r
  let parts := r.dcols.map (fun col =>
    let y := (Ser.mk r.dstart col).fromUntil s.lo s.hi
    let b := rhs id y s.ld s.cd
    (sysMatrix s.n r.lam s.lw s.cw y).toText ++ " b " ++ " ".intercalate (toString b.size :: b.toList.map QMat.showRat))
  " | ".intercalate parts

def runSetup (r : Request) : String :=
  let s := setup r
  s!"{s.lo} {s.hi} {s.n} {s.slo} {s.shi} lw={showNats s.lw} cw={showNats s.cw} ld={showRats s.ld} cd={showRats s.cd}"

def runCert (r : Request) (taus : List (Array Rat)) : String :=
  let s := setup r
  let outs := (r.dcols.zip taus).mapM (fun (col, tau) =>
    certificate s.n r.lam s.lw s.cw s.ld s.cd ((Ser.mk r.dstart col).fromUntil s.lo s.hi) tau)
  match outs with
  | none => "err:singular"
  | some l => " ".intercalate ("ok" :: l.flatMap (fun (a, b) => [QMat.showRat a, QMat.showRat b]))

def step (line : String) : String :=
  match words line with
  | "hpf" :: rest =>
    match request.run rest with
    | some (r, []) => runHpf r
    | _ => "bad-op"
  | "hpfq" :: rest =>
    match requestQ.run rest with
    | some ((r, sp), []) => runHpfQ r sp
    | _ => "bad-op"
  | "args" :: rest =>
    match request.run rest with
    | some (r, []) => runArgs r
    | _ => "bad-op"
  | "obj" :: rest =>
    match request.run rest with
    | some (r, []) => runObj r
    | _ => "bad-op"
  | "setup" :: rest =>
    match request.run rest with
    | some (r, []) => runSetup r
    | _ => "bad-op"
  | "cert" :: rest =>
    match (do let r ← request; lit "tau"; let s := setup r
              let taus ← many r.dcols.length (do let v ← many s.n rat; pure v.toArray)
              pure (r, taus)).run rest with
    | some ((r, taus), []) => runCert r taus
    | _ => "bad-op"
  | "sys" :: rest =>
    match (do let n ← nat; let lam ← rat; let kl ← nat; let lw ← many kl nat; let kc ← nat; let cw ← many kc nat
              let mask ← many n nat
              pure (n, lam, lw, cw, mask)).run rest with
    | some ((n, lam, lw, cw, mask), []) =>
      let y : Array (Option Rat) := (mask.map (fun m => if m = 1 then some (0 : Rat) else none)).toArray
      (sysMatrix n lam lw cw y).toText
    | _ => "bad-op"
  | ["dmat", order, n] =>
    match order.toNat?, n.toNat? with
    | some o, some n => if o = 1 ∨ o = 2 then (lonfD o n).toText else "bad-op"
    | _, _ => "bad-op"
  | "l1" :: rest =>
    match (do let order ← nat; let lam ← rat; let n ← nat
              let y ← many n orat; let t ← many n rat; let g ← many n orat
              pure (order, lam, y, t, g)).run rest with
    | some ((order, lam, y, t, g), []) =>
      if order ≠ 1 ∧ order ≠ 2 then "bad-op" else
      match l1Certificate order lam y.toArray t.toArray g.toArray with
      | none => "err:singular"
      | some c =>
        let mx := c.nu.foldl (fun m x => if m < absQ x then absQ x else m) 0
        " ".intercalate ["ok", QMat.showRat c.rangeErr, QMat.showRat c.boxExcess, QMat.showRat c.dualGap,
                          QMat.showRat c.tauErr, QMat.showRat mx]
    | _ => "bad-op"
  | _ => "bad-op"

end IrisVerif.Driver.C14

def main : IO Unit := IrisVerif.Driver.runMain IrisVerif.Driver.C14.step
