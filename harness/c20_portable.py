"""
C20 -- portable codec: oracle (round trip on the real code, written from the property statement) and
correspondence with IrisVerif/Model/Portable.lean (driver C20, `port` lines).
"""
from __future__ import annotations

import json

import irispie as ir

from .common import Ctx


def _H():
    from . import c20
    return c20


def public_view(m) -> dict:
    """what the property statement lists: names, kinds, log status, equations (dynamic and steady), flags, parameter values"""
    H = _H()
    qid_to_kind = m.create_qid_to_kind()
    qid_to_name = m.create_qid_to_name()
    out = {
        "names": list(m.get_names()),
        "kinds": {qid_to_name[q]: H.KCH[k] for q, k in qid_to_kind.items()},
        "log_status": {k: v for k, v in m.get_log_status().items()},
        "dynamic_equations": list(m.get_dynamic_equations()),
        "steady_equations": list(m.get_steady_equations()),
        # the full equation records, every kind (transition, measurement, steady autovalues): kind, dynamic and steady text,
        # description, attributes (None and the empty set are the same thing after a round trip)
        "equation_records": [(d.kind.name, d.human, s_.human, d.description or "", sorted(d.attributes or ()))
                             for d, s_ in zip(m.get_dynamic_equation_objects(), m.get_steady_equation_objects())],
        "equations_by_kind": {k.name: len(m.get_equations(kind=k)) for k in ir.equations.EquationKind
                              if k.name in ("TRANSITION_EQUATION", "MEASUREMENT_EQUATION", "STEADY_AUTOVALUES")},
        "flags": {"linear": m.is_linear, "flat": m.is_flat, "deterministic": m.is_deterministic},
        "num_variants": m.num_variants,
        "parameters": {k: [H.bits(x) for x in v] for k, v in m.get_parameters_stds(unpack_singleton=False).items()},
    }
    return out


FIELDS = ["names", "kinds", "log_status", "dynamic_equations", "steady_equations", "equation_records", "equations_by_kind",
          "flags", "num_variants", "parameters"]


def gen_portable_case(rng) -> dict:
    H = _H()
    spec = H.gen_spec(rng)
    nv = rng.choice([1, 1, 2, 3, 3, 4, 5])
    import math
    # values that need 16-17 significant digits (quotients, sums like 0.1+0.2, irrational constants): the round trip is exact
    fine_r = [1 / 3, 0.1 + 0.2, 2 / 3, -1 / 7, math.sqrt(2) / 2, 0.7 / 3]
    fine_c = [7 / 3, math.pi / 2, -math.e / 3, 0.1 + 0.7, 1e-3 / 3]
    vals = []
    for _ in range(nv):
        v = H.initial_values(spec, rng)
        for n in list(v):
            if rng.chance(0.5):
                v[n] = rng.choice(fine_r) if n.startswith("r") else (rng.choice(fine_c) if n.startswith("c") else rng.choice([0.1, 1 / 9, 0.0]))
        for n in H.variable_names(spec):
            if rng.chance(0.5):
                v[n] = rng.choice([0.5, 1.0, 2.0])
        if rng.chance(0.5):
            v["std_e1"] = math.sqrt(2) / 10        # ignored by assign when the model has no such std
        if rng.chance(0.3):
            v["std_w1"] = 1 / 30
        vals.append(v)
    return {"kind": "portable", "spec": spec, "values": vals, "steady": rng.chance(0.4), "json": rng.chance(0.4),
            "desc": rng.choice(["", "", "Model A", "x y"])}


def make_model(case):
    H = _H()
    spec = case["spec"]
    m = H.build(spec)
    if case.get("desc"):
        m.set_description(case["desc"])
    vals = case["values"]
    m.alter_num_variants(len(vals))
    names = sorted(set().union(*[set(v) for v in vals]))
    for n in names:
        m.assign(**{n: [v.get(n, ...) for v in vals]})
    if case.get("steady"):
        try:
            with H.quiet():
                m.steady()
        except Exception:
            pass        # a nonlinear steady state without initial values: keep the assigned values
    return m


def portable_case(ctx: Ctx, case: dict):
    """oracle on the real code; returns (model, portable or None)"""
    try:
        m = make_model(case)
    except Exception as e:
        ctx.count("portable_spec_rejected:" + type(e).__name__)
        return None, None
    ctx.evaluations += 1
    want = public_view(m)
    try:
        p = m.to_portable()
    except Exception as e:
        ctx.fail("portable-export-raises", case, f"to_portable() raises {e!r} on a model built by from_string")
        return m, None
    q = json.loads(json.dumps(p)) if case.get("json") else p
    try:
        m2 = ir.Simultaneous.from_portable(q)
    except Exception as e:
        ctx.fail("portable-import-raises", case, f"from_portable(to_portable(m)) raises {type(e).__name__}: {str(e)[:200]!r}")
        return m, p
    # the imported variants are pairwise distinct objects with dicts of their own (alter_num_variants inside from_portable)
    objs = [id(v) for v in m2._variants] + [id(v.levels) for v in m2._variants] + [id(v.changes) for v in m2._variants]
    if len(set(objs)) != len(objs):
        ctx.disagree("portable-import-structure", case, "imported variants share objects", "pairwise distinct variant objects and dicts (expand_adds_distinct_variants, step_owned)")
    got = public_view(m2)
    fields = FIELDS
    if want["flags"] != got["flags"]:
        fields = ["flags"]          # everything else (std_ names, default stds, ...) is downstream of the lost flags
    for f in fields:
        if want[f] != got[f]:
            site = {"flags": "portable-flags", "parameters": "portable-values-not-exact"}.get(f, "portable-roundtrip-" + f.replace("_", "-"))
            ctx.fail(site, case, f"{f}: {want[f]!r} became {got[f]!r} after from_portable(to_portable(m))" + (" via JSON" if case.get("json") else ""))
    # behaviour: the re-created model is the same model -- after the same re-assignment, steady() gives the same levels and the
    # same parameters (the autovalue parameters are recomputed by `!steady-autovalues` equations) on both
    if not case.get("json"):
        H = _H()
        try:
            a, b = m.copy(), m2.copy()
            for x in (a, b):
                x.assign(c1=1.5, r1=0.375)
                with H.quiet():
                    x.steady()
            va = {"levels": {k: [H.bits(y) for y in v] for k, v in a.get_steady_levels(unpack_singleton=False).items()},
                  "parameters": {k: [H.bits(y) for y in v] for k, v in a.get_parameters_stds(unpack_singleton=False).items()}}
            vb = {"levels": {k: [H.bits(y) for y in v] for k, v in b.get_steady_levels(unpack_singleton=False).items()},
                  "parameters": {k: [H.bits(y) for y in v] for k, v in b.get_parameters_stds(unpack_singleton=False).items()}}
            ctx.count("portable_behaviour_compared")
            if va != vb:
                diff = [k for part in va for k in va[part] if va[part][k] != vb[part].get(k)]
                ctx.fail("portable-roundtrip-behaves-differently", case,
                         f"after assign(c1=1.5, r1=0.375); steady() the original and from_portable(to_portable(m)) differ in {diff[:6]}")
        except Exception as e:
            ctx.count("portable_behaviour_skipped:" + type(e).__name__)
    if want["num_variants"] > 1 and any("e" in n for n in want["names"]):
        ctx.nontriv("portable:" + json.dumps(case["spec"], sort_keys=True) + str(want["num_variants"]))
    return m, p


def portable_stream(ctx: Ctx, n: int):
    rng = ctx.rng.fork("portable")
    lines, impl, cases = [], [], []
    for i in range(n):
        case = gen_portable_case(rng.fork(i))
        ctx.count("portable_cases")
        m, p = portable_case(ctx, case)
        if i < 2:
            ctx.sample({"portable_case": case})
        if m is None:
            continue
        try:
            from .c20_portline import request_and_reply
        except ImportError:
            continue
        rr = request_and_reply(m, p)
        for req, rep in (rr or []):
            cases.append(case); lines.append(req); impl.append(rep)
    if lines:
        model = ctx.model("C20", lines)
        ctx.compare("portable", cases, impl, model)
