/-
Tie T for the matrix code of property C15: the hand-written executable model `Model/Acov.lean` EQUALS the definitions
that `tools/gens/npmat.py` regenerates from `/repo/src/irispie/fords/covariances.py` (+ the `Solution` properties of
`fords/solutions.py`) on every run (`Generated/AcovGen.lean`), for all inputs of consistent shape (any dimensions, any
number of unit roots, any order).  Every theorem of `Props/C15.lean` / `Props/BridgeC15.lean` about `Acov.*`
therefore speaks about the regenerated code; a change of the Python that changes the meaning of one of these
functions makes a proof below fail (the tie "no longer checks").

The model keeps `na`, `ny`, `nu` as separate fields and performs no shape checks; the code reads the dimensions off
the arrays.  The two agree exactly when the fields are the dimensions of the arrays: that is `Shapes s` (met by every
`Sol` the driver constructs).  Python `int`s are `Int` in the generated code; the model's `Nat`s are cast.
-/
import IrisVerif.Props.GenTieCore
import IrisVerif.Model.Acov
import IrisVerif.Generated.AcovGen

namespace IrisVerif.GenTieC15

open IrisVerif IrisVerif.QMat IrisVerif.Acov IrisVerif.GenTie IrisVerif.QMatNp

/-- the `Solution` object that the model's `Sol` stands for.  `Z` (only `Z.shape[0]` is read, as `num_y`) and the two
stored stability masks are not part of `Sol`; they are arguments. -/
def solOf (s : Sol) (Z : QMat) (mt mm : List Bool) : Gen.Acov.Solution :=
  { Ta := s.Ta, Pa := s.Pa, Za := s.Za, Ua := s.Ua, H := s.H, Z := Z, num_unit_roots := (s.nu : Int),
    boolex_stable_transition_vector := mt, boolex_stable_measurement_vector := mm }

/-- the model's dimension fields are the dimensions of its arrays -/
structure Shapes (s : Sol) (Z : QMat) : Prop where
  nu_le : s.nu ≤ s.na
  Ta_rows : s.Ta.rows = s.na
  Ta_cols : s.Ta.cols = s.na
  Pa_rows : s.Pa.rows = s.na
  Za_rows : s.Za.rows = s.ny
  Za_cols : s.Za.cols = s.na
  Z_rows : Z.rows = s.ny

variable (s : Sol) (Z : QMat) (mt mm : List Bool)

/-! ## the `Solution` properties (`fords/solutions.py`) -/

theorem model_eq_generated_TaStable (h : Shapes s Z) : TaStable s = (solOf s Z mt mm).Ta_stable := by
  unfold TaStable Gen.Acov.Solution.Ta_stable QMatNp.slice solOf
  simp only [lo_some_nat, hi_none, h.Ta_rows, h.Ta_cols, Nat.min_eq_left h.nu_le]

theorem model_eq_generated_PaStable (h : Shapes s Z) : PaStable s = (solOf s Z mt mm).Pa_stable := by
  unfold PaStable Gen.Acov.Solution.Pa_stable QMatNp.slice solOf
  simp only [lo_some_nat, hi_none, lo_none, h.Pa_rows, Nat.min_eq_left h.nu_le]

theorem model_eq_generated_ZaStable (h : Shapes s Z) : ZaStable s = (solOf s Z mt mm).Za_stable := by
  unfold ZaStable Gen.Acov.Solution.Za_stable QMatNp.slice solOf
  simp only [lo_some_nat, hi_none, lo_none, h.Za_rows, h.Za_cols, Nat.min_eq_left h.nu_le]

theorem num_alpha_eq (h : Shapes s Z) : (solOf s Z mt mm).num_alpha = (s.na : Int) := by
  unfold Gen.Acov.Solution.num_alpha solOf
  simp only [shape_fst, h.Ta_rows]

theorem num_y_eq (h : Shapes s Z) : (solOf s Z mt mm).num_y = (s.ny : Int) := by
  unfold Gen.Acov.Solution.num_y solOf
  simp only [shape_fst, h.Z_rows]

/-! ## `get_cov_alpha_00` -/

/-- `sigma_u = Pa_stable @ cov_u @ Pa_stable.T` -/
theorem model_eq_generated_sigmaU (h : Shapes s Z) :
    sigmaU s = (solOf s Z mt mm).Pa_stable * s.covU * ((solOf s Z mt mm).Pa_stable).transpose := by
  unfold sigmaU
  rw [model_eq_generated_PaStable s Z mt mm h]

/-- **`get_cov_alpha_00`**: for every value `lyap` of the external Lyapunov solver, the generated function returns the
model's zero-padded covariance of the solver's answer on the model's stable block -/
theorem model_eq_generated_covAlpha00 (h : Shapes s Z) (lyap : QMat → QMat → QMat) :
    covAlpha00 s (lyap (TaStable s) (sigmaU s)) = Gen.Acov.get_cov_alpha_00 lyap (solOf s Z mt mm) s.covU := by
  unfold Gen.Acov.get_cov_alpha_00
  simp only []
  rw [← model_eq_generated_sigmaU s Z mt mm h, ← model_eq_generated_TaStable s Z mt mm h]
  unfold covAlpha00 QMatNp.setSlice
  simp only [solOf, zeros_shape, zero_rows, zero_cols, lo_some_nat, hi_none, h.Ta_rows, h.Ta_cols,
    Nat.min_eq_left h.nu_le]
  apply ofFn_congr
  intro i j hi hj
  rw [get_zero]
  by_cases hc : s.nu ≤ i ∧ s.nu ≤ j
  · rw [if_pos hc, if_pos ⟨hc.1, hi, hc.2, hj⟩]
  · rw [if_neg hc, if_neg (fun hh => hc ⟨hh.1, hh.2.2.1⟩)]

/-! ## `get_cov_triangular_00` -/

/-- the code slices the stable block back out of the padded matrix; that is the solver's answer when the answer is a
well-shaped `(na - nu) × (na - nu)` matrix -/
theorem slice_covAlpha00 (OmS : QMat) (hle : s.nu ≤ s.na) (hw : OmS.wellShaped = true) (hr : OmS.rows = s.na - s.nu)
    (hc : OmS.cols = s.na - s.nu) :
    QMatNp.slice (covAlpha00 s OmS) (some (s.nu : Int)) none (some (s.nu : Int)) none = OmS := by
  rw [← ofFn_get OmS hw hr hc]
  unfold QMatNp.slice QMat.block covAlpha00
  simp only [ofFn_rows, ofFn_cols, lo_some_nat, hi_none, Nat.min_eq_left hle]
  apply ofFn_congr
  intro i j hi hj
  rw [get_ofFn_of_lt _ _ _ _ _ (by omega) (by omega), if_pos ⟨by omega, by omega⟩,
    get_ofFn_of_lt _ _ _ _ _ (by omega) (by omega)]
  congr 1 <;> omega

/-- **`get_cov_triangular_00`**: the generated function returns the model's `covTriangular00` of the solver's answer,
provided the answer has the shape of the stable block (otherwise the code, which re-slices the padded matrix, and the
model, which uses the answer as it is, differ) -/
theorem model_eq_generated_covTriangular00 (h : Shapes s Z) (lyap : QMat → QMat → QMat)
    (hw : (lyap (TaStable s) (sigmaU s)).wellShaped = true)
    (hr : (lyap (TaStable s) (sigmaU s)).rows = s.na - s.nu) (hc : (lyap (TaStable s) (sigmaU s)).cols = s.na - s.nu) :
    covTriangular00 s (lyap (TaStable s) (sigmaU s))
      = Gen.Acov.get_cov_triangular_00 lyap (solOf s Z mt mm) s.covU s.covW := by
  unfold Gen.Acov.get_cov_triangular_00
  simp only []
  rw [← model_eq_generated_covAlpha00 s Z mt mm h lyap, ← model_eq_generated_ZaStable s Z mt mm h]
  have hsl := slice_covAlpha00 s (lyap (TaStable s) (sigmaU s)) h.nu_le hw hr hc
  simp only [solOf] at hsl ⊢
  rw [hsl]
  rfl

/-! ## `get_autocov_triangular_00` -/

/-- `Ta_00 = Ta.copy(); Ta_00[:nu, :] = 0; Ta_00[:, :nu] = 0` -/
theorem Ta00_eq (h : Shapes s Z) :
    Ta00 s = QMatNp.fillSlice (QMatNp.fillSlice s.Ta none (some (s.nu : Int)) none none 0) none none none
      (some (s.nu : Int)) 0 := by
  unfold Ta00 QMatNp.fillSlice
  simp only [ofFn_rows, ofFn_cols, lo_none, hi_none, hi_some_nat, h.Ta_rows, h.Ta_cols, Nat.min_eq_left h.nu_le]
  apply ofFn_congr
  intro i j hi hj
  rw [get_ofFn_of_lt _ _ _ _ _ hi hj]
  split_ifs <;> first | rfl | (exfalso; omega)

/-- **`get_autocov_triangular_00`**: the list the generated function returns holds, in slot `j`, the model's
`autocovTriangular … j`, for every order `k` (no slot is left `None`) -/
theorem model_eq_generated_autocovTriangular (h : Shapes s Z) (lyap : QMat → QMat → QMat)
    (hw : (lyap (TaStable s) (sigmaU s)).wellShaped = true)
    (hr : (lyap (TaStable s) (sigmaU s)).rows = s.na - s.nu) (hc : (lyap (TaStable s) (sigmaU s)).cols = s.na - s.nu)
    (k : Nat) :
    Gen.Acov.get_autocov_triangular_00 lyap (solOf s Z mt mm) s.covU s.covW (k : Int)
      = (List.range (k + 1)).map (fun j => some (autocovTriangular s (lyap (TaStable s) (sigmaU s)) j)) := by
  unfold Gen.Acov.get_autocov_triangular_00
  simp only []
  rw [← model_eq_generated_covTriangular00 s Z mt mm h lyap hw hr hc, num_alpha_eq s Z mt mm h, num_y_eq s Z mt mm h]
  have hT : QMatNp.fillSlice (QMatNp.fillSlice (solOf s Z mt mm).Ta none (some (solOf s Z mt mm).num_unit_roots) none none 0)
      none none none (some (solOf s Z mt mm).num_unit_roots) 0 = Ta00 s := (Ta00_eq s Z h).symm
  rw [hT]
  have hA : QMat.vstack (QMat.hstack (Ta00 s) (QMatNp.zeros ((s.na : Int), (s.ny : Int))))
      (QMat.hstack ((solOf s Z mt mm).Za * Ta00 s) (QMatNp.zeros ((s.ny : Int), (s.ny : Int)))) = calA s := by
    simp only [zeros_natCast]; rfl
  rw [hA, foldl_range_natCast]
  have hk : ((k : Int) + 1) = ((k + 1 : Nat) : Int) := by omega
  rw [hk, replicate_natCast]
  have h0 : ((0 : Int)) = ((0 : Nat) : Int) := rfl
  rw [h0, listSet_natCast]
  have hstep : ∀ (xs : List (Option QMat)) (i : Nat),
      QMatNp.listSet xs ((i : Int) + 1) (some (calA s * QMatNp.unwrap (QMatNp.listGet xs (i : Int) none)))
        = xs.set (i + 1) (some ((fun o => calA s * QMatNp.unwrap o) (xs.getD i none))) := by
    intro xs i
    have : ((i : Int) + 1) = ((i + 1 : Nat) : Int) := by omega
    rw [this, listSet_natCast, listGet_natCast]
  simp only [hstep]
  exact foldl_set_chain k (fun j => autocovTriangular s (lyap (TaStable s) (sigmaU s)) j)
    (fun o => calA s * QMatNp.unwrap o) (fun i => rfl)

/-! ## `get_autocov_square_00` -/

/-- a row of `blockdiag(Ua, I)` against a vector -/
theorem bigU_row_sum (i : Nat) (hi : i < s.na + s.ny) (x : Nat → Rat) :
    ∑ l ∈ Finset.range (s.na + s.ny), (bigU s).get i l * x l
      = if i < s.na then ∑ l ∈ Finset.range s.na, s.Ua.get i l * x l else x i := by
  have hterm : ∀ l ∈ Finset.range (s.na + s.ny), (bigU s).get i l * x l
      = (if i < s.na ∧ l < s.na then s.Ua.get i l else if i = l then 1 else 0) * x l := by
    intro l hl
    unfold bigU
    rw [get_ofFn_of_lt _ _ _ _ _ hi (Finset.mem_range.1 hl)]
  rw [Finset.sum_congr rfl hterm]
  by_cases h : i < s.na
  · rw [if_pos h, Finset.sum_range_add]
    have h2 : ∑ l ∈ Finset.range s.ny, (if i < s.na ∧ s.na + l < s.na then s.Ua.get i (s.na + l)
        else if i = s.na + l then 1 else 0) * x (s.na + l) = 0 := by
      apply Finset.sum_eq_zero
      intro l _
      rw [if_neg (by omega), if_neg (by omega), zero_mul]
    rw [h2, add_zero]
    apply Finset.sum_congr rfl
    intro l hl
    rw [if_pos ⟨h, Finset.mem_range.1 hl⟩]
  · rw [if_neg h]
    have h3 : ∀ l ∈ Finset.range (s.na + s.ny),
        (if i < s.na ∧ l < s.na then s.Ua.get i l else if i = l then 1 else 0) * x l = if i = l then x l else 0 := by
      intro l _
      rw [if_neg (fun hh => h hh.1)]
      split <;> simp
    rw [Finset.sum_congr rfl h3, Finset.sum_ite_eq]
    simp [hi]

/-- entries of `cov[:na, :] = Ua @ cov[:na, :]` -/
theorem rows_step_get (g : QMat) (hUr : s.Ua.rows = s.na) (hUc : s.Ua.cols = s.na)
    (hgr : g.rows = s.na + s.ny) (hgc : g.cols = s.na + s.ny) (i k : Nat) (hi : i < s.na + s.ny) (hk : k < s.na + s.ny) :
    (QMatNp.setSlice g none (some (s.na : Int)) none none (s.Ua * QMatNp.slice g none (some (s.na : Int)) none none)).get i k
      = if i < s.na then ∑ l ∈ Finset.range s.na, s.Ua.get i l * g.get l k else g.get i k := by
  have hmin : min s.na (s.na + s.ny) = s.na := Nat.min_eq_left (Nat.le_add_right _ _)
  rw [get_setSlice _ _ _ _ _ _ _ _ (by omega) (by omega)]
  simp only [lo_none, hi_none, hi_some_nat, hgr, hgc, hmin, Nat.sub_zero]
  by_cases h : i < s.na
  · rw [if_pos ⟨Nat.zero_le _, h, Nat.zero_le _, hk⟩, if_pos h, get_mul, hUr, hUc]
    simp only [slice_cols, lo_none, hi_none, hgc, Nat.sub_zero]
    rw [if_pos ⟨h, hk⟩]
    apply Finset.sum_congr rfl
    intro l hl
    have hl' := Finset.mem_range.1 hl
    rw [get_slice]
    simp only [lo_none, hi_none, hi_some_nat, hgr, hgc, hmin, Nat.sub_zero, Nat.zero_add]
    rw [if_pos ⟨hl', hk⟩]
  · rw [if_neg (fun hh => h hh.2.1), if_neg h]

/-- **the closure `_transform_cov_triangular_to_square` of `get_autocov_square_00`**: the two in-place slice updates
`cov[:na, :] = Ua @ cov[:na, :]`, `cov[:, :na] = cov[:, :na] @ Ua.T` are the model's congruence with `blockdiag(Ua, I)`,
for every `(na + ny)`-square `g` (entries outside the stored data are never read) -/
theorem model_eq_generated_toSquare (g : QMat) (hUr : s.Ua.rows = s.na) (hUc : s.Ua.cols = s.na)
    (hgr : g.rows = s.na + s.ny) (hgc : g.cols = s.na + s.ny) :
    toSquare s g = Gen.Acov.get_autocov_square_00__transform_cov_triangular_to_square s.Ua (s.na : Int) g := by
  have hmin : min s.na (s.na + s.ny) = s.na := Nat.min_eq_left (Nat.le_add_right _ _)
  unfold Gen.Acov.get_autocov_square_00__transform_cov_triangular_to_square
  simp only []
  unfold toSquare
  apply ext_of_get _ _ (wellShaped_mul _ _) (wellShaped_setSlice _ _ _ _ _ _)
  · show (bigU s).rows = g.rows
    rw [hgr]; rfl
  · show (bigU s).rows = g.cols
    rw [hgc]; rfl
  · intro i j hi hj
    have hi' : i < s.na + s.ny := hi
    have hj' : j < s.na + s.ny := hj
    -- left-hand side
    rw [get_mul]
    simp only [mul_rows, mul_cols, transpose_cols, hgc]
    rw [if_pos ⟨hi, hj⟩]
    have hL : ∀ k ∈ Finset.range (s.na + s.ny), (bigU s * g).get i k * (bigU s).transpose.get k j
        = (bigU s).get j k * (if i < s.na then ∑ l ∈ Finset.range s.na, s.Ua.get i l * g.get l k else g.get i k) := by
      intro k hk
      have hk' := Finset.mem_range.1 hk
      rw [get_mul, if_pos ⟨hi, by rw [hgc]; exact hk'⟩, get_transpose, if_pos ⟨hk', hj⟩]
      show (∑ l ∈ Finset.range (s.na + s.ny), (bigU s).get i l * g.get l k) * _ = _
      rw [bigU_row_sum s i hi' (fun l => g.get l k), mul_comm]
    rw [Finset.sum_congr rfl hL, bigU_row_sum s j hj']
    -- right-hand side
    rw [get_setSlice _ _ _ _ _ _ _ _ (by simpa [hgr] using hi') (by simpa [hgc] using hj')]
    simp only [setSlice_rows, setSlice_cols, lo_none, hi_none, hi_some_nat, hgr, hgc, hmin, Nat.sub_zero]
    by_cases h : j < s.na
    · have hc1 : (0 ≤ i ∧ i < s.na + s.ny ∧ 0 ≤ j ∧ j < s.na) := ⟨Nat.zero_le _, hi', Nat.zero_le _, h⟩
      rw [if_pos h, if_pos hc1, get_mul]
      simp only [slice_rows, slice_cols, setSlice_rows, setSlice_cols, transpose_cols, lo_none, hi_none, hi_some_nat,
        hgr, hgc, hmin, hUr, Nat.sub_zero]
      have hc2 : (i < s.na + s.ny ∧ j < s.na) := ⟨hi', h⟩
      rw [if_pos hc2]
      apply Finset.sum_congr rfl
      intro k hk
      have hk' := Finset.mem_range.1 hk
      rw [get_slice]
      simp only [setSlice_rows, setSlice_cols, lo_none, hi_none, hi_some_nat, hgr, hgc, hmin, Nat.sub_zero, Nat.zero_add]
      have hc3 : (i < s.na + s.ny ∧ k < s.na) := ⟨hi', hk'⟩
      have hc4 : (k < s.na ∧ j < s.na) := ⟨hk', h⟩
      rw [if_pos hc3, rows_step_get s g hUr hUc hgr hgc i k hi' (by omega), get_transpose, hUr, hUc,
        if_pos hc4, mul_comm]
    · have hc1 : ¬ (0 ≤ i ∧ i < s.na + s.ny ∧ 0 ≤ j ∧ j < s.na) := fun hh => h hh.2.2.2
      rw [if_neg h, if_neg hc1, rows_step_get s g hUr hUc hgr hgc i j hi' hj']


theorem covTriangular00_dims (h : Shapes s Z) (OmS : QMat) :
    (covTriangular00 s OmS).rows = s.na + s.ny ∧ (covTriangular00 s OmS).cols = s.na + s.ny := by
  constructor
  · show (covAlpha00 s OmS).rows + ((covAlpha00 s OmS * s.Za.transpose).transpose).rows = _
    rw [transpose_rows, mul_cols, transpose_cols, h.Za_rows]; rfl
  · show (covAlpha00 s OmS).cols + (covAlpha00 s OmS * s.Za.transpose).cols = _
    rw [mul_cols, transpose_cols, h.Za_rows]; rfl

theorem autocovTriangular_dims (h : Shapes s Z) (OmS : QMat) (j : Nat) :
    (autocovTriangular s OmS j).rows = s.na + s.ny ∧ (autocovTriangular s OmS j).cols = s.na + s.ny := by
  induction j with
  | zero => exact covTriangular00_dims s Z h OmS
  | succ j ih =>
    show (calA s * autocovTriangular s OmS j).rows = _ ∧ (calA s * autocovTriangular s OmS j).cols = _
    rw [mul_rows, mul_cols]
    refine ⟨?_, ih.2⟩
    show (Ta00 s).rows + (s.Za * Ta00 s).rows = _
    rw [mul_rows, h.Za_rows]; rfl

/-- **`get_autocov_square_00`**: slot `j` of the generated list is the model's `toSquare` of `autocovTriangular … j` -/
theorem model_eq_generated_autocovSquare00 (h : Shapes s Z) (hUr : s.Ua.rows = s.na) (hUc : s.Ua.cols = s.na)
    (lyap : QMat → QMat → QMat) (hw : (lyap (TaStable s) (sigmaU s)).wellShaped = true)
    (hr : (lyap (TaStable s) (sigmaU s)).rows = s.na - s.nu) (hc : (lyap (TaStable s) (sigmaU s)).cols = s.na - s.nu)
    (k : Nat) :
    Gen.Acov.get_autocov_square_00 lyap (solOf s Z mt mm) s.covU s.covW (k : Int)
      = (List.range (k + 1)).map (fun j => toSquare s (autocovTriangular s (lyap (TaStable s) (sigmaU s)) j)) := by
  unfold Gen.Acov.get_autocov_square_00
  simp only []
  rw [model_eq_generated_autocovTriangular s Z mt mm h lyap hw hr hc k, num_alpha_eq s Z mt mm h, List.map_map]
  apply List.map_congr_left
  intro j _
  obtain ⟨hgr, hgc⟩ := autocovTriangular_dims s Z h (lyap (TaStable s) (sigmaU s)) j
  exact (model_eq_generated_toSquare s _ hUr hUc hgr hgc).symm

/-! ## `get_autocov_square`: the NaN fill -/

/-- the generated code's arrays with NaN cells and the model's `CMat` are the same data -/
def toCMat (a : QMatNp.NanMat) : CMat := ⟨a.rows, a.cols, a.data⟩

theorem grid_congr {α : Type} (r c : Nat) (f g : Nat → Nat → α) (h : ∀ i j, i < r → j < c → f i j = g i j) :
    (Array.range r).map (fun i => (Array.range c).map (fun j => f i j))
      = (Array.range r).map (fun i => (Array.range c).map (fun j => g i j)) := by
  apply Array.ext
  · simp
  · intro i hi1 hi2
    simp only [Array.size_map, Array.size_range] at hi1
    apply Array.ext
    · simp
    · intro j hj1 hj2
      simp only [Array.getElem_map, Array.size_map, Array.size_range, Array.getElem_range] at hj1 ⊢
      exact h i j hi1 hj1

theorem nanGet_ofFn (r c : Nat) (f : Nat → Nat → Option Rat) (i j : Nat) (hi : i < r) (hj : j < c) :
    (QMatNp.NanMat.ofFn r c f).get i j = f i j := by
  unfold QMatNp.NanMat.get QMatNp.NanMat.ofFn
  simp [hi, hj]

theorem maskNot_getD (m : List Bool) (i : Nat) (hi : i < m.length) :
    (QMatNp.maskNot m).getD i false = !(m.getD i false) := by
  unfold QMatNp.maskNot
  simp [List.getD_eq_getElem?_getD, List.getElem?_eq_getElem hi]

/-- **the closure `fill_nans` of `get_autocov_square`**: `cov[~stable, :] = nan; cov[:, ~stable] = nan` is the model's
`fillNaN` whenever the stored mask `boolex_stable` is the model's stability classification of the joint vector -/
theorem model_eq_generated_fillNaN (g : QMat) (mask : List Bool) (hsq : g.cols = g.rows) (hlen : mask.length = g.rows)
    (hmask : ∀ i, i < g.rows → mask.getD i false = isStable s i) :
    fillNaN s g = toCMat (Gen.Acov.get_autocov_square_fill_nans mask g) := by
  unfold Gen.Acov.get_autocov_square_fill_nans fillNaN toCMat
  simp only []
  unfold QMatNp.NanMat.nanCols QMatNp.NanMat.nanRows QMatNp.NanMat.ofQMat CMat.ofFn
  simp only [QMatNp.NanMat.ofFn]
  congr 1
  apply grid_congr
  intro i j hi hj
  have e := nanGet_ofFn g.rows g.cols
    (fun i j => if (QMatNp.maskNot mask).getD i false = true then none
      else (QMatNp.NanMat.ofFn g.rows g.cols (fun i j => some (g.get i j))).get i j) i j hi hj
  unfold QMatNp.NanMat.ofFn at e
  rw [e, maskNot_getD mask j (by omega), maskNot_getD mask i (by omega), hmask i hi, hmask j (by omega)]
  have e2 := nanGet_ofFn g.rows g.cols (fun i j => some (g.get i j)) i j hi hj
  unfold QMatNp.NanMat.ofFn at e2
  rw [e2]
  cases isStable s i <;> cases isStable s j <;> rfl

/-! ## end to end: `Acov.acov` is the generated `get_autocov_square` + the selection -/

/-- the model's stability classification as the stored masks of `Solution` -/
def maskT : List Bool := (List.range s.na).map (isStable s)
def maskM : List Bool := (List.range s.ny).map (fun i => isStable s (s.na + i))

theorem mask_getD (i : Nat) (hi : i < s.na + s.ny) : (maskT s ++ maskM s).getD i false = isStable s i := by
  unfold maskT maskM
  rw [List.getD_eq_getElem?_getD]
  by_cases h : i < s.na
  · rw [List.getElem?_append_left (by simpa using h)]
    simp [h]
  · rw [List.getElem?_append_right (by simpa using Nat.le_of_not_lt h)]
    have h2 : i - s.na < s.ny := by omega
    simp [h2]
    congr 1; omega

/-- what a successful `Acov.lyapunov` returns has the shape of its first argument -/
theorem lyapunov_shape (T Sig Om : QMat) (h : lyapunov T Sig = some Om) :
    Om.wellShaped = true ∧ Om.rows = T.rows ∧ Om.cols = T.rows := by
  unfold lyapunov at h
  simp only at h
  split at h
  · cases h
  · split at h
    · injection h with h
      subst h
      exact ⟨wellShaped_unvec _ _ _, rfl, rfl⟩
    · cases h

/-- **`Acov.acov` (the function the C15 driver runs) is the regenerated code**: when the model's checked Lyapunov
solver succeeds with `OmS`, the model's answer is the generated `get_autocov_square` (external solver := the constant
`OmS`, stored masks := the model's classification) followed by the selection of the zero-shift tokens -/
theorem model_eq_generated_acov (Z : QMat) (h : Shapes s Z) (hUr : s.Ua.rows = s.na) (hUc : s.Ua.cols = s.na)
    (sel : List Nat) (k : Nat) (OmS : QMat) (hO : lyapunov (TaStable s) (sigmaU s) = some OmS) :
    acov s sel k = some ((Gen.Acov.get_autocov_square (fun _ _ => OmS) (solOf s Z (maskT s) (maskM s)) s.covU s.covW
      (k : Int)).map (fun c => select (toCMat c) sel)) := by
  obtain ⟨hw, hr, hc⟩ := lyapunov_shape _ _ _ hO
  have hr' : OmS.rows = s.na - s.nu := hr
  have hc' : OmS.cols = s.na - s.nu := hc
  unfold acov
  rw [hO]
  simp only []
  unfold Gen.Acov.get_autocov_square
  simp only []
  rw [model_eq_generated_autocovSquare00 s Z (maskT s) (maskM s) h hUr hUc (fun _ _ => OmS) hw hr' hc' k,
    List.map_map, List.map_map]
  congr 1
  apply List.map_congr_left
  intro j _
  simp only [Function.comp]
  have hrows : (toSquare s (autocovTriangular s OmS j)).rows = s.na + s.ny := rfl
  have hcols : (toSquare s (autocovTriangular s OmS j)).cols = s.na + s.ny := rfl
  rw [model_eq_generated_fillNaN s (toSquare s (autocovTriangular s OmS j)) (maskT s ++ maskM s)
    (by rw [hrows, hcols]) (by rw [hrows]; simp [maskT, maskM])
    (fun i hi => mask_getD s i (by rw [hrows] at hi; exact hi))]
  rfl


/-! ## non-vacuity: the hypotheses are met by a concrete model with a unit root (kernel evaluation) -/

namespace Examples

/-- `α = (random walk, AR(1) with coefficient 1/2)`, `y = α₁ + α₂ + w`: `na = 2`, `ny = 1`, `nu = 1` -/
def exSol : Sol :=
  ⟨2, 1, 1, QMat.ofRows [[1, 0], [0, 1/2]], QMat.ofRows [[1], [1]], QMat.ofRows [[1, 1]], QMat.ofRows [[1, 0], [0, 1]],
    QMat.ofRows [[1]], QMat.ofRows [[1]], QMat.ofRows [[1]], 0⟩

example : Shapes exSol (QMat.ofRows [[1, 1]]) ∧ exSol.Ua.rows = exSol.na ∧ exSol.Ua.cols = exSol.na :=
  ⟨⟨by decide, rfl, rfl, rfl, rfl, rfl, rfl⟩, rfl, rfl⟩

/-- the checked Lyapunov solver succeeds on the stable block (variance 4/3) -/
theorem ex_lyapunov :
    (lyapunov (TaStable exSol) (sigmaU exSol)).map (fun o => decide (3 * o.get 0 0 = 4)) = some true := by
  decide +kernel

/-- on this model the generated code and the model agree by evaluation as well (order 2, all three tokens selected) -/
theorem ex_acov_agrees :
    (match lyapunov (TaStable exSol) (sigmaU exSol) with
     | some OmS => acov exSol [0, 1, 2] 2 == some ((Gen.Acov.get_autocov_square (fun _ _ => OmS)
          (solOf exSol (QMat.ofRows [[1, 1]]) (maskT exSol) (maskM exSol)) exSol.covU exSol.covW 2).map
          (fun c => select (toCMat c) [0, 1, 2]))
     | none => false) = true := by
  decide +kernel

end Examples

end IrisVerif.GenTieC15
