/-
Line-protocol driver for the dates/spans model (properties C09 and C11 share the period ops).
-/
import IrisVerif.Model.Spans
import IrisVerif.Driver.Util

open IrisVerif.Dates IrisVerif.Driver

namespace IrisVerif.Driver.C09

def showErr : Err → String
  | .mixedFreq => "err:mixed"
  | .badInput => "err:bad"
  | .noPeriod => "none"

def showR {α} (f : α → String) : R α → String
  | .ok a => f a
  | .error e => showErr e

def freq? (s : String) : Option Freq := Freq.ofLetter? s

def showPeriod (p : Period) : String := p.freq.letter ++ ":" ++ toString p.serial
def showPL (l : List Period) : String := "[" ++ ",".intercalate (l.map showPeriod) ++ "]"

def endpoint? (s : String) : Option (Option Endpoint) :=
  if s = "-" then some none
  else match s.splitOn ":" with
    | ["cs", o] => o.toInt?.map (fun o => some (.ctx false o))
    | ["ce", o] => o.toInt?.map (fun o => some (.ctx true o))
    | [f, n] => do let f ← freq? f; let n ← n.toInt?; pure (some (.res ⟨f, n⟩))
    | _ => none

def showEndpoint : Endpoint → String
  | .res p => showPeriod p
  | .ctx false o => "cs:" ++ toString o
  | .ctx true o => "ce:" ++ toString o

def showOptList {α} (f : α → String) : R (Option (List α)) → String
  | .ok none => "none"
  | .ok (some l) => "[" ++ ",".intercalate (l.map f) ++ "]"
  | .error e => showErr e

def observe (s : Span) : String :=
  showEndpoint s.start ++ ";" ++ showEndpoint s.stop ++ ";" ++ toString s.step ++ ";" ++
    (match s.len with | .ok none => "none" | .ok (some n) => toString n | .error e => showErr e) ++ ";" ++
    showOptList (fun (x : Int) => toString x) s.serials

/-- one span op; returns the new span (or error) and what the op itself returned -/
def spanOp (s : Span) (ws : List String) : Except String (Span × String) :=
  match ws with
  | ["rev"] => pure (s.reverse, "")
  | ["ss", k] => match k.toInt? with | some k => pure (s.shiftStart k, "") | none => throw "bad-op"
  | ["se", k] => match k.toInt? with | some k => pure (s.shiftEnd k, "") | none => throw "bad-op"
  | ["sh", k] => match k.toInt? with | some k => pure (s.shift k, "") | none => throw "bad-op"
  | ["add", k] => match k.toInt? with
    | some k => (match s.addInt k with | .ok s' => pure (s', "") | .error e => throw (showErr e))
    | none => throw "bad-op"
  | ["sub", k] => match k.toInt? with
    | some k => (match s.subInt k with | .ok s' => pure (s', "") | .error e => throw (showErr e))
    | none => throw "bad-op"
  | ["rs", k] => match k.toInt? with
    | some k => (match s.withStepR k with | .ok s' => pure (s', "") | .error e => throw (showErr e))
    | none => throw "bad-op"
  | ["ls", k] => match k.toInt? with
    | some k => (match s.withStepL k with | .ok s' => pure (s', "") | .error e => throw (showErr e))
    | none => throw "bad-op"
  | ["res", a, b] => match endpoint? a, endpoint? b with
    | some (some (.res p)), some (some (.res q)) =>
      (match s.resolve ⟨p, q⟩ with | .ok s' => pure (s', "") | .error e => throw (showErr e))
    | _, _ => throw "bad-op"
  | ["sl", a, b, c] =>   -- span[a:b:c], `-` for an omitted part
    let part : String → Option (Option Int) := fun w => if w = "-" then some none else w.toInt?.map some
    (match part a, part b, part c with
      | some a, some b, some c => pure (s, "sl=" ++ (match s.getSlice a b c with
          | .ok none => "none"
          | .ok (some l) => "[" ++ ",".intercalate (l.map showPeriod) ++ "]"
          | .error e => showErr e))
      | _, _, _ => throw "bad-op")
  | ["get", i] => match i.toInt? with
    | some i => pure (s, "get=" ++ (match s.getItem i with
        | .ok none => "none" | .ok (some p) => showPeriod p | .error e => showErr e))
    | none => throw "bad-op"
  | _ => throw "bad-op"

def runSpan (s : Span) (ops : List String) : List String :=
  match ops with
  | [] => []
  | op :: rest =>
    match spanOp s (words op) with
    | .error e => [e]          -- the failing op ends the sequence (the implementation raised)
    | .ok (s', r) => ((if r = "" then "" else r ++ ";") ++ observe s') :: runSpan s' rest

def step (line : String) : String :=
  match words line with
  | ["ord2ymd", n] => match n.toInt? with
    | some n => let (y, m, d) := ord2ymd n; s!"{y} {m} {d}"
    | none => "bad-op"
  | ["ymd2ord", y, m, d] => match parseInts? [y, m, d] with
    | some [y, m, d] => if ValidYmd y m d then toString (ymd2ord y m d) else "err:bad"
    | _ => "bad-op"
  | ["ys", f, n] => match freq? f, n.toInt? with
    | some f, some n => showR (fun (y, s) => s!"{y} {s}") (toYearSegment ⟨f, n⟩)
    | _, _ => "bad-op"
  | ["fromys", f, y, s] => match freq? f, y.toInt?, s.toInt? with
    | some f, some y, some s => toString (fromYearSegment f y s).serial
    | _, _, _ => "bad-op"
  | ["toymd", f, n, pos] => match freq? f, n.toInt?, Pos.ofString? pos with
    | some f, some n, some pos => showR (fun (y, m, d) => s!"{y} {m} {d}") (toYmd ⟨f, n⟩ pos)
    | _, _, _ => "bad-op"
  | ["fromymd", f, y, m, d] => match freq? f, parseInts? [y, m, d] with
    | some f, some [y, m, d] => showR (fun p => toString p.serial) (fromYmd f y m d)
    | _, _ => "bad-op"
  | ["refreq", f, n, f', pos] => match freq? f, n.toInt?, freq? f', Pos.ofString? pos with
    | some f, some n, some f', some pos => showR (fun p => toString p.serial) (refrequent ⟨f, n⟩ f' pos)
    | _, _, _, _ => "bad-op"
  | ["shift", f, n, kw] => match freq? f, n.toInt? with
    | some f, some n =>
      let byOpt : Option ShiftBy := match kw with
        | "yoy" => some .yoy | "soy" => some .soy | "boy" => some .soy | "eopy" => some .eopy | "tty" => some .tty
        | k => k.toInt?.map .by_
      (match byOpt with
        | some b => showR (fun p => toString p.serial) ((⟨f, n⟩ : Period).shift b)
        | none => "bad-op")
    | _, _ => "bad-op"
  | ["cmp", f1, n1, f2, n2] => match freq? f1, n1.toInt?, freq? f2, n2.toInt? with
    | some f1, some n1, some f2, some n2 =>
      let p : Period := ⟨f1, n1⟩; let q : Period := ⟨f2, n2⟩
      " ".intercalate [showR toString (p.subPeriod q), showR showBool (p.eq q), showR showBool (p.ne q),
        showR showBool (p.lt q), showR showBool (p.le q), showR showBool (p.gt q), showR showBool (p.ge q),
        showBool (p.hashKey == q.hashKey)]
    | _, _, _, _ => "bad-op"
  | ["hash", f, n] => match freq? f, n.toInt? with
    | some f, some n => let k := (⟨f, n⟩ : Period).hashKey; s!"{k.1} {k.2}"
    | _, _ => "bad-op"
  | ["pow", f, n, k] => match freq? f, n.toInt?, k.toInt? with
    | some f, some n, some k => (match (⟨f, n⟩ : Period).pow k with
      | .period p => "P " ++ showPeriod p
      | .span s => "S " ++ observe s
      | .empty => "E")
    | _, _, _ => "bad-op"
  | ["pfu", a, b, st] => match endpoint? a, endpoint? b, st.toInt? with
    | some (some (.res p)), some (some (.res q)), some st =>
      showR (fun l => "[" ++ ",".intercalate (l.map showPeriod) ++ "]") (periodsFromUntil p q st)
    | _, _, _ => "bad-op"
  | ["dir", a, b, st] => match endpoint? a, endpoint? b, st.toInt? with   -- Span.direction of the span and of its reversed() copy
    | some a, some b, some st =>
      let d : Span → String := fun s => if s.direction then "forward" else "backward"
      showR (fun s => d s ++ " " ++ d s.reverse) (Span.make a b st)
    | _, _, _ => "bad-op"
  | ["sfs", a, b, lag, lead] =>   -- spans_from_short_span on the first and last period
    match endpoint? a, endpoint? b, lag.toInt?, lead.toInt? with
    | some (some (.res p)), some (some (.res q)), some lag, some lead =>
      showR (fun (r : List Period × List Period) => showPL r.1 ++ "|" ++ showPL r.2) (spansFromShortSpan p q lag lead)
    | _, _, _, _ => "bad-op"
  | ["sfl", a, b, lag, lead] =>   -- spans_from_long_span
    match endpoint? a, endpoint? b, lag.toInt?, lead.toInt? with
    | some (some (.res p)), some (some (.res q)), some lag, some lead =>
      showR (fun (r : List Period × List Period) => showPL r.1 ++ "|" ++ showPL r.2) (spansFromLongSpan p q lag lead)
    | _, _, _, _ => "bad-op"
  | ["ext", a, b, lo, hi, pre, app] => match endpoint? a, endpoint? b, lo.toInt?, hi.toInt? with
    | some (some (.res p)), some (some (.res q)), some lo, some hi =>
      let r := extendSpan p q lo hi (pre = "1") (app = "1")
      showPeriod r.1 ++ " " ++ showPeriod r.2
    | _, _, _, _ => "bad-op"
  | ["speq", a, b, st, a', b', st'] => match endpoint? a, endpoint? b, st.toInt?, endpoint? a', endpoint? b', st'.toInt? with
    | some a, some b, some st, some a', some b', some st' =>
      (match Span.make a b st, Span.make a' b' st' with
        | .ok s, .ok t => showR showBool (s.eq t)
        | .error e, _ => showErr e
        | _, .error e => showErr e)
    | _, _, _, _, _, _ => "bad-op"
  | "enc" :: args =>   -- get_encompassing_span: `-` = None, `A:<p|->,<p|->` = object with start/end attributes, `S:p,-,p` = sequence
    let parseP : String → Option (Option Period) := fun w =>
      if w = "-" then some none else match endpoint? w with | some (some (.res p)) => some (some p) | _ => none
    let parseArg : String → Option (Option EncArg) := fun w =>
      if w = "-" then some none
      else if w.startsWith "A:" then
        (match ((w.drop 2).toString.splitOn ",").mapM parseP with
          | some [a, b] => some (some (.attrs a b))
          | _ => none)
      else if w.startsWith "S:" then
        let body := (w.drop 2).toString
        (match (if body = "" then [] else body.splitOn ",").mapM parseP with
          | some l => some (some (.seq l))
          | none => none)
      else none
    (match args.mapM parseArg with
      | some as =>
        showR (fun (r : Span × Option Period × Option Period) =>
          observe r.1 ++ " " ++ (match r.2.1 with | some p => showPeriod p | none => "-") ++ " " ++
            (match r.2.2 with | some p => showPeriod p | none => "-")) (encompassing as)
      | none => "bad-op")
  | "span>>" :: a :: b :: rest => match endpoint? a, endpoint? b with
    | some a, some b =>
      (match Span.rshift a b with
        | .error e => showErr e
        | .ok s =>
          let ops := ((" ".intercalate rest).splitOn "|")|>.map (fun x => x.trimAscii.toString) |>.filter (· ≠ "")
          " | ".intercalate (observe s :: runSpan s ops))
    | _, _ => "bad-op"
  | "span<<" :: a :: b :: rest => match endpoint? a, endpoint? b with
    | some a, some b =>
      (match Span.lshift a b with
        | .error e => showErr e
        | .ok s =>
          let ops := ((" ".intercalate rest).splitOn "|")|>.map (fun x => x.trimAscii.toString) |>.filter (· ≠ "")
          " | ".intercalate (observe s :: runSpan s ops))
    | _, _ => "bad-op"
  | "span" :: a :: b :: st :: rest => match endpoint? a, endpoint? b, st.toInt? with
    | some a, some b, some st =>
      (match Span.make a b st with
        | .error e => showErr e
        | .ok s =>
          let ops := ((" ".intercalate rest).splitOn "|")|>.map (fun x => x.trimAscii.toString) |>.filter (· ≠ "")
          " | ".intercalate (observe s :: runSpan s ops))
    | _, _, _ => "bad-op"
  | _ => "bad-op"

end IrisVerif.Driver.C09

def main : IO Unit := IrisVerif.Driver.runMain IrisVerif.Driver.C09.step
