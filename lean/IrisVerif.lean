-- Root of the `IrisVerif` library: models, lemmas, property theorems and drivers.
import IrisVerif.Props.C09
import IrisVerif.Driver.C09
import IrisVerif.Props.C11
import IrisVerif.Driver.C11
import IrisVerif.Model.QMat
import IrisVerif.Props.C05
import IrisVerif.Driver.C05
import IrisVerif.Props.C02
import IrisVerif.Driver.C02
import IrisVerif.Props.C07
import IrisVerif.Driver.C07
