"""
C11 -- Period conversions round-trip; frequency conversion preserves containment.

Correspondence: Lean model IrisVerif/Model/{Dates,DateFormats}.lean (driver C11) vs irispie.dates,
exact text (class E). Oracle: the round-trip identities evaluated on the implementation itself
and containment / monotonicity / coarse-fine-coarse through datetime.
"""
from __future__ import annotations
import datetime as dt

import irispie as ir
from irispie import dates as D

from .common import Ctx, err_kind
from .c09 import CLS, FREQ, LETTER, FVAL, REG, MAXORD, show_period, day_ordinals, regular_serials

DRIVERS = ["C11"]
LEVEL = "proof"
ASSUMPTIONS = [
    "Python's format mini-language (:04g, :02g), str.split/strip, int() and the re module are tied to the model's character-level functions by exact correspondence on every produced string plus a malformed stream, not by proof",
    "strings are ASCII: Python's \\d and int() also accept non-ASCII decimal digits, which the model's matcher does not represent",
    "supported calendar: years 1..9999 (datetime); regular periods of year 0 are included where no datetime call is involved",
]
MANIFEST = {
    "category": "proof",
    "text": ("Lean 4 theorems about an executable model of the period conversions in dates.py, for every period of every frequency in the "
             "supported calendar: from_ymd(to_ymd(p, pos)) = p for all three positions, eval(repr(p)) = p, from_iso(to_iso(p, pos)) = p, "
             "from_sdmx(to_sdmx(p)) = p with the frequency auto-detected by the model's matcher for the regular-expression subset used by "
             "SDMX_REXP_FORMATS (the pattern TEXT is regenerated from dates.py on every run, so a changed pattern re-checks the proofs); "
             "refrequent returns the target period containing the chosen day of the source period (containment as day intervals), is monotone, "
             "and coarse->fine->coarse returns the original period for every pair of positions. Tie: translator for formulas, tables and "
             "patterns; exact correspondence of every produced string and conversion (quick: 1890-2110 + boundary years, all frequency pairs "
             "and positions; thorough: years 1-9999) plus a malformed-string stream; independent datetime oracle on the implementation."),
    "design": "7/C11",
    "note": "Python's format/split/int/re are tied by correspondence on produced and malformed strings, not modelled in full.",
    "technique": "Lean 4 proof over executable model + translator-regenerated tables/patterns + exhaustive differential correspondence",
}

POS = ["start", "middle", "end"]
ALLF = ["I", "Y", "H", "Q", "M", "D"]


def impl_eval(line: str) -> str:
    try:
        if "|" in line:
            op, raw = line.split("|", 1)
            ws = op.split()
            if ws[0] == "unsdmx":
                return show_period(ir.Period.from_sdmx_string(raw))
            if ws[0] == "unsdmxas":
                return show_period(ir.Period.from_sdmx_string(raw, frequency=FREQ[ws[1]]))
            if ws[0] == "detect":
                f = ir.Frequency.from_sdmx_string(raw)
                return {v: k for k, v in FREQ.items()}.get(f, "no-class")
            if ws[0] == "uniso":
                return show_period(ir.Period.from_iso_string(raw, frequency=FREQ[ws[1]]))
            return "bad-op"
        ws = line.split()
        op = ws[0]
        if op == "sdmx":
            return CLS[ws[1]](int(ws[2])).to_sdmx_string()
        if op == "iso":
            return CLS[ws[1]](int(ws[2])).to_iso_string(position=ws[3])
        if op == "repr":
            return repr(CLS[ws[1]](int(ws[2])))
        if op == "rt":
            p = CLS[ws[1]](int(ws[2]))
            f = FREQ[ws[1]]
            outs = []

            def attempt(fn):
                try:
                    outs.append(show_period(fn()))
                except Exception as e:
                    outs.append(err_kind(e))
            attempt(lambda: ir.Period.from_sdmx_string(p.to_sdmx_string()))
            attempt(lambda: eval(repr(p), {"yy": ir.yy, "hh": ir.hh, "qq": ir.qq, "mm": ir.mm, "dd": ir.dd, "ii": ir.ii}))
            for pos in POS:
                attempt(lambda: ir.Period.from_ymd(f, *p.to_ymd(position=pos)))
            for pos in POS:
                attempt(lambda: ir.Period.from_iso_string(p.to_iso_string(position=pos), frequency=f))
            return " ".join(outs)
        if op == "refreq":
            return show_period(CLS[ws[1]](int(ws[2])).refrequent(FREQ[ws[3]], position=ws[4]))
        if op == "toymd":
            y, m, d = CLS[ws[1]](int(ws[2])).to_ymd(position=ws[3])
            return f"{y} {m} {d}"
        if op == "fromymd":
            return show_period(CLS[ws[1]].from_ymd(int(ws[2]), int(ws[3]), int(ws[4])))
    except Exception as e:
        return err_kind(e)
    return "bad-op"


def periods(ctx: Ctx, thin_days=1):
    """(letter, serial) over the enumerated calendar"""
    out = []
    for f in REG:
        out += [(f, s) for s in regular_serials(ctx, f)]
    ords = list(day_ordinals(ctx))
    out += [("D", n) for n in ords[::thin_days]]
    out += [("I", n) for n in (-1000001, -12, -1, 0, 1, 5, 9, 10, 99, 100, 2020, 123456789)]
    return out


def gen_lines(ctx: Ctx):
    streams = {}
    ps = periods(ctx, thin_days=3)   # regular periods: all; days: every third (quick: of 1890-2110, thorough: of years 1-9999)
    streams["roundtrip"] = [f"rt {f} {s}" for f, s in ps]
    strs = []
    for f, s in ps[:: (3 if ctx.quick else 1)]:
        strs.append(f"sdmx {f} {s}")
        strs.append(f"repr {f} {s}")
        if f != "I":
            strs.append(f"iso {f} {s} end")
    streams["strings"] = strs
    # frequency conversion: all ordered pairs, all positions
    conv = []
    thin = 7 if ctx.quick else 11
    for f, s in ps:
        if f == "I":
            continue
        if f == "D" and (s % thin):
            continue
        for g in REG + ["D"]:
            for pos in POS:
                conv.append(f"refreq {f} {s} {g} {pos}")
    streams["refrequent"] = conv
    # detection and parsing of produced and malformed strings
    rng = ctx.rng.fork("malformed")
    raw = []
    produced = ["2020", "0001", "9999", "2020-H1", "2020-H2", "2020-Q4", "2020-12", "2020-01", "2020-02-29", "(5)", "(-5)", "(+5)", "(0)", "(123456)"]
    for s in produced:
        raw += [f"detect|{s}", f"unsdmx|{s}", f"detect| {s} ", f"unsdmx| {s}  "]
        for f in ALLF:
            raw.append(f"unsdmxas {f}|{s}")
    malformed = ["", "20", "20201", "2020-", "2020-H", "2020-H3", "2020-Q0", "2020-Q5", "2020-Q12", "2020-13", "2020-00", "2020-1", "2020-W05",
                 "2020-02-30", "2020-2-3", "2019-02-29", "abcd", "2020Q1", "2020-q1", "(5", "5)", "()", "(5),", "(a)", "2020-Q1-", "2020--1",
                 "2020\t", "20 20", "-2020", "+2020", "2020-H1x", "x2020-H1", "2020-01-01-01", "0000", "0000-Q1"]
    for s in malformed:
        raw += [f"detect|{s}", f"unsdmx|{s}"]
        for f in ALLF:
            raw.append(f"unsdmxas {f}|{s}")
    alphabet = "0123456789-HQ()+ W,"
    for _ in range(ctx.n(1500, 30000)):
        base = rng.choice(produced)
        chars = list(base)
        for _ in range(rng.randint(1, 2)):
            k = rng.randint(0, 2)
            if k == 0 and chars:
                chars[rng.randint(0, len(chars) - 1)] = rng.choice(alphabet)
            elif k == 1:
                chars.insert(rng.randint(0, len(chars)), rng.choice(alphabet))
            elif chars:
                del chars[rng.randint(0, len(chars) - 1)]
        s = "".join(chars)
        raw += [f"detect|{s}", f"unsdmx|{s}"]
    isos = ["2020-02-29", "2020-2-29", "2020-02-30", "2020-02", "2020-02-29-1", " 2020-02-29", "2020-13-01", "2020-00-10", "0001-01-01", "x-1-1"]
    for s in isos:
        for f in ["Y", "H", "Q", "M", "D"]:
            raw.append(f"uniso {f}|{s}")
    streams["strings_in"] = raw
    # explicit (y, m, d) -> period, valid and invalid months/days
    fy = []
    for f in REG + ["D"]:
        for y in (1, 1900, 2000, 2020, 2023, 9999):
            for m in range(0, 14):
                for d in (0, 1, 28, 29, 30, 31, 32):
                    fy.append(f"fromymd {f} {y} {m} {d}")
    streams["fromymd"] = fy
    return streams


FINER = {"Y": ["H", "Q", "M", "D"], "H": ["Q", "M", "D"], "Q": ["M", "D"], "M": ["D"], "D": []}


def in_calendar(f, s):
    if f == "D":
        return 1 <= s <= MAXORD
    return 1 <= s // FVAL[f] <= 9999


def oracle(ctx: Ctx, scale=1):
    """the property statement evaluated on the implementation with datetime as the only reference"""
    ps = periods(ctx, thin_days=(11 if ctx.quick else 29) if scale == 1 else 1)
    ns = {"yy": ir.yy, "hh": ir.hh, "qq": ir.qq, "mm": ir.mm, "dd": ir.dd, "ii": ir.ii}
    for f, s in ps:
        p = CLS[f](s)
        fr = FREQ[f]
        case = {"freq": f, "serial": s}
        ctx.evaluations += 1
        # --- round trips
        try:
            sd = p.to_sdmx_string()
            if ir.Frequency.from_sdmx_string(sd) is not fr:
                ctx.fail(f"sdmx-detect-{f}", case, f"{sd!r} detected as {ir.Frequency.from_sdmx_string(sd)}")
            elif ir.Period.from_sdmx_string(sd) != p or type(ir.Period.from_sdmx_string(sd)) is not type(p):
                ctx.fail(f"sdmx-roundtrip-{f}", case, f"{sd!r} -> {ir.Period.from_sdmx_string(sd)!r}")
        except Exception as e:
            ctx.fail(f"sdmx-roundtrip-{f}", case, f"to/from_sdmx_string raises {e!r}")
        try:
            q = eval(repr(p), dict(ns))
            if type(q) is not type(p) or q != p:
                ctx.fail(f"repr-roundtrip-{f}", case, f"{p!r} -> {q!r}")
        except Exception as e:
            ctx.fail(f"repr-roundtrip-{f}", case, f"eval(repr) raises {e!r}")
        if f == "I":
            continue
        try:
            for pos in POS:
                y, m, d = p.to_ymd(position=pos)
                date = p.to_python_date(position=pos)
                ok = (date == dt.date(y, m, d)) and ir.Period.from_ymd(fr, y, m, d) == p
                ok = ok and ir.Period.from_python_date(date, frequency=fr) == p
                ok = ok and ir.Period.from_iso_string(p.to_iso_string(position=pos), frequency=fr) == p
                ok = ok and p.to_iso_string(position=pos) == date.isoformat()
                if f != "D":
                    y2, seg = p.to_year_segment()
                    ok = ok and type(p).from_year_segment(y2, seg) == p
                if not ok:
                    ctx.fail(f"ymd-roundtrip-{f}", case, f"position {pos}: ({y},{m},{d})")
        except Exception as e:
            ctx.fail(f"ymd-roundtrip-{f}", case, repr(e))
        # --- frequency conversion: containment, coarse -> fine -> coarse
        try:
            for g in REG + ["D"]:
                for pos in POS:
                    q = p.refrequent(FREQ[g], position=pos)
                    day = p.to_python_date(position=pos)
                    a, b = q.to_python_date(position="start"), q.to_python_date(position="end")
                    if type(q) is not CLS[g] or not (a <= day <= b):
                        ctx.fail(f"refrequent-containment-{f}{g}", case, f"{pos}: day {day} not in {q!r} = [{a}, {b}]")
                    if g in FINER[f]:
                        for pos2 in POS:
                            back = q.refrequent(fr, position=pos2)
                            if back != p:
                                ctx.fail(f"coarse-fine-coarse-{f}{g}", case, f"{pos}/{pos2}: {p!r} -> {q!r} -> {back!r}")
                    ctx.nontriv((f, g, pos, s % FVAL[f] if f != "D" else day.month))
        except Exception as e:
            ctx.fail(f"refrequent-raises-{f}", case, repr(e))
    # --- monotonicity on consecutive and random pairs
    rng = ctx.rng.fork("mono")
    for f in REG + ["D"]:
        pool = [s for ff, s in ps if ff == f]
        for _ in range(ctx.n(1500, 20000) * scale):
            a = rng.choice(pool)
            b = a + rng.choice([1, 1, 2, 3, 5, 30, 366])
            if not in_calendar(f, b):
                continue
            for g in REG + ["D"]:
                for pos in POS:
                    try:
                        qa = CLS[f](a).refrequent(FREQ[g], position=pos)
                        qb = CLS[f](b).refrequent(FREQ[g], position=pos)
                        if not (qa <= qb):
                            ctx.fail(f"refrequent-monotone-{f}{g}", {"freq": f, "a": a, "b": b, "to": g, "pos": pos}, f"{qa!r} > {qb!r}")
                    except Exception as e:
                        ctx.fail(f"refrequent-raises-{f}", {"freq": f, "a": a, "b": b}, repr(e))
            ctx.evaluations += 1


def run(ctx: Ctx):
    ctx.rule = ("every regular period and (thinned in quick) every day of the enumerated years (quick: 1890-2110 + boundary years; thorough: "
                "1-9999) through every round trip and every ordered frequency pair x position; produced, hand-written malformed and randomly "
                "mutated SDMX/ISO strings. distinct_nontrivial counts distinct (from, to, position, segment-or-month) conversion classes")
    streams = gen_lines(ctx)
    for name, lines in streams.items():
        impl = [impl_eval(l) for l in lines]
        ctx.compare(name, lines, impl, ctx.model("C11", lines))
        ctx.evaluations += len(lines)
        ctx.count(f"lines_{name}", len(lines))
        for l, o in list(zip(lines, impl))[:: max(1, len(lines) // 2)][:2]:
            ctx.sample({"stream": name, "request": l, "implementation": o})
        if name == "strings_in":
            for o in impl:
                ctx.count("strings_in_" + (o if o.startswith("err") or o in ("no-class",) else "accepted"))
    ctx.exhaustive = False   # regular periods are enumerated completely in the thorough tier, days are thinned
    oracle(ctx)


def search(ctx: Ctx, seeds):
    # bounded: the quick enumeration without thinning of days and with twice the random pairs (~1-2 min)
    ctx.tier = "quick"
    oracle(ctx, scale=2)


def replay(ctx: Ctx, payload):
    case = payload.get("case")
    if isinstance(case, str):
        impl = [impl_eval(case)]
        ctx.compare("replay", [case], impl, ctx.model("C11", [case]))
        ctx.evaluations += 1
    oracle(ctx)
