/-
Executable model of irispie's steady-state machinery (property C05), over exact rationals.

Modelled code (all under /repo/src/irispie):
* `simultaneous/_variants.py`   `Variant.create_steady_array`, `zero_changes`, `update_*_from_array`
* `steadiers/evaluators.py`     `SteadyEvaluator` (flat / non-flat): `_merge_levels_and_changes`, `_fill_missing`,
                                 `_update_steady_array`, `eval_func`, `extract_levels`, `extract_changes`
* `steadiers/_equators.py`      `FlatSteadyEquator.eval`, `NonflatSteadyEquator.eval` (dates `t` and `t+k`, `k = 1`)
* `simultaneous/_steady.py`     `_resolve_steady_wrt`, the block loop of `_steady_nonlinear`,
                                 `_update_variant_with_final_guess`
* `simultaneous/_invariants.py` `_populate_steady_autovalue_updater` (simultaneous assignment of the autovalues)
* `fords/steadiers.py`          `solve_steady_linear_flat`, `solve_steady_linear_nonflat` (stacked two-date system)
* `steadiers/solver_dispatcher.py` + `neqs` : only the exit test `‖f‖_∞ < func_tolerance`.

Representation choices (stated once):
* A cell is `Option Rat`; `none` stands for NaN / non-finite / Python `None`.
* Log-variables are modelled **multiplicatively**: where the code keeps `log level`, `log change` and builds
  `exp (log level + log change * shift)`, the model keeps `level`, `change` and builds `level * change ^ shift`.
  `Props/C05.lean` proves over ℝ that the two agree for positive level and change. The guess vector of the
  evaluator is therefore exchanged *delogarithmised* (the harness applies `exp` to the log-entries).
* The Newton/Levenberg iteration is not modelled: the block loop takes the solver as a parameter
  (`Solver`), the theorems quantify over every solver, the driver replays the implementation's final guesses.
-/
import IrisVerif.Model.QMat

namespace IrisVerif.Steady

abbrev Cell := Option Rat

/-! ### Expressions: the rational fragment of the model language (tokens `(qid, shift)`) -/

inductive Expr where
  | num (q : Rat)
  | tok (qid : Nat) (shift : Int)
  | neg (a : Expr)
  | add (a b : Expr)
  | sub (a b : Expr)
  | mul (a b : Expr)
  | div (a b : Expr)
  | pow (a : Expr) (n : Nat)
  deriving Repr, Inhabited

/-- a steady array: quantity id, shift ↦ value (the code's 2-D array `steady_array[qid, column_offset + shift]`) -/
abbrev SArray := Nat → Int → Cell

namespace Expr

/-- evaluation of an equation's `lhs - rhs` expression at column `t` (the `PlainEquator`);
division by zero gives a non-finite value, i.e. `none` -/
def eval (arr : SArray) (t : Int) : Expr → Cell
  | num q => some q
  | tok q s => arr q (t + s)
  | neg a => match eval arr t a with
    | some x => some (-x)
    | none => none
  | add a b => match eval arr t a, eval arr t b with
    | some x, some y => some (x + y)
    | _, _ => none
  | sub a b => match eval arr t a, eval arr t b with
    | some x, some y => some (x - y)
    | _, _ => none
  | mul a b => match eval arr t a, eval arr t b with
    | some x, some y => some (x * y)
    | _, _ => none
  | div a b => match eval arr t a, eval arr t b with
    | some x, some y => if y = 0 then none else some (x / y)
    | _, _ => none
  | pow a n => match eval arr t a with
    | some x => some (x ^ n)
    | none => none

/-- quantity ids occurring in the expression (the equation's incidence, without shifts) -/
def qids : Expr → List Nat
  | num _ => []
  | tok q _ => [q]
  | neg a => qids a
  | add a b => qids a ++ qids b
  | sub a b => qids a ++ qids b
  | mul a b => qids a ++ qids b
  | div a b => qids a ++ qids b
  | pow a _ => qids a

end Expr

/-! ### Steady paths: `Variant.create_steady_array` -/

/-- `c ^ s` for an integer exponent, without Mathlib -/
def ratZpow (c : Rat) (s : Int) : Rat :=
  if 0 ≤ s then c ^ s.toNat else (c ^ (-s).toNat)⁻¹

structure Variant where
  level : Nat → Cell
  change : Nat → Cell

/-- one cell of `create_steady_array`: non-log `level + change*shift` (missing change = 0);
log-variables `exp(log level + log change * shift)` = `level * change^shift`, where a non-positive
level gives NaN and a missing / non-positive change gives `log change := 0`, i.e. factor 1 -/
def steadyCell (logly : Bool) (level change : Cell) (s : Int) : Cell :=
  match level with
  | none => none
  | some l =>
    if logly then
      if l ≤ 0 then none
      else
        let c : Rat := match change with
          | some c => if 0 < c then c else 1
          | none => 1
        some (l * ratZpow c s)
    else
      some (l + (change.getD 0) * (s : Rat))

def steadyArray (logly : Nat → Bool) (v : Variant) : SArray :=
  fun q s => steadyCell (logly q) (v.level q) (v.change q) s

/-! ### Point updates of the level / change maps: `_update_from_array` (later entries win) -/

def upd (f : Nat → Cell) (k : Nat) (x : Cell) : Nat → Cell :=
  fun q => if q = k then x else f q

def updMany (f : Nat → Cell) : List (Nat × Cell) → (Nat → Cell)
  | [] => f
  | (k, x) :: rest => updMany (upd f k x) rest

/-- `Variant.zero_changes`: change := 0 (1 for log-variables) for every quantity that has a log-status
(variables), `None` for the others; `isVar q` says that `qid_to_logly[q]` is not `None` -/
def zeroChanges (isVar logly : Nat → Bool) (v : Variant) : Variant :=
  { v with change := fun q => if isVar q then some (if logly q then 1 else 0) else none }

/-! ### Steady plans: `_resolve_steady_wrt` -/

def insertSorted (x : Nat) : List Nat → List Nat
  | [] => [x]
  | y :: ys => if x < y then x :: y :: ys else if x = y then y :: ys else y :: insertSorted x ys

/-- `tuple(sorted(set(...)))` -/
def sortDedup (l : List Nat) : List Nat := l.foldr insertSorted []

structure Plan where
  exogenized : List Nat := []
  endogenized : List Nat := []
  fixedLevel : List Nat := []
  fixedChange : List Nat := []

structure Wrt where
  qids : List Nat
  fixedLevel : List Nat
  fixedChange : List Nat

/-- `canExo` = qids of the endogenous variables (`plannable.can_be_exogenized`); an empty / absent plan is the
plan with four empty registers. Endogenized parameters join the unknowns and the fixed-change set. -/
def resolveWrt (canExo : List Nat) (p : Plan) : Wrt :=
  { qids := sortDedup (canExo.filter (fun q => !p.exogenized.contains q) ++ p.endogenized)
    fixedLevel := sortDedup p.fixedLevel
    fixedChange := sortDedup (p.fixedChange ++ p.endogenized) }

/-! ### Writing a plan: the public spellings of `SteadyPlan` -/

/-- the public mutators of `SteadyPlan` (`fix_levels` / `fix_changes` are aliases of `fixLevel` / `fixChange`) -/
inductive PlanOp where
  | exogenize (q : Nat) | unexogenize (q : Nat)
  | endogenize (q : Nat) | unendogenize (q : Nat)
  | fixLevel (q : Nat) | unfixLevel (q : Nat)
  | fixChange (q : Nat) | unfixChange (q : Nat)
  | fix (q : Nat) | unfix (q : Nat)
  | swap (x p : Nat) | unswap (x p : Nat)
  deriving Repr, DecidableEq

def regOn (l : List Nat) (q : Nat) : List Nat := if l.contains q then l else l ++ [q]
def regOff (l : List Nat) (q : Nat) : List Nat := l.filter (· != q)

/-- one mutator call; `growth` = the plan has a fixed-change register at all (it was made in non-flat mode).
`fix q` is `fix_level q` followed -- in growth mode -- by `fix_change q`, whatever the plan already contains -/
def Plan.apply (growth : Bool) (p : Plan) : PlanOp → Plan
  | .exogenize q => { p with exogenized := regOn p.exogenized q }
  | .unexogenize q => { p with exogenized := regOff p.exogenized q }
  | .endogenize q => { p with endogenized := regOn p.endogenized q }
  | .unendogenize q => { p with endogenized := regOff p.endogenized q }
  | .fixLevel q => { p with fixedLevel := regOn p.fixedLevel q }
  | .unfixLevel q => { p with fixedLevel := regOff p.fixedLevel q }
  | .fixChange q => { p with fixedChange := regOn p.fixedChange q }
  | .unfixChange q => { p with fixedChange := regOff p.fixedChange q }
  | .fix q => { p with fixedLevel := regOn p.fixedLevel q,
                       fixedChange := if growth then regOn p.fixedChange q else p.fixedChange }
  | .unfix q => { p with fixedLevel := regOff p.fixedLevel q,
                         fixedChange := if growth then regOff p.fixedChange q else p.fixedChange }
  | .swap x q => { p with exogenized := regOn p.exogenized x, endogenized := regOn p.endogenized q }
  | .unswap x q => { p with exogenized := regOff p.exogenized x, endogenized := regOff p.endogenized q }

def Plan.applyAll (growth : Bool) (p : Plan) (ops : List PlanOp) : Plan := ops.foldl (Plan.apply growth) p

/-! ### The steady evaluator -/

/-- float value of `exp(1/9)` = `exp(DEFAULT_MAYBELOG_INIT_GUESS)` (checked by the harness against numpy) -/
def expNinth : Rat := 5032858461565281 / 4503599627370496

structure Evaluator where
  flat : Bool
  logly : Nat → Bool
  wrtLevel : List Nat          -- in the order of the guess vector
  wrtChange : List Nat         -- `[]` for the flat evaluator
  eqs : List Expr
  base : Variant               -- the variant when the evaluator is constructed (after `_reset_changes`)

namespace Evaluator

/-- `retrieve_maybelog_values_for_qids` + `_fill_missing` for a level, delogarithmised -/
def fillLevel (logly : Bool) (c : Cell) : Rat :=
  if logly then
    match c with
    | some l => if l < 0 then expNinth else l      -- log of a negative level is NaN -> default; log 0 = -inf -> 0
    | none => expNinth
  else c.getD (1 / 9)

/-- `_fill_missing` for a change, delogarithmised (default log-change 0, i.e. factor 1) -/
def fillChange (logly : Bool) (c : Cell) : Rat :=
  if logly then
    match c with
    | some x => if x < 0 then 1 else x
    | none => 1
  else c.getD 0

/-- positional lookup `keys[i] = q ↦ vals[i]` (the last match wins, as in `_update_from_array`; the wrt lists
never contain duplicates) -/
def lookup : List Nat → List Rat → Nat → Option Rat
  | k :: ks, x :: xs, q =>
    match lookup ks xs q with
    | some y => some y
    | none => if q = k then some x else none
  | _, _, _ => none

def inWrt (ev : Evaluator) (q : Nat) : Bool := ev.wrtLevel.contains q || ev.wrtChange.contains q

def guessLevels (ev : Evaluator) (g : List Rat) : List Rat := g.take ev.wrtLevel.length
def guessChanges (ev : Evaluator) (g : List Rat) : List Rat := g.drop ev.wrtLevel.length

/-- `_get_maybelog_levels` (delogarithmised) -/
def levelAt (ev : Evaluator) (g : List Rat) (q : Nat) : Rat :=
  match lookup ev.wrtLevel (ev.guessLevels g) q with
  | some x => x
  | none => fillLevel (ev.logly q) (ev.base.level q)

/-- `_get_maybelog_changes` (delogarithmised): zeros for the flat evaluator -/
def changeAt (ev : Evaluator) (g : List Rat) (q : Nat) : Rat :=
  if ev.flat then (if ev.logly q then 1 else 0) else
  match lookup ev.wrtChange (ev.guessChanges g) q with
  | some x => x
  | none => fillChange (ev.logly q) (ev.base.change q)

/-- path of a wrt-quantity written by `_update_steady_array` -/
def path (logly : Bool) (l c : Rat) (s : Int) : Rat :=
  if logly then l * ratZpow c s else l + c * (s : Rat)

/-- the evaluator's steady array at a guess: wrt rows are overwritten, all other rows are those of
`create_steady_array` at construction -/
def array (ev : Evaluator) (g : List Rat) : SArray :=
  fun q s =>
    if ev.inWrt q then some (path (ev.logly q) (ev.levelAt g q) (ev.changeAt g q) s)
    else steadyArray ev.logly ev.base q s

/-- `FlatSteadyEquator.eval` -/
def flatResid (eqs : List Expr) (arr : SArray) (t : Int) : List Cell := eqs.map (Expr.eval arr t)

/-- `NonflatSteadyEquator.eval`: `hstack(time_zero, time_k)` with `k = NONFLAT_STEADY_SHIFT = 1` -/
def nonflatResid (eqs : List Expr) (arr : SArray) (t : Int) (k : Int) : List Cell :=
  flatResid eqs arr t ++ flatResid eqs arr (t + k)

/-- `eval_func` (column offset = shift 0) -/
def resid (ev : Evaluator) (g : List Rat) : List Cell :=
  if ev.flat then flatResid ev.eqs (ev.array g) 0 else nonflatResid ev.eqs (ev.array g) 0 1

end Evaluator

/-- the solver's exit test on a residual vector: every entry finite and `‖f‖_∞ < tol` -/
def exitTest (tol : Rat) (r : List Cell) : Bool :=
  r.all (fun c => match c with
    | some x => decide (-tol < x ∧ x < tol)
    | none => false)

/-- sum of squares of a residual vector; `none` when an entry is not finite -/
def sumSq : List Cell → Option Rat
  | [] => some 0
  | none :: _ => none
  | some x :: rest => match sumSq rest with
    | some s => some (x * x + s)
    | none => none

/-- the acceptance test of the `scipy_root` facade (`solver_dispatcher.scipy_root`), as far as it concerns the
residuals: `‖f‖₂ < tol`, i.e. `Σ fᵢ² < tol²` (scipy's own `success` flag is a further, unmodelled, conjunct) -/
def exitTest2 (tol : Rat) (r : List Cell) : Bool :=
  match sumSq r with
  | some s => decide (s < tol * tol)
  | none => false

/-! ### Options in force at one `solve_steady` call -/

/-- `Flags.update_from_kwargs`: a per-call override (`none` = keyword not given) wins over the flag the model was
created with -- also when the override is `False` -/
def resolveFlag (override : Option Bool) (created : Bool) : Bool := override.getD created

structure Flags where
  linear : Bool
  flat : Bool
  deriving Repr, DecidableEq

/-- `Simultaneous.resolve_flags(linear=…, flat=…)` -/
def resolveFlags (created : Flags) (ovLinear ovFlat : Option Bool) : Flags :=
  ⟨resolveFlag ovLinear created.linear, resolveFlag ovFlat created.flat⟩

/-- the tolerance of the exit test at one call (`create_solver_settings_for_*`): the user's `func_tolerance` / `tol`
from `solver_settings` when given, else the model's equality tolerance *at that call*; a pure function of the two
arguments of the call (no memory of earlier calls) -/
def tolInForce (user : Option Rat) (equality : Rat) : Rat := user.getD equality

/-! ### Write-back: `extract_levels`, `extract_changes`, `_update_variant_with_final_guess` -/

def writeBack (loggable : Nat → Bool) (ev : Evaluator) (g : List Rat) (v : Variant) : Variant :=
  { level := updMany v.level ((ev.wrtLevel.zip (ev.guessLevels g)).map (fun (q, x) => (q, some x)))
    change := updMany v.change
      (((ev.wrtChange.zip (ev.guessChanges g)).filter (fun (q, _) => loggable q)).map (fun (q, x) => (q, some x))) }

/-! ### The block loop of `_steady_nonlinear` -/

structure Block where
  eids : List Nat
  qids : List Nat

structure Config where
  flat : Bool
  logly : Nat → Bool
  isVar : Nat → Bool            -- quantities with a log-status (variables)
  loggable : Nat → Bool         -- `kind in LOGGABLE_VARIABLE`
  eqs : List Expr               -- `wrt.equations`, indexed by eid
  fixedLevel : List Nat
  fixedChange : List Nat

/-- the non-modelled iteration: block number and evaluator ↦ final guess, `none` = not converged -/
abbrev Solver := Nat → Evaluator → Option (List Rat)

inductive Err where
  | notConverged (bid : Nat)
  deriving Repr, DecidableEq

def blockLevelQids (cfg : Config) (b : Block) : List Nat :=
  sortDedup (b.qids.filter (fun q => !cfg.fixedLevel.contains q))

def blockChangeQids (cfg : Config) (b : Block) : List Nat :=
  sortDedup (b.qids.filter (fun q => !cfg.fixedChange.contains q))

def blockEqs (cfg : Config) (b : Block) : List Expr := b.eids.filterMap (fun e => cfg.eqs[e]?)

def blockSkipped (cfg : Config) (b : Block) : Bool :=
  ((blockLevelQids cfg b).isEmpty && (blockChangeQids cfg b).isEmpty) || (blockEqs cfg b).isEmpty

def mkEvaluator (cfg : Config) (b : Block) (v : Variant) : Evaluator :=
  { flat := cfg.flat, logly := cfg.logly
    wrtLevel := blockLevelQids cfg b
    wrtChange := if cfg.flat then [] else blockChangeQids cfg b
    eqs := blockEqs cfg b
    base := if cfg.flat then zeroChanges cfg.isVar cfg.logly v else v }

/-- one pass of the loop body -/
def blockStep (cfg : Config) (solver : Solver) (bid : Nat) (b : Block) (v : Variant) : Except Err Variant :=
  if blockSkipped cfg b then .ok v
  else
    let ev := mkEvaluator cfg b v
    match solver bid ev with
    | none => .error (.notConverged bid)
    | some g => .ok (writeBack cfg.loggable ev g ev.base)

def blockLoopFrom (cfg : Config) (solver : Solver) : Nat → List Block → Variant → Except Err Variant
  | _, [], v => .ok v
  | bid, b :: rest, v =>
    match blockStep cfg solver bid b v with
    | .error e => .error e
    | .ok v' => blockLoopFrom cfg solver (bid + 1) rest v'

def steadyNonlinear (cfg : Config) (solver : Solver) (blocks : List Block) (v : Variant) : Except Err Variant :=
  blockLoopFrom cfg solver 0 blocks v

/-! ### An executable certificate for one solver answer -/

/-- a stored change that `create_steady_array` and the evaluator read in the same way (executable form of `ChangeOK`) -/
def changeOK? (lg : Bool) (c : Cell) : Bool :=
  !lg || (match c with
    | none => true
    | some x => decide (0 < x))

/-- executable (sufficient) check of the side conditions under which the evaluator's array at the guess `g` is the
steady array of the written-back variant (`GoodGuess` in `Props/C05.lean`): the guess has an entry per unknown,
entries of log-variables are positive, change unknowns are variables, block quantities held fixed by the plan have
usable assigned values, and the flat evaluator sits on a flat variant -/
def goodGuess? (loggable : Nat → Bool) (ev : Evaluator) (g : List Rat) : Bool :=
  decide (ev.wrtLevel.length + ev.wrtChange.length ≤ g.length)
  && (ev.wrtLevel.zip (ev.guessLevels g)).all (fun qx => !ev.logly qx.1 || decide (0 < qx.2))
  && (ev.wrtChange.zip (ev.guessChanges g)).all (fun qx => !ev.logly qx.1 || decide (0 < qx.2))
  && ev.wrtChange.all loggable
  && ev.wrtChange.all (fun q => ev.wrtLevel.contains q || (match ev.base.level q with
      | some l => !ev.logly q || decide (0 < l)
      | none => false))
  && (ev.flat || ev.wrtLevel.all (fun q => ev.wrtChange.contains q || changeOK? (ev.logly q) (ev.base.change q)))
  && (!ev.flat || ev.wrtChange.isEmpty)
  && (!ev.flat || (ev.wrtLevel ++ ev.wrtChange).all (fun q => changeOK? (ev.logly q) (ev.base.change q)
        && decide (Evaluator.fillChange (ev.logly q) (ev.base.change q) = (if ev.logly q then 1 else 0))))

/-- the acceptance step of `_steady_nonlinear` around an arbitrary iteration: an answer is taken only if it passes the
exit test (otherwise `success` is false and the block error is raised) -- here together with the certificate above -/
def certify (tol : Rat) (loggable : Nat → Bool) (s : Solver) : Solver := fun bid ev =>
  match s bid ev with
  | some g => if exitTest tol (ev.resid g) && goodGuess? loggable ev g then some g else none
  | none => none

def isOk : Except Err Variant → Bool
  | .ok _ => true
  | .error _ => false

/-! ### Steady autovalues: all right-hand sides are evaluated first, then assigned -/

def updateAutovalues (logly : Nat → Bool) (autos : List (Nat × Expr)) (v : Variant) : Variant :=
  let arr := steadyArray logly v
  { v with level := updMany v.level (autos.map (fun (q, e) => (q, e.eval arr 0))) }

/-! ### Which version of an equation the steady machinery uses; how the linear algorithm forms its constants -/

/-- a model equation `dynamic !! steady`; `steady = none` when no separate steady version is written -/
structure Equation where
  dynamic : Expr
  steady : Option Expr := none

/-- the steady-state version: the part after `!!` when present, else the only version. Both steady algorithms --
the block loop (`wrt.equations` = steady equation objects) and `_steady_linear` (`steady_descriptor`) -- work on it -/
def Equation.steadyVersion (e : Equation) : Expr := e.steady.getD e.dynamic

def steadyEquations (eqs : List Equation) : List Expr := eqs.map Equation.steadyVersion

/-- the point at which the first-order system of a linear model is expanded: parameters at their values,
every other quantity at zero (1 for a log-variable, i.e. log = 0) -- endogenous *and exogenous* variables alike,
which is the recorded finding `linear-steady-ignores-exogenous-variables` -/
def zeroPoint (isParam logly : Nat → Bool) (level : Nat → Cell) : SArray :=
  fun q _ => if isParam q then level q else some (if logly q then 1 else 0)

/-- the constant vector `C` (resp. `H`) of `A ξ_t + B ξ_{t-1} + C = 0`: the steady version of each equation
evaluated at the zero point -/
def linearConstants (isParam logly : Nat → Bool) (level : Nat → Cell) (eqs : List Equation) : List Cell :=
  (steadyEquations eqs).map (Expr.eval (zeroPoint isParam logly level) 0)

/-! ### Linear steady state from the unsolved system `A ξ_t + B ξ_{t-1} + C = 0`, `F y + G ξ + H = 0` -/

namespace Linear

/-- `solve_steady_linear_flat`: `ξ = (-(A+B)) \ C` -/
def solveFlat (A B C : QMat) : Option QMat := QMat.solveChecked (-(A + B)) C

/-- the stacked two-date matrix of `solve_steady_linear_nonflat` -/
def stackedAB (A B : QMat) (k : Rat) : QMat :=
  QMat.vstack (QMat.hstack (A + B) (QMat.smul (-1) B))
              (QMat.hstack (A + B) (QMat.smul k A + QMat.smul (k - 1) B))

/-- `solve_steady_linear_nonflat`: `(ξ, Δξ) = (-AB) \ (C; C)`, `k = 1` -/
def solveNonflat (A B C : QMat) : Option (QMat × QMat) :=
  match QMat.solveChecked (-(stackedAB A B 1)) (QMat.vstack C C) with
  | some x => some (QMat.block x 0 A.cols 0 1, QMat.block x A.cols (2 * A.cols) 0 1)
  | none => none

/-- measurement block: `y = (-F) \ (G ξ + H)` -/
def solveMeasurement (F G H xi : QMat) : Option QMat := QMat.solveChecked (-F) (G * xi + H)

/-- the measurement block of `solve_steady_linear_nonflat`: the stacked system `[[F, 0], [F, kF]] (y; Δy) =
-([[G, 0], [G, kG]] (ξ; Δξ) + (H; H))`, `k = 1`, is block-triangular; solved exactly it is the level solve
`F y = -(G ξ + H)` followed by `F Δy = -G Δξ` (second block row minus the first) -/
def solveMeasurementNonflat (F G H xi dxi : QMat) : Option (QMat × QMat) :=
  match solveMeasurement F G H xi, solveMeasurement F G (QMat.zero H.rows 1) dxi with
  | some y, some dy => some (y, dy)
  | _, _ => none

/-- residual of the transition system on the path `ξ + t Δξ` at date `t` -/
def residAt (A B C xi dxi : QMat) (t : Rat) : QMat :=
  A * (xi + QMat.smul t dxi) + B * (xi + QMat.smul (t - 1) dxi) + C

def measResidAt (F G H xi dxi y dy : QMat) (t : Rat) : QMat :=
  F * (y + QMat.smul t dy) + G * (xi + QMat.smul t dxi) + H

end Linear

end IrisVerif.Steady
