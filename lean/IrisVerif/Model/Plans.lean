/-
Executable model for property C07 (simulation plans; conditional simulation).  No Mathlib.

Part 1  plan registers of `plans/simulation_plans.py` / `plans/_registers.py`: four name x period
        tables of statuses (`None` = never written, `True`, `False`), `_write_to_register`,
        `get_register_as_bool_array`, `is_empty`, `any_endogenized_anticipated_except_start`.
Part 2  stacked time: `_get_wrt_spots` / `_copy_exogenized_data_to_frame_data` of
        `stacked_time/simulators.py` as set algebra on cells `(qid, column)`.
Part 3  first order: `fords/simulators.py: _simulate_conditional` at the level of its linear algebra,
        over exact rationals: the solution recursion `xi_t = T xi_{t-1} + K + P u_t + sum_k R_k v_{t+k}`
        (`simulate_flat`, `_get_solution_expansion`, `_simulate_anticipated_shock_values`), the
        period systems of the conditioning filter (`_generate_period_system`, `_generate_Z`, `_generate_R`,
        `_adjust_initials`), `kalmans.predict` / `kalmans.smooth` / `one_step_back`, `_store_smooth`,
        and -- as the specification the theorems of `Props/C07.lean` relate it to -- the stacked
        impact formulation `x = x0 + M e` solved exactly.
-/
import IrisVerif.Model.QMat

namespace IrisVerif.Plans

/-! ## Part 1: plan registers -/

/-- status of one (name, period) cell of a register: `none` = the initial `None`, `some b` = written `b` -/
abbrev Status := Option Bool

/-- one register: for every name of its `can_be_*` list (in that order) one status per plan period -/
abbrev Register := List (List Status)

inductive Kind | exoAnt | endoAnt | exoUnant | endoUnant
  deriving DecidableEq, Repr

structure Plan where
  numPeriods : Nat
  exoAnt : Register
  endoAnt : Register
  exoUnant : Register
  endoUnant : Register
  deriving Repr

def Plan.empty (numPeriods nExo nEndo : Nat) : Plan :=
  let mk (n : Nat) : Register := List.replicate n (List.replicate numPeriods none)
  ⟨numPeriods, mk nExo, mk nEndo, mk nExo, mk nEndo⟩

def Plan.get (p : Plan) : Kind → Register
  | .exoAnt => p.exoAnt | .endoAnt => p.endoAnt | .exoUnant => p.exoUnant | .endoUnant => p.endoUnant

def Plan.set (p : Plan) (k : Kind) (r : Register) : Plan :=
  match k with
  | .exoAnt => { p with exoAnt := r } | .endoAnt => { p with endoAnt := r }
  | .exoUnant => { p with exoUnant := r } | .endoUnant => { p with endoUnant := r }

inductive PlanErr | badName | badPeriod
  deriving DecidableEq, Repr

/-- `_write_to_register`: names are row indices of the register (an index outside it is the
`IrisPieCritical` of `_validate_register_names`), periods are offsets from the plan start (an offset
outside `0 .. numPeriods-1` is the `IrisPieError` of `catch_invalid_periods`).  Names are validated first. -/
def Plan.write (p : Plan) (k : Kind) (periods : List Int) (names : List Nat) (status : Bool) :
    Except PlanErr Plan :=
  let reg := p.get k
  if names.any (fun n => reg.length ≤ n) then .error .badName
  else if periods.any (fun t => t < 0 || (p.numPeriods : Int) ≤ t) then .error .badPeriod
  else
    let cols := periods.map Int.toNat
    .ok <| p.set k <| reg.mapIdx fun i row =>
      if names.contains i then row.mapIdx (fun t s => if cols.contains t then some status else s) else row

/-- `get_register_as_bool_array(register, names=..., periods)`: periods are offsets from the plan start,
a period outside the plan span gives `False`; `None` and `False` both give `False`. -/
def boolArray (numPeriods : Nat) (reg : Register) (periods : List Int) : List (List Bool) :=
  reg.map fun row => periods.map fun t =>
    if t < 0 || (numPeriods : Int) ≤ t then false else (row.getD t.toNat none) == some true

def Plan.boolArray (p : Plan) (k : Kind) (periods : List Int) : List (List Bool) :=
  Plans.boolArray p.numPeriods (p.get k) periods

/-- `_is_active_status` -/
def isActive (s : Status) : Bool := s == some true

/-- `_has_points_in_register` over the four registers (the two legacy registers of `SimulationPlan`
are empty for a `Simultaneous` model) -/
def Plan.isEmpty (p : Plan) : Bool :=
  !([p.exoAnt, p.endoAnt, p.exoUnant, p.endoUnant].any fun reg => reg.any fun row => row.any isActive)

/-- `any_endogenized_anticipated_except_start` -/
def Plan.anyEndoAntExceptStart (p : Plan) : Bool :=
  p.endoAnt.any fun row => (row.drop 1).any isActive

/-! ## Part 2: stacked time, cells as `(qid, column)` -/

/-- a cell of the data array, ordered like the named tuple `Token(qid, shift)` -/
abbrev Spot := Nat × Nat

def spotLe (a b : Spot) : Bool := a.1 < b.1 || (a.1 == b.1 && a.2 ≤ b.2)

/-- `spots_from_register`: `tbl` is the boolean array at `periods_to_run`, `rowQids` the qids of its rows,
`cols` the columns to pair with the array's columns (all columns to run, or only the first) -/
def spotsFromRegister (tbl : List (List Bool)) (rowQids : List Nat) (cols : List Nat) : List Spot :=
  (rowQids.zip tbl).flatMap fun (q, row) =>
    (cols.zip row).filterMap fun (c, b) => if b then some (q, c) else none

/-- the default unknowns: every endogenous qid in every column to run -/
def allSpots (cols qids : List Nat) : List Spot :=
  cols.flatMap fun c => qids.map fun q => (q, c)

/-- set union of two duplicate-free lists -/
def unionSpots (a b : List Spot) : List Spot := a ++ b.filter (fun s => !a.contains s)

/-- `set(wrt_spots).difference(exogenized_spots).union(endogenized_spots)` -/
def swapSpots (all exo endo : List Spot) : List Spot :=
  unionSpots (all.filter (fun s => !exo.contains s)) endo

structure StackedSpots where
  wrt : List Spot          -- sorted, as the code returns them
  exogenized : List Spot   -- a set in the code: here duplicate-free, sorted for comparison
  deriving Repr

/-- `_get_wrt_spots` for a non-`None` plan.  `exoQids` / `endoQids` : qids of the rows of the exogenized /
endogenized registers (anticipated first, unanticipated second). -/
def getWrtSpots (cols : List Nat) (endogenousQids : List Nat)
    (exoAntTbl exoUnantTbl endoAntTbl endoUnantTbl : List (List Bool))
    (exoAntQids exoUnantQids endoAntQids endoUnantQids : List Nat) : StackedSpots :=
  let exo := unionSpots (spotsFromRegister exoAntTbl exoAntQids cols)
    (spotsFromRegister exoUnantTbl exoUnantQids (cols.take 1))
  let endo := unionSpots (spotsFromRegister endoAntTbl endoAntQids cols)
    (spotsFromRegister endoUnantTbl endoUnantQids (cols.take 1))
  ⟨(swapSpots (allSpots cols endogenousQids) exo endo).mergeSort spotLe, exo.mergeSort spotLe⟩

/-- `_copy_exogenized_data_to_frame_data`: cells in `exo` take the input value, all others stay -/
def copyExogenized (data input : Spot → Rat) (exo : List Spot) : Spot → Rat :=
  fun s => if exo.contains s then input s else data s

/-! ## Part 3: first-order conditional simulation over exact rationals -/

open QMat

def vzero (n : Nat) : QVec := (Array.range n).map fun _ => 0
def vadd (a b : QVec) : QVec := (Array.range a.size).map fun i => a.getD i 0 + b.getD i 0
def vsub (a b : QVec) : QVec := (Array.range a.size).map fun i => a.getD i 0 - b.getD i 0
def colOf (a : QMat) (j : Nat) : QVec := (Array.range a.rows).map fun i => a.get i j
/-- matrix whose columns are the given vectors (each of length `r`) -/
def ofCols (r : Nat) (cs : List QVec) : QMat := QMat.ofFn r cs.length fun i j => (cs.getD j #[]).getD i 0

/-- the first-order solution matrices used by the simulators (`Solution.T, K, P, X, J, Ru`) -/
structure Sol where
  T : QMat
  K : QVec
  P : QMat
  X : QMat
  J : QMat
  Ru : QMat
  deriving Repr

def Sol.numXi (s : Sol) : Nat := s.T.rows
def Sol.numU (s : Sol) : Nat := s.P.cols

/-- `_get_solution_expansion`: `R_0 = P`, `R_k = -X J^(k-1) Ru` -/
def Sol.R (s : Sol) : Nat → QMat
  | 0 => s.P
  | k + 1 => QMat.neg (s.X * QMat.pow s.J k * s.Ru)

/-- `_simulate_anticipated_shock_values` at column `t` of an `N`-column frame:
`sum_{s = t}^{N-1} R_{s-t} v[:, s]` (the code stops at the last non-zero column: the same sum) -/
def antImpact (s : Sol) (v : QMat) (N t : Nat) : QVec :=
  (List.range (N - t)).foldl (fun acc k => vadd acc ((s.R k).mulVec (colOf v (t + k)))) (vzero s.numXi)

/-- `zero_false_init_xi` -/
def zeroFalseInit (init : QVec) (trueInit : List Bool) : QVec :=
  init.mapIdx fun i x => if trueInit.getD i true then x else 0

/-- one step of `simulate_flat` -/
def simStep (s : Sol) (u v : QMat) (N t : Nat) (xi : QVec) : QVec :=
  vadd (vadd (vadd (s.T.mulVec xi) s.K) (s.P.mulVec (colOf u t))) (antImpact s v N t)

/-- `simulate_flat`: the states `xi_0 .. xi_{N-1}` (`u`, `v` are shocks x periods) -/
def simulate (s : Sol) (init : QVec) (u v : QMat) (N : Nat) : List QVec :=
  ((List.range N).foldl (fun (acc : List QVec × QVec) t =>
    let xi := simStep s u v N t acc.2
    (xi :: acc.1, xi)) ([], init)).1.reverse

/-- a cell (row, period) of a names x periods table -/
abbrev Cell := Nat × Nat

/-- cells of a boolean table in row-major order (numpy boolean-mask order) -/
def cellsRowMajor (tbl : List (List Bool)) : List Cell :=
  (tbl.zipIdx).flatMap fun (row, i) => (row.zipIdx).filterMap fun (b, t) => if b then some (i, t) else none

/-- cells of a boolean table period by period (the order in which `_generate_R` stacks its columns) -/
def cellsColMajor (tbl : List (List Bool)) (N : Nat) : List Cell :=
  (List.range N).flatMap fun t =>
    (tbl.zipIdx).filterMap fun (row, i) => if row.getD t false then some (i, t) else none

/-- `_generate_R(t, …)`: one column per endogenized anticipated cell `(i, s)`: `R_{s-t}[:, i]` for `s ≥ t`, zero before -/
def generateR (s : Sol) (vCells : List Cell) (t : Nat) : QMat :=
  ofCols s.numXi <| vCells.map fun (i, sp) => if sp < t then vzero s.numXi else colOf (s.R (sp - t)) i

/-- the inputs of one conditional simulation of one frame (`N` simulation columns) -/
structure CondInput where
  sol : Sol
  currIdx : List Nat           -- `curr_xi_indexes`: position in xi of each current-dated variable
  init : QVec                  -- xi at column first-1, false initials already zeroed
  N : Nat
  u0 : QMat                    -- unanticipated shocks, numU x N
  v0 : QMat                    -- anticipated shocks, numU x N
  stdU : QMat
  stdV : QMat
  exo : List (List Bool)       -- exogenized (anticipated or unanticipated) current-dated variables x periods
  target : QMat                -- their input values
  endoU : List (List Bool)
  endoV : List (List Bool)

structure CondOutput where
  xi : List QVec               -- xi_0 .. xi_{N-1}
  u : QMat
  v : QMat
  deriving Repr

def CondInput.exoCellsAt (c : CondInput) (t : Nat) : List Nat :=
  (c.exo.zipIdx).filterMap fun (row, i) => if row.getD t false then some i else none

/-- `_generate_Z`: selection rows of `Z_xi` for the cells exogenized at `t`, padded for the augmented state -/
def CondInput.Z (c : CondInput) (t nAug : Nat) : QMat :=
  let rows := c.exoCellsAt t
  QMat.ofFn rows.length (c.sol.numXi + nAug) fun r j => if c.currIdx.getD (rows.getD r 0) 0 = j then 1 else 0

/-- the period system and data of `_generate_period_system` / `_generate_period_data` -/
structure PeriodSys where
  T : QMat
  P : QMat
  K : QVec
  Z : QMat
  covU : QMat
  vImpact : QVec
  y : QVec
  u0 : QVec

def CondInput.periodSys (c : CondInput) (vCells : List Cell) (t : Nat) : PeriodSys :=
  let s := c.sol
  let n := s.numXi
  let na := vCells.length
  let R := generateR s vCells t
  let Taug := QMat.vstack (QMat.hstack s.T R) (QMat.hstack (QMat.zero na n) (QMat.identity na))
  let Paug := QMat.vstack s.P (QMat.zero na s.numU)
  let pad (x : QVec) : QVec := x ++ vzero na
  let sd : QVec := (Array.range s.numU).map fun i =>
    if (c.endoU.getD i []).getD t false then c.stdU.get i t * c.stdU.get i t else 0
  { T := Taug, P := Paug, K := pad s.K, Z := c.Z t na, covU := QMat.diag sd,
    vImpact := pad (antImpact s c.v0 c.N t),
    y := ((c.exoCellsAt t).map fun i => c.target.get i t).toArray,
    u0 := colOf c.u0 t }

/-- what `predict` caches for the smoother -/
structure Cached where
  a0 : QVec
  Q0 : QMat
  Z : QMat
  Fi : QMat
  ZtFi : QMat
  pe : QVec
  PcovU : QMat
  u0 : QVec
  numObs : Nat
  TGprev : QMat     -- `all_T_G_prev[t]` = T_{t+1} G_t   (filled in by the next period; unused in the last)
  L : QMat          -- `all_L[t]` = T_{t+1} - T_{t+1} G_t Z_t

instance : Inhabited Cached :=
  ⟨{ a0 := #[], Q0 := QMat.zero 0 0, Z := QMat.zero 0 0, Fi := QMat.zero 0 0, ZtFi := QMat.zero 0 0, pe := #[],
     PcovU := QMat.zero 0 0, u0 := #[], numObs := 0, TGprev := QMat.zero 0 0, L := QMat.zero 0 0 }⟩

def symmetrize (a : QMat) : QMat := QMat.smul (1/2) (a + a.transpose)

inductive CondErr | singular
  deriving DecidableEq, Repr

/-- `kalmans.predict` with `store_smooth`: returns the cache, period by period -/
def predict (sys : List PeriodSys) (a1 : QVec) (Q1 : QMat) : Except CondErr (List Cached) := do
  let mut out : Array Cached := #[]
  let mut a1 := a1
  let mut Q1 := Q1
  let mut Gprev : QMat := QMat.zero 0 0
  let mut Zprev : QMat := QMat.zero 0 0
  let mut t := 0
  for ps in sys do
    if t > 0 then
      let TG := ps.T * Gprev
      let prev := out.getD (t - 1) default
      out := out.setIfInBounds (t - 1) { prev with TGprev := TG, L := ps.T - TG * Zprev }
    let PcovU := ps.P * ps.covU
    let Q0 := symmetrize (ps.T * Q1 * ps.T.transpose + PcovU * ps.P.transpose)
    let nObs := ps.y.size
    let F := symmetrize (ps.Z * Q0 * ps.Z.transpose)
    let Fi ← match QMat.inverse F with
      | some x => pure (symmetrize x)
      | none => throw CondErr.singular
    let a0 := vadd (vadd (vadd (ps.T.mulVec a1) ps.K) (ps.P.mulVec ps.u0)) ps.vImpact
    let y0 := ps.Z.mulVec a0
    let ZtFi := ps.Z.transpose * Fi
    let G := Q0 * ZtFi
    let Q1' := symmetrize (Q0 - G * ps.Z * Q0)
    let pe := vsub ps.y y0
    let a1' := vadd a0 (G.mulVec pe)
    out := out.push { a0 := a0, Q0 := Q0, Z := ps.Z, Fi := Fi, ZtFi := ZtFi, pe := pe, PcovU := PcovU,
                      u0 := ps.u0, numObs := nObs, TGprev := QMat.zero 0 0, L := QMat.zero 0 0 }
    a1 := a1'; Q1 := Q1'; Gprev := G; Zprev := ps.Z; t := t + 1
  return out.toList

/-- `one_step_back` restricted to what `_store_smooth` uses: smoothed state and unanticipated shocks.
`r = none` is the code's `r is None`. -/
def oneStepBack (c : Cached) (beyondLastObs : Bool) (r : Option QVec) : QVec × QVec × Option QVec :=
  if beyondLastObs then (c.a0, c.u0, r)
  else
    let ZtFiPe := c.ZtFi.mulVec c.pe
    let r' := match r with
      | none => ZtFiPe
      | some r => vadd ZtFiPe (c.L.transpose.mulVec r)
    (vadd c.a0 (c.Q0.mulVec r'), vadd c.u0 (c.PcovU.transpose.mulVec r'), some r')

/-- `kalmans.smooth`: backwards over the cache; returns (a2_t, u2_t) for t = 0 .. N-1 -/
def smooth (cache : List Cached) : List (QVec × QVec) :=
  let lastObs : Option Nat := (cache.zipIdx.filter (fun (c, _) => c.numObs > 0)).getLast?.map (·.2)
  let step (acc : List (QVec × QVec) × Option QVec) (ct : Cached × Nat) :=
    let beyond := match lastObs with | none => true | some l => l < ct.2
    let (a2, u2, r') := oneStepBack ct.1 beyond acc.2
    ((a2, u2) :: acc.1, r')
  (cache.zipIdx.reverse.foldl step ([], none)).1

/-- which order of the endogenized anticipated cells the state augmentation uses when it writes the
estimated values back (`_store_smooth.update_v_endogenized`) and reads their std (`std_v_array[incidence_v]`).
`_generate_R` stacks period by period; the write-back must use the same order. -/
inductive VOrder | colMajor | rowMajor
  deriving DecidableEq, Repr

/-- `_simulate_conditional` + `_store_smooth` for one frame -/
def condSimulate (c : CondInput) (storeOrder : VOrder := .colMajor) : Except CondErr CondOutput := do
  let s := c.sol
  let n := s.numXi
  let genCells := cellsColMajor c.endoV c.N
  let storeCells := match storeOrder with | .colMajor => genCells | .rowMajor => cellsRowMajor c.endoV
  let na := genCells.length
  -- `_adjust_initials`
  let a1 : QVec := c.init ++ vzero na
  let sdv : QVec := (storeCells.map fun (i, t) => c.stdV.get i t * c.stdV.get i t).toArray
  let Q1 := QMat.ofFn (n + na) (n + na) fun i j => if i = j ∧ n ≤ i then sdv.getD (i - n) 0 else 0
  let sys := (List.range c.N).map (c.periodSys genCells)
  let cache ← predict sys a1 Q1
  let sm := smooth cache
  let xi := sm.map fun (a2, _) => a2.extract 0 n
  let u := ofCols s.numU (sm.map (·.2))
  -- the endogenized anticipated values are read off the augmented state of the last period
  let vEnd : QVec := match sm.getLast? with | some (a2, _) => a2.extract n (n + na) | none => #[]
  let v := QMat.ofFn c.v0.rows c.v0.cols fun i t =>
    c.v0.get i t + (match storeCells.idxOf? (i, t) with | some k => vEnd.getD k 0 | none => 0)
  return { xi := xi, u := u, v := v }

/-! ### The stacked impact formulation (specification) -/

/-- values of the exogenized cells (period-major) along a simulated path -/
def selectExo (c : CondInput) (xi : List QVec) : QVec :=
  ((List.range c.N).flatMap fun t =>
    (c.exoCellsAt t).map fun i => (xi.getD t #[]).getD (c.currIdx.getD i 0) 0).toArray

def targetVec (c : CondInput) : QVec :=
  ((List.range c.N).flatMap fun t => (c.exoCellsAt t).map fun i => c.target.get i t).toArray

/-- shocks with `e` added to the endogenized cells: unanticipated cells first (period-major), then anticipated -/
def applyInstruments (c : CondInput) (e : QVec) : QMat × QMat :=
  let uc := cellsColMajor c.endoU c.N
  let vc := cellsColMajor c.endoV c.N
  let u := QMat.ofFn c.u0.rows c.u0.cols fun i t =>
    c.u0.get i t + (match uc.idxOf? (i, t) with | some k => e.getD k 0 | none => 0)
  let v := QMat.ofFn c.v0.rows c.v0.cols fun i t =>
    c.v0.get i t + (match vc.idxOf? (i, t) with | some k => e.getD (uc.length + k) 0 | none => 0)
  (u, v)

def numInstruments (c : CondInput) : Nat := (cellsColMajor c.endoU c.N).length + (cellsColMajor c.endoV c.N).length

def unitVec (n k : Nat) : QVec := (Array.range n).map fun i => if i = k then 1 else 0

/-- `x0` and the impact matrix `M`: `selectExo (simulate (input + E e)) = x0 + M e` -/
def impact (c : CondInput) : QVec × QMat :=
  let x0 := selectExo c (simulate c.sol c.init c.u0 c.v0 c.N)
  let ni := numInstruments c
  let cols := (List.range ni).map fun k =>
    let (u, v) := applyInstruments c (unitVec ni k)
    vsub (selectExo c (simulate c.sol c.init u v c.N)) x0
  (x0, ofCols x0.size cols)

inductive StackedErr | notSquare | singular
  deriving DecidableEq, Repr

/-- solve `M e = target - x0` exactly and simulate with the solved instruments -/
def stackedSolve (c : CondInput) : Except StackedErr (CondOutput × QMat) :=
  let (x0, M) := impact c
  if M.rows != M.cols then .error .notSquare else
  match QMat.solveChecked M (QMat.col (vsub (targetVec c) x0)) with
  | none => .error .singular
  | some e =>
    let (u, v) := applyInstruments c e.toVec
    .ok ({ xi := simulate c.sol c.init u v c.N, u := u, v := v }, M)

/-! ### exact checks of an output against the property (used by the driver on both solutions) -/

def veq (a b : QVec) : Bool := a.size == b.size && (Array.range a.size).all fun i => a.getD i 0 == b.getD i 0

/-- every exogenized cell equals its target -/
def hitsTargets (c : CondInput) (o : CondOutput) : Bool := veq (selectExo c o.xi) (targetVec c)

/-- shocks differ from the inputs only in endogenized cells -/
def onlyEndogenizedMoved (c : CondInput) (o : CondOutput) : Bool :=
  (List.range c.u0.rows).all fun i => (List.range c.N).all fun t =>
    ((c.endoU.getD i []).getD t false || o.u.get i t == c.u0.get i t) &&
    ((c.endoV.getD i []).getD t false || o.v.get i t == c.v0.get i t)

/-- the output states are the plain simulation of the output shocks from the same initial condition -/
def isSimulation (c : CondInput) (o : CondOutput) : Bool :=
  let xs := simulate c.sol c.init o.u o.v c.N
  xs.length == o.xi.length && (xs.zip o.xi).all fun (a, b) => veq a b

def sameOutput (a b : CondOutput) : Bool :=
  a.xi.length == b.xi.length && ((a.xi.zip b.xi).all fun (x, y) => veq x y) && QMat.eqv a.u b.u && QMat.eqv a.v b.v

end IrisVerif.Plans
