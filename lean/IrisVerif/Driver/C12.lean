/-
Line-protocol driver for the aggregate / disaggregate / arip model (property C12).

  agg  <F> <T> <start> <method> <discard 0|1> <select: - | e | i,j,…> <nv> <n> v…     (n*nv values, row major)
  dis  <F> <T> <start> <flat|first|middle|last> <nv> <n> v…
  rt   <F> <T> <start> <dmethod> <method> <nv> <n> v…        aggregate(disaggregate(s, T, dmethod), F, method)
  aripsys <kkt 0|1> <nLow> <nWithin> <rho> <const> sigma… agg… low… target…   ->  F | C   (QMat text)
  arip    <kkt 0|1> …same…                                                     ->  x_0 … x_{nHigh-1}
  aripmv  <kkt 0|1> variant | variant | …   (each variant as for arip)          ->  x… | x… | …
  xagg <method> <discard 0|1> v…  (v: nan | inf | -inf | num/den)   one within-period group over extended values
  aripform <form string> <aggregation string> <rho> <n> <w>   ->  form ; sigma… ; aggregation vector…
  opt  <discard_missing -|0|1> <remove_missing -|0|1> <method -|name> <F> <T> <start> <nv> <n> v…   keyword resolution

Series reply: `<freq> <start|none> <nrows> v…`; values are `nan` or `num/den`.
-/
import IrisVerif.Model.Conversions
import IrisVerif.Driver.Util

open IrisVerif IrisVerif.Dates IrisVerif.Conv IrisVerif.Driver

namespace IrisVerif.Driver.C12

def showVal : Val → String
  | none => "nan"
  | some q => showRat q

def parseVal? (s : String) : Option Val :=
  if s = "nan" then some none else (parseRat? s).map some

def showErr : Err → String
  | .mixedFreq => "err:mixed"
  | .badInput => "err:bad"
  | .noPeriod => "none"

def showSer (s : Ser) : String :=
  let vals := s.rows.flatMap (fun r => r.map showVal)
  " ".intercalate ([s.freq.letter, (if s.rows.isEmpty then "none" else toString s.start), toString s.rows.length] ++ vals)

def showR {α} (f : α → String) : R α → String
  | .ok a => f a
  | .error e => showErr e

def chunk {α} (k : Nat) (l : List α) : Nat → List (List α)
  | 0 => []
  | n + 1 => l.take k :: chunk k (l.drop k) n

def parseSer? (f : Freq) (start : Int) (nv n : Nat) (ws : List String) : Option Ser := do
  if ws.length ≠ n * nv then none
  let vals ← ws.mapM parseVal?
  pure ⟨f, nv, start, chunk nv vals n⟩

def parseSelect? (s : String) : Option (Option (List Int)) :=
  if s = "-" then some none
  else if s = "e" then some (some [])
  else ((s.splitOn ",").mapM String.toInt?).map some

def parseArip? (ws : List String) : Option AripIn := do
  match ws with
  | nLow :: nWithin :: rho :: const :: rest =>
    let nLow ← nLow.toNat?
    let nWithin ← nWithin.toNat?
    let rho ← parseRat? rho
    let const ← parseRat? const
    let nHigh := nLow * nWithin
    if rest.length ≠ nHigh + nWithin + nLow + nHigh then none
    let sigma ← (rest.take nHigh).mapM parseRat?
    let rest := rest.drop nHigh
    let agg ← (rest.take nWithin).mapM parseRat?
    let rest := rest.drop nWithin
    let low ← (rest.take nLow).mapM parseVal?
    let target ← (rest.drop nLow).mapM parseVal?
    pure ⟨nLow, nWithin, rho, const, sigma, agg, low, target⟩
  | _ => none

def step (line : String) : String :=
  match words line with
  | "agg" :: f :: t :: start :: m :: disc :: sel :: nv :: n :: vals =>
    match Freq.ofLetter? f, Freq.ofLetter? t, start.toInt?, Method.ofString? m, parseSelect? sel, nv.toNat?, n.toNat? with
    | some f, some t, some start, some m, some sel, some nv, some n =>
      (match parseSer? f start nv n vals with
        | some s => showR showSer (aggregate s t m (disc == "1") sel)
        | none => "bad-op")
    | _, _, _, _, _, _, _ => "bad-op"
  | "dis" :: f :: t :: start :: m :: nv :: n :: vals =>
    match Freq.ofLetter? f, Freq.ofLetter? t, start.toInt?, DMethod.ofString? m, nv.toNat?, n.toNat? with
    | some f, some t, some start, some m, some nv, some n =>
      (match parseSer? f start nv n vals with
        | some s => showR showSer (disaggregate s t m)
        | none => "bad-op")
    | _, _, _, _, _, _ => "bad-op"
  | "rt" :: f :: t :: start :: dm :: m :: nv :: n :: vals =>
    match Freq.ofLetter? f, Freq.ofLetter? t, start.toInt?, DMethod.ofString? dm, Method.ofString? m, nv.toNat?, n.toNat? with
    | some f, some t, some start, some dm, some m, some nv, some n =>
      (match parseSer? f start nv n vals with
        | some s => showR showSer (do let d ← disaggregate s t dm; aggregate d f m false none)
        | none => "bad-op")
    | _, _, _, _, _, _, _ => "bad-op"
  | "opt" :: dm :: rm :: meth :: f :: t :: start :: nv :: n :: vals =>
    let ob? : String → Option (Option Bool) := fun x => if x = "-" then some none else if x = "1" then some (some true) else if x = "0" then some (some false) else none
    let om? : String → Option (Option Method) := fun x => if x = "-" then some none else (Method.ofString? x).map some
    match ob? dm, ob? rm, om? meth, Freq.ofLetter? f, Freq.ofLetter? t, start.toInt?, nv.toNat?, n.toNat? with
    | some dm, some rm, some meth, some f, some t, some start, some nv, some n =>
      (match parseSer? f start nv n vals with
        | some s => showR showSer (aggregateOpts s t meth dm rm none)
        | none => "bad-op")
    | _, _, _, _, _, _, _, _ => "bad-op"
  | "aripmv" :: kkt :: rest =>
    -- variants separated by "|", each `<nLow> <nWithin> <rho> <const> sigma… agg… low… target…`; replies joined by " | "
    let parts := ((" ".intercalate rest).splitOn "|").map (fun p => words p)
    (match parts.mapM parseArip? with
      | some vs => " | ".intercalate ((aripSolveAll vs (kkt == "1")).map (showR (fun (x : List Rat) => " ".intercalate (x.map showRat))))
      | none => "bad-op")
  | "xagg" :: m :: disc :: vals =>
    let px : String → Option XVal := fun x =>
      if x = "nan" then some .nan else if x = "inf" then some .pinf else if x = "-inf" then some .ninf else (parseRat? x).map .fin
    let sx : XVal → String := fun x => match x with | .nan => "nan" | .pinf => "inf" | .ninf => "-inf" | .fin q => showRat q
    (match Method.ofString? m, vals.mapM px with
      | some m, some w => sx (xAggWithin (disc == "1") m w)
      | _, _ => "bad-op")
  | ["aripform", form, agg, rho, n, w] =>
    (match AripForm.ofString? form, parseRat? rho, n.toNat?, w.toNat? with
      | some f, some rho, some n, some w =>
        (match aripAggVector? agg w with
          | some av => toString (repr f) ++ " ; " ++ " ".intercalate ((f.sigma (f.rhoOf rho) n).map showRat) ++ " ; " ++ " ".intercalate (av.map showRat)
          | none => "err:bad")
      | none, _, _, _ => "err:bad"
      | _, _, _, _ => "bad-op")
  | "aripsys" :: kkt :: rest =>
    (match parseArip? rest with
      | some a => showR (fun (p : QMat × QMat) => p.1.toText ++ " | " ++ p.2.toText) (aripSystem a (kkt == "1"))
      | none => "bad-op")
  | "arip" :: kkt :: rest =>
    (match parseArip? rest with
      | some a => showR (fun (x : List Rat) => " ".intercalate (x.map showRat)) (aripSolve a (kkt == "1"))
      | none => "bad-op")
  | _ => "bad-op"

end IrisVerif.Driver.C12

def main : IO Unit := IrisVerif.Driver.runMain IrisVerif.Driver.C12.step
