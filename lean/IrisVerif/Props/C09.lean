/-
C09 — Periods behave as calendar-consistent integers and spans as their ranges.

Property theorems only (helper lemmas live in IrisVerif/Lemmas). Every theorem is about the
executable model in IrisVerif/Model/{Dates,Spans}.lean, which the correspondence check ties to
/repo/src/irispie/dates.py (and whose closed-form fragments are regenerated from that file).
-/
import IrisVerif.Model.Spans
import IrisVerif.Lemmas.Calendar
import IrisVerif.Lemmas.PyRange

set_option linter.unusedSimpArgs false

namespace IrisVerif.Dates.C09
open IrisVerif.Dates IrisVerif.Gen.Dates

/-! ## 1. Serial arithmetic, order, equality, hashing (all integers, all frequencies) -/

/-- `(p + n) - p == n` -/
theorem add_sub_cancel (p : Period) (n : Int) : (p.add n).subPeriod p = .ok n := by
  simp [Period.subPeriod, Period.add, checkPeriods, bind, Except.bind, pure, Except.pure]
  omega

/-- `p + (q - p) == q` within one frequency -/
theorem sub_add_cancel (p q : Period) (h : p.freq = q.freq) :
    ∃ d, q.subPeriod p = .ok d ∧ p.add d = q := by
  refine ⟨q.serial - p.serial, ?_, ?_⟩
  · simp [Period.subPeriod, checkPeriods, h, bind, Except.bind, pure, Except.pure]
  · cases p; cases q; simp_all [Period.add]; omega

/-- comparison operators are exactly the comparisons of the serials -/
theorem order_is_serial_order (p q : Period) (h : p.freq = q.freq) :
    p.lt q = .ok (decide (p.serial < q.serial)) ∧ p.le q = .ok (decide (p.serial ≤ q.serial)) ∧
    p.gt q = .ok (decide (p.serial > q.serial)) ∧ p.ge q = .ok (decide (p.serial ≥ q.serial)) ∧
    p.eq q = .ok (p.serial == q.serial) ∧ p.ne q = .ok (p.serial != q.serial) := by
  simp [Period.lt, Period.le, Period.gt, Period.ge, Period.eq, Period.ne, checkPeriods, h,
    bind, Except.bind, pure, Except.pure]

/-- the order is total and strict: exactly one of `<`, `==`, `>` holds -/
theorem order_trichotomy (p q : Period) (h : p.freq = q.freq) :
    (p.lt q = .ok true ∧ p.eq q = .ok false ∧ p.gt q = .ok false) ∨
    (p.lt q = .ok false ∧ p.eq q = .ok true ∧ p.gt q = .ok false) ∨
    (p.lt q = .ok false ∧ p.eq q = .ok false ∧ p.gt q = .ok true) := by
  obtain ⟨h1, _, h3, _, h5, _⟩ := order_is_serial_order p q h
  rw [h1, h3, h5]
  rcases Int.lt_trichotomy p.serial q.serial with h | h | h
  · left; simp; omega
  · right; left; simp; omega
  · right; right; simp; omega

/-- `==` agrees with structural identity of (frequency, serial) -/
theorem eq_true_iff (p q : Period) (h : p.freq = q.freq) : p.eq q = .ok true ↔ p = q := by
  cases p; cases q
  simp_all [Period.eq, checkPeriods, bind, Except.bind, pure, Except.pure]

theorem freq_value_injective (f g : Freq) (h : f.value = g.value) : f = g := by
  cases f <;> cases g <;> simp_all [Freq.value, freqInteger, freqYearly, freqHalfyearly,
    freqQuarterly, freqMonthly, freqDaily]

/-- hashing agrees with equality: equal periods have equal hash keys and distinct ones distinct keys -/
theorem hashKey_eq_iff (p q : Period) : p.hashKey = q.hashKey ↔ p = q := by
  constructor
  · intro h
    cases p; cases q
    simp only [Period.hashKey, Prod.mk.injEq] at h
    obtain ⟨h1, h2⟩ := h
    simp [h1, freq_value_injective _ _ h2]
  · intro h; rw [h]

/-- mixing frequencies is rejected by every binary operation (including `==` and `!=`) -/
theorem mixed_frequencies_rejected (p q : Period) (h : p.freq ≠ q.freq) :
    p.subPeriod q = .error .mixedFreq ∧ p.eq q = .error .mixedFreq ∧ p.ne q = .error .mixedFreq ∧
    p.lt q = .error .mixedFreq ∧ p.le q = .error .mixedFreq ∧ p.gt q = .error .mixedFreq ∧
    p.ge q = .error .mixedFreq ∧
    (∀ step, Span.make (some (.res p)) (some (.res q)) step = .error .mixedFreq) ∧
    (∀ step, periodsFromUntil p q step = .error .mixedFreq) := by
  simp [Period.subPeriod, Period.lt, Period.le, Period.gt, Period.ge, Period.eq, Period.ne,
    checkPeriods, h, bind, Except.bind, Span.make, periodsFromUntil, throw, throwThe,
    MonadExceptOf.throw]

/-! ## 2. Year/segment decomposition -/

def regularFreqs : List Freq := [.Y, .H, .Q, .M]

theorem regular_value_pos (f : Freq) (hf : f ∈ regularFreqs) : 0 < f.value := by
  simp [regularFreqs] at hf
  rcases hf with h | h | h | h <;> subst h <;> simp [Freq.value, freqYearly, freqHalfyearly, freqQuarterly, freqMonthly]

/-- `(year, segment) → period → (year, segment)` for every regular frequency -/
theorem toYearSegment_fromYearSegment (f : Freq) (hf : f ∈ regularFreqs) (y seg : Int)
    (h1 : 1 ≤ seg) (h2 : seg ≤ f.value) :
    toYearSegment (fromYearSegment f y seg) = .ok (y, seg) := by
  have hpos := regular_value_pos f hf
  simp [regularFreqs] at hf
  rcases hf with h | h | h | h <;> subst h <;>
    simp only [fromYearSegment, toYearSegment, toYearSegmentYear, toYearSegmentSeg, serialFromYsf,
      Freq.value, freqYearly, freqHalfyearly, freqQuarterly, freqMonthly, pure, Except.pure] at * <;>
    (rw [Int.fdiv_eq_ediv_of_nonneg _ (by omega), Int.fmod_eq_emod_of_nonneg _ (by omega)]
     congr 2 <;> omega)

/-- `period → (year, segment) → period`, and the segment is always inside `1 … f` -/
theorem fromYearSegment_toYearSegment (p : Period) (hf : p.freq ∈ regularFreqs) :
    ∃ y seg, toYearSegment p = .ok (y, seg) ∧ 1 ≤ seg ∧ seg ≤ p.freq.value ∧
      fromYearSegment p.freq y seg = p := by
  obtain ⟨f, s⟩ := p
  simp [regularFreqs] at hf
  rcases hf with h | h | h | h <;> subst h <;>
    simp only [fromYearSegment, toYearSegment, toYearSegmentYear, toYearSegmentSeg, serialFromYsf,
      Freq.value, freqYearly, freqHalfyearly, freqQuarterly, freqMonthly, pure, Except.pure] <;>
    (rw [Int.fdiv_eq_ediv_of_nonneg _ (by omega), Int.fmod_eq_emod_of_nonneg _ (by omega)]
     refine ⟨_, _, rfl, ?_, ?_, ?_⟩ <;> first | omega | (congr 1; omega))

/-! ## 3. The civil calendar: ordinal ↔ (year, month, day) is a bijection onto valid dates -/

theorem ord2ymd_ymd2ord (y m d : Int) (h : ValidYmd y m d) : ord2ymd (ymd2ord y m d) = (y, m, d) := by
  have hb := doy_le_yearLen y m d h
  have hy : yearOf (ymd2ord y m d) = y := by
    apply yearOf_unique
    · unfold ymd2ord; omega
    · rw [dby_succ]; unfold ymd2ord; omega
  unfold ord2ymd
  simp only [hy]
  have e : ymd2ord y m d - dby y = dbm y m + d := by unfold ymd2ord; omega
  rw [e, monthOf_of_valid y m d h]
  congr 2; omega

theorem ord2ymd_valid (n : Int) : ValidYmd (ord2ymd n).1 (ord2ymd n).2.1 (ord2ymd n).2.2 := by
  have hs := yearOf_spec n
  rw [dby_succ] at hs
  simp only [ord2ymd]
  exact monthOf_valid _ _ (by omega) (by omega)

theorem ymd2ord_ord2ymd (n : Int) : ymd2ord (ord2ymd n).1 (ord2ymd n).2.1 (ord2ymd n).2.2 = n := by
  simp only [ord2ymd, ymd2ord]
  omega

/-- distinct valid dates have distinct ordinals, and the order of ordinals is the calendar order of years -/
theorem ymd2ord_injective (y m d y' m' d' : Int) (h : ValidYmd y m d) (h' : ValidYmd y' m' d')
    (e : ymd2ord y m d = ymd2ord y' m' d') : (y, m, d) = (y', m', d') := by
  rw [← ord2ymd_ymd2ord y m d h, ← ord2ymd_ymd2ord y' m' d' h', e]

/-! ## 4. Tiling: consecutive periods partition the day line; start ≤ middle ≤ end -/

/-- the first/middle/last day of a regular period as ordinals -/
def dayOrd (p : Period) (pos : Pos) : R Int := do
  let (y, m, d) ← toYmd p pos
  pure (ymd2ord y m d)


theorem tiling_Y (s : Int) :
    ∃ a b, dayOrd ⟨.Y, s⟩ .end_ = .ok a ∧ dayOrd ⟨.Y, s + 1⟩ .start = .ok b ∧ b = a + 1 := by
  have hy := dby_succ s
  cases hl : isLeap s <;>
  simp [dayOrd, toYmd, toYearSegment, toYearSegmentYear, toYearSegmentSeg, Freq.value, freqYearly,
    Int.fdiv_eq_ediv_of_nonneg, Int.fmod_eq_emod_of_nonneg, mdrTable, mdrY_end, mdrY_start, lookupSeg,
    bind, Except.bind, pure, Except.pure, ymd2ord, dbm, daysInMonth, hl, yearLen] at hy ⊢ <;> omega

theorem tiling_H (s : Int) :
    ∃ a b, dayOrd ⟨.H, s⟩ .end_ = .ok a ∧ dayOrd ⟨.H, s + 1⟩ .start = .ok b ∧ b = a + 1 := by
  have hr : s % 2 = 0 ∨ s % 2 = 1 := by omega
  have hy := dby_succ (s / 2)
  rcases hr with h | h <;>
  (have e1 : (s + 1) % 2 = (s % 2 + 1) % 2 := by omega
   have e2 : (s + 1) / 2 = s / 2 + (if s % 2 = 1 then 1 else 0) := by split <;> omega
   cases hl : isLeap (s / 2) <;>
   simp [dayOrd, toYmd, toYearSegment, toYearSegmentYear, toYearSegmentSeg, Freq.value, freqHalfyearly,
     Int.fdiv_eq_ediv_of_nonneg, Int.fmod_eq_emod_of_nonneg, mdrTable, mdrH_end, mdrH_start, lookupSeg,
     bind, Except.bind, pure, Except.pure, h, e1, e2, ymd2ord, dbm, daysInMonth, hl, yearLen] at hy ⊢ <;> omega)

theorem tiling_Q (s : Int) :
    ∃ a b, dayOrd ⟨.Q, s⟩ .end_ = .ok a ∧ dayOrd ⟨.Q, s + 1⟩ .start = .ok b ∧ b = a + 1 := by
  have hr : s % 4 = 0 ∨ s % 4 = 1 ∨ s % 4 = 2 ∨ s % 4 = 3 := by omega
  have hy := dby_succ (s / 4)
  rcases hr with h | h | h | h <;>
  (have e1 : (s + 1) % 4 = (s % 4 + 1) % 4 := by omega
   have e2 : (s + 1) / 4 = s / 4 + (if s % 4 = 3 then 1 else 0) := by split <;> omega
   cases hl : isLeap (s / 4) <;>
   simp [dayOrd, toYmd, toYearSegment, toYearSegmentYear, toYearSegmentSeg, Freq.value, freqQuarterly,
     Int.fdiv_eq_ediv_of_nonneg, Int.fmod_eq_emod_of_nonneg, mdrTable, mdrQ_end, mdrQ_start, lookupSeg,
     bind, Except.bind, pure, Except.pure, h, e1, e2, ymd2ord, dbm, daysInMonth, hl, yearLen] at hy ⊢ <;> omega)

theorem tiling_M (s : Int) :
    ∃ a b, dayOrd ⟨.M, s⟩ .end_ = .ok a ∧ dayOrd ⟨.M, s + 1⟩ .start = .ok b ∧ b = a + 1 := by
  have hr : s % 12 = 0 ∨ s % 12 = 1 ∨ s % 12 = 2 ∨ s % 12 = 3 ∨ s % 12 = 4 ∨ s % 12 = 5 ∨ s % 12 = 6 ∨
      s % 12 = 7 ∨ s % 12 = 8 ∨ s % 12 = 9 ∨ s % 12 = 10 ∨ s % 12 = 11 := by omega
  have hy := dby_succ (s / 12)
  rcases hr with h | h | h | h | h | h | h | h | h | h | h | h <;>
  (have e1 : (s + 1) % 12 = (s % 12 + 1) % 12 := by omega
   have e2 : (s + 1) / 12 = s / 12 + (if s % 12 = 11 then 1 else 0) := by split <;> omega
   cases hl : isLeap (s / 12) <;>
   simp [dayOrd, toYmd, toYearSegment, toYearSegmentYear, toYearSegmentSeg, Freq.value, freqMonthly,
     Int.fdiv_eq_ediv_of_nonneg, Int.fmod_eq_emod_of_nonneg, mdrTable, mdrM_end, mdrM_start, lookupSeg,
     bind, Except.bind, pure, Except.pure, h, e1, e2, ymd2ord, dbm, daysInMonth, hl, yearLen] at hy ⊢ <;> omega)

/-- **Tiling.** For every regular frequency and every serial, the first day of period `s+1` is the day
after the last day of period `s`: consecutive periods cover the day line without gap or overlap. -/
theorem consecutive_periods_tile (f : Freq) (hf : f ∈ regularFreqs) (s : Int) :
    ∃ a b, dayOrd ⟨f, s⟩ .end_ = .ok a ∧ dayOrd ⟨f, s + 1⟩ .start = .ok b ∧ b = a + 1 := by
  simp [regularFreqs] at hf
  rcases hf with h | h | h | h <;> subst h
  · exact tiling_Y s
  · exact tiling_H s
  · exact tiling_Q s
  · exact tiling_M s

/-- start ≤ middle ≤ end inside every regular period (that all three are valid calendar dates of the period's own year and
segment is `accessors_agree_with_dates` below). -/
theorem start_le_middle_le_end (f : Freq) (hf : f ∈ regularFreqs) (s : Int) :
    ∃ a m b, dayOrd ⟨f, s⟩ .start = .ok a ∧ dayOrd ⟨f, s⟩ .middle = .ok m ∧ dayOrd ⟨f, s⟩ .end_ = .ok b ∧
      a ≤ m ∧ m ≤ b := by
  simp [regularFreqs] at hf
  rcases hf with h | h | h | h <;> subst h
  · cases hl : isLeap s <;>
    simp [dayOrd, toYmd, toYearSegment, toYearSegmentYear, toYearSegmentSeg, Freq.value, freqYearly,
      Int.fdiv_eq_ediv_of_nonneg, Int.fmod_eq_emod_of_nonneg, mdrTable, mdrY_end, mdrY_start, mdrY_middle,
      lookupSeg, bind, Except.bind, pure, Except.pure, ymd2ord, dbm, daysInMonth, hl] <;> omega
  · have hr : s % 2 = 0 ∨ s % 2 = 1 := by omega
    rcases hr with h | h <;> cases hl : isLeap (s / 2) <;>
    simp [dayOrd, toYmd, toYearSegment, toYearSegmentYear, toYearSegmentSeg, Freq.value, freqHalfyearly,
      Int.fdiv_eq_ediv_of_nonneg, Int.fmod_eq_emod_of_nonneg, mdrTable, mdrH_end, mdrH_start, mdrH_middle,
      lookupSeg, bind, Except.bind, pure, Except.pure, h, ymd2ord, dbm, daysInMonth, hl] <;> omega
  · have hr : s % 4 = 0 ∨ s % 4 = 1 ∨ s % 4 = 2 ∨ s % 4 = 3 := by omega
    rcases hr with h | h | h | h <;> cases hl : isLeap (s / 4) <;>
    simp [dayOrd, toYmd, toYearSegment, toYearSegmentYear, toYearSegmentSeg, Freq.value, freqQuarterly,
      Int.fdiv_eq_ediv_of_nonneg, Int.fmod_eq_emod_of_nonneg, mdrTable, mdrQ_end, mdrQ_start, mdrQ_middle,
      lookupSeg, bind, Except.bind, pure, Except.pure, h, ymd2ord, dbm, daysInMonth, hl] <;> omega
  · have hr : s % 12 = 0 ∨ s % 12 = 1 ∨ s % 12 = 2 ∨ s % 12 = 3 ∨ s % 12 = 4 ∨ s % 12 = 5 ∨ s % 12 = 6 ∨
        s % 12 = 7 ∨ s % 12 = 8 ∨ s % 12 = 9 ∨ s % 12 = 10 ∨ s % 12 = 11 := by omega
    rcases hr with h | h | h | h | h | h | h | h | h | h | h | h <;> cases hl : isLeap (s / 12) <;>
    simp [dayOrd, toYmd, toYearSegment, toYearSegmentYear, toYearSegmentSeg, Freq.value, freqMonthly,
      Int.fdiv_eq_ediv_of_nonneg, Int.fmod_eq_emod_of_nonneg, mdrTable, mdrM_end, mdrM_start, mdrM_middle,
      lookupSeg, bind, Except.bind, pure, Except.pure, h, ymd2ord, dbm, daysInMonth, hl] <;> omega

/-- the date a period resolves to is a valid calendar date in the period's own year and segment (match form) -/
def AccessorsAgree (p : Period) (pos : Pos) : Prop :=
  match toYmd p pos with
  | .ok (y, m, d) => ValidYmd y m d ∧ toYearSegment p = .ok (y, monthToSegment p.freq m)
  | .error _ => False

/-- **Accessors agree with the calendar dates.** For every regular period and every position, the date the period resolves to
is a valid calendar date whose year is the period's `year` and whose month lies in the period's `segment`. -/
theorem accessors_agree_with_dates (f : Freq) (hf : f ∈ regularFreqs) (s : Int) (pos : Pos) : AccessorsAgree ⟨f, s⟩ pos := by
  simp [regularFreqs] at hf
  rcases hf with h | h | h | h <;> subst h
  · cases pos <;> cases hl : isLeap s <;>
    simp [AccessorsAgree, toYmd, toYearSegment, toYearSegmentYear, toYearSegmentSeg, Freq.value, freqYearly, monthToSegment, monthToSegmentY,
      Int.fdiv_eq_ediv_of_nonneg, Int.fmod_eq_emod_of_nonneg, mdrTable, mdrY_end, mdrY_start, mdrY_middle,
      lookupSeg, bind, Except.bind, pure, Except.pure, ValidYmd, daysInMonth, hl]
  · have hr : s % 2 = 0 ∨ s % 2 = 1 := by omega
    rcases hr with h | h <;> cases pos <;> cases hl : isLeap (s / 2) <;>
    simp [AccessorsAgree, toYmd, toYearSegment, toYearSegmentYear, toYearSegmentSeg, Freq.value, freqHalfyearly, monthToSegment, monthToSegmentH,
      Int.fdiv_eq_ediv_of_nonneg, Int.fmod_eq_emod_of_nonneg, mdrTable, mdrH_end, mdrH_start, mdrH_middle,
      lookupSeg, bind, Except.bind, pure, Except.pure, h, ValidYmd, daysInMonth, hl] <;> omega
  · have hr : s % 4 = 0 ∨ s % 4 = 1 ∨ s % 4 = 2 ∨ s % 4 = 3 := by omega
    rcases hr with h | h | h | h <;> cases pos <;> cases hl : isLeap (s / 4) <;>
    simp [AccessorsAgree, toYmd, toYearSegment, toYearSegmentYear, toYearSegmentSeg, Freq.value, freqQuarterly, monthToSegment, monthToSegmentQ,
      Int.fdiv_eq_ediv_of_nonneg, Int.fmod_eq_emod_of_nonneg, mdrTable, mdrQ_end, mdrQ_start, mdrQ_middle,
      lookupSeg, bind, Except.bind, pure, Except.pure, h, ValidYmd, daysInMonth, hl] <;> omega
  · have hr : s % 12 = 0 ∨ s % 12 = 1 ∨ s % 12 = 2 ∨ s % 12 = 3 ∨ s % 12 = 4 ∨ s % 12 = 5 ∨ s % 12 = 6 ∨
        s % 12 = 7 ∨ s % 12 = 8 ∨ s % 12 = 9 ∨ s % 12 = 10 ∨ s % 12 = 11 := by omega
    rcases hr with h | h | h | h | h | h | h | h | h | h | h | h <;> cases pos <;> cases hl : isLeap (s / 12) <;>
    simp [AccessorsAgree, toYmd, toYearSegment, toYearSegmentYear, toYearSegmentSeg, Freq.value, freqMonthly, monthToSegment, monthToSegmentM,
      Int.fdiv_eq_ediv_of_nonneg, Int.fmod_eq_emod_of_nonneg, mdrTable, mdrM_end, mdrM_start, mdrM_middle,
      lookupSeg, bind, Except.bind, pure, Except.pure, h, ValidYmd, daysInMonth, hl] <;> omega

/-- the match form unfolds to the existential reading -/
theorem AccessorsAgree.exists {p : Period} {pos : Pos} (h : AccessorsAgree p pos) :
    ∃ y m d, toYmd p pos = .ok (y, m, d) ∧ ValidYmd y m d ∧ toYearSegment p = .ok (y, monthToSegment p.freq m) := by
  unfold AccessorsAgree at h
  split at h
  · rename_i y m d heq; exact ⟨y, m, d, heq, h.1, h.2⟩
  · exact absurd h id

example : AccessorsAgree ⟨.M, 24241⟩ .end_ := accessors_agree_with_dates .M (by simp [regularFreqs]) 24241 .end_

/-- daily periods: `(year, segment)` is the calendar year of the ordinal and the 1-based day of that year -/
theorem daily_year_segment (n : Int) :
    ∃ y seg, toYearSegment ⟨.D, n⟩ = .ok (y, seg) ∧ (ord2ymd n).1 = y ∧ 1 ≤ seg ∧ seg ≤ yearLen y ∧
      fromYearSegment .D y seg = ⟨.D, n⟩ := by
  have hs := yearOf_spec n
  rw [dby_succ] at hs
  refine ⟨yearOf n, n - ymd2ord (yearOf n) 1 1 + 1, rfl, rfl, ?_, ?_, ?_⟩
  · simp [ymd2ord, dbm]; omega
  · simp [ymd2ord, dbm]; omega
  · simp [fromYearSegment]; omega

/-! ## 5. Shift keywords land on the documented period -/

/-- `yoy`: same segment, previous year (regular frequencies); always `p - frequency.value` -/
theorem shift_yoy (p : Period) : p.shift .yoy = .ok (p.add (-(p.freq.value))) := rfl

theorem shift_yoy_regular (f : Freq) (hf : f ∈ regularFreqs) (s : Int) :
    ∃ y seg, toYearSegment ⟨f, s⟩ = .ok (y, seg) ∧
      toYearSegment ((⟨f, s⟩ : Period).add (-(f.value))) = .ok (y - 1, seg) := by
  simp [regularFreqs] at hf
  rcases hf with h | h | h | h <;> subst h <;>
    simp [toYearSegment, toYearSegmentYear, toYearSegmentSeg, Period.add, Freq.value, freqYearly,
      freqHalfyearly, freqQuarterly, freqMonthly, Int.fdiv_eq_ediv_of_nonneg, Int.fmod_eq_emod_of_nonneg,
      pure, Except.pure] <;> omega

/-- `soy`/`boy`: segment 1 of the same year, never later than `p` -/
theorem shift_soy_regular (f : Freq) (hf : f ∈ regularFreqs) (s : Int) :
    ∃ y seg q, toYearSegment ⟨f, s⟩ = .ok (y, seg) ∧ (⟨f, s⟩ : Period).shift .soy = .ok q ∧
      toYearSegment q = .ok (y, 1) ∧ q.freq = f ∧ q.serial = s - (seg - 1) := by
  simp [regularFreqs] at hf
  rcases hf with h | h | h | h <;> subst h <;>
    refine ⟨_, _, _, rfl, rfl, ?_, rfl, ?_⟩ <;>
    simp [fromYearSegment, serialFromYsf, toYearSegment, toYearSegmentYear,
      toYearSegmentSeg, Freq.value, freqYearly, freqHalfyearly, freqQuarterly, freqMonthly,
      Int.fdiv_eq_ediv_of_nonneg, Int.fmod_eq_emod_of_nonneg, pure, Except.pure] <;> omega

/-- `eopy`: last segment of the previous year = the period just before `soy` -/
theorem shift_eopy_regular (f : Freq) (hf : f ∈ regularFreqs) (s : Int) :
    ∃ y seg q, toYearSegment ⟨f, s⟩ = .ok (y, seg) ∧ (⟨f, s⟩ : Period).shift .eopy = .ok q ∧
      toYearSegment q = .ok (y - 1, f.value) ∧ q.freq = f ∧ q.serial = s - seg := by
  simp [regularFreqs] at hf
  rcases hf with h | h | h | h <;> subst h <;>
    refine ⟨_, _, _, rfl, rfl, ?_, rfl, ?_⟩ <;>
    simp [fromYearSegment, serialFromYsf, toYearSegment, toYearSegmentYear,
      toYearSegmentSeg, Freq.value, freqYearly, freqHalfyearly, freqQuarterly, freqMonthly,
      Int.fdiv_eq_ediv_of_nonneg, Int.fmod_eq_emod_of_nonneg, pure, Except.pure] <;> omega

/-- `tty`: the previous period while it stays in the same year, no period at segment 1 -/
theorem shift_tty (p : Period) (y seg : Int) (h : toYearSegment p = .ok (y, seg)) :
    p.shift .tty = if seg > 1 then .ok (p.add (-1)) else .error .noPeriod := by
  simp [Period.shift, createTty, h, bind, Except.bind]
  split <;> rfl

/-- daily `soy` is January 1st and `eopy` is December 31st of the previous year (= the day before `soy`) -/
theorem shift_daily (n : Int) :
    (⟨.D, n⟩ : Period).shift .soy = .ok ⟨.D, ymd2ord (yearOf n) 1 1⟩ ∧
    (⟨.D, n⟩ : Period).shift .eopy = .ok ⟨.D, ymd2ord (yearOf n - 1) 12 31⟩ ∧
    ymd2ord (yearOf n - 1) 12 31 + 1 = ymd2ord (yearOf n) 1 1 ∧
    ymd2ord (yearOf n) 1 1 ≤ n := by
  have hs := yearOf_spec n
  have hy := dby_succ (yearOf n - 1)
  have hd := dbm_dec (yearOf n - 1)
  have e : yearOf n - 1 + 1 = yearOf n := by omega
  rw [e] at hy
  refine ⟨?_, ?_, ?_, ?_⟩
  · simp [Period.shift, createSoy, toYearSegment, fromYearSegment, bind, Except.bind, pure, Except.pure]
  · simp [Period.shift, createEopy, toYearSegment, bind, Except.bind, pure, Except.pure]
  · simp [ymd2ord, dbm_one] ; simp [daysInMonth] at hd; omega
  · simp [ymd2ord, dbm_one]; omega

/-- an integer shift is plain serial arithmetic -/
theorem shift_int (p : Period) (k : Int) : p.shift (.by_ k) = .ok (p.add k) := rfl

/-! ## 6. Spans enumerate `start, start+step, …` up to `end`; len / index / iter / reverse / shift agree -/

/-- **Enumeration.** A resolved span with non-zero step contains exactly the serials
`start + i·step` (`i = 0, 1, …`) that do not pass `end` in the direction of the step. -/
theorem span_enumerates (f : Freq) (a b step x : Int) (hs : step ≠ 0) :
    ∃ l, (⟨.res ⟨f, a⟩, .res ⟨f, b⟩, step⟩ : Span).serials = .ok (some l) ∧
      (x ∈ l ↔ ∃ i : Nat, x = a + (i : Int) * step ∧ (0 < step → x ≤ b) ∧ (step < 0 → b ≤ x)) := by
  refine ⟨_, by simp [Span.serials, hs]; rfl, ?_⟩
  rw [mem_pyRange _ _ _ _ hs]
  constructor
  · rintro ⟨i, rfl, h1, h2⟩
    refine ⟨i, rfl, fun h => ?_, fun h => ?_⟩
    · have := h1 h; simp [sign, h] at this; omega
    · have := h2 h
      have hn : ¬ (step > 0) := by omega
      have hz : step ≠ 0 := by omega
      simp [sign, hn, hz] at this; omega
  · rintro ⟨i, rfl, h1, h2⟩
    refine ⟨i, rfl, fun h => ?_, fun h => ?_⟩
    · have := h1 h; simp [sign, h]; omega
    · have := h2 h
      have hn : ¬ (step > 0) := by omega
      have hz : step ≠ 0 := by omega
      simp [sign, hn, hz]; omega

/-- step 0 is rejected; an unresolved span has no serials, no length, no items -/
theorem span_degenerate (s : Span) :
    (s.needsResolve = true → s.serials = .ok none ∧ s.len = .ok none ∧ s.iter = .ok none ∧ ∀ i, s.getItem i = .ok none) ∧
    (s.needsResolve = false → s.step = 0 → s.serials = .error .badInput) := by
  obtain ⟨a, b, st⟩ := s
  cases a <;> cases b <;> simp [Span.needsResolve, Endpoint.needsResolve, Span.serials, Span.len, Span.iter,
    Span.getItem, bind, Except.bind, pure, Except.pure]
  intro h; simp [h]; rfl

/-- **len / iter / index agree**: `len(span) = len(list(span))`, `span[i] = list(span)[i]` for
`0 ≤ i < len`, `span[-k] = list(span)[len-k]`, anything else is an IndexError. -/
theorem span_len_iter_getItem (f : Freq) (a b step : Int) (hs : step ≠ 0) :
    ∃ l : List Int,
      (⟨.res ⟨f, a⟩, .res ⟨f, b⟩, step⟩ : Span).serials = .ok (some l) ∧
      (⟨.res ⟨f, a⟩, .res ⟨f, b⟩, step⟩ : Span).len = .ok (some l.length) ∧
      (⟨.res ⟨f, a⟩, .res ⟨f, b⟩, step⟩ : Span).iter = .ok (some (l.map (fun x => ⟨f, x⟩))) ∧
      (∀ i : Nat, (h : i < l.length) →
        (⟨.res ⟨f, a⟩, .res ⟨f, b⟩, step⟩ : Span).getItem i = .ok (some ⟨f, l[i]⟩) ∧ l[i] = a + (i : Int) * step) ∧
      (∀ k : Nat, (hk : 1 ≤ k) → (h : k ≤ l.length) →
        (⟨.res ⟨f, a⟩, .res ⟨f, b⟩, step⟩ : Span).getItem (-(k : Int)) = .ok (some ⟨f, l[l.length - k]'(by omega)⟩)) ∧
      (∀ i : Int, (i ≥ l.length ∨ i < -(l.length : Int)) →
        (⟨.res ⟨f, a⟩, .res ⟨f, b⟩, step⟩ : Span).getItem i = .error .badInput) := by
  refine ⟨pyRange a (b + sign step) step, ?_, ?_, ?_, ?_, ?_, ?_⟩
  · simp [Span.serials, hs]; rfl
  · simp [Span.len, Span.serials, hs, bind, Except.bind, pure, Except.pure]
  · simp [Span.iter, Span.serials, hs, bind, Except.bind, pure, Except.pure]
  · intro i h
    have hl := pyRange_length a (b + sign step) step
    refine ⟨?_, pyRange_getElem _ _ _ _ h⟩
    have : (i : Int) < (pyRangeLen a (b + sign step) step : Int) := by omega
    simp [Span.getItem, hs, pyRangeGet, this, pyRange_getElem, pure, Except.pure]
  · intro k hk h
    have hl := pyRange_length a (b + sign step) step
    have h1 : ¬ (0 ≤ -(k : Int)) := by omega
    have h2 : -(pyRangeLen a (b + sign step) step : Int) ≤ -(k : Int) := by omega
    have h3 : -(k : Int) < 0 := by omega
    simp only [Span.getItem, hs, if_false, pyRangeGet, h1, false_and, h2, h3, and_self, if_true, pure, Except.pure]
    rw [pyRange_getElem]
    have e : (-(k : Int) + (pyRangeLen a (b + sign step) step : Int))
        = (((pyRange a (b + sign step) step).length - k : Nat) : Int) := by omega
    rw [e]
  · intro i h
    have hl := pyRange_length a (b + sign step) step
    have h1 : ¬ (0 ≤ i ∧ i < (pyRangeLen a (b + sign step) step : Int)) := by omega
    have h2 : ¬ (-(pyRangeLen a (b + sign step) step : Int) ≤ i ∧ i < 0) := by omega
    simp [Span.getItem, hs, pyRangeGet, h1, h2]; rfl

/-- shifting a span by `k` (in place or with `+`/`-`) shifts every element by `k` -/
theorem span_shift (f : Freq) (a b step k : Int) (hs : step ≠ 0) :
    ∃ l, (⟨.res ⟨f, a⟩, .res ⟨f, b⟩, step⟩ : Span).serials = .ok (some l) ∧
      ((⟨.res ⟨f, a⟩, .res ⟨f, b⟩, step⟩ : Span).shift k).serials = .ok (some (l.map (· + k))) ∧
      (⟨.res ⟨f, a⟩, .res ⟨f, b⟩, step⟩ : Span).addInt k = .ok ((⟨.res ⟨f, a⟩, .res ⟨f, b⟩, step⟩ : Span).shift k) := by
  refine ⟨_, by simp [Span.serials, hs]; rfl, ?_, ?_⟩
  · simp only [Span.shift, Endpoint.add, Period.add, Span.serials, hs, if_false, pure, Except.pure]
    rw [← pyRange_shift]
    have : b + k + sign step = b + sign step + k := by omega
    rw [this]
  · simp [Span.addInt, Span.make, Span.shift, Endpoint.add, Period.add, pure, Except.pure]

/-- `reverse` swaps the ends and negates the step; doing it twice restores the span -/
theorem span_reverse_involutive (s : Span) : s.reverse.reverse = s := by
  obtain ⟨a, b, st⟩ := s
  simp [Span.reverse]

/-- **Reversal enumerates the reversed sequence** whenever the end is reachable from the start
(`end = start + m·step`, i.e. the step divides the distance and points the right way); the `example`s at the
end of this file show a non-dividing step for which the reversed span enumerates a different set — that is
what the code does, and the statement makes the guard explicit. -/
theorem span_reverse_enumerates (f : Freq) (a step : Int) (m : Nat) (hs : step ≠ 0) :
    ∃ l, (⟨.res ⟨f, a⟩, .res ⟨f, a + (m : Int) * step⟩, step⟩ : Span).serials = .ok (some l) ∧
      (⟨.res ⟨f, a⟩, .res ⟨f, a + (m : Int) * step⟩, step⟩ : Span).reverse.serials = .ok (some l.reverse) := by
  have hs' : -step ≠ 0 := by omega
  refine ⟨_, by simp [Span.serials, hs]; rfl, ?_⟩
  simp only [Span.reverse, Span.serials, hs', if_false, pure, Except.pure]
  rw [pyRange_reverse a step m hs]

/-- in-place mutations never change the frequency of an end nor whether it is contextual, so a
well-formed span (both ends resolved ⇒ same frequency) stays well-formed under any op sequence -/
def WellFormed (s : Span) : Prop :=
  ∀ p q, s.start = .res p → s.stop = .res q → p.freq = q.freq

theorem span_ops_preserve_wellformed (s : Span) (ops : List SpanOp) (h : WellFormed s) :
    WellFormed (ops.foldl Span.apply s) := by
  induction ops generalizing s with
  | nil => exact h
  | cons op ops ih =>
    apply ih
    obtain ⟨a, b, st⟩ := s
    cases op <;> cases a <;> cases b <;>
      simp_all [WellFormed, Span.apply, Span.reverse, Span.shiftStart, Span.shiftEnd, Span.shift,
        Endpoint.add, Period.add] <;> (intros; simp_all)

/-- the constructor only produces well-formed spans -/
theorem span_make_wellformed (a b : Option Endpoint) (step : Int) (s : Span) (h : Span.make a b step = .ok s) :
    WellFormed s := by
  unfold Span.make at h
  simp only at h
  split at h
  · split at h
    · cases h; intro p q h1 h2; simp_all
    · cases h
  · cases h
    intro p q h1 h2
    simp_all

/-- `resolve` replaces exactly the contextual ends (`start + a`, `end + b`) and is the identity on resolved spans -/
theorem span_resolve (s : Span) (c : Ctx) :
    (s.needsResolve = false → WellFormed s → s.resolve c = .ok s) ∧
    (∀ s', s.resolve c = .ok s' → s'.needsResolve = false ∧ s'.step = s.step ∧
      s'.start = s.start.resolve c ∧ s'.stop = s.stop.resolve c) := by
  obtain ⟨a, b, st⟩ := s
  constructor
  · intro h hw
    cases a <;> cases b <;> simp_all [Span.needsResolve, Endpoint.needsResolve, Span.resolve, Endpoint.resolve,
      Span.make, WellFormed, pure, Except.pure]
  · intro s' h
    have hres : ∀ e : Endpoint, ∃ p, e.resolve c = .res p := by
      intro e; cases e with
      | res p => exact ⟨p, rfl⟩
      | ctx fe o => cases fe <;> exact ⟨_, rfl⟩
    obtain ⟨p, hp⟩ := hres a
    obtain ⟨q, hq⟩ := hres b
    simp only [Span.resolve, hp, hq, Span.make, Option.getD_some] at h
    split at h
    · cases h
      simp [Span.needsResolve, Endpoint.needsResolve, hp, hq]
    · cases h

/-- **Operator constructors.** `p >> q` is the forward span `p, p+1, …, q` and `p << q` the backward span `q, q-1, …, p`
(arrow reading), for periods of one frequency; with `None` (or a contextual end) on either side the missing end is the
contextual `start`/`end` in the direction of the arrow, and resolving it against a context gives the same span as the
operator applied to the resolved ends. Periods of different frequencies are rejected. -/
theorem span_operators (f : Freq) (a b x : Int) :
    Span.rshift (some (.res ⟨f, a⟩)) (some (.res ⟨f, b⟩)) = .ok ⟨.res ⟨f, a⟩, .res ⟨f, b⟩, 1⟩ ∧
    Span.lshift (some (.res ⟨f, a⟩)) (some (.res ⟨f, b⟩)) = .ok ⟨.res ⟨f, b⟩, .res ⟨f, a⟩, -1⟩ ∧
    (∃ l, (⟨.res ⟨f, a⟩, .res ⟨f, b⟩, 1⟩ : Span).serials = .ok (some l) ∧ (x ∈ l ↔ a ≤ x ∧ x ≤ b) ∧
      ∀ i : Nat, (h : i < l.length) → l[i] = a + (i : Int)) ∧
    (∃ l, (⟨.res ⟨f, b⟩, .res ⟨f, a⟩, -1⟩ : Span).serials = .ok (some l) ∧ (x ∈ l ↔ a ≤ x ∧ x ≤ b) ∧
      ∀ i : Nat, (h : i < l.length) → l[i] = b - (i : Int)) := by
  refine ⟨by simp [Span.rshift, Span.make, pure, Except.pure], by simp [Span.lshift, Span.make, pure, Except.pure], ?_, ?_⟩
  · obtain ⟨l, hl, hm⟩ := span_enumerates f a b 1 x (by decide)
    obtain ⟨l', hl', _, _, hi, _⟩ := span_len_iter_getItem f a b 1 (by decide)
    have e : l' = l := by rw [hl] at hl'; cases hl'; rfl
    subst e
    refine ⟨l', hl, ?_, fun i h => by have := (hi i h).2; omega⟩
    rw [hm]
    constructor
    · rintro ⟨i, rfl, h1, _⟩; have := h1 (by decide); omega
    · rintro ⟨h1, h2⟩; exact ⟨(x - a).toNat, by omega, fun _ => h2, fun h => by omega⟩
  · obtain ⟨l, hl, hm⟩ := span_enumerates f b a (-1) x (by decide)
    obtain ⟨l', hl', _, _, hi, _⟩ := span_len_iter_getItem f b a (-1) (by decide)
    have e : l' = l := by rw [hl] at hl'; cases hl'; rfl
    subst e
    refine ⟨l', hl, ?_, fun i h => by have := (hi i h).2; omega⟩
    rw [hm]
    constructor
    · rintro ⟨i, rfl, _, h2⟩; have := h2 (by decide); omega
    · rintro ⟨h1, h2⟩; exact ⟨(b - x).toNat, by omega, fun h => by omega, fun _ => h1⟩

theorem span_operators_open (p : Endpoint) :
    Span.rshift (some p) none = .ok ⟨p, .ctx true 0, 1⟩ ∧ Span.rshift none (some p) = .ok ⟨.ctx false 0, p, 1⟩ ∧
    Span.lshift (some p) none = .ok ⟨.ctx true 0, p, -1⟩ ∧ Span.lshift none (some p) = .ok ⟨p, .ctx false 0, -1⟩ := by
  cases p <;> simp [Span.rshift, Span.lshift, Span.make, pure, Except.pure]

theorem span_operators_mixed (p q : Period) (h : p.freq ≠ q.freq) :
    Span.rshift (some (.res p)) (some (.res q)) = .error .mixedFreq ∧
    Span.lshift (some (.res p)) (some (.res q)) = .error .mixedFreq := by
  simp [Span.rshift, Span.lshift, Span.make, h, Ne.symm h, throw, throwThe, MonadExceptOf.throw]

/-- **Mixed frequencies are rejected by resolution too.** Whatever the shape of the span (both ends resolved, one or both
contextual), if the two ends are of different frequencies AFTER resolution against the context, `resolve` raises the
mixed-frequency error; it never hands out a span with ends of two frequencies. -/
theorem span_resolve_mixed_rejected (s : Span) (c : Ctx) (p q : Period)
    (hp : s.start.resolve c = .res p) (hq : s.stop.resolve c = .res q) (h : p.freq ≠ q.freq) :
    s.resolve c = .error .mixedFreq := by
  simp [Span.resolve, hp, hq, Span.make, h, throw, throwThe, MonadExceptOf.throw]

/-- and conversely a successful resolution has both ends of one frequency -/
theorem span_resolve_ok_same_freq (s : Span) (c : Ctx) (s' : Span) (h : s.resolve c = .ok s') :
    ∃ p q, s'.start = .res p ∧ s'.stop = .res q ∧ p.freq = q.freq := by
  have hres : ∀ e : Endpoint, ∃ p, e.resolve c = .res p := by
    intro e; cases e with
    | res p => exact ⟨p, rfl⟩
    | ctx fe o => cases fe <;> exact ⟨_, rfl⟩
  obtain ⟨p, hp⟩ := hres s.start
  obtain ⟨q, hq⟩ := hres s.stop
  simp only [Span.resolve, hp, hq, Span.make, Option.getD_some] at h
  split at h
  · rename_i hf; cases h; exact ⟨p, q, rfl, rfl, hf⟩
  · cases h

example : (⟨.res ⟨.Y, 2020⟩, .ctx true 0, 1⟩ : Span).resolve ⟨⟨.H, 4040⟩, ⟨.H, 4051⟩⟩ = .error .mixedFreq := by decide

/-- **Span equality.** Two resolved spans of one frequency are equal iff start, end and step coincide; spans of different
frequencies are never silently compared: `==` (and hence `!=`) raises the mixed-frequency error, whatever their steps. -/
theorem span_eq_spec (p p' q q' : Period) (st st' : Int) :
    (p.freq = q.freq → p'.freq = q'.freq →
      (⟨.res p, .res p', st⟩ : Span).eq ⟨.res q, .res q', st'⟩ = .ok (decide (p = q ∧ p' = q' ∧ st = st'))) ∧
    (p.freq ≠ q.freq → (⟨.res p, .res p', st⟩ : Span).eq ⟨.res q, .res q', st'⟩ = .error .mixedFreq) := by
  obtain ⟨pf, ps⟩ := p; obtain ⟨pf', ps'⟩ := p'; obtain ⟨qf, qs⟩ := q; obtain ⟨qf', qs'⟩ := q'
  constructor
  · intro h h'
    simp only at h h'
    subst h h'
    by_cases h1 : ps = qs <;> by_cases h2 : ps' = qs' <;> by_cases h3 : st = st' <;>
      simp [Span.eq, endpointEq, Period.eq, checkPeriods, bind, Except.bind, pure, Except.pure, h1, h2, h3]
  · intro h
    simp only at h
    simp [Span.eq, endpointEq, Period.eq, checkPeriods, bind, Except.bind, h, throw, throwThe, MonadExceptOf.throw]

example : (⟨.res ⟨.Q, 1⟩, .res ⟨.Q, 5⟩, 1⟩ : Span).eq ⟨.res ⟨.M, 1⟩, .res ⟨.M, 5⟩, 3⟩ = .error .mixedFreq := by decide
example : (⟨.res ⟨.Q, 1⟩, .res ⟨.Q, 5⟩, 1⟩ : Span).eq ⟨.res ⟨.Q, 1⟩, .res ⟨.Q, 5⟩, 2⟩ = .ok false := by decide

/-! ## 6a. Slices of a span -/

/-- every element of a slice is an element of the span at a position selected by the slice; nothing else is returned -/
theorem span_slice_mem (s : Span) (start stop step : Option Int) (l out : List Period) (a b st : Int)
    (hl : s.iter = .ok (some l)) (hi : sliceIndices l.length start stop step = some (a, b, st))
    (ho : s.getSlice start stop step = .ok (some out)) (p : Period) :
    p ∈ out ↔ ∃ i : Nat, ∃ h : i < l.length, l[i] = p ∧ (i : Int) ∈ pyRange a b st := by
  simp only [Span.getSlice, hl, hi, bind, Except.bind, pure, Except.pure] at ho
  cases ho
  simp only [List.mem_map, List.mem_filter, List.contains_iff_mem, Prod.exists]
  constructor
  · rintro ⟨q, i, ⟨hmem, hin⟩, rfl⟩
    obtain ⟨h1, h2⟩ := List.mem_zipIdx' hmem
    exact ⟨i, h1, h2.symm, by simpa using hin⟩
  · rintro ⟨i, h, rfl, hin⟩
    refine ⟨l[i], i, ⟨?_, by simpa using hin⟩, rfl⟩
    exact List.mem_zipIdx_iff_getElem?.2 (by simp [h])

example : sliceIndices 5 (some (-2)) none none = some (3, 5, 1) ∧ sliceIndices 5 none none (some (-1)) = some (4, -1, -1) ∧
    sliceIndices 5 (some 9) (some (-9)) (some (-2)) = some (4, -1, -2) ∧ sliceIndices 5 none none (some 0) = none := by decide
example : (⟨.res ⟨.Q, 10⟩, .res ⟨.Q, 15⟩, 1⟩ : Span).getSlice (some 1) none (some 2)
    = .ok (some [⟨.Q, 11⟩, ⟨.Q, 13⟩, ⟨.Q, 15⟩]) := by decide
example : (⟨.res ⟨.Q, 10⟩, .res ⟨.Q, 13⟩, 1⟩ : Span).getSlice none none (some (-1))
    = .ok (some [⟨.Q, 10⟩, ⟨.Q, 11⟩, ⟨.Q, 12⟩, ⟨.Q, 13⟩]) := by decide

/-! ## 6b. The encompassing span is the min of the starts and the max of the ends -/

theorem foldl_min_spec (f : Freq) : ∀ (ps : List Period) (p : Period), p.freq = f → (∀ x ∈ ps, x.freq = f) →
    ∃ m, ps.foldlM (fun acc x => do if (← x.lt acc) then pure x else pure acc) p = (.ok m : R Period) ∧
      m.freq = f ∧ (m = p ∨ m ∈ ps) ∧ m.serial ≤ p.serial ∧ ∀ x ∈ ps, m.serial ≤ x.serial
  | [], p, hp, _ => ⟨p, rfl, hp, Or.inl rfl, Int.le_refl _, by simp⟩
  | q :: ps, p, hp, hps => by
    have hq : q.freq = f := hps q (by simp)
    have hlt : q.lt p = .ok (decide (q.serial < p.serial)) := by
      simp [Period.lt, checkPeriods, hq, hp, bind, Except.bind, pure, Except.pure]
    by_cases h : q.serial < p.serial
    · obtain ⟨m, hm, hmf, hmem, hle, hall⟩ := foldl_min_spec f ps q hq (fun x hx => hps x (by simp [hx]))
      refine ⟨m, ?_, hmf, ?_, by omega, ?_⟩
      · simp only [List.foldlM_cons, hlt, bind, Except.bind, h, decide_true, if_true, pure, Except.pure]
        exact hm
      · rcases hmem with h1 | h1
        · exact Or.inr (by simp [h1])
        · exact Or.inr (by simp [h1])
      · intro x hx
        simp at hx
        rcases hx with h1 | h1
        · subst h1; exact hle
        · exact hall x h1
    · obtain ⟨m, hm, hmf, hmem, hle, hall⟩ := foldl_min_spec f ps p hp (fun x hx => hps x (by simp [hx]))
      refine ⟨m, ?_, hmf, ?_, hle, ?_⟩
      · simp only [List.foldlM_cons, hlt, bind, Except.bind, h, decide_false, pure, Except.pure]
        exact hm
      · rcases hmem with h1 | h1
        · exact Or.inl h1
        · exact Or.inr (by simp [h1])
      · intro x hx
        simp at hx
        rcases hx with h1 | h1
        · subst h1; omega
        · exact hall x h1


theorem foldl_max_spec (f : Freq) : ∀ (ps : List Period) (p : Period), p.freq = f → (∀ x ∈ ps, x.freq = f) →
    ∃ m, ps.foldlM (fun acc x => do if (← x.gt acc) then pure x else pure acc) p = (.ok m : R Period) ∧
      m.freq = f ∧ (m = p ∨ m ∈ ps) ∧ p.serial ≤ m.serial ∧ ∀ x ∈ ps, x.serial ≤ m.serial
  | [], p, hp, _ => ⟨p, rfl, hp, Or.inl rfl, Int.le_refl _, by simp⟩
  | q :: ps, p, hp, hps => by
    have hq : q.freq = f := hps q (by simp)
    have hgt : q.gt p = .ok (decide (q.serial > p.serial)) := by
      simp [Period.gt, checkPeriods, hq, hp, bind, Except.bind, pure, Except.pure]
    by_cases h : q.serial > p.serial
    · obtain ⟨m, hm, hmf, hmem, hle, hall⟩ := foldl_max_spec f ps q hq (fun x hx => hps x (by simp [hx]))
      refine ⟨m, ?_, hmf, ?_, by omega, ?_⟩
      · simp only [List.foldlM_cons, hgt, bind, Except.bind, h, decide_true, if_true, pure, Except.pure]
        exact hm
      · rcases hmem with h1 | h1
        · exact Or.inr (by simp [h1])
        · exact Or.inr (by simp [h1])
      · intro x hx
        simp at hx
        rcases hx with h1 | h1
        · subst h1; exact hle
        · exact hall x h1
    · obtain ⟨m, hm, hmf, hmem, hle, hall⟩ := foldl_max_spec f ps p hp (fun x hx => hps x (by simp [hx]))
      refine ⟨m, ?_, hmf, ?_, hle, ?_⟩
      · simp only [List.foldlM_cons, hgt, bind, Except.bind, h, decide_false, pure, Except.pure]
        exact hm
      · rcases hmem with h1 | h1
        · exact Or.inl h1
        · exact Or.inr (by simp [h1])
      · intro x hx
        simp at hx
        rcases hx with h1 | h1
        · subst h1; omega
        · exact hall x h1

/-- on a non-empty list of periods of one frequency `min` returns a member that is `≤` every member -/
theorem minPeriods_spec (f : Freq) (l : List Period) (hne : l ≠ []) (hf : ∀ x ∈ l, x.freq = f) :
    ∃ m, minPeriods l = .ok (some m) ∧ m ∈ l ∧ ∀ x ∈ l, m.serial ≤ x.serial := by
  cases l with
  | nil => exact absurd rfl hne
  | cons p ps =>
    obtain ⟨m, hm, _, hmem, hle, hall⟩ := foldl_min_spec f ps p (hf p (by simp)) (fun x hx => hf x (by simp [hx]))
    refine ⟨m, by simp only [minPeriods]; erw [hm]; rfl, ?_, ?_⟩
    · rcases hmem with h | h <;> simp [h]
    · intro x hx; simp at hx; rcases hx with h | h
      · subst h; exact hle
      · exact hall x h

theorem maxPeriods_spec (f : Freq) (l : List Period) (hne : l ≠ []) (hf : ∀ x ∈ l, x.freq = f) :
    ∃ m, maxPeriods l = .ok (some m) ∧ m ∈ l ∧ ∀ x ∈ l, x.serial ≤ m.serial := by
  cases l with
  | nil => exact absurd rfl hne
  | cons p ps =>
    obtain ⟨m, hm, _, hmem, hle, hall⟩ := foldl_max_spec f ps p (hf p (by simp)) (fun x hx => hf x (by simp [hx]))
    refine ⟨m, by simp only [maxPeriods]; erw [hm]; rfl, ?_, ?_⟩
    · rcases hmem with h | h <;> simp [h]
    · intro x hx; simp at hx; rcases hx with h | h
      · subst h; exact hle
      · exact hall x h

theorem startOf_spec (f : Freq) (a : EncArg) (hf : ∀ x ∈ a.periods, x.freq = f) :
    (∀ l, a = .seq l → ∀ p ∈ l.filterMap id, ∃ m, a.startOf = some m ∧ m.freq = f ∧ m.serial ≤ p.serial) ∧
    (∀ s e, a = .attrs s e → a.startOf = s) ∧ (∀ m, a.startOf = some m → m.freq = f) := by
  refine ⟨?_, ?_, ?_⟩
  · rintro l rfl p hp
    have hne : l.filterMap id ≠ [] := by intro h; rw [h] at hp; simp at hp
    obtain ⟨m, hm, hmem, hall⟩ := minPeriods_spec f _ hne hf
    exact ⟨m, by simp [EncArg.startOf, EncArg.pick, hm], hf m hmem, hall p hp⟩
  · rintro s e rfl; rfl
  · intro m hm
    cases a with
    | attrs s e =>
      simp [EncArg.startOf, EncArg.pick] at hm
      exact hf m (by simp [EncArg.periods, hm])
    | seq l =>
      by_cases hne : l.filterMap id = []
      · simp [EncArg.startOf, EncArg.pick, hne, minPeriods, pure, Except.pure] at hm
      · obtain ⟨m', hm', hmem, _⟩ := minPeriods_spec f _ hne hf
        simp [EncArg.startOf, EncArg.pick, hm'] at hm
        subst hm; exact hf _ hmem

theorem endOf_spec (f : Freq) (a : EncArg) (hf : ∀ x ∈ a.periods, x.freq = f) :
    (∀ l, a = .seq l → ∀ p ∈ l.filterMap id, ∃ m, a.endOf = some m ∧ m.freq = f ∧ p.serial ≤ m.serial) ∧
    (∀ s e, a = .attrs s e → a.endOf = e) ∧ (∀ m, a.endOf = some m → m.freq = f) := by
  refine ⟨?_, ?_, ?_⟩
  · rintro l rfl p hp
    have hne : l.filterMap id ≠ [] := by intro h; rw [h] at hp; simp at hp
    obtain ⟨m, hm, hmem, hall⟩ := maxPeriods_spec f _ hne hf
    exact ⟨m, by simp [EncArg.endOf, EncArg.pick, hm], hf m hmem, hall p hp⟩
  · rintro s e rfl; rfl
  · intro m hm
    cases a with
    | attrs s e =>
      simp [EncArg.endOf, EncArg.pick] at hm
      exact hf m (by simp [EncArg.periods, hm])
    | seq l =>
      by_cases hne : l.filterMap id = []
      · simp [EncArg.endOf, EncArg.pick, hne, maxPeriods, pure, Except.pure] at hm
      · obtain ⟨m', hm', hmem, _⟩ := maxPeriods_spec f _ hne hf
        simp [EncArg.endOf, EncArg.pick, hm'] at hm
        subst hm; exact hf _ hmem


/-- **Encompassing span.** For arguments whose periods all have one frequency, `get_encompassing_span` succeeds; its start is
`≤` and its end `≥` every period of every sequence argument and every start/end attribute of every object argument (whatever
the order of the elements inside a sequence, `None` elements and `None` arguments skipped); a missing start or end (no
argument supplies one) leaves the contextual end in the span. -/
theorem encompassing_contains (f : Freq) (args : List (Option EncArg))
    (hf : ∀ a, some a ∈ args → ∀ x ∈ a.periods, x.freq = f) :
    ∃ sp s e, encompassing args = .ok (sp, s, e) ∧
      sp = ⟨(s.map Endpoint.res).getD (.ctx false 0), (e.map Endpoint.res).getD (.ctx true 0), 1⟩ ∧
      (∀ l, some (EncArg.seq l) ∈ args → ∀ p, some p ∈ l →
        ∃ s0 e0, s = some s0 ∧ e = some e0 ∧ s0.serial ≤ p.serial ∧ p.serial ≤ e0.serial) ∧
      (∀ b p, some (EncArg.attrs (some p) b) ∈ args → ∃ s0, s = some s0 ∧ s0.serial ≤ p.serial) ∧
      (∀ a p, some (EncArg.attrs a (some p)) ∈ args → ∃ e0, e = some e0 ∧ p.serial ≤ e0.serial) := by
  -- the candidate lists
  let as := args.filterMap id
  have has : ∀ a, a ∈ as ↔ some a ∈ args := by intro a; simp [as]
  let S := as.filterMap EncArg.startOf
  let E := as.filterMap EncArg.endOf
  have hSf : ∀ x ∈ S, x.freq = f := by
    intro x hx
    simp only [S, List.mem_filterMap] at hx
    obtain ⟨a, ha, hx⟩ := hx
    exact (startOf_spec f a (hf a ((has a).1 ha))).2.2 x hx
  have hEf : ∀ x ∈ E, x.freq = f := by
    intro x hx
    simp only [E, List.mem_filterMap] at hx
    obtain ⟨a, ha, hx⟩ := hx
    exact (endOf_spec f a (hf a ((has a).1 ha))).2.2 x hx
  -- min / max of the candidates
  have hmin : ∃ s, minPeriods S = .ok s ∧ (S = [] → s = none) ∧
      (S ≠ [] → ∃ s0, s = some s0 ∧ s0.freq = f ∧ ∀ x ∈ S, s0.serial ≤ x.serial) := by
    by_cases h : S = []
    · exact ⟨none, by rw [h]; rfl, fun _ => rfl, fun h' => absurd h h'⟩
    · obtain ⟨m, hm, hmem, hall⟩ := minPeriods_spec f S h hSf
      exact ⟨some m, hm, fun h' => absurd h' h, fun _ => ⟨m, rfl, hSf m hmem, hall⟩⟩
  have hmax : ∃ e, maxPeriods E = .ok e ∧ (E = [] → e = none) ∧
      (E ≠ [] → ∃ e0, e = some e0 ∧ e0.freq = f ∧ ∀ x ∈ E, x.serial ≤ e0.serial) := by
    by_cases h : E = []
    · exact ⟨none, by rw [h]; rfl, fun _ => rfl, fun h' => absurd h h'⟩
    · obtain ⟨m, hm, hmem, hall⟩ := maxPeriods_spec f E h hEf
      exact ⟨some m, hm, fun h' => absurd h' h, fun _ => ⟨m, rfl, hEf m hmem, hall⟩⟩
  obtain ⟨s, hs, hs0, hs1⟩ := hmin
  obtain ⟨e, he, he0, he1⟩ := hmax
  -- the span is always constructible: two resolved ends share the frequency f
  have hmake : Span.make (s.map .res) (e.map .res) 1 =
      .ok ⟨(s.map Endpoint.res).getD (.ctx false 0), (e.map Endpoint.res).getD (.ctx true 0), 1⟩ := by
    cases s with
    | none => cases e <;> simp [Span.make, pure, Except.pure]
    | some s0 =>
      cases e with
      | none => simp [Span.make, pure, Except.pure]
      | some e0 =>
        have h1 : s0.freq = f := by
          by_cases h : S = []
          · have := hs0 h; cases this
          · obtain ⟨x, hx, hxf, _⟩ := hs1 h; cases hx; exact hxf
        have h2 : e0.freq = f := by
          by_cases h : E = []
          · have := he0 h; cases this
          · obtain ⟨x, hx, hxf, _⟩ := he1 h; cases hx; exact hxf
        simp [Span.make, h1, h2, pure, Except.pure]
  refine ⟨_, s, e, ?_, rfl, ?_, ?_, ?_⟩
  · show (do let s ← minPeriods S; let e ← maxPeriods E; let sp ← Span.make (s.map .res) (e.map .res) 1; pure (sp, s, e)) = _
    rw [hs, he]
    show (do let sp ← Span.make (s.map .res) (e.map .res) 1; pure (sp, s, e)) = _
    rw [hmake]; rfl
  · intro l hl p hp
    have hpl : p ∈ l.filterMap id := by simp [hp]
    have hsp := startOf_spec f (.seq l) (hf _ hl)
    have hep := endOf_spec f (.seq l) (hf _ hl)
    obtain ⟨m, hm, _, hmle⟩ := hsp.1 l rfl p hpl
    obtain ⟨m', hm', _, hmle'⟩ := hep.1 l rfl p hpl
    have hmS : m ∈ S := by simp only [S, List.mem_filterMap]; exact ⟨_, (has _).2 hl, hm⟩
    have hmE : m' ∈ E := by simp only [E, List.mem_filterMap]; exact ⟨_, (has _).2 hl, hm'⟩
    obtain ⟨s0, rfl, _, hall⟩ := hs1 (by intro h; rw [h] at hmS; simp at hmS)
    obtain ⟨e0, rfl, _, hall'⟩ := he1 (by intro h; rw [h] at hmE; simp at hmE)
    exact ⟨s0, e0, rfl, rfl, by have := hall m hmS; omega, by have := hall' m' hmE; omega⟩
  · intro b p hmem
    have hmS : p ∈ S := by
      simp only [S, List.mem_filterMap]; exact ⟨_, (has _).2 hmem, rfl⟩
    obtain ⟨s0, rfl, _, hall⟩ := hs1 (by intro h; rw [h] at hmS; simp at hmS)
    exact ⟨s0, rfl, hall p hmS⟩
  · intro a p hmem
    have hmE : p ∈ E := by
      simp only [E, List.mem_filterMap]; exact ⟨_, (has _).2 hmem, rfl⟩
    obtain ⟨e0, rfl, _, hall⟩ := he1 (by intro h; rw [h] at hmE; simp at hmE)
    exact ⟨e0, rfl, hall p hmE⟩


/-- unit-step `periods_from_until` of one frequency lists exactly the periods `a ≤ · ≤ b` of that frequency; for
`a ≤ b` its first element is `a` and its last is `b`, for `b < a` it is empty -/
theorem pfu_unit_spec (f : Freq) (a b : Int) :
    ∃ l, periodsFromUntil ⟨f, a⟩ ⟨f, b⟩ 1 = .ok l ∧
      (∀ p : Period, p ∈ l ↔ p.freq = f ∧ a ≤ p.serial ∧ p.serial ≤ b) ∧
      (a ≤ b → l.head? = some ⟨f, a⟩ ∧ l.getLast? = some ⟨f, b⟩) ∧ (b < a → l = []) := by
  refine ⟨(pyRange a (b + 1) 1).map (fun x => ⟨f, x⟩), by simp [periodsFromUntil, checkPeriods, bind, Except.bind, pure, Except.pure], ?_, ?_, ?_⟩
  · intro p
    simp only [List.mem_map, mem_pyRange _ _ _ _ (by decide : (1 : Int) ≠ 0)]
    constructor
    · rintro ⟨x, ⟨i, rfl, h1, _⟩, rfl⟩
      have := h1 (by decide)
      exact ⟨rfl, by simp; omega, by simp; omega⟩
    · rintro ⟨hf, h1, h2⟩
      refine ⟨p.serial, ⟨(p.serial - a).toNat, by omega, fun _ => by omega, fun h => by omega⟩, ?_⟩
      cases p; simp_all
  · intro h
    have hn : pyRangeLen a (b + 1) 1 = (b - a + 1).toNat := by
      unfold pyRangeLen; simp; rw [if_pos (by omega)]; omega
    obtain ⟨n, hn'⟩ : ∃ n : Nat, (b - a + 1).toNat = n + 1 := ⟨(b - a).toNat, by omega⟩
    constructor
    · simp only [pyRange, hn, hn', List.map_map, List.head?_map]
      rw [List.head?_range]; simp
    · simp only [pyRange, hn, hn', List.map_map, List.getLast?_map]
      rw [List.getLast?_range]; simp; omega
  · intro h
    have hn : pyRangeLen a (b + 1) 1 = 0 := by
      unfold pyRangeLen; simp; intro h'; omega
    simp [pyRange, hn]

/-- **Direction.** A span is `forward` exactly when its step is positive; reversal flips the direction of every span
with a non-zero step. -/
theorem direction_spec (s : Span) (hs : s.step ≠ 0) :
    (s.direction = true ↔ 0 < s.step) ∧ s.reverse.direction = !s.direction := by
  simp only [Span.direction, Span.reverse, decide_eq_true_eq, gt_iff_lt]
  refine ⟨trivial, ?_⟩
  by_cases h : 0 < s.step
  · simp [h]; omega
  · simp [h]; omega

/-- **The direction is the direction of the enumeration**: consecutive elements of a resolved span increase strictly in a
forward span and decrease strictly in a backward one. -/
theorem direction_is_enumeration_order (f : Freq) (a b step : Int) (hs : step ≠ 0) (l : List Int)
    (h : (⟨.res ⟨f, a⟩, .res ⟨f, b⟩, step⟩ : Span).serials = .ok (some l)) (i : Nat) (hi : i + 1 < l.length) :
    ((⟨.res ⟨f, a⟩, .res ⟨f, b⟩, step⟩ : Span).direction = true → l[i] < l[i + 1]) ∧
    ((⟨.res ⟨f, a⟩, .res ⟨f, b⟩, step⟩ : Span).direction = false → l[i + 1] < l[i]) := by
  simp [Span.serials, hs, pure, Except.pure] at h
  subst h
  simp only [pyRange_getElem, Span.direction, decide_eq_true_eq, decide_eq_false_iff_not, gt_iff_lt]
  have e : ((i + 1 : Nat) : Int) * step = (i : Int) * step + step := by
    rw [Int.natCast_add, Int.add_mul]; simp
  rw [e]
  constructor
  · intro h; omega
  · intro h; omega

/-! ## 6b. Simulation frames: short span ↔ long span (`spans_from_short_span`, `spans_from_long_span`, `extend_span`) -/

/-- **Short → long.** For one frequency and `a ≤ b` the call succeeds; the short span is exactly `a … b`, the long
span exactly `a + max_lag … b + max_lead` (unit step, whatever the signs of the shifts; an inverted range is empty). -/
theorem spansFromShort_spec (f : Freq) (a b lag lead : Int) (hab : a ≤ b) :
    ∃ short long, spansFromShortSpan ⟨f, a⟩ ⟨f, b⟩ lag lead = .ok (short, long) ∧
      (∀ p : Period, p ∈ short ↔ p.freq = f ∧ a ≤ p.serial ∧ p.serial ≤ b) ∧
      (∀ p : Period, p ∈ long ↔ p.freq = f ∧ a + lag ≤ p.serial ∧ p.serial ≤ b + lead) := by
  obtain ⟨s, hs, hs', hh, -⟩ := pfu_unit_spec f a b
  obtain ⟨l, hl, hl', -, -⟩ := pfu_unit_spec f (a + lag) (b + lead)
  refine ⟨s, l, ?_, hs', hl'⟩
  simp only [spansFromShortSpan, hs, (hh hab).1, (hh hab).2, Period.add, hl, bind, Except.bind, pure, Except.pure]

/-- **Long → short.** For `a ≤ b` the short span is exactly `a − max_lag … b − max_lead`. -/
theorem spansFromLong_spec (f : Freq) (a b lag lead : Int) (hab : a ≤ b) :
    ∃ short long, spansFromLongSpan ⟨f, a⟩ ⟨f, b⟩ lag lead = .ok (short, long) ∧
      (∀ p : Period, p ∈ long ↔ p.freq = f ∧ a ≤ p.serial ∧ p.serial ≤ b) ∧
      (∀ p : Period, p ∈ short ↔ p.freq = f ∧ a - lag ≤ p.serial ∧ p.serial ≤ b - lead) := by
  obtain ⟨l, hl, hl', hh, -⟩ := pfu_unit_spec f a b
  obtain ⟨s, hs, hs', -, -⟩ := pfu_unit_spec f (a + -lag) (b + -lead)
  refine ⟨s, l, ?_, hl', fun p => ?_⟩
  · simp only [spansFromLongSpan, hl, (hh hab).1, (hh hab).2, Period.subInt, Period.add, hs, bind, Except.bind, pure, Except.pure]
  · rw [hs']; constructor <;> rintro ⟨h, h1, h2⟩ <;> exact ⟨h, by omega, by omega⟩

/-- **Rejection.** An inverted pair (`last < first`) is rejected by both constructions (the code indexes the empty
re-bound tuple: `IndexError`), as are mixed frequencies. Nothing is returned for them. -/
theorem spansFrom_inverted_rejected (f : Freq) (a b lag lead : Int) (hab : b < a) :
    spansFromShortSpan ⟨f, a⟩ ⟨f, b⟩ lag lead = .error .badInput ∧
    spansFromLongSpan ⟨f, a⟩ ⟨f, b⟩ lag lead = .error .badInput := by
  obtain ⟨s, hs, -, -, he⟩ := pfu_unit_spec f a b
  have := he hab; subst this
  simp [spansFromShortSpan, spansFromLongSpan, hs, bind, Except.bind, throw, throwThe, MonadExceptOf.throw]

theorem spansFrom_mixed_rejected (p q : Period) (h : p.freq ≠ q.freq) (lag lead : Int) :
    spansFromShortSpan p q lag lead = .error .mixedFreq ∧ spansFromLongSpan p q lag lead = .error .mixedFreq := by
  simp [spansFromShortSpan, spansFromLongSpan, periodsFromUntil, checkPeriods, h, bind, Except.bind, throw, throwThe,
    MonadExceptOf.throw]

/-- **The two constructions are inverse to each other**: going from the short span `a … b` to the long one and back
with the same `max_lag`, `max_lead` (fed the first and last period of the long span) returns the same pair of spans,
whenever neither span is inverted. -/
theorem spansFromLong_spansFromShort (f : Freq) (a b lag lead : Int) (hab : a ≤ b) (hl : a + lag ≤ b + lead) :
    spansFromLongSpan ((⟨f, a⟩ : Period).add lag) ((⟨f, b⟩ : Period).add lead) lag lead
      = spansFromShortSpan ⟨f, a⟩ ⟨f, b⟩ lag lead := by
  have e1 : a + lag + -lag = a := by omega
  have e2 : b + lead + -lead = b := by omega
  obtain ⟨s, hs, -, hh, -⟩ := pfu_unit_spec f a b
  obtain ⟨l, hl', -, hh', -⟩ := pfu_unit_spec f (a + lag) (b + lead)
  simp only [spansFromLongSpan, spansFromShortSpan, Period.subInt, Period.add, e1, e2, hs, hl', (hh hab).1, (hh hab).2,
    (hh' hl).1, (hh' hl).2, bind, Except.bind]

/-- …and the other way round. -/
theorem spansFromShort_spansFromLong (f : Freq) (a b lag lead : Int) (hab : a ≤ b) (hs : a - lag ≤ b - lead) :
    spansFromShortSpan ((⟨f, a⟩ : Period).subInt lag) ((⟨f, b⟩ : Period).subInt lead) lag lead
      = spansFromLongSpan ⟨f, a⟩ ⟨f, b⟩ lag lead := by
  have e1 : a + -lag + lag = a := by omega
  have e2 : b + -lead + lead = b := by omega
  obtain ⟨l, hl, -, hh, -⟩ := pfu_unit_spec f a b
  obtain ⟨s, hs', -, hh', -⟩ := pfu_unit_spec f (a + -lag) (b + -lead)
  simp only [spansFromLongSpan, spansFromShortSpan, Period.subInt, Period.add, e1, e2, hs', hl, (hh hab).1, (hh hab).2,
    (hh' (by omega)).1, (hh' (by omega)).2, bind, Except.bind]

/-- **The long span contains the short one** whenever the lag is not positive and the lead not negative (the way the
simulators call it: `max_lag ≤ 0 ≤ max_lead`). -/
theorem short_subset_long (f : Freq) (a b lag lead : Int) (h1 : lag ≤ 0) (h2 : 0 ≤ lead) (short long : List Period)
    (h : spansFromShortSpan ⟨f, a⟩ ⟨f, b⟩ lag lead = .ok (short, long)) (p : Period) (hp : p ∈ short) : p ∈ long := by
  rcases Int.lt_or_le b a with hab | hab
  · rw [(spansFrom_inverted_rejected f a b lag lead hab).1] at h; cases h
  · obtain ⟨s, l, e, hs, hl⟩ := spansFromShort_spec f a b lag lead hab
    rw [e] at h; cases h
    have := (hs p).mp hp
    exact (hl p).mpr ⟨this.1, by omega, by omega⟩

/-- the length of a unit-step `periods_from_until` is `b − a + 1` (0 when inverted) -/
theorem pfu_unit_length (f : Freq) (a b : Int) (l : List Period)
    (h : periodsFromUntil ⟨f, a⟩ ⟨f, b⟩ 1 = .ok l) : l.length = (b - a + 1).toNat := by
  simp [periodsFromUntil, checkPeriods, bind, Except.bind, pure, Except.pure] at h
  subst h
  simp only [List.length_map, pyRange_length, pyRangeLen]
  simp
  split <;> omega

/-- **Frame lengths.** The short span has `b − a + 1` periods and the long span `(b + max_lead) − (a + max_lag) + 1`
(none when the shifts invert it): the long span is the short one plus `−max_lag` initial and `max_lead` terminal periods. -/
theorem spansFromShort_lengths (f : Freq) (a b lag lead : Int) (hab : a ≤ b) (short long : List Period)
    (h : spansFromShortSpan ⟨f, a⟩ ⟨f, b⟩ lag lead = .ok (short, long)) :
    short.length = (b - a + 1).toNat ∧ long.length = ((b + lead) - (a + lag) + 1).toNat := by
  obtain ⟨s, hs, -, hh, -⟩ := pfu_unit_spec f a b
  obtain ⟨l, hl, -, -, -⟩ := pfu_unit_spec f (a + lag) (b + lead)
  simp only [spansFromShortSpan, hs, (hh hab).1, (hh hab).2, Period.add, hl, bind, Except.bind, pure, Except.pure] at h
  cases h
  exact ⟨pfu_unit_length f a b _ hs, pfu_unit_length f _ _ _ hl⟩

/-- **`extend_span`**: the start moves by `min_shift` exactly when an initial condition is prepended, the end by
`max_shift` exactly when a terminal condition is appended; frequencies are kept; with both switches off it is the
identity. -/
theorem extendSpan_spec (a b : Period) (lo hi : Int) (pre app : Bool) :
    (extendSpan a b lo hi pre app).1.freq = a.freq ∧ (extendSpan a b lo hi pre app).2.freq = b.freq ∧
    (extendSpan a b lo hi pre app).1.serial = a.serial + (if pre then lo else 0) ∧
    (extendSpan a b lo hi pre app).2.serial = b.serial + (if app then hi else 0) ∧
    extendSpan a b lo hi false false = (a, b) := by
  refine ⟨rfl, rfl, rfl, rfl, ?_⟩
  cases a; cases b; simp [extendSpan, Period.add]

example : spansFromShortSpan ⟨.Q, 10⟩ ⟨.Q, 12⟩ (-2) 1
    = .ok ([⟨.Q, 10⟩, ⟨.Q, 11⟩, ⟨.Q, 12⟩], [⟨.Q, 8⟩, ⟨.Q, 9⟩, ⟨.Q, 10⟩, ⟨.Q, 11⟩, ⟨.Q, 12⟩, ⟨.Q, 13⟩]) := by decide
example : spansFromLongSpan ⟨.Q, 8⟩ ⟨.Q, 13⟩ (-2) 1
    = .ok ([⟨.Q, 10⟩, ⟨.Q, 11⟩, ⟨.Q, 12⟩], [⟨.Q, 8⟩, ⟨.Q, 9⟩, ⟨.Q, 10⟩, ⟨.Q, 11⟩, ⟨.Q, 12⟩, ⟨.Q, 13⟩]) := by decide
example : spansFromShortSpan ⟨.Q, 12⟩ ⟨.Q, 10⟩ 0 0 = .error .badInput := by decide

/-! ## 7. Non-vacuity: concrete values meet the hypotheses and the models compute -/
example : encompassing [some (.seq [some ⟨.Q, 8085⟩, none, some ⟨.Q, 8080⟩]), none, some (.attrs (some ⟨.Q, 8090⟩) (some ⟨.Q, 8082⟩))]
    = .ok (⟨.res ⟨.Q, 8080⟩, .res ⟨.Q, 8085⟩, 1⟩, some ⟨.Q, 8080⟩, some ⟨.Q, 8085⟩) := by decide
example : encompassing [some (.seq [some ⟨.Q, 1⟩, some ⟨.M, 5⟩]), some (.seq [])] = .ok (⟨.ctx false 0, .ctx true 0, 1⟩, none, none) := by decide
example : (encompassing [some (.seq [some ⟨.Q, 1⟩]), some (.seq [some ⟨.M, 5⟩])]).toOption = none := by decide


example : ValidYmd 2020 2 29 ∧ ymd2ord 2020 2 29 = 737484 ∧ ord2ymd 737484 = (2020, 2, 29) := by decide
example : (Freq.Q) ∈ regularFreqs ∧ toYearSegment ⟨.Q, 8083⟩ = .ok (2020, 4) := by decide
example : (⟨.res ⟨.Q, 10⟩, .res ⟨.Q, 3⟩, -3⟩ : Span).serials = .ok (some [10, 7, 4]) := by decide
example : (⟨.res ⟨.Q, 10⟩, .res ⟨.Q, 3⟩, -3⟩ : Span).reverse.serials = .ok (some [3, 6, 9]) := by decide
example : WellFormed (⟨.res ⟨.M, 0⟩, .res ⟨.M, 5⟩, 1⟩ : Span) := by intro p q h1 h2; cases h1; cases h2; rfl

end IrisVerif.Dates.C09
