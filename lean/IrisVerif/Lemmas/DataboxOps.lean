/-
Helper lemmas for property C19: what the databox operations make of the names they select (the positive half of the
frame condition of IrisVerif/Lemmas/DataboxFrame.lean).
-/
import IrisVerif.Lemmas.DataboxFrame

namespace IrisVerif.Databox
open IrisVerif.Dates (Err R)

theorem lookup_map_val {α : Type} (h : String → α → α) (db : List (String × α)) (n : String) :
    lookup (db.map (fun p => (p.1, h p.1 p.2))) n = (lookup db n).map (h n) := by
  induction db with
  | nil => rfl
  | cons p rest ih =>
    obtain ⟨k, v⟩ := p
    simp only [List.map_cons, lookup]
    by_cases hk : k = n
    · subst hk; simp
    · simp [hk, ih]

theorem lookup_filter_key {α : Type} (q : String → Bool) (db : List (String × α)) (n : String) :
    lookup (db.filter (fun p => q p.1)) n = if q n then lookup db n else none := by
  induction db with
  | nil => simp [lookup]
  | cons p rest ih =>
    obtain ⟨k, v⟩ := p
    simp only [List.filter_cons]
    by_cases hq : q k = true
    · simp only [hq, if_true, lookup]
      by_cases hk : k = n
      · subst hk; simp [hq]
      · simp [hk, ih]
    · simp only [hq, Bool.false_eq_true, if_false, lookup]
      by_cases hk : k = n
      · subst hk; simp [hq, ih]
      · simp [hk, ih]

section
variable {S V : Type}

/-- the item `_lay` leaves under a name -/
def layItem (o : SOps S) (f : S → S → S) (db other : Box S V) (ns : List String) (k : String) (v : Item S V) : Item S V :=
  if ns.contains k && layAct o db other k = .apply then
    match v, lookup other k with
    | .ser s, some (.ser t) => .ser (f s t)
    | _, _ => v
  else v

theorem lay_lookup (o : SOps S) (f : S → S → S) (db other db' : Box S V) (names : Option (List String)) (strict : Bool)
    (h : lay o f db other names strict = .ok db') (n : String) :
    lookup db' n = (lookup db n).map (layItem o f db other (layNames db other names strict) n) := by
  unfold lay at h
  dsimp only at h
  split at h
  · simp [throw, throwThe, MonadExceptOf.throw] at h
  · simp only [pure, Except.pure, Except.ok.injEq] at h
    subst h
    rw [← lookup_map_val]
    congr 1
    apply List.map_congr_left
    intro p _
    obtain ⟨k, v⟩ := p
    simp only [layItem]
    by_cases hc : ((layNames db other names strict).contains k && decide (layAct o db other k = .apply)) = true
    · simp only [hc, if_true]
      cases v with
      | ser s =>
        cases ho : lookup other k with
        | none => rfl
        | some jt => cases jt <;> rfl
      | scalar x => rfl
      | list l => rfl
    · simp only [hc]
      rfl

/-- **overlay / underlay / prepend, positive half**: a name the call applies to is bound to the series operation of the two
input series -/
theorem lay_applied (o : SOps S) (f : S → S → S) (db other db' : Box S V) (names : Option (List String)) (strict : Bool)
    (h : lay o f db other names strict = .ok db') (n : String) (hn : n ∈ layNames db other names strict)
    (ha : layAct o db other n = .apply) :
    ∃ s t, lookup db n = some (.ser s) ∧ lookup other n = some (.ser t) ∧ lookup db' n = some (.ser (f s t)) := by
  rw [lay_lookup o f db other db' names strict h n]
  have ha0 := ha
  unfold layAct at ha
  cases hl : lookup db n with
  | none => simp [hl] at ha
  | some it =>
    cases it with
    | ser s =>
      simp only [hl] at ha
      split at ha
      · simp at ha
      · cases ho : lookup other n with
        | none => simp [ho] at ha
        | some jt =>
          cases jt with
          | ser t =>
            refine ⟨s, t, rfl, rfl, ?_⟩
            simp [layItem, hn, ha0, ho]
          | scalar v => simp [ho] at ha
          | list l => simp [ho] at ha
    | scalar v => simp [hl] at ha
    | list l => simp [hl] at ha

def clipItem (o : SOps S) (f : BFreq) (lo hi : Option Int) (v : Item S V) : Item S V :=
  match v with
  | .ser s => if o.freq s = f then .ser (o.clip s lo hi) else v
  | _ => v

/-- **clip, positive half**: every series of the frequency is clipped, every other item is as it was -/
theorem clip_lookup (o : SOps S) (db : Box S V) (f : BFreq) (lo hi : Option Int) (hne : lo ≠ none ∨ hi ≠ none) (n : String) :
    lookup (clip o db f lo hi) n = (lookup db n).map (clipItem o f lo hi) := by
  unfold clip
  have key : lookup (db.map (fun p => match p.2 with
      | .ser s => if o.freq s = f then (p.1, .ser (o.clip s lo hi)) else p
      | _ => p)) n = (lookup db n).map (clipItem o f lo hi) := by
    rw [← lookup_map_val (fun _ v => clipItem o f lo hi v)]
    congr 1
    apply List.map_congr_left
    intro p _
    obtain ⟨k, v⟩ := p
    cases v with
    | ser s => simp only [clipItem]; split <;> rfl
    | scalar x => rfl
    | list l => rfl
  cases lo <;> cases hi
  · simp at hne
  all_goals exact key

/-- **keep, positive half** -/
theorem keep_lookup (db : Box S V) (sel : Sel) (strict : Bool) (n : String) :
    lookup (keep db (some sel) strict) n
      = if (resolveSources (keys db) sel strict).contains n then lookup db n else none := by
  unfold keep
  exact lookup_filter_key (fun k => (resolveSources (keys db) sel strict).contains k) db n

theorem keys_delKey {α : Type} (db : List (String × α)) (k : String) : keys (delKey db k) = (keys db).filter (fun x => x ≠ k) := by
  simp only [keys, delKey, List.filter_map]
  rfl

/-- **remove, positive half**: distinct existing names are deleted, in one go -/
theorem removeNames_eq (db : Box S V) (ns : List String) (hnd : ns.Nodup) (hin : ∀ n ∈ ns, n ∈ keys db) :
    removeNames db ns = .ok (db.filter (fun p => !ns.contains p.1)) := by
  induction ns generalizing db with
  | nil =>
    simp only [removeNames, pure, Except.pure, List.contains_nil, Bool.not_false]
    rw [List.filter_eq_self.mpr (fun _ _ => rfl)]
  | cons n rest ih =>
    simp only [List.nodup_cons] at hnd
    unfold removeNames
    have hc : (keys db).contains n = true := by simpa using hin n (by simp)
    simp only [hc, if_true]
    rw [ih (delKey db n) hnd.2]
    · congr 1
      unfold delKey
      rw [List.filter_filter]
      apply List.filter_congr
      intro p _
      by_cases hp : p.1 = n
      · simp [hp]
      · simp [hp, Ne.symm hp]
    · intro m hm
      rw [keys_delKey]
      apply List.mem_filter.mpr
      refine ⟨hin m (List.mem_cons_of_mem _ hm), ?_⟩
      have : m ≠ n := fun e => hnd.1 (e ▸ hm)
      simp [this]

theorem applyOps_append (o : SOps S) (db : Box S V) (ops1 ops2 : List (Op S V)) :
    applyOps o db (ops1 ++ ops2) = (applyOps o db ops1 >>= fun d => applyOps o d ops2) := by
  induction ops1 generalizing db with
  | nil => rfl
  | cons op rest ih =>
    simp only [List.cons_append, applyOps]
    cases h : applyOp o db op with
    | error e => rfl
    | ok d1 => simp only [bind, Except.bind]; exact ih d1

end

theorem lookup_append {α : Type} (a b : List (String × α)) (n : String) :
    lookup (a ++ b) n = match lookup a n with | some x => some x | none => lookup b n := by
  induction a with
  | nil => rfl
  | cons p rest ih =>
    obtain ⟨k, v⟩ := p
    simp only [List.cons_append, lookup]
    by_cases hk : k = n
    · simp [hk]
    · simp [hk, ih]

theorem lookup_of_mem_keys {α : Type} (db : List (String × α)) (n : String) (h : n ∈ keys db) : ∃ v, lookup db n = some v := by
  induction db with
  | nil => simp [keys] at h
  | cons p rest ih =>
    obtain ⟨k, v⟩ := p
    simp only [lookup]
    by_cases hk : k = n
    · exact ⟨v, by simp [hk]⟩
    · simp only [keys, List.map_cons, List.mem_cons] at h
      rcases h with h | h
      · exact absurd h.symm hk
      · obtain ⟨w, hw⟩ := ih h
        exact ⟨w, by simp [hk, hw]⟩

theorem lookup_none_of_not_mem {α : Type} (db : List (String × α)) (n : String) (h : n ∉ keys db) : lookup db n = none := by
  induction db with
  | nil => rfl
  | cons p rest ih =>
    obtain ⟨k, v⟩ := p
    simp only [keys, List.map_cons, List.mem_cons, not_or] at h
    simp only [lookup]
    rw [if_neg (fun e => h.1 e.symm)]
    exact ih h.2

theorem lookup_delKey_ne {α : Type} (db : List (String × α)) (k n : String) (h : n ≠ k) :
    lookup (delKey db k) n = lookup db n := by
  unfold delKey
  have := lookup_filter_key (fun x => decide (x ≠ k)) db n
  simpa [h] using this

theorem lookup_setKey {α : Type} (db : List (String × α)) (k n : String) (v : α) :
    lookup (setKey db k v) n = if k = n then some v else lookup db n := by
  induction db with
  | nil => simp [setKey, lookup]
  | cons p rest ih =>
    obtain ⟨k', v'⟩ := p
    unfold setKey
    by_cases h : k' = k
    · subst h
      by_cases h2 : k' = n
      · simp [lookup, h2]
      · simp [lookup, h2]
    · simp only [h, if_false, lookup]
      by_cases h2 : k' = n
      · subst h2; simp [Ne.symm h]
      · simp [h2, ih]

theorem filterMap_congr_mem {α β : Type} (f g : α → Option β) (l : List α) (h : ∀ x ∈ l, f x = g x) :
    l.filterMap f = l.filterMap g := by
  induction l with
  | nil => rfl
  | cons a l ih =>
    simp only [List.filterMap_cons, h a (by simp), ih (fun x hx => h x (List.mem_cons_of_mem _ hx))]

theorem setKey_of_not_mem' {α : Type} (db : List (String × α)) (k : String) (v : α) (h : k ∉ keys db) :
    setKey db k v = db ++ [(k, v)] := by
  induction db with
  | nil => rfl
  | cons p rest ih =>
    obtain ⟨k', v'⟩ := p
    simp only [keys, List.map_cons, List.mem_cons, not_or] at h
    unfold setKey
    rw [if_neg (fun e => h.1 e.symm)]
    rw [ih (by simpa [keys] using h.2)]
    rfl

section
variable {S V : Type}

/-- popping distinct existing names: the dictionary without them, and their values in order -/
theorem popAll_eq (db : Box S V) (ns : List String) (hnd : ns.Nodup) (hin : ∀ n ∈ ns, n ∈ keys db) :
    popAll db ns = .ok (db.filter (fun q => !ns.contains q.1), ns.filterMap (lookup db)) := by
  induction ns generalizing db with
  | nil =>
    simp only [popAll, pure, Except.pure, List.contains_nil, Bool.not_false, List.filterMap_nil]
    rw [List.filter_eq_self.mpr (fun _ _ => rfl)]
  | cons n rest ih =>
    simp only [List.nodup_cons] at hnd
    obtain ⟨v, hv⟩ := lookup_of_mem_keys db n (hin n (by simp))
    unfold popAll
    simp only [hv]
    have hin' : ∀ m ∈ rest, m ∈ keys (delKey db n) := by
      intro m hm
      rw [keys_delKey]
      have hne : m ≠ n := fun e => hnd.1 (e ▸ hm)
      exact List.mem_filter.mpr ⟨hin m (List.mem_cons_of_mem _ hm), by simp [hne]⟩
    rw [ih (delKey db n) hnd.2 hin']
    simp only [bind, Except.bind, pure, Except.pure, List.filterMap_cons, hv]
    congr 2
    · unfold delKey
      rw [List.filter_filter]
      apply List.filter_congr
      intro q _
      by_cases hq : q.1 = n
      · simp [hq]
      · simp [hq, Ne.symm hq]
    · congr 1
      apply filterMap_congr_mem
      intro m hm
      exact lookup_delKey_ne _ _ _ (fun e => hnd.1 (e ▸ hm))

theorem assignAll_fresh (db : Box S V) (l : List (String × Item S V)) (hnd : (keys l).Nodup) (hf : ∀ p ∈ l, p.1 ∉ keys db) :
    assignAll db l = db ++ l := by
  unfold assignAll
  induction l generalizing db with
  | nil => simp
  | cons p rest ih =>
    simp only [keys, List.map_cons, List.nodup_cons] at hnd
    simp only [List.foldl_cons]
    rw [setKey_of_not_mem' db p.1 p.2 (hf p (by simp)), ih _ hnd.2]
    · simp
    · intro q hq hm
      simp only [keys, List.map_append, List.map_cons, List.map_nil, List.mem_append, List.mem_singleton] at hm
      rcases hm with hm | hm
      · exact hf q (List.mem_cons_of_mem _ hq) hm
      · exact hnd.1 (hm ▸ List.mem_map_of_mem (f := (·.1)) hq)

theorem lookup_assignAll_other (db : Box S V) (l : List (String × Item S V)) (k : String) (h : k ∉ keys l) :
    lookup (assignAll db l) k = lookup db k := by
  unfold assignAll
  induction l generalizing db with
  | nil => rfl
  | cons p rest ih =>
    simp only [keys, List.map_cons, List.mem_cons, not_or] at h
    simp only [List.foldl_cons]
    rw [ih _ (by simpa [keys] using h.2), lookup_setKey, if_neg (Ne.symm h.1)]

theorem lookup_assignAll_mem (db : Box S V) (l : List (String × Item S V)) (hnd : (keys l).Nodup) (k : String) (v : Item S V)
    (h : (k, v) ∈ l) : lookup (assignAll db l) k = some v := by
  induction l generalizing db with
  | nil => simp at h
  | cons p rest ih =>
    simp only [keys, List.map_cons, List.nodup_cons] at hnd
    have e : assignAll db (p :: rest) = assignAll (setKey db p.1 p.2) rest := rfl
    rw [e]
    rcases List.mem_cons.mp h with h | h
    · subst h
      rw [lookup_assignAll_other _ _ _ (by simpa [keys] using hnd.1), lookup_setKey]
      simp
    · exact ih _ (by simpa [keys] using hnd.2) h

theorem zip_values (db : Box S V) (pairs : List (String × String)) (hin : ∀ p ∈ pairs, p.1 ∈ keys db) :
    (pairs.map (·.2)).zip ((pairs.map (·.1)).filterMap (lookup db))
      = pairs.filterMap (fun st => (lookup db st.1).map (fun v => (st.2, v))) := by
  induction pairs with
  | nil => rfl
  | cons p rest ih =>
    obtain ⟨v, hv⟩ := lookup_of_mem_keys db p.1 (hin p (by simp))
    simp only [List.map_cons, List.filterMap_cons, hv, Option.map_some, List.zip_cons_cons]
    rw [ih (fun q hq => hin q (List.mem_cons_of_mem _ hq))]

theorem keys_zip_values (db : Box S V) (pairs : List (String × String)) (hin : ∀ p ∈ pairs, p.1 ∈ keys db) :
    keys (pairs.filterMap (fun st => (lookup db st.1).map (fun v => (st.2, v)))) = pairs.map (·.2) := by
  induction pairs with
  | nil => rfl
  | cons p rest ih =>
    obtain ⟨v, hv⟩ := lookup_of_mem_keys db p.1 (hin p (by simp))
    simp only [List.filterMap_cons, hv, Option.map_some, keys, List.map_cons]
    have := ih (fun q hq => hin q (List.mem_cons_of_mem _ hq))
    simp only [keys] at this
    rw [this]

/-- the simultaneous rename on distinct existing sources, in closed form -/
theorem renamePairs_eq (db : Box S V) (pairs : List (String × String))
    (hs : (pairs.map (·.1)).Nodup) (hin : ∀ p ∈ pairs, p.1 ∈ keys db) :
    renamePairs db pairs = .ok (assignAll (db.filter (fun q => !(pairs.map (·.1)).contains q.1))
      (pairs.filterMap (fun st => (lookup db st.1).map (fun v => (st.2, v))))) := by
  unfold renamePairs
  rw [popAll_eq db _ hs (by
    intro n hn
    obtain ⟨p, hp, rfl⟩ := List.mem_map.mp hn
    exact hin p hp)]
  simp only [bind, Except.bind, pure, Except.pure]
  rw [zip_values db pairs hin]

/-- **rename, positive half**: distinct existing sources renamed to distinct fresh targets -- the sources disappear, every
target is bound to the value its source had, appended in the order of the pairs; everything else stays in place -/
theorem renamePairs_fresh (db : Box S V) (pairs : List (String × String))
    (hs : (pairs.map (·.1)).Nodup) (hin : ∀ p ∈ pairs, p.1 ∈ keys db)
    (ht : (pairs.map (·.2)).Nodup) (hfresh : ∀ p ∈ pairs, p.2 ∉ keys db) :
    renamePairs db pairs = .ok (db.filter (fun q => !(pairs.map (·.1)).contains q.1)
      ++ pairs.filterMap (fun st => (lookup db st.1).map (fun v => (st.2, v)))) := by
  rw [renamePairs_eq db pairs hs hin, assignAll_fresh]
  · rw [keys_zip_values db pairs hin]; exact ht
  · intro p hp hm
    have hk : p.1 ∈ pairs.map (·.2) := by
      rw [← keys_zip_values db pairs hin]; exact List.mem_map_of_mem (f := (·.1)) hp
    obtain ⟨q, hq, hqe⟩ := List.mem_map.mp hk
    have : p.1 ∈ keys db := by
      simp only [keys] at hm ⊢
      obtain ⟨x, hx, hxe⟩ := List.mem_map.mp hm
      exact List.mem_map.mpr ⟨x, (List.mem_filter.mp hx).1, hxe⟩
    exact hfresh q hq (hqe ▸ this)

/-- **no value is lost** (swaps, chains, cycles, identities, targets onto existing names): for distinct existing sources and
distinct targets, after the call every target is bound to the value its source had before it, every source that is not a
target is gone, and every other name is bound as before -/
theorem renamePairs_simultaneous (db : Box S V) (pairs : List (String × String))
    (hs : (pairs.map (·.1)).Nodup) (hin : ∀ p ∈ pairs, p.1 ∈ keys db) (ht : (pairs.map (·.2)).Nodup) :
    ∃ r, renamePairs db pairs = .ok r
      ∧ (∀ p ∈ pairs, lookup r p.2 = lookup db p.1)
      ∧ (∀ n, n ∉ pairs.map (·.2) → lookup r n = if n ∈ pairs.map (·.1) then none else lookup db n) := by
  refine ⟨_, renamePairs_eq db pairs hs hin, ?_, ?_⟩
  · intro p hp
    obtain ⟨v, hv⟩ := lookup_of_mem_keys db p.1 (hin p hp)
    rw [hv]
    apply lookup_assignAll_mem
    · rw [keys_zip_values db pairs hin]; exact ht
    · exact List.mem_filterMap.mpr ⟨p, hp, by simp [hv]⟩
  · intro n hn
    rw [lookup_assignAll_other _ _ _ (by rw [keys_zip_values db pairs hin]; exact hn)]
    have := lookup_filter_key (fun k => !(pairs.map (·.1)).contains k) db n
    rw [this]
    by_cases hm : n ∈ pairs.map (·.1) <;> simp [hm]

end


theorem lookup_delKey_self {α : Type} (db : List (String × α)) (k : String) : lookup (delKey db k) k = none := by
  unfold delKey
  have := lookup_filter_key (fun x => decide (x ≠ k)) db k
  simpa using this

section
variable {S V : Type}

/-- **when overlay / underlay / prepend apply to a name**: exactly when both items are series, the own series has a known
frequency and the two frequencies are equal -- whatever that frequency is (the integer frequency like any other) -/
theorem layAct_apply_iff (o : SOps S) (db other : Box S V) (n : String) :
    layAct o db other n = .apply ↔
      ∃ s t, lookup db n = some (.ser s) ∧ lookup other n = some (.ser t) ∧ o.freq s ≠ .U ∧ o.freq s = o.freq t := by
  unfold layAct
  constructor
  · intro h
    cases hl : lookup db n with
    | none => simp [hl] at h
    | some it =>
      cases it with
      | ser s =>
        simp only [hl] at h
        by_cases hU : o.freq s = .U
        · simp [hU] at h
        · simp only [hU, if_false] at h
          cases ho : lookup other n with
          | none => simp [ho] at h
          | some jt =>
            cases jt with
            | ser t =>
              simp only [ho] at h
              by_cases hf : o.freq s = o.freq t
              · exact ⟨s, t, rfl, rfl, hU, hf⟩
              · simp [hf] at h
            | scalar v => simp [ho] at h
            | list l => simp [ho] at h
      | scalar v => simp [hl] at h
      | list l => simp [hl] at h
  · rintro ⟨s, t, h1, h2, h3, h4⟩
    have h3' : o.freq t ≠ .U := h4 ▸ h3
    simp [h1, h2, h4, h3']

/-- **rename onto an existing name** (the sequential semantics of `self[t] = self.pop(s)`): the source disappears, the target keeps
its place in the dictionary and is re-bound to the source's value (its old value is lost), every other binding is unchanged -/
theorem rename_onto_existing (db : Box S V) (s t : String) (v : Item S V) (hs : lookup db s = some v) (hst : s ≠ t) :
    renamePairs db [(s, t)] = .ok (setKey (delKey db s) t v)
      ∧ lookup (setKey (delKey db s) t v) t = some v
      ∧ lookup (setKey (delKey db s) t v) s = none
      ∧ ∀ n, n ≠ s → n ≠ t → lookup (setKey (delKey db s) t v) n = lookup db n := by
  refine ⟨by simp [renamePairs, popAll, assignAll, hs, bind, Except.bind, pure, Except.pure], by simp [lookup_setKey], ?_, ?_⟩
  · rw [lookup_setKey, if_neg (Ne.symm hst), lookup_delKey_self]
  · intro n h1 h2
    rw [lookup_setKey, if_neg (Ne.symm h2), lookup_delKey_ne _ _ _ h1]

/-- what `merge` binds a name to, given the old binding and the incoming one -/
def mergeSpec (o : SOps S) (st : Strategy) (old : Option (Item S V)) (new : Option (Item S V)) : Option (Item S V) :=
  match new, old with
  | none, x => x
  | some v, none => some v
  | some v, some w => mergeExisting o st w v

/-- **merge, as a dictionary equation** (one incoming databox): every name is bound to `mergeSpec` of its old and its incoming
binding -- new names take the incoming value, existing names the strategy's result, names not in the incoming databox stay -/
theorem mergeOne_lookup (o : SOps S) (st : Strategy) (t : Box S V) (ht : (keys t).Nodup) (db r : Box S V) (dup : Bool)
    (h : mergeOne o st db t = .ok (r, dup)) (k : String) :
    lookup r k = mergeSpec o st (lookup db k) (lookup t k) := by
  induction t generalizing db dup with
  | nil => simp [mergeOne, pure, Except.pure] at h; rw [← h.1]; simp [mergeSpec, lookup]
  | cons p rest ih =>
    obtain ⟨k0, v0⟩ := p
    simp only [keys, List.map_cons, List.nodup_cons] at ht
    have hk0 : lookup rest k0 = none := lookup_none_of_not_mem rest k0 ht.1
    unfold mergeOne at h
    cases hl : lookup db k0 with
    | none =>
      simp only [hl] at h
      rw [ih ht.2 _ _ h, lookup_append]
      by_cases hk : k0 = k
      · subst hk; simp [hl, hk0, lookup, mergeSpec]
      · simp only [lookup, hk, if_false]
        cases hd : lookup db k <;> simp
    | some old =>
      simp only [hl] at h
      cases hm : mergeExisting o st old v0 with
      | none => simp [hm, throw, throwThe, MonadExceptOf.throw] at h
      | some w =>
        simp only [hm] at h
        cases hr : mergeOne o st (setKey db k0 w) rest with
        | error e => simp [hr, bind, Except.bind] at h
        | ok x =>
          obtain ⟨r1, d1⟩ := x
          simp [hr, bind, Except.bind, pure, Except.pure] at h
          obtain ⟨rfl, _⟩ := h
          rw [ih ht.2 _ _ hr, lookup_setKey]
          by_cases hk : k0 = k
          · subst hk; simp [hl, hk0, lookup, mergeSpec, hm]
          · simp [lookup, hk]

end


theorem zip_map_fst_snd {α β : Type} (l : List (α × β)) : (l.map (·.1)).zip (l.map (·.2)) = l := by
  induction l with
  | nil => rfl
  | cons p rest ih => simp [ih]

section
variable {S V : Type}

/-- a missing source is rejected (`KeyError`), whatever else is in the list -/
theorem popAll_missing (db : Box S V) (ns : List String) (h : ∃ n ∈ ns, n ∉ keys db) : popAll db ns = .error .badInput := by
  induction ns generalizing db with
  | nil => obtain ⟨n, hn, _⟩ := h; simp at hn
  | cons m rest ih =>
    unfold popAll
    cases hl : lookup db m with
    | none => rfl
    | some v =>
      simp only []
      obtain ⟨n, hn, hnk⟩ := h
      have hne : n ≠ m := by
        intro e; subst e
        exact hnk (by
          have := lookup_some_mem hl
          exact List.mem_map_of_mem (f := (·.1)) this)
      have hn' : n ∈ rest := by
        rcases List.mem_cons.mp hn with h | h
        · exact absurd h hne
        · exact h
      rw [ih (delKey db m) ⟨n, hn', by rw [keys_delKey]; intro hm; exact hnk (List.mem_filter.mp hm).1⟩]
      rfl

theorem removeNames_missing (db : Box S V) (ns : List String) (h : ∃ n ∈ ns, n ∉ keys db) :
    removeNames db ns = .error .badInput := by
  induction ns generalizing db with
  | nil => obtain ⟨n, hn, _⟩ := h; simp at hn
  | cons m rest ih =>
    unfold removeNames
    by_cases hc : (keys db).contains m = true
    · simp only [hc, if_true]
      obtain ⟨n, hn, hnk⟩ := h
      have hne : n ≠ m := by
        intro e; subst e; exact hnk (by simpa using hc)
      have hn' : n ∈ rest := by
        rcases List.mem_cons.mp hn with h | h
        · exact absurd h hne
        · exact h
      exact ih (delKey db m) ⟨n, hn', by rw [keys_delKey]; intro hm; exact hnk (List.mem_filter.mp hm).1⟩
    · simp only [hc, Bool.false_eq_true, if_false]
      rfl

/-- copy with renaming, non-strict, in closed form -/
theorem copy_renaming (db : Box S V) (src : Sel) (tgt : Tgt)
    (hs : ((resolvePairs (keys db) src tgt false).map (·.1)).Nodup)
    (ht : ((resolvePairs (keys db) src tgt false).map (·.2)).Nodup) :
    ∃ r, copy db (some src) (some tgt) false = .ok r
      ∧ (∀ p ∈ resolvePairs (keys db) src tgt false, lookup r p.2 = lookup db p.1)
      ∧ (∀ n, n ∉ (resolvePairs (keys db) src tgt false).map (·.2) → lookup r n = none) := by
  have hin : ∀ p ∈ resolvePairs (keys db) src tgt false, p.1 ∈ keys db := by
    intro p hp
    simp only [resolvePairs, Bool.false_eq_true, if_false] at hp
    simpa using (List.mem_filter.mp hp).2
  have hl : copyLists (keys db) (some src) (some tgt) false
      = ((resolvePairs (keys db) src tgt false).map (·.1), (resolvePairs (keys db) src tgt false).map (·.2)) := by
    simp [copyLists, resolvePairs]
  -- re-resolving the already resolved tuples gives the same pairs
  have hre : resolvePairs (keys db) (Sel.names ((resolvePairs (keys db) src tgt false).map (·.1)))
      (Tgt.names ((resolvePairs (keys db) src tgt false).map (·.2))) false = resolvePairs (keys db) src tgt false := by
    have : resolvePairs (keys db) (Sel.names ((resolvePairs (keys db) src tgt false).map (·.1)))
        (Tgt.names ((resolvePairs (keys db) src tgt false).map (·.2))) false
        = (((resolvePairs (keys db) src tgt false).map (·.1)).zip ((resolvePairs (keys db) src tgt false).map (·.2))).filter
            (fun p => (keys db).contains p.1) := by
      simp [resolvePairs, Sel.resolve, Tgt.resolve]
    rw [this, zip_map_fst_snd]
    apply List.filter_eq_self.mpr
    intro p hp
    simpa using hin p hp
  obtain ⟨r1, h1, h2, h3⟩ := renamePairs_simultaneous db _ hs hin ht
  refine ⟨keep r1 (some (Sel.names ((resolvePairs (keys db) src tgt false).map (·.2)))) false, ?_, ?_, ?_⟩
  · simp only [copy, hl, rename, hre, h1, bind, Except.bind, pure, Except.pure]
  · intro p hp
    rw [keep_lookup]
    have hv : lookup r1 p.2 = lookup db p.1 := h2 p hp
    obtain ⟨v, hv'⟩ := lookup_of_mem_keys db p.1 (hin p hp)
    have hk : p.2 ∈ keys r1 := by
      have := lookup_some_mem (hv.trans hv')
      exact List.mem_map_of_mem (f := (·.1)) this
    have : (resolveSources (keys r1) (Sel.names ((resolvePairs (keys db) src tgt false).map (·.2))) false).contains p.2 = true := by
      simp only [resolveSources, Sel.resolve, Bool.false_eq_true, if_false, List.contains_eq_mem, decide_eq_true_eq]
      exact List.mem_filter.mpr ⟨List.mem_map_of_mem (f := (·.2)) hp, by simpa using hk⟩
    rw [if_pos this, hv]
  · intro n hn
    rw [keep_lookup]
    have : (resolveSources (keys r1) (Sel.names ((resolvePairs (keys db) src tgt false).map (·.2))) false).contains n = false := by
      simp only [resolveSources, Sel.resolve, Bool.false_eq_true, if_false, List.contains_eq_mem, decide_eq_false_iff_not]
      intro hm; exact hn (List.mem_filter.mp hm).1
    rw [this]
    rfl

end

end IrisVerif.Databox
