/-
Tie T for the matrix code of property C03 (Kalman filter): one pass of the loop body of `predict` in the hand-written
model `Model/Kalman.lean` (`predictStep`: MSE prediction, median prediction, MSE updating, median updating) EQUALS the
two fragments that `tools/gens/npmat_c03.py` regenerates on every run from the loop body of
`/repo/src/irispie/fords/kalmans.py::predict` (`Generated/KalmanStepGen.lean`), for every system, every period input and
every set of observed rows (including none).

What is instantiated: `P` is present (`some s.P`), there is no anticipated-shock impact (`v_impact = None`),
`create_empty()` is the 0 × 0 matrix, `any_y` is "some measurement is observed", and the external `inv` is replaced by
the model's checked exact inverse (the model fails with `singular` where that does not exist).
-/
import IrisVerif.Props.GenTieCore
import IrisVerif.Model.Kalman
import IrisVerif.Generated.KalmanStepGen

namespace IrisVerif.GenTieC03

open IrisVerif IrisVerif.QMat IrisVerif.Kalman IrisVerif.GenTie IrisVerif.QMatNp

/-- what a successful `predictStep` returns (read off the definition) -/
theorem predictStep_ok (s : Sys) (a1p Q1p : QMat) (p : PeriodIn) (c : PeriodCache)
    (h : predictStep s a1p Q1p p = .ok c) :
    let Z := s.Z.selectRows p.obs
    let H := s.H.selectRows p.obs
    let D := s.D.selectRows p.obs
    let covU := covOfStd p.stdU
    let covW := covOfStd p.stdW
    let Q0 := symmetrize (s.T * Q1p * s.T.transpose + s.P * covU * s.P.transpose)
    let F := symmetrize (Z * Q0 * Z.transpose + H * covW * H.transpose)
    ∃ x, QMat.inverse F = some x ∧
      c = (let Fi := symmetrize x
           let a0 := s.T * a1p + s.K + s.P * p.u0
           let y0 := Z * a0 + D + H * p.w0
           let ZtFi := Z.transpose * Fi
           let G := Q0 * ZtFi
           let Q1 := symmetrize (Q0 - G * Z * Q0)
           let pe := p.y - y0
           let a1 := a0 + G * pe
           { numObs := p.obs.length, Z, H, D, y := p.y, u0 := p.u0, w0 := p.w0, a0, y0, pe, Q0, F, Fi, ZtFi, G, Q1, a1,
             PcovU := s.P * covU, HcovW := H * covW }) := by
  intro Z H D covU covW Q0 F
  unfold predictStep at h
  simp only [bind, Except.bind, pure, Except.pure] at h
  split at h
  · simp [throw, throwThe, MonadExceptOf.throw] at h
  · split at h
    · rename_i x hx
      injection h with h
      exact ⟨x, hx, h.symm⟩
    · simp [throw, throwThe, MonadExceptOf.throw] at h


/-- `symmetrize(X) = (X + X.T) / 2` (generated from fords/covariances.py) is the model's `½ (X + Xᵀ)` -/
theorem model_eq_generated_symmetrize (x : QMat) : symmetrize x = Gen.KalmanSymmetrize.symmetrize x := by
  unfold symmetrize Gen.KalmanSymmetrize.symmetrize QMat.smul QMatNp.divScalar
  apply ofFn_congr
  intro i j _ _
  rw [div_eq_mul_inv, div_eq_mul_inv, one_mul, mul_comm]

/-- a matrix with no rows and no columns that is an `ofFn` is the empty matrix -/
theorem symmetrize_empty (x : QMat) (hr : x.rows = 0) (hc : x.cols = 0) :
    symmetrize x = Gen.KalmanSymmetrize.symmetrize (QMat.zero 0 0) := by
  rw [model_eq_generated_symmetrize]
  unfold Gen.KalmanSymmetrize.symmetrize QMatNp.divScalar
  apply ofFn_congr' _ _ (by rw [add_rows, hr]; rfl) (by rw [add_cols, hc]; rfl)
  intro i j hi' _
  rw [add_rows, hr] at hi'
  omega

theorem selectRows_nil_rows (a : QMat) : (a.selectRows []).rows = 0 := rfl

/-- "some measurement is observed in this period" (`any_y = cache.all_num_obs[t] > 0`) -/
def anyY (p : PeriodIn) : Bool := decide (0 < p.obs.length)

/-- **the MSE prediction fragment** (`if P is not None: …` to `F = symmetrize(F)`) computes the model's
`P u0`, `P Σ_u`, `Q0`, `H Σ_w`, `F` -/
theorem model_eq_generated_predict_mse (s : Sys) (Q1p : QMat) (p : PeriodIn) :
    let Z := s.Z.selectRows p.obs
    let H := s.H.selectRows p.obs
    let covU := covOfStd p.stdU
    let covW := covOfStd p.stdW
    let Q0 := symmetrize (s.T * Q1p * s.T.transpose + s.P * covU * s.P.transpose)
    (s.P * p.u0, s.P * covU, Q0, H * covW, symmetrize (Z * Q0 * Z.transpose + H * covW * H.transpose))
      = Gen.KalmanStep.predict_mse (QMat.zero 0 0) s.T (some s.P) Z H covU covW p.u0 Q1p (anyY p) := by
  intro Z H covU covW Q0
  unfold Gen.KalmanStep.predict_mse
  simp only []
  rw [← model_eq_generated_symmetrize]
  by_cases hy : anyY p = true
  · simp only [hy, if_true]
    rw [← model_eq_generated_symmetrize]
  · simp only [hy, if_false, Bool.false_eq_true]
    have hobs : p.obs = [] := by
      unfold anyY at hy
      simp only [decide_eq_true_eq, Nat.not_lt, Nat.le_zero, List.length_eq_zero_iff] at hy
      exact hy
    have hZ : Z.rows = 0 := by show (s.Z.selectRows p.obs).rows = 0; rw [hobs]; rfl
    rw [symmetrize_empty _ (by rw [add_rows, mul_rows, mul_rows]; exact hZ)
      (by rw [add_cols, mul_cols, transpose_cols]; exact hZ)]

/-- **one pass of the loop body of `predict`**: whenever the model's `predictStep` succeeds, the cache it returns is
the output of the two generated fragments, the second one run with `inv :=` the model's checked inverse of `F` -/
theorem model_eq_generated_predictStep (s : Sys) (a1p Q1p : QMat) (p : PeriodIn) (c : PeriodCache)
    (h : predictStep s a1p Q1p p = .ok c) :
    (s.P * p.u0, c.PcovU, c.Q0, c.HcovW, c.F)
      = Gen.KalmanStep.predict_mse (QMat.zero 0 0) s.T (some s.P) c.Z c.H (covOfStd p.stdU) (covOfStd p.stdW) p.u0 Q1p
          (anyY p) ∧
    ∃ x, QMat.inverse c.F = some x ∧
      (c.Fi, c.a0, c.y0, c.ZtFi, c.G, c.Q1, c.pe, c.a1)
        = Gen.KalmanStep.predict_update (fun _ => x) (QMat.zero 0 0) s.T s.K c.Z c.H c.D none a1p (s.P * p.u0) p.w0 c.y
            c.Q0 c.F (anyY p) := by
  obtain ⟨x, hx, hc⟩ := predictStep_ok s a1p Q1p p c h
  subst hc
  refine ⟨model_eq_generated_predict_mse s Q1p p, x, hx, ?_⟩
  unfold Gen.KalmanStep.predict_update
  simp only []
  have ha0 : QMatNp.addScalar (s.T * a1p + s.K + s.P * p.u0) 0 = s.T * a1p + s.K + s.P * p.u0 := by
    unfold QMatNp.addScalar
    conv_rhs => rw [eq_ofFn_of_wellShaped (s.T * a1p + s.K + s.P * p.u0) (wellShaped_add _ _)]
    apply ofFn_congr
    intro i j _ _
    rw [add_zero]
  rw [ha0]
  have hFi : symmetrize x = Gen.KalmanSymmetrize.symmetrize (if anyY p = true then x else QMat.zero 0 0) := by
    by_cases hy : anyY p = true
    · simp only [hy, if_true]; exact model_eq_generated_symmetrize x
    · simp only [hy, if_false, Bool.false_eq_true]
      have hobs : p.obs = [] := by
        unfold anyY at hy
        simp only [decide_eq_true_eq, Nat.not_lt, Nat.le_zero, List.length_eq_zero_iff] at hy
        exact hy
      obtain ⟨_, hxr, hxc, _, _⟩ := inverse_sound _ x hx
      have hF0 : (symmetrize (s.Z.selectRows p.obs *
          symmetrize (s.T * Q1p * s.T.transpose + s.P * covOfStd p.stdU * s.P.transpose) * (s.Z.selectRows p.obs).transpose +
          s.H.selectRows p.obs * covOfStd p.stdW * (s.H.selectRows p.obs).transpose)).rows = 0 := by
        show (s.Z.selectRows p.obs).rows = 0
        rw [hobs]; rfl
      exact symmetrize_empty x (by rw [hxr]; exact hF0) (by rw [hxc]; exact hF0)
  rw [← hFi, ← model_eq_generated_symmetrize]

end IrisVerif.GenTieC03
