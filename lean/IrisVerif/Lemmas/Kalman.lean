/-
The Kalman recursion of `IrisVerif/Model/Kalman.lean` (= `fords/kalmans.py`) written over Mathlib matrices, any
commutative ring `K` in which 2 is invertible, with the set of observed measurement rows depending on the period
(`p t` is the index type of the rows observed in period `t`: any missing-data pattern).  Same operation structure as the
executable model: the same `symmetrize` calls, `G = Q0 (Zᵀ Fi)`, `Q1 = symm (Q0 - G Z Q0)`, `L = T - T G Z`, backward
recursion for `r`.  The inverse `Fi t` is an input, as in the executable model where `QMat.inverse` re-checks
`F * Fi = 1` exactly; theorems that need it take `F t * Fi t = 1` as a hypothesis.
Vectors are matrices with an arbitrary column index type `k` (`k = Unit` for one data set).
The `None` branches of `one_step_back` (no `r` yet) coincide with `r = 0` in the formulas below.
-/
import Mathlib.Data.Matrix.Mul
import Mathlib.Algebra.Group.Invertible.Defs
import Mathlib.Tactic.Abel
import Mathlib.Tactic.NoncommRing

open Matrix

set_option linter.unusedSectionVars false

namespace IrisVerif.KalmanAbs

variable {n q w k : Type} [Fintype n] [Fintype q] [Fintype w] [Fintype k] [DecidableEq n] [DecidableEq q] [DecidableEq w]
variable {K : Type} [CommRing K] [Invertible (2 : K)]

/-- `covariances.symmetrize` -/
def symm {m : Type} (X : Matrix m m K) : Matrix m m K := (⅟ (2 : K)) • (X + Xᵀ)

theorem symm_transpose {m : Type} (X : Matrix m m K) : (symm X)ᵀ = symm X := by
  unfold symm
  rw [Matrix.transpose_smul, Matrix.transpose_add, Matrix.transpose_transpose, add_comm]

theorem symm_of_symmetric {m : Type} (X : Matrix m m K) (h : Xᵀ = X) : symm X = X := by
  unfold symm
  rw [h]
  ext i j
  simp only [Matrix.smul_apply, Matrix.add_apply, smul_eq_mul]
  rw [← two_mul, ← mul_assoc, invOf_mul_self, one_mul]

/-- inputs of a filter run; `p t` = rows observed in period `t` -/
structure Inputs (n q w k : Type) (p : ℕ → Type) (K : Type) where
  T : Matrix n n K
  P : Matrix n q K
  Kc : Matrix n k K
  Z : ∀ t, Matrix (p t) n K
  H : ∀ t, Matrix (p t) w K
  D : ∀ t, Matrix (p t) k K
  y : ∀ t, Matrix (p t) k K
  Su : ℕ → Matrix q q K
  Sw : ℕ → Matrix w w K
  u0 : ℕ → Matrix q k K
  w0 : ℕ → Matrix w k K
  Fi : ∀ t, Matrix (p t) (p t) K
  aInit : Matrix n k K
  QInit : Matrix n n K

variable {p : ℕ → Type} [∀ t, Fintype (p t)] [∀ t, DecidableEq (p t)]

namespace Inputs
variable (I : Inputs n q w k p K)

/-! one period, as functions of the moments `(a, Q)` handed over from the previous period -/
def Q0f (t : ℕ) (Q : Matrix n n K) : Matrix n n K := symm (I.T * Q * I.Tᵀ + I.P * I.Su t * I.Pᵀ)
def Ff (t : ℕ) (Q : Matrix n n K) : Matrix (p t) (p t) K :=
  symm (I.Z t * I.Q0f t Q * (I.Z t)ᵀ + I.H t * I.Sw t * (I.H t)ᵀ)
def a0f (t : ℕ) (a : Matrix n k K) : Matrix n k K := I.T * a + I.Kc + I.P * I.u0 t
def y0f (t : ℕ) (a : Matrix n k K) : Matrix (p t) k K := I.Z t * I.a0f t a + I.D t + I.H t * I.w0 t
def ZtFi (t : ℕ) : Matrix n (p t) K := (I.Z t)ᵀ * I.Fi t
def Gf (t : ℕ) (Q : Matrix n n K) : Matrix n (p t) K := I.Q0f t Q * I.ZtFi t
def Q1f (t : ℕ) (Q : Matrix n n K) : Matrix n n K := symm (I.Q0f t Q - I.Gf t Q * I.Z t * I.Q0f t Q)
def pef (t : ℕ) (a : Matrix n k K) : Matrix (p t) k K := I.y t - I.y0f t a
def a1f (t : ℕ) (a : Matrix n k K) (Q : Matrix n n K) : Matrix n k K := I.a0f t a + I.Gf t Q * I.pef t a

/-- `state t` = the moments handed to period `t`: the initial ones for `t = 0`, the updated ones of period `t-1` after -/
def state : ℕ → Matrix n k K × Matrix n n K
  | 0 => (I.aInit, I.QInit)
  | t + 1 => (I.a1f t (state t).1 (state t).2, I.Q1f t (state t).2)

def a0 (t : ℕ) := I.a0f t (I.state t).1
def Q0 (t : ℕ) := I.Q0f t (I.state t).2
def F (t : ℕ) := I.Ff t (I.state t).2
def y0 (t : ℕ) := I.y0f t (I.state t).1
def G (t : ℕ) := I.Gf t (I.state t).2
def pe (t : ℕ) := I.pef t (I.state t).1
def a1 (t : ℕ) := (I.state (t + 1)).1
def Q1 (t : ℕ) := (I.state (t + 1)).2
def L (t : ℕ) : Matrix n n K := I.T - I.T * I.G t * I.Z t

/-- backward recursion of `one_step_back` over periods `0 … N-1`: `r_t = Zᵀ Fi pe + Lᵀ r_{t+1}`, nothing (= 0) from `N` on -/
def r (N : ℕ) (t : ℕ) : Matrix n k K :=
  if t < N then I.ZtFi t * I.pe t + (I.L t)ᵀ * r N (t + 1) else 0
termination_by N - t
decreasing_by omega

theorem r_of_lt {N t : ℕ} (h : t < N) : I.r N t = I.ZtFi t * I.pe t + (I.L t)ᵀ * I.r N (t + 1) := by
  rw [r, if_pos h]

theorem r_of_ge {N t : ℕ} (h : N ≤ t) : I.r N t = 0 := by
  rw [r, if_neg (by omega)]

/-- smoothed state, transition shocks, measurement shocks (`ak`, `uk`, `wk` of `one_step_back`) -/
def a2 (N t : ℕ) : Matrix n k K := I.a0 t + I.Q0 t * I.r N t
def u2 (N t : ℕ) : Matrix q k K := I.u0 t + (I.P * I.Su t)ᵀ * I.r N t
def w2 (N t : ℕ) : Matrix w k K :=
  I.w0 t + (I.H t * I.Sw t)ᵀ * (I.Fi t * I.pe t - (I.T * I.G t)ᵀ * I.r N (t + 1))

/-- backward recursion of `one_step_back` for the MSE: `N_t = Zᵀ Fi Z + Lᵀ N_{t+1} L`, nothing (= 0) from `N` on -/
def Nm (N : ℕ) (t : ℕ) : Matrix n n K :=
  if t < N then I.ZtFi t * I.Z t + (I.L t)ᵀ * Nm N (t + 1) * I.L t else 0
termination_by N - t
decreasing_by omega

theorem Nm_of_lt {N t : ℕ} (h : t < N) : I.Nm N t = I.ZtFi t * I.Z t + (I.L t)ᵀ * I.Nm N (t + 1) * I.L t := by
  rw [Nm, if_pos h]

theorem Nm_of_ge {N t : ℕ} (h : N ≤ t) : I.Nm N t = 0 := by
  rw [Nm, if_neg (by omega)]

/-- smoothed MSE of the state (`Qk` of `one_step_back`) -/
def Q2 (N t : ℕ) : Matrix n n K := symm (I.Q0 t - I.Q0 t * I.Nm N t * I.Q0 t)

/-- first-order simulation `x_{j+1} = T x_j + K + P u_{j+1}` started at `x0`, driven by `u (s+1), u (s+2), …` -/
def sim (x0 : Matrix n k K) (u : ℕ → Matrix q k K) (s : ℕ) : ℕ → Matrix n k K
  | 0 => x0
  | j + 1 => I.T * sim x0 u s j + I.Kc + I.P * u (s + j + 1)

end Inputs

/-- hypotheses under which the code runs: symmetric initial MSE and shock covariances, symmetric `Fi` -/
structure Inputs.Regular (I : Inputs n q w k p K) : Prop where
  QInit_symm : I.QInitᵀ = I.QInit
  Su_symm : ∀ t, (I.Su t)ᵀ = I.Su t
  Sw_symm : ∀ t, (I.Sw t)ᵀ = I.Sw t
  Fi_symm : ∀ t, (I.Fi t)ᵀ = I.Fi t

namespace Inputs
variable (I : Inputs n q w k p K)

theorem Q0_symm (t : ℕ) : (I.Q0 t)ᵀ = I.Q0 t := symm_transpose _

theorem state_Q_symm (hI : I.Regular) (t : ℕ) : ((I.state t).2)ᵀ = (I.state t).2 := by
  cases t with
  | zero => exact hI.QInit_symm
  | succ t => exact symm_transpose _

/-- with symmetric inputs the `symmetrize` calls are the identity: `Q0 = T Q Tᵀ + P Σ Pᵀ` -/
theorem Q0_eq (hI : I.Regular) (t : ℕ) :
    I.Q0 t = I.T * (I.state t).2 * I.Tᵀ + I.P * I.Su t * I.Pᵀ := by
  unfold Q0 Q0f
  apply symm_of_symmetric
  simp only [Matrix.transpose_add, Matrix.transpose_mul, Matrix.transpose_transpose, I.state_Q_symm hI t, hI.Su_symm t,
    Matrix.mul_assoc]

theorem F_eq (hI : I.Regular) (t : ℕ) :
    I.F t = I.Z t * I.Q0 t * (I.Z t)ᵀ + I.H t * I.Sw t * (I.H t)ᵀ := by
  unfold F Ff
  apply symm_of_symmetric
  have := I.Q0_symm t
  unfold Q0 at this
  simp only [Matrix.transpose_add, Matrix.transpose_mul, Matrix.transpose_transpose, this, hI.Sw_symm t, Matrix.mul_assoc]

theorem G_transpose (hI : I.Regular) (t : ℕ) : (I.G t)ᵀ = I.Fi t * I.Z t * I.Q0 t := by
  have := I.Q0_symm t
  unfold Q0 at this
  unfold G Gf ZtFi
  simp only [Matrix.transpose_mul, Matrix.transpose_transpose, this, hI.Fi_symm t, Matrix.mul_assoc]
  rfl

theorem Q1_eq (hI : I.Regular) (t : ℕ) : I.Q1 t = I.Q0 t - I.G t * I.Z t * I.Q0 t := by
  show I.Q1f t (I.state t).2 = _
  unfold Q1f
  apply symm_of_symmetric
  have hQ := I.Q0_symm t
  have hG := I.G_transpose hI t
  unfold Q0 at hQ
  unfold G at hG
  have hG' : I.Gf t (I.state t).2 = I.Q0f t (I.state t).2 * ((I.Z t)ᵀ * I.Fi t) := rfl
  rw [Matrix.transpose_sub, Matrix.transpose_mul, Matrix.transpose_mul, hQ, hG]
  rw [hG']
  simp only [Matrix.mul_assoc]
  rfl

theorem Nm_symm (hI : I.Regular) (N : ℕ) : ∀ (d t : ℕ), N - t = d → (I.Nm N t)ᵀ = I.Nm N t := by
  intro d
  induction d with
  | zero =>
    intro t h
    rw [I.Nm_of_ge (by omega), Matrix.transpose_zero]
  | succ d ih =>
    intro t h
    rw [I.Nm_of_lt (by omega)]
    have hZ : I.ZtFi t = (I.Z t)ᵀ * I.Fi t := rfl
    rw [hZ]
    simp only [Matrix.transpose_add, Matrix.transpose_mul, Matrix.transpose_transpose, hI.Fi_symm t, ih (t + 1) (by omega),
      Matrix.mul_assoc]

theorem Q2_eq (hI : I.Regular) (N t : ℕ) : I.Q2 N t = I.Q0 t - I.Q0 t * I.Nm N t * I.Q0 t := by
  unfold Q2
  apply symm_of_symmetric
  simp only [Matrix.transpose_sub, Matrix.transpose_mul, I.Q0_symm t, I.Nm_symm hI N _ t rfl, Matrix.mul_assoc]

end Inputs

end IrisVerif.KalmanAbs
