/-
C14, composition with the proved completeness of `QMat.solve` (`Lemmas/QMatSolve.lean`,
`QMatSolveBridge.filterData_isSome_iff`): the executable model *returns* the unique constrained Hodrick-Prescott minimiser
whenever `λ > 0`, two observations exist and the constraints are independent — hypotheses on the input only — and it refuses
(`none` = `err:singular`) exactly when the constraints are dependent.  Also: the rejection branch of the span resolution,
the rows of the bordered right-hand side, and the locality of the lonf certificate over variants.
-/
import IrisVerif.Props.QMatSolveBridge
import IrisVerif.Props.C14Span
import Mathlib.Logic.Equiv.Fin.Basic

namespace IrisVerif.C14Compose

open Matrix IrisVerif IrisVerif.HP IrisVerif.HPModel IrisVerif.HPMatrix IrisVerif.C14 IrisVerif.QMat

/-! ## the model's matrix on `Fin (n + kl + kc)` and on the block index type -/

/-- block positions → positions of the model's matrix, as an equivalence (its value is `emb`) -/
def blockEquiv (n kl kc : Nat) : Fin n ⊕ (Fin kl ⊕ Fin kc) ≃ Fin (n + kl + kc) :=
  (Equiv.sumAssoc (Fin n) (Fin kl) (Fin kc)).symm.trans
    ((Equiv.sumCongr finSumFinEquiv (Equiv.refl (Fin kc))).trans finSumFinEquiv)

theorem blockEquiv_val (n kl kc : Nat) (r : Fin n ⊕ (Fin kl ⊕ Fin kc)) :
    (blockEquiv n kl kc r).val = emb n kl r := by
  rcases r with t | a | a <;> simp [blockEquiv, emb]

/-- the determinant the solver looks at is the determinant of the theorem-level `hpF` -/
theorem det_sysMatrix_eq (n : Nat) (lam : Rat) (lw cw : List Nat) (y : Array (Option Rat))
    (hl : ∀ a, a < lw.length → lw.getD a 0 < n) (hc : ∀ a, a < cw.length → cw.getD a 0 < n) :
    ((sysMatrix n lam lw cw y).toMat (n + lw.length + cw.length) (n + lw.length + cw.length)).det
      = (hpF (K := ℚ) (obsOf n y) lam (posF n lw hl) (posF n cw hc)).det := by
  have e : hpF (K := ℚ) (obsOf n y) lam (posF n lw hl) (posF n cw hc)
      = ((sysMatrix n lam lw cw y).toMat (n + lw.length + cw.length) (n + lw.length + cw.length)).submatrix
          (blockEquiv n lw.length cw.length) (blockEquiv n lw.length cw.length) := by
    ext r c
    rw [Matrix.submatrix_apply]
    unfold QMat.toMat
    rw [blockEquiv_val, blockEquiv_val]
    exact (model_sysMatrix_eq_hpF n lam lw cw y hl hc r c).symm
  rw [e, Matrix.det_submatrix_equiv_self]

/-- independence of the constraints, on the lists the model works with -/
def Independent (n : Nat) (lw cw : List Nat) (hl : ∀ a, a < lw.length → lw.getD a 0 < n)
    (hc : ∀ a, a < cw.length → cw.getD a 0 < n) : Prop :=
  Function.Injective (posF n lw hl) ∧ Function.Injective (posF n cw hc) ∧
    ∀ i i', (posF n lw hl i).val < (posF n lw hl i').val →
      ∃ j, (posF n lw hl i).val < j ∧ j ≤ (posF n lw hl i').val ∧ ∀ k, (posF n cw hc k).val ≠ j

/-- **The model answers iff the constraints are independent** (`λ > 0`, two observations): `err:singular` is returned for
dependent constraints and for nothing else. -/
theorem filterData_isSome_iff_independent (lg ex : Rat → Rat) (n : Nat) (lam : Rat) (hlam : 0 < lam) (lw cw : List Nat)
    (ld cd : List Rat) (y : Array (Option Rat)) (hy : y.size = n) (hld : ld.length = lw.length) (hcd : cd.length = cw.length)
    (hl : ∀ a, a < lw.length → lw.getD a 0 < n) (hc : ∀ a, a < cw.length → cw.getD a 0 < n)
    (hc0 : ∀ a, a < cw.length → 0 < cw.getD a 0)
    (s t : Fin n) (hst : s ≠ t) (hs : obsOf n y s = true) (ht : obsOf n y t = true) :
    (filterData lg ex n lam lw cw ld cd y).isSome = true ↔ Independent n lw cw hl hc := by
  rw [QMatSolveBridge.filterData_isSome_iff lg ex n lam lw cw ld cd y hy hld hcd, det_sysMatrix_eq n lam lw cw y hl hc]
  exact hp_nonsingular_iff_independent (obsOf n y) lam hlam s t hst hs ht _ _ (fun k => hc0 k.val k.isLt)

/-- **End to end, input-level hypotheses only**: for `λ > 0`, a data column of the right length with two observations,
constraint positions inside the span (changes not at the first period), matching value lists and independent constraints,
the executable model **returns** a trend, and that trend meets every constraint exactly, minimises the Hodrick-Prescott
objective among all sequences meeting them, and is the only such sequence.
(Composition of `solve_complete`/`filterData_isSome_iff`, `hp_nonsingular_iff_independent`, `model_trend_is_the_minimiser`.) -/
theorem model_returns_the_minimiser (n : Nat) (lam : Rat) (hlam : 0 < lam) (lw cw : List Nat) (ld cd : List Rat)
    (y : Array (Option Rat)) (hy : y.size = n) (hld : ld.length = lw.length) (hcd : cd.length = cw.length)
    (hl : ∀ a, a < lw.length → lw.getD a 0 < n) (hc : ∀ a, a < cw.length → cw.getD a 0 < n)
    (hc0 : ∀ a, a < cw.length → 0 < cw.getD a 0)
    (s t : Fin n) (hst : s ≠ t) (hs : obsOf n y s = true) (ht : obsOf n y t = true)
    (hind : Independent n lw cw hl hc) :
    ∃ f, filterData id id n lam lw cw ld cd y = some f ∧
      let τ : Fin n → ℚ := fun t => f.trend.getD t.val 0
      let obs := obsOf n y
      let yv : Fin n → ℚ := fun t => (y.getD t.val none).getD 0
      let feasible : (Fin n → ℚ) → Prop := fun σ =>
        (∀ a : Fin lw.length, σ (posF n lw hl a) = ld.getD a.val 0) ∧
        (∀ a : Fin cw.length, σ (posF n cw hc a) - σ (pred (posF n cw hc a)) = cd.getD a.val 0)
      feasible τ ∧ (∀ σ, feasible σ → hpObj obs yv lam τ ≤ hpObj obs yv lam σ) ∧
        (∀ σ, feasible σ → hpObj obs yv lam σ ≤ hpObj obs yv lam τ → σ = τ) := by
  have hsome := (filterData_isSome_iff_independent id id n lam hlam lw cw ld cd y hy hld hcd hl hc hc0 s t hst hs ht).2 hind
  obtain ⟨f, hf⟩ := Option.isSome_iff_exists.1 hsome
  refine ⟨f, hf, ?_⟩
  obtain ⟨h1, h2, h3⟩ := model_trend_is_the_minimiser n lam hlam lw cw ld cd y hy hld hcd hl hc hc0 f hf
  exact ⟨h1, h2, fun σ hσ hle => h3 s t hst hs ht σ hσ hle⟩

/-- non-vacuity: `n = 4`, `λ = 1`, data `0, 1, –, 9`, a level constraint at period 3 and a change constraint at period 1 are
independent in the sense of `Independent`; the model's answer is the one `model_returns_the_minimiser` describes -/
example : Independent 4 [3] [1] (by decide) (by decide) := by
  have one : ∀ (l : List Nat), l.length = 1 → ∀ a b : Fin l.length, a = b := by
    intro l hl a b
    exact Fin.ext (by have := a.isLt; have := b.isLt; omega)
  refine ⟨fun a b _ => one _ rfl a b, fun a b _ => one _ rfl a b, fun i i' h => ?_⟩
  exfalso
  rw [one _ rfl i i'] at h
  exact lt_irrefl _ h

theorem mapM_isSome {α β : Type} (g : α → Option β) (l : List α) (h : ∀ x ∈ l, (g x).isSome = true) :
    (l.mapM g).isSome = true := by
  induction l with
  | nil => simp
  | cons c l ih =>
    obtain ⟨d, hd⟩ := Option.isSome_iff_exists.1 (h c List.mem_cons_self)
    obtain ⟨ds, hds⟩ := Option.isSome_iff_exists.1 (ih (fun x hx => h x (List.mem_cons_of_mem _ hx)))
    simp [List.mapM_cons, hd, hds]

/-- **`dataHpf` answers** (the function the driver runs against irispie): for `λ > 0`, two observations in every variant
and independent constraints — as `setup` prepares them from the request — every variant is filtered successfully, and by
`BridgeC14.dataHpf_trend_is_the_minimiser` every returned (unclipped) trend is the unique constrained minimiser.  All other
side conditions are derived from `setup` (`BridgeC14.setup_side_conditions`). -/
theorem dataHpf_answers (r : Request) (hlam : 0 < r.lam)
    (hobs : ∀ col ∈ r.dcols, ∃ s t : Fin (setup r).n, s ≠ t ∧
      obsOf (setup r).n ((Ser.mk r.dstart col).fromUntil (setup r).lo (setup r).hi) s = true ∧
      obsOf (setup r).n ((Ser.mk r.dstart col).fromUntil (setup r).lo (setup r).hi) t = true)
    (hind : Independent (setup r).n (setup r).lw (setup r).cw
      (BridgeC14.setup_side_conditions r).2.2.1 (BridgeC14.setup_side_conditions r).2.2.2.1) :
    (dataHpf id id r).isSome = true := by
  obtain ⟨h1, h2, h3, h4, h5, h6⟩ := BridgeC14.setup_side_conditions r
  have hall : ∀ col ∈ r.dcols,
      (filterData id id (setup r).n r.lam (setup r).lw (setup r).cw (setup r).ld (setup r).cd
        ((Ser.mk r.dstart col).fromUntil (setup r).lo (setup r).hi)).isSome = true := by
    intro col hcol
    obtain ⟨s, t, hst, hs, ht⟩ := hobs col hcol
    exact (filterData_isSome_iff_independent id id (setup r).n r.lam hlam (setup r).lw (setup r).cw (setup r).ld (setup r).cd
      _ (h6 col) h1 h2 h3 h4 h5 s t hst hs ht).2 hind
  have hm := mapM_isSome _ _ hall
  rw [C14.model_span_only_clips id id r]
  obtain ⟨fs, hfs⟩ := Option.isSome_iff_exists.1 hm
  rw [hfs]; rfl

/-! ## rejection branches -/

/-- **the span resolution rejects exactly the empty selection and the zero step** (the code raises there) -/
theorem dataHpfReq_none_iff (lg ex : Rat → Rat) (r : Request) (s : SpanReq) :
    dataHpfReq lg ex r s = none ↔
      (s.elems r.dstart (r.dstart + r.dlen - 1) = none ∨ s.elems r.dstart (r.dstart + r.dlen - 1) = some []) := by
  unfold dataHpfReq SpanReq.hull
  cases he : s.elems r.dstart (r.dstart + r.dlen - 1) with
  | none => simp
  | some l =>
    cases l with
    | nil => simp [hullOf]
    | cons a l => simp [hullOf]

theorem elems_none_iff (dlo dhi : Int) (s : SpanReq) :
    s.elems dlo dhi = none ↔ ∃ a b, s = SpanReq.range a b 0 := by
  cases s with
  | dots => simp [SpanReq.elems]
  | periods l => simp [SpanReq.elems]
  | range a b step =>
    by_cases h : step = 0
    · subst h; simp [SpanReq.elems]
    · simp [SpanReq.elems, h]

example : dataHpfReq id id ⟨1, 0, 4, [#[some 0, some 1, none, some 9]], none, none, none⟩ (SpanReq.periods []) = none := by
  decide +kernel
example : dataHpfReq id id ⟨1, 0, 4, [#[some 0, some 1, none, some 9]], none, none, none⟩ (SpanReq.range (some 0) (some 3) 0) = none := by
  decide +kernel
/-- dependent constraints (levels at periods 1 and 2 plus the change at period 2) are refused: `err:singular` -/
example : filterData id id 4 1 [1, 2] [2] [5, 8] [3] #[some 0, some 1, none, some 9] = none := by decide +kernel

/-! ## rows of the bordered right-hand side; the logarithm is applied exactly once to each of them -/

/-- **data block**: row `t` holds `lg y_t` (zero at a missing observation) -/
theorem rhs_data_row (lg : Rat → Rat) (y : Array (Option Rat)) (ld cd : List Rat) (t : Nat) (ht : t < y.size) :
    (rhs lg y ld cd).getD t 0 = (match y.getD t none with | some v => lg v | none => 0) :=
  rhs_get_data lg y ld cd t ht

/-- **level block**: row `n + i` holds (the logarithm of) level value `i` -/
theorem rhs_level_row (lg : Rat → Rat) (y : Array (Option Rat)) (ld cd : List Rat) (i : Nat) (hi : i < ld.length) :
    (rhs lg y ld cd).getD (y.size + i) 0 = lg (ld.getD i 0) :=
  rhs_get_level lg y ld cd i hi

/-- **change block**: row `n + #levels + j` holds (the logarithm of) change value `j` — after, not over, the level values -/
theorem rhs_change_row (lg : Rat → Rat) (y : Array (Option Rat)) (ld cd : List Rat) (j : Nat) (hj : j < cd.length) :
    (rhs lg y ld cd).getD (y.size + ld.length + j) 0 = lg (cd.getD j 0) :=
  rhs_get_change lg y ld cd j hj

/-- the right-hand side has one row per period and per constraint, nothing else -/
theorem rhs_rows (lg : Rat → Rat) (y : Array (Option Rat)) (ld cd : List Rat) :
    (rhs lg y ld cd).size = y.size + ld.length + cd.length := rhs_size lg y ld cd

/-- **the constraint values are the same for every variant and are logged inside each variant's own right-hand side**: the
object's variant loop passes the *unlogged* `ld`, `cd` to every step, and output `k` is the filter of variant `k` with
exactly these values (so the logarithm reaches data, levels and changes once per variant — not once per call, not twice). -/
theorem run_constraints_per_variant (lg ex : Rat → Rat) (n : Nat) (lam : Rat) (lw cw : List Nat) (ld cd : List Rat)
    (ys : List (Array (Option Rat))) :
    ((HPObject.init n lam lw cw).run lg ex ld cd ys).2 = ys.map (filterData lg ex n lam lw cw ld cd) := by
  rw [(C14Span.run_is_map lg ex ld cd _ ys).2]
  rfl

example : rhs (fun z => z / 2) #[some 4, none, some 6] [10, 12] [2] = #[2, 0, 3, 5, 6, 1] := by decide +kernel

/-! ## lonf: the certificate over variants is a map -/

/-- certificates of all variants of a lonf call -/
def l1CertificateAll (order : Nat) (lam : Rat) (vs : List (Array (Option Rat) × QVec × Array (Option Rat))) :
    List (Option L1Cert) :=
  vs.map (fun v => l1Certificate order lam v.1 v.2.1 v.2.2)

/-- **variant locality of the lonf certificate**: certificate `k` is a function of variant `k`'s data, trend and gap only -/
theorem l1CertificateAll_local (order : Nat) (lam : Rat) (vs : List (Array (Option Rat) × QVec × Array (Option Rat))) (k : Nat) :
    (l1CertificateAll order lam vs)[k]? = (vs[k]?).map (fun v => l1Certificate order lam v.1 v.2.1 v.2.2) := by
  unfold l1CertificateAll; rw [List.getElem?_map]

end IrisVerif.C14Compose
