/-
C20 -- Copies, pickles and parameter variants are independent, equivalent models.

Theorems about the heap model of `IrisVerif/Model/Heap.lean` (helper lemmas: `IrisVerif/Lemmas/Heap.lean`) and the
portable codec of `IrisVerif/Model/Portable.lean`.  `Funs` (the numerical routines `F` = solve, `G` = steady solver,
`A` = steady autovalues) is universally quantified everywhere: nothing depends on what they compute.
-/
import IrisVerif.Lemmas.Heap
import IrisVerif.Lemmas.HeapOwned
import IrisVerif.Model.Portable
import IrisVerif.Lemmas.Portable
import IrisVerif.Lemmas.C20State

namespace IrisVerif.C20
open IrisVerif.Heap

/-! ## separation of two families of models -/

/-- `A` and `B` are two regions of the heap, each closed under the stored pointers, with no object in common -/
structure Sep (h : Heap) (A B : Ref → Prop) : Prop where
  wf : h.WF
  closedA : Closed A h
  closedB : Closed B h
  disj : ∀ x, A x → B x → False
  ltA : ∀ x, A x → x < h.next
  ltB : ∀ x, B x → x < h.next

theorem Sep.symm {h : Heap} {A B : Ref → Prop} (s : Sep h A B) : Sep h B A :=
  ⟨s.wf, s.closedB, s.closedA, fun x hb ha => s.disj x ha hb, s.ltB, s.ltA⟩

/-- ONE operation (any of assign / solve / steady / alter_num_variants / set_description / override_tolerance /
copy / pickle / get_variant, with any arguments and any numerical routines) whose target lies in region `A`
leaves every object of region `B` exactly as it was; the regions stay separated, `A` having grown by the
objects the operation allocated, and a model object it returns belongs to the grown `A`. -/
theorem step_isolated (fs : Funs) {h h' : Heap} {A B : Ref → Prop} (s : Sep h A B) (op : Op) {r : Option Ref}
    (ht : A op.target) (hr : step fs h op = .ok (r, h')) :
    (∀ x, B x → h'.get x = h.get x) ∧ Sep h' (Side A h.next h'.next) B ∧
      (∀ m', r = some m' → Side A h.next h'.next m') := by
  obtain ⟨e, le, hm⟩ := step_ext fs (Ext.refl s.wf s.closedA) op (Or.inl ht) hr
  have hB : ∀ x, B x → h'.get x = h.get x :=
    fun x hx => e.frame x (s.ltB x hx) (fun ha => s.disj x ha hx)
  refine ⟨hB, ⟨e.wf, e.closed, ?_, ?_, ?_, ?_⟩, hm⟩
  · intro x o hx hg y hy
    rw [hB x hx] at hg
    exact s.closedB x o hx hg y hy
  · intro x hx hb
    rcases hx with ha | ⟨hge, _⟩
    · exact s.disj x ha hb
    · exact absurd (s.ltB x hb) (Nat.not_lt.mpr hge)
  · intro x hx
    rcases hx with ha | ⟨_, hlt⟩
    · exact Nat.lt_of_lt_of_le (s.ltA x ha) le
    · exact hlt
  · intro x hb
    exact Nat.lt_of_lt_of_le (s.ltB x hb) le

/-- the observable state of a model of the other region is unchanged by the operation -/
theorem step_preserves_other_observables (fs : Funs) {h h' : Heap} {A B : Ref → Prop} (s : Sep h A B) (op : Op)
    {r : Option Ref} (ht : A op.target) (hr : step fs h op = .ok (r, h')) (m : Ref) (hm : B m) :
    observe h' m = observe h m :=
  observe_agree s.closedB (step_isolated fs s op ht hr).1 hm

inductive Tag | a | b
  deriving DecidableEq, Repr

/-- "every operation of the history is isolated": an operation tagged `a` (resp. `b`) whose target is in the current
`A` (resp. `B`) region leaves every object of the other region untouched, and the rest of the history is isolated
from the grown regions.  A rejected operation (`Except.error`) changes nothing. -/
def IsolatedRun (fs : Funs) : Heap → (Ref → Prop) → (Ref → Prop) → List (Tag × Op) → Prop
  | _, _, _, [] => True
  | h, A, B, (t, op) :: rest =>
    match step fs h op with
    | .error _ => IsolatedRun fs h A B rest
    | .ok (_, h') =>
      match t with
      | .a => A op.target →
          ((∀ x, B x → h'.get x = h.get x) ∧ (∀ m, B m → observe h' m = observe h m) ∧
            IsolatedRun fs h' (Side A h.next h'.next) B rest)
      | .b => B op.target →
          ((∀ x, A x → h'.get x = h.get x) ∧ (∀ m, A m → observe h' m = observe h m) ∧
            IsolatedRun fs h' A (Side B h.next h'.next) rest)

/-- MAIN THEOREM (independence): for EVERY interleaving of operations on the models of two separated regions
(e.g. an original with its views, and a copy with its views and further copies), of any length, with any
arguments, any numbers of variants and any numerical routines, every operation leaves the objects -- hence the
observable state -- of the other region unchanged.  Induction over the operation list; the invariant is `Sep`. -/
theorem interleaving_isolated (fs : Funs) : ∀ (ops : List (Tag × Op)) (h : Heap) (A B : Ref → Prop),
    Sep h A B → IsolatedRun fs h A B ops := by
  intro ops
  induction ops with
  | nil => intro h A B _; trivial
  | cons top rest ih =>
    intro h A B s
    obtain ⟨t, op⟩ := top
    simp only [IsolatedRun]
    cases hst : step fs h op with
    | error e => exact ih h A B s
    | ok p =>
      obtain ⟨r, h'⟩ := p
      cases t with
      | a =>
        intro ht
        obtain ⟨hB, s', _⟩ := step_isolated fs s op ht hst
        exact ⟨hB, fun m hm => observe_agree s.closedB hB hm, ih h' _ B s'⟩
      | b =>
        intro ht
        obtain ⟨hA, s', _⟩ := step_isolated fs s.symm op ht hst
        exact ⟨hA, fun m hm => observe_agree s.closedA hA hm, ih h' A _ s'.symm⟩

/-- run a history, skipping rejected operations -/
def runOps (fs : Funs) : Heap → List Op → Heap
  | h, [] => h
  | h, op :: rest =>
    match step fs h op with
    | .ok (_, h') => runOps fs h' rest
    | .error _ => runOps fs h rest

/-- every target of the history lies in the region `A` as it grows with the objects the history allocates
(so the history may operate on copies and views it created itself) -/
def TargetsIn (fs : Funs) : Heap → (Ref → Prop) → List Op → Prop
  | _, _, [] => True
  | h, A, op :: rest =>
    A op.target ∧
      match step fs h op with
      | .ok (_, h') => TargetsIn fs h' (Side A h.next h'.next) rest
      | .error _ => TargetsIn fs h A rest

/-- a whole history of operations on one region (an original, say): at the end every object of the other region
(its copy) is what it was at the start, and so is the copy's observable state -/
theorem run_isolated (fs : Funs) : ∀ (ops : List Op) (h : Heap) (A B : Ref → Prop),
    Sep h A B → TargetsIn fs h A ops →
    (∀ x, B x → (runOps fs h ops).get x = h.get x) ∧ (∀ m, B m → observe (runOps fs h ops) m = observe h m) := by
  intro ops
  induction ops with
  | nil => intro h A B _ _; exact ⟨fun _ _ => rfl, fun _ _ => rfl⟩
  | cons op rest ih =>
    intro h A B s ht
    simp only [TargetsIn] at ht
    obtain ⟨ht0, ht⟩ := ht
    simp only [runOps]
    cases hst : step fs h op with
    | error e =>
      simp only [hst] at ht ⊢
      exact ih h A B s ht
    | ok p =>
      obtain ⟨r, h'⟩ := p
      simp only [hst] at ht ⊢
      obtain ⟨hB, s', _⟩ := step_isolated fs s op ht0 hst
      obtain ⟨h1, _⟩ := ih h' _ B s' ht
      have hget : ∀ x, B x → (runOps fs h' rest).get x = h.get x := fun x hx => by rw [h1 x hx, hB x hx]
      exact ⟨hget, fun m hm => observe_agree s.closedB hget hm⟩


/-! ## copy and pickle -/

/-- the objects allocated between two heaps -/
def Fresh (h h' : Heap) : Ref → Prop := fun x => h.next ≤ x ∧ x < h'.next

theorem fresh_separated {h h' : Heap} {B : Ref → Prop} (hB : Closed B h) (hlt : ∀ x, B x → x < h.next)
    (e : Ext (fun _ => False) h h') (le : h.next ≤ h'.next) (fr : ∀ r, r < h.next → h'.get r = h.get r) :
    Sep h' B (Fresh h h') := by
  refine ⟨e.wf, ?_, ?_, ?_, ?_, ?_⟩
  · intro x o hx hg y hy
    rw [fr x (hlt x hx)] at hg
    exact hB x o hx hg y hy
  · intro x o hx hg y hy
    rcases e.closed x o (Or.inr hx) hg y hy with hf | hy'
    · exact hf.elim
    · exact hy'
  · intro x hb hf
    exact absurd (hlt x hb) (Nat.not_lt.mpr hf.1)
  · intro x hb
    exact Nat.lt_of_lt_of_le (hlt x hb) le
  · intro x hf
    exact hf.2

/-- `m.copy()`: nothing that existed before is modified; the new model object is fresh and EVERY object reachable
from it is fresh (the fresh objects are closed under pointers), hence disjoint from any region `B` of older objects
-- `Disjoint (reach h m) (reach h' (copy m))` -- and the two sides are separated in the sense of
`interleaving_isolated`. -/
theorem copy_disjoint {h h' : Heap} {m m' : Ref} {B : Ref → Prop} (hw : h.WF) (hB : Closed B h)
    (hlt : ∀ x, B x → x < h.next) (hr : copy h m = .ok (m', h')) :
    (∀ r, r < h.next → h'.get r = h.get r) ∧ Fresh h h' m' ∧ Sep h' B (Fresh h h') := by
  obtain ⟨e, le, hm', fr⟩ := copy_ext (Ext.triv hw) hr
  exact ⟨fr, hm', fresh_separated hB hlt e le fr⟩

/-- the same for a pickle / deepcopy round trip -/
theorem pickle_disjoint {h h' : Heap} {m m' : Ref} {B : Ref → Prop} (hw : h.WF) (hB : Closed B h)
    (hlt : ∀ x, B x → x < h.next) (hr : pickle h m = .ok (m', h')) :
    (∀ r, r < h.next → h'.get r = h.get r) ∧ Fresh h h' m' ∧ Sep h' B (Fresh h h') := by
  obtain ⟨e, le, hm', fr⟩ := pickle_ext (Ext.triv hw) hr
  exact ⟨fr, hm', fresh_separated hB hlt e le fr⟩

theorem observe_parts {h : Heap} {m : Ref} {obs : Obs} (ho : observe h m = some obs) :
    ∃ i vs, getModel h m = .ok (i, vs, obs.inv) ∧ observeVars h vs = some obs.vars := by
  unfold observe at ho
  cases hm : getModel h m with
  | error e => simp [hm] at ho
  | ok t =>
    obtain ⟨i, vs, d⟩ := t
    simp only [hm] at ho
    cases hv : observeVars h vs with
    | none => simp [hv] at ho
    | some os =>
      simp only [hv, Option.some.injEq] at ho
      subst ho
      exact ⟨i, vs, rfl, hv⟩

/-- a copy is EQUIVALENT to its source: same invariant data, same values and same solution content for every
variant -- and the source still shows what it showed -/
theorem copy_observably_equal {h h' : Heap} {m m' : Ref} {obs : Obs} (hw : h.WF) (ho : observe h m = some obs)
    (hr : copy h m = .ok (m', h')) : observe h' m' = some obs ∧ observe h' m = some obs := by
  obtain ⟨i, vs, hm, hvs⟩ := observe_parts ho
  obtain ⟨_, _, _, fr⟩ := copy_ext (Ext.triv hw) hr
  obtain ⟨hgm, hgi⟩ := getModel_ok hm
  refine ⟨?_, ?_⟩
  · unfold copy at hr
    simp only [hm] at hr
    split at hr
    · rename_i vs' h2 hcv
      simp only [Except.ok.injEq, Prod.mk.injEq] at hr
      obtain ⟨rfl, rfl⟩ := hr
      obtain ⟨e1, _⟩ := (Ext.triv hw).alloc (.inv obs.inv) (by simp [Obj.refs])
      obtain ⟨e2, le2, _, fr2⟩ := copyVars_ext vs _ h2 vs' e1 hcv
      have hfr1 : ∀ r, r < h.next → (h.alloc (.inv obs.inv)).2.get r = h.get r := by
        intro r hr'
        simp [Nat.ne_of_lt hr']
      have ovs := copyVars_obs vs _ h2 vs' obs.vars e1.wf (observeVars_frame hw hfr1 vs _ hvs) hcv
      simp only [Heap.next_alloc] at le2
      have hne : h.next ≠ h2.next := by omega
      have hinv : h2.get h.next = some (.inv obs.inv) := by
        rw [fr2 h.next (by simp)]
        simp
      have hfr3 : ∀ r, r < h2.next → (h2.alloc (.model h.next vs')).2.get r = h2.get r := by
        intro r hr'
        simp [Nat.ne_of_lt hr']
      have hgm' : getModel (h2.alloc (.model h.next vs')).2 h2.next = .ok (h.next, vs', obs.inv) := by
        unfold getModel
        simp [hne, hinv]
      show observe (h2.alloc (.model h.next vs')).2 h2.next = some obs
      unfold observe
      rw [hgm']
      simp only []
      rw [observeVars_frame e2.wf hfr3 vs' _ ovs]
    · cases hr
  · have hB : ∀ r, r < h.next → h'.get r = h.get r := fr
    unfold observe
    have : getModel h' m = getModel h m := by
      unfold getModel
      rw [hB m (hw.lt_of_get hgm), hgm]
      simp only []
      rw [hB i (hw.lt_of_get hgi)]
    rw [this, hm]
    simp only []
    rw [observeVars_frame hw hB vs _ hvs]

/-- a pickle / deepcopy round trip is EQUIVALENT to its source as well (with the shared memo: a variant that occurs
twice in the source occurs twice -- as ONE fresh object -- in the result, see `pickleVars`) -/
theorem pickle_observably_equal {h h' : Heap} {m m' : Ref} {obs : Obs} (hw : h.WF) (ho : observe h m = some obs)
    (hr : pickle h m = .ok (m', h')) : observe h' m' = some obs ∧ observe h' m = some obs := by
  obtain ⟨i, vs, hm, hvs⟩ := observe_parts ho
  obtain ⟨_, _, _, fr⟩ := pickle_ext (Ext.triv hw) hr
  obtain ⟨hgm, hgi⟩ := getModel_ok hm
  refine ⟨?_, ?_⟩
  · unfold pickle at hr
    simp only [hm] at hr
    split at hr
    · rename_i vs' h2 hcv
      simp only [Except.ok.injEq, Prod.mk.injEq] at hr
      obtain ⟨rfl, rfl⟩ := hr
      obtain ⟨e1, _⟩ := (Ext.triv hw).alloc (.inv obs.inv) (by simp [Obj.refs])
      obtain ⟨e2, le2, _, fr2⟩ := pickleVars_ext (W := fun _ => False) 0 vs _ h2 [] vs' e1 (Nat.zero_le _)
        (by intro a b hab; simp [lookupRef] at hab) hcv
      have hfr1 : ∀ r, r < h.next → (h.alloc (.inv obs.inv)).2.get r = h.get r := by
        intro r hr'
        simp [Nat.ne_of_lt hr']
      have ovs := pickleVars_obs vs _ h2 [] vs' obs.vars e1.wf (by intro a b hab; simp [lookupRef] at hab)
        (observeVars_frame hw hfr1 vs _ hvs) hcv
      simp only [Heap.next_alloc] at le2
      have hne : h.next ≠ h2.next := by omega
      have hinv : h2.get h.next = some (.inv obs.inv) := by
        rw [fr2 h.next (by simp)]
        simp
      have hfr3 : ∀ r, r < h2.next → (h2.alloc (.model h.next vs')).2.get r = h2.get r := by
        intro r hr'
        simp [Nat.ne_of_lt hr']
      have hgm' : getModel (h2.alloc (.model h.next vs')).2 h2.next = .ok (h.next, vs', obs.inv) := by
        unfold getModel
        simp [hne, hinv]
      show observe (h2.alloc (.model h.next vs')).2 h2.next = some obs
      unfold observe
      rw [hgm']
      simp only []
      rw [observeVars_frame e2.wf hfr3 vs' _ ovs]
    · cases hr
  · have hB : ∀ r, r < h.next → h'.get r = h.get r := fr
    unfold observe
    have : getModel h' m = getModel h m := by
      unfold getModel
      rw [hB m (hw.lt_of_get hgm), hgm]
      simp only []
      rw [hB i (hw.lt_of_get hgi)]
    rw [this, hm]
    simp only []
    rw [observeVars_frame hw hB vs _ hvs]


/-! ## variants: the result for variant `k` depends on the invariant and on variant `k`'s values only -/

theorem observeVar_reads {h : Heap} {v : Ref} {o : VarObs} (ho : observeVar h v = some o) :
    ∃ l c s, h.get v = some (.var l c s) ∧ h.get l = some (.dict o.levels) ∧ h.get c = some (.dict o.changes) ∧
      (∀ sr, s = some sr → ∃ sd, h.get sr = some (.sol sd)) := by
  unfold observeVar at ho
  cases hgv : getVar h v with
  | error e => simp [hgv] at ho
  | ok t =>
    obtain ⟨l, c, s, lv, cv⟩ := t
    obtain ⟨hg, hl, hc⟩ := getVar_ok hgv
    simp only [hgv] at ho
    cases s with
    | none =>
      simp only [Option.some.injEq] at ho
      subst ho
      exact ⟨l, c, none, hg, hl, hc, by intro sr hs; cases hs⟩
    | some sr =>
      simp only [] at ho
      cases hsr : h.get sr with
      | none => simp [hsr] at ho
      | some osr =>
        cases osr with
        | sol sd =>
          simp only [hsr, Option.some.injEq] at ho
          subst ho
          exact ⟨l, c, some sr, hg, hl, hc, by intro sr' hs; cases hs; exact ⟨sd, hsr⟩⟩
        | _ => simp [hsr] at ho

/-- solving ANOTHER variant does not change what variant `v` shows -/
theorem solveVariant_other (F : InvData → List Val → List Val → Sol) (d : InvData) {h h' : Heap} {v v' : Ref}
    {o : VarObs} (hw : h.WF) (hne : v ≠ v') (ho : observeVar h v = some o)
    (hr : solveVariant F d h v' = .ok h') : observeVar h' v = some o := by
  obtain ⟨l, c, s, hg, hl, hc, hs⟩ := observeVar_reads ho
  unfold solveVariant at hr
  cases hgv : getVar h v' with
  | error e => simp [hgv] at hr
  | ok t =>
    obtain ⟨l', c', s', lv', cv'⟩ := t
    obtain ⟨hg', _, _⟩ := getVar_ok hgv
    simp only [hgv, Except.ok.injEq] at hr
    subst hr
    rw [← ho]
    have keep : ∀ r oo, h.get r = some oo → r ≠ v' →
        ((h.alloc (.sol (F d lv' cv'))).2.set v' (.var l' c' (some (h.alloc (.sol (F d lv' cv'))).1))).get r = h.get r := by
      intro r oo hr' hrv
      have : r ≠ h.next := Nat.ne_of_lt (hw.lt_of_get hr')
      simp [hrv, this]
    apply observeVar_congr (keep v _ hg hne)
    intro l2 c2 s2 hg2
    rw [hg] at hg2
    simp only [Option.some.injEq, Obj.var.injEq] at hg2
    obtain ⟨rfl, rfl, rfl⟩ := hg2
    refine ⟨keep l _ hl (by intro hh; rw [hh, hg'] at hl; cases hl), keep c _ hc (by intro hh; rw [hh, hg'] at hc; cases hc), ?_⟩
    intro sr hsr
    obtain ⟨sd, hsd⟩ := hs sr hsr
    exact keep sr _ hsd (by intro hh; rw [hh, hg'] at hsd; cases hsd)

/-- solving variant `v` stores `F(invariant, v's levels, v's changes)` and leaves its values alone -/
theorem solveVariant_self (F : InvData → List Val → List Val → Sol) (d : InvData) {h h' : Heap} {v : Ref}
    {o : VarObs} (hw : h.WF) (ho : observeVar h v = some o) (hr : solveVariant F d h v = .ok h') :
    observeVar h' v = some ⟨o.levels, o.changes, some (F d o.levels o.changes)⟩ := by
  obtain ⟨l, c, s, hg, hl, hc, _⟩ := observeVar_reads ho
  unfold solveVariant at hr
  have hgv : getVar h v = .ok (l, c, s, o.levels, o.changes) := by
    unfold getVar
    simp [hg, hl, hc]
  simp only [hgv, Except.ok.injEq] at hr
  subst hr
  have hv : v ≠ h.next := Nat.ne_of_lt (hw.lt_of_get hg)
  have hlv : l ≠ v := by intro hh; rw [hh, hg] at hl; cases hl
  have hcv : c ≠ v := by intro hh; rw [hh, hg] at hc; cases hc
  have hln : l ≠ h.next := Nat.ne_of_lt (hw.lt_of_get hl)
  have hcn : c ≠ h.next := Nat.ne_of_lt (hw.lt_of_get hc)
  simp [observeVar, getVar, hlv, hcv, hln, hcn, hl, hc, Ne.symm hv]

/-- VARIANT THEOREM (solve): in a model whose variant objects are pairwise distinct, after `m.solve()` every variant
`v` holds the solution `F(invariant data, v's own levels, v's own changes)` and its values are untouched -- whatever
the number of variants, their order, the values of the other variants and the history that produced the heap. -/
theorem solve_each_variant (F : InvData → List Val → List Val → Sol) (d : InvData) :
    ∀ (vs : List Ref) (h h' : Heap), h.WF → vs.Nodup → forEach (solveVariant F d) h vs = .ok h' →
      (∀ v o, v ∈ vs → observeVar h v = some o →
        observeVar h' v = some ⟨o.levels, o.changes, some (F d o.levels o.changes)⟩) ∧
      (∀ v o, v ∉ vs → observeVar h v = some o → observeVar h' v = some o) := by
  intro vs
  induction vs with
  | nil =>
    intro h h' _ _ hr
    simp only [forEach, Except.ok.injEq] at hr
    subst hr
    exact ⟨(fun v o hv => by cases hv), fun _ _ _ ho => ho⟩
  | cons x xs ih =>
    intro h h' hw hnd hr
    simp only [forEach] at hr
    cases hx : solveVariant F d h x with
    | error e => simp [hx] at hr
    | ok h1 =>
      simp only [hx] at hr
      have hw1 : h1.WF := by
        have e : Ext (fun _ => True) h h := Ext.refl hw (fun _ _ _ _ _ _ => trivial)
        exact (solveVariant_ext e (Or.inl trivial) hx).1.wf
      obtain ⟨hxn, hnd'⟩ := List.nodup_cons.mp hnd
      obtain ⟨ih1, ih2⟩ := ih h1 h' hw1 hnd' hr
      refine ⟨?_, ?_⟩
      · intro v o hv ho
        simp only [List.mem_cons] at hv
        rcases hv with rfl | hv
        · exact ih2 v _ hxn (solveVariant_self F d hw ho hx)
        · have hne : v ≠ x := by intro hh; subst hh; exact hxn hv
          exact ih1 v o hv (solveVariant_other F d hw hne ho hx)
      · intro v o hv ho
        simp only [List.mem_cons, not_or] at hv
        exact ih2 v o hv.2 (solveVariant_other F d hw hv.1 ho hx)

/-- ... hence variant `k` of a multi-variant model gets exactly the solution a SINGLETON model with the same invariant
data and the same values gets (in any other heap, after any other history) -/
theorem variant_equals_singleton (F : InvData → List Val → List Val → Sol) (d : InvData)
    {vs : List Ref} {h h' : Heap} {v : Ref} {o : VarObs}
    {g g' : Heap} {w : Ref} {o' : VarObs}
    (hw : h.WF) (hnd : vs.Nodup) (hr : forEach (solveVariant F d) h vs = .ok h') (hv : v ∈ vs)
    (ho : observeVar h v = some o)
    (gw : g.WF) (gr : forEach (solveVariant F d) g [w] = .ok g') (go : observeVar g w = some o')
    (hsame : o.levels = o'.levels ∧ o.changes = o'.changes) :
    ∃ r r', observeVar h' v = some r ∧ observeVar g' w = some r' ∧ r.sol = r'.sol ∧ r.sol = some (F d o.levels o.changes) ∧
      r.levels = r'.levels ∧ r.changes = r'.changes := by
  have a := (solve_each_variant F d vs h h' hw hnd hr).1 v o hv ho
  have b := (solve_each_variant F d [w] g g' gw (by simp) gr).1 w o' (by simp) go
  refine ⟨_, _, a, b, ?_, rfl, hsame.1, hsame.2⟩
  simp [hsame.1, hsame.2]


/-! ### steady: the same for the in-place updates, under the ownership invariant -/

theorem observeVar_reads' {h : Heap} {v : Nat} {o : VarObs} (ho : observeVar h v = some o) :
    ∃ (l c : Nat) (s : Option Nat), h.get v = some (.var l c s) ∧ h.get l = some (.dict o.levels) ∧
      h.get c = some (.dict o.changes) ∧ (s = none → o.sol = none) ∧
      (∀ sr, s = some sr → ∃ sd, h.get sr = some (.sol sd) ∧ o.sol = some sd) := by
  unfold observeVar at ho
  cases hgv : getVar h v with
  | error e => simp [hgv] at ho
  | ok t =>
    obtain ⟨l, c, s, lv, cv⟩ := t
    obtain ⟨hg, hl, hc⟩ := getVar_ok hgv
    simp only [hgv] at ho
    cases s with
    | none =>
      simp only [Option.some.injEq] at ho
      subst ho
      exact ⟨l, c, none, hg, hl, hc, (fun _ => rfl), (by intro sr hs; cases hs)⟩
    | some sr =>
      simp only [] at ho
      cases hsr : h.get sr with
      | none => simp [hsr] at ho
      | some osr =>
        cases osr with
        | sol sd =>
          simp only [hsr, Option.some.injEq] at ho
          subst ho
          exact ⟨l, c, some sr, hg, hl, hc, (by intro hs; cases hs), (by intro sr' hs; cases hs; exact ⟨sd, hsr, rfl⟩)⟩
        | _ => simp [hsr] at ho

/-- updating ANOTHER variant's dicts in place does not change what variant `v` shows (ownership: the dicts differ) -/
theorem updVariant_other (G : InvData → List Val → List Val → List Val × List Val) (d : InvData) {h h' : Heap}
    {v v' : Nat} {o : VarObs} (ow : Owned h) (hne : v ≠ v') (ho : observeVar h v = some o)
    (hr : updVariant G d h v' = .ok h') : observeVar h' v = some o := by
  obtain ⟨l, c, s, hg, hl, hc, _, hs⟩ := observeVar_reads' ho
  unfold updVariant at hr
  cases hgv : getVar h v' with
  | error e => simp [hgv] at hr
  | ok t =>
    obtain ⟨l', c', s', lv', cv'⟩ := t
    obtain ⟨hg', hl', hc'⟩ := getVar_ok hgv
    simp only [hgv, Except.ok.injEq] at hr
    subst hr
    obtain ⟨n1, n2, n3, n4⟩ := ow.sep v v' l c s l' c' s' hg hg' hne
    rw [← ho]
    have keep : ∀ r : Nat, r ≠ l' → r ≠ c' →
        ((h.set l' (.dict (G d lv' cv').1)).set c' (.dict (G d lv' cv').2)).get r = h.get r := by
      intro r h1 h2
      simp [h1, h2]
    apply observeVar_congr (keep v (by intro hh; rw [hh, hl'] at hg; cases hg) (by intro hh; rw [hh, hc'] at hg; cases hg))
    intro l2 c2 s2 hg2
    rw [hg] at hg2
    simp only [Option.some.injEq, Obj.var.injEq] at hg2
    obtain ⟨rfl, rfl, rfl⟩ := hg2
    refine ⟨keep _ n1 n2, keep _ n3 n4, ?_⟩
    intro sr hsr
    obtain ⟨sd, hsd, _⟩ := hs sr hsr
    exact keep sr (by intro hh; rw [hh, hl'] at hsd; cases hsd) (by intro hh; rw [hh, hc'] at hsd; cases hsd)

/-- updating variant `v` stores `G(invariant, v's levels, v's changes)` in its two dicts and keeps its solution -/
theorem updVariant_self (G : InvData → List Val → List Val → List Val × List Val) (d : InvData) {h h' : Heap}
    {v : Nat} {o : VarObs} (ow : Owned h) (ho : observeVar h v = some o) (hr : updVariant G d h v = .ok h') :
    observeVar h' v = some ⟨(G d o.levels o.changes).1, (G d o.levels o.changes).2, o.sol⟩ := by
  obtain ⟨l, c, s, hg, hl, hc, hs0, hs⟩ := observeVar_reads' ho
  unfold updVariant at hr
  have hgv : getVar h v = .ok (l, c, s, o.levels, o.changes) := by
    unfold getVar
    simp [hg, hl, hc]
  simp only [hgv, Except.ok.injEq] at hr
  subst hr
  have hlc : l ≠ c := ow.ne v l c s hg
  have hvl : v ≠ l := by intro hh; rw [hh, hl] at hg; cases hg
  have hvc : v ≠ c := by intro hh; rw [hh, hc] at hg; cases hg
  cases s with
  | none =>
    simp [observeVar, getVar, hvl, hvc, hlc, hg, hs0 rfl]
  | some sr =>
    obtain ⟨sd, hsd, hos⟩ := hs sr rfl
    have hsl : sr ≠ l := by intro hh; rw [hh, hl] at hsd; cases hsd
    have hsc : sr ≠ c := by intro hh; rw [hh, hc] at hsd; cases hsd
    simp [observeVar, getVar, hvl, hvc, hlc, hg, hsl, hsc, hsd, hos]

/-- one loop of in-place updates over pairwise distinct variant objects -/
theorem upd_each_variant (G : InvData → List Val → List Val → List Val × List Val) (d : InvData) :
    ∀ (vs : List Nat) (h h' : Heap), Owned h → vs.Nodup → forEach (updVariant G d) h vs = .ok h' →
      Owned h' ∧
      (∀ v o, v ∈ vs → observeVar h v = some o →
        observeVar h' v = some ⟨(G d o.levels o.changes).1, (G d o.levels o.changes).2, o.sol⟩) ∧
      (∀ v o, v ∉ vs → observeVar h v = some o → observeVar h' v = some o) := by
  intro vs
  induction vs with
  | nil =>
    intro h h' ow _ hr
    simp only [forEach, Except.ok.injEq] at hr
    subst hr
    exact ⟨ow, (fun v o hv => by cases hv), fun _ _ _ ho => ho⟩
  | cons x xs ih =>
    intro h h' ow hnd hr
    simp only [forEach] at hr
    cases hx : updVariant G d h x with
    | error e => simp [hx] at hr
    | ok h1 =>
      simp only [hx] at hr
      obtain ⟨hxn, hnd'⟩ := List.nodup_cons.mp hnd
      obtain ⟨ow', ih1, ih2⟩ := ih h1 h' (updVariant_owned ow hx) hnd' hr
      refine ⟨ow', ?_, ?_⟩
      · intro v o hv ho
        simp only [List.mem_cons] at hv
        rcases hv with rfl | hv
        · exact ih2 v _ hxn (updVariant_self G d ow ho hx)
        · have hne : v ≠ x := by intro hh; subst hh; exact hxn hv
          exact ih1 v o hv (updVariant_other G d ow hne ho hx)
      · intro v o hv ho
        simp only [List.mem_cons, not_or] at hv
        exact ih2 v o hv.2 (updVariant_other G d ow hv.1 ho hx)

/-- VARIANT THEOREM (steady): in an owned heap (`Owned` holds initially and is preserved by every operation:
`Owned.empty`, `newModel_owned`, `step_owned`), for a model whose variant objects are pairwise distinct, `m.steady()` --
the solver `G` for every variant, then the autovalue update `A` for every variant -- leaves every variant `v` with
`A(inv, G(inv, v's levels, v's changes))` in its own two dicts and its solution untouched, whatever the number of
variants, the other variants' values and the history. -/
theorem steady_each_variant (G A : InvData → List Val → List Val → List Val × List Val) {h h' : Heap} {m : Nat}
    {i : Nat} {vs : List Nat} {d : InvData} (ow : Owned h) (hm : getModel h m = .ok (i, vs, d)) (hnd : vs.Nodup)
    (hr : steady G A h m = .ok h') :
    Owned h' ∧ ∀ v o, v ∈ vs → observeVar h v = some o →
      observeVar h' v = some ⟨(A d (G d o.levels o.changes).1 (G d o.levels o.changes).2).1,
        (A d (G d o.levels o.changes).1 (G d o.levels o.changes).2).2, o.sol⟩ := by
  unfold steady at hr
  simp only [hm] at hr
  cases h1 : forEach (updVariant G d) h vs with
  | error e => simp [h1] at hr
  | ok hmid =>
    simp only [h1] at hr
    obtain ⟨ow1, a1, _⟩ := upd_each_variant G d vs h hmid ow hnd h1
    obtain ⟨ow2, a2, _⟩ := upd_each_variant A d vs hmid h' ow1 hnd hr
    exact ⟨ow2, fun v o hv ho => a2 v _ hv (a1 v o hv ho)⟩

/-- ownership holds after ANY history from the empty heap: it is an invariant of the operation semantics -/
theorem owned_after_history (fs : Funs) (d : InvData) : ∀ (ops : List Op), Owned (runOps fs (newModel Heap.empty d).2 ops) := by
  have gen : ∀ (ops : List Op) (h : Heap), Owned h → Owned (runOps fs h ops) := by
    intro ops
    induction ops with
    | nil => intro h ow; exact ow
    | cons op rest ih =>
      intro h ow
      simp only [runOps]
      cases hst : step fs h op with
      | error e => exact ih h ow
      | ok p =>
        obtain ⟨r, h'⟩ := p
        exact ih h' (step_owned fs ow op hst)
  intro ops
  exact gen ops _ (newModel_owned Owned.empty d)

/-! ## variant indexing: there is no variant outside `-n .. n-1` -/

/-- an index outside `-n .. n-1` resolves to nothing ... -/
theorem resolveIdx_out_of_range (n : Nat) (i : Int) (h : i < -(n : Int) ∨ (n : Int) ≤ i) : resolveIdx n i = none := by
  unfold resolveIdx
  have h1 : ¬ (0 ≤ i ∧ i < n) := by omega
  have h2 : ¬ (-(n : Int) ≤ i ∧ i < 0) := by omega
  simp [h1, h2]

/-- ... and an index inside resolves to the position Python's list indexing gives -/
theorem resolveIdx_in_range (n : Nat) (i : Int) (h : -(n : Int) ≤ i ∧ i < n) :
    resolveIdx n i = some (if 0 ≤ i then i.toNat else (i + n).toNat) ∧ (if 0 ≤ i then i.toNat else (i + n).toNat) < n := by
  unfold resolveIdx
  by_cases h0 : 0 ≤ i
  · have : 0 ≤ i ∧ i < n := ⟨h0, h.2⟩
    simp only [this, and_self, if_true, h0, true_and]
    omega
  · have h1 : ¬ (0 ≤ i ∧ i < n) := by omega
    have h2 : -(n : Int) ≤ i ∧ i < 0 := by omega
    simp only [h1, if_false, h2, and_self, if_true, h0, true_and]
    have e := Int.toNat_of_nonneg (show 0 ≤ i + (n : Int) by omega)
    refine ⟨by simp, ?_⟩
    omega

/-- `m[k]` / `get_variant([.., k, ..])` with ANY index outside `-n .. n-1` is rejected (`IndexError`): a variant that
does not exist cannot be obtained, whatever the other indices are -/
theorem view_out_of_range_rejected {h : Heap} {m i : Nat} {vs : List Nat} {d : InvData}
    (hm : getModel h m = .ok (i, vs, d)) (idxs : List Int) (k : Int) (hk : k ∈ idxs)
    (hout : k < -(vs.length : Int) ∨ (vs.length : Int) ≤ k) : view h m idxs = .error .bad := by
  have hsel : selectVars vs idxs = none := by
    induction idxs with
    | nil => cases hk
    | cons j js ih =>
      simp only [List.mem_cons] at hk
      simp only [selectVars]
      rcases hk with rfl | hk
      · rw [resolveIdx_out_of_range _ _ hout]
        simp
      · rw [ih hk]
        cases (resolveIdx vs.length j).bind (fun j => vs[j]?) <;> rfl
  unfold view
  simp [hm, hsel]

/-- a single in-range index selects exactly the variant object at Python's position (an alias, not a copy) -/
theorem view_single_in_range {h : Heap} {m i : Nat} {vs : List Nat} {d : InvData}
    (hm : getModel h m = .ok (i, vs, d)) (k : Int) (hin : -(vs.length : Int) ≤ k ∧ k < vs.length) :
    ∃ v, vs[if 0 ≤ k then k.toNat else (k + vs.length).toNat]? = some v ∧
      view h m [k] = .ok (h.alloc (.model i [v])) := by
  obtain ⟨hres, hlt⟩ := resolveIdx_in_range vs.length k hin
  refine ⟨vs[if 0 ≤ k then k.toNat else (k + vs.length).toNat]'hlt, List.getElem?_eq_getElem hlt, ?_⟩
  unfold view
  simp [hm, selectVars, hres, List.getElem?_eq_getElem hlt]

/-! ## non-vacuity: the hypotheses are met by a concrete model -/

private def q (n : String) (k : QKind) (l : Option Bool) : Quantity := { name := n, kind := k, logly := l }

private def d0 : InvData :=
  { desc := ""
    flags := { linear := true, flat := false, deterministic := false }
    quantities := [q "x" .transVar (some false), q "e" .transShock none, q "rho" .param none]
    tolEig := 0
    tolEq := 0
    defaultStd := 1 }

private def h0 : Heap := (newModel Heap.empty d0).2

/-- the freshly built model lives in a well-formed heap -/
example : h0.WF := by
  intro r hr
  simp only [h0, newModel, Heap.alloc, Heap.empty] at hr ⊢
  have : r ≠ 0 ∧ r ≠ 1 ∧ r ≠ 2 ∧ r ≠ 3 ∧ r ≠ 4 := by omega
  simp [this]

example : ∃ p, copy h0 4 = .ok p := ⟨_, rfl⟩
example : ∃ p, pickle h0 4 = .ok p := ⟨_, rfl⟩
example : ∃ p, view h0 4 [0, -1] = .ok p := ⟨_, rfl⟩
example : view h0 4 [0, 1] = .error .bad := rfl
example : view h0 4 [-2] = .error .bad := rfl
example : (observe h0 4).isSome = true := rfl
example : ∃ h', solve (fun _ _ _ => "s") h0 4 = .ok h' := ⟨_, rfl⟩
example : ∃ h', alter h0 4 3 = .ok h' := ⟨_, rfl⟩
example : alter h0 4 0 = .error .bad := rfl
example : ∃ h', assign h0 4 "rho" [⟨some (some (1 / 2)), none⟩] = .ok h' := ⟨_, rfl⟩
/-- the empty heap is separated into two empty regions: `Sep` is satisfiable, and `copy_disjoint` produces non-empty ones -/
example : Sep Heap.empty (fun _ => False) (fun _ => False) :=
  ⟨fun _ _ => rfl, fun _ _ h => h.elim, fun _ _ h => h.elim, fun _ h _ => h, fun _ h => h.elim, fun _ h => h.elim⟩


/-! ## the portable codec -/

open IrisVerif.Portable

/-- the kind codes decode to the kind they encode (std kinds have no code: they are re-derived from the shocks) -/
theorem kind_code_roundtrip (k : QKind) (c : String) (h : kindCode k = some c) : kindOfCode c = some k := by
  cases k <;> simp [kindCode] at h <;> subst h <;> rfl

theorem ekind_code_roundtrip (k : EKind) : ekindOfCode (ekindCode k) = some k := by
  cases k <;> rfl

/-- a quantity survives export + import with its name, kind, log status and description; its attributes are
normalised (`None` becomes the empty set -- attributes `None` are NOT round-tripped as `None`) -/
theorem quantity_roundtrip (q : Quantity) (p : PQuantity) (h : encodeQ q = some p) :
    decodeQ p = some { q with attrs := some (q.attrs.getD []) } := by
  unfold encodeQ at h
  cases hk : kindCode q.kind with
  | none => simp [hk] at h
  | some c =>
    simp only [hk, Option.map_some, Option.some.injEq] at h
    subst h
    simp [decodeQ, kind_code_roundtrip q.kind c hk]

/-- an equation pair survives export + import: kind, dynamic text, STEADY text (also when it was compressed to `None`
because it equals the dynamic one), description; attributes normalised -/
theorem equation_roundtrip (e : Equation) :
    decodeE (encodeE e) = some { e with attrs := some (e.attrs.getD []) } := by
  unfold decodeE encodeE
  simp only [ekind_code_roundtrip, Option.map_some, Option.some.injEq]
  by_cases hs : e.steady = e.dynamic
  · simp [hs]
  · simp [hs]

/-- export loses no exportable quantity and invents none -/
theorem mem_encodeQs (qs : List Quantity) (p : PQuantity) :
    p ∈ encodeQs qs ↔ ∃ q, q ∈ qs ∧ encodeQ q = some p := by
  unfold encodeQs
  simp only [List.mem_flatMap, List.mem_filterMap, List.mem_filter, decide_eq_true_eq]
  constructor
  · rintro ⟨k, _, q, ⟨hq, _⟩, hp⟩
    exact ⟨q, hq, hp⟩
  · rintro ⟨q, hq, hp⟩
    refine ⟨q.kind, ?_, q, ⟨hq, rfl⟩, hp⟩
    unfold encodeQ at hp
    cases hk : q.kind <;> simp [hk, kindCode] at hp <;> simp [exportOrder]

/-- export loses no equation and invents none -/
theorem mem_encodeEs (es : List Equation) (p : PEquation) :
    p ∈ encodeEs es ↔ ∃ e, e ∈ es ∧ encodeE e = p := by
  unfold encodeEs
  simp only [List.mem_flatMap, List.mem_map, List.mem_filter, decide_eq_true_eq]
  constructor
  · rintro ⟨k, _, e, ⟨he, _⟩, hp⟩
    exact ⟨e, he, hp⟩
  · rintro ⟨e, he, hp⟩
    refine ⟨e.kind, ?_, e, ⟨he, rfl⟩, hp⟩
    cases e.kind <;> simp [eexportOrder]

theorem lookup_skip (n m : String) (v : Val × Val) (rest : List (String × Val × Val)) (h : n ≠ m) :
    lookupName ((n, v) :: rest) m = lookupName rest m := by
  simp [lookupName, h]

/-- parameter (and steady) values: with pairwise distinct names, importing the exported dictionary of a variant gives
back exactly the level and the change of every quantity -/
theorem variant_values_roundtrip : ∀ (names : List String) (lv cv : List Val), names.Nodup →
    lv.length = names.length → cv.length = names.length →
    decodeVariant names (encodeVariant names lv cv) = (lv.zip cv).map some := by
  intro names
  induction names with
  | nil =>
    intro lv cv _ hl hc
    cases lv with
    | nil => rfl
    | cons a as => simp at hl
  | cons n ns ih =>
    intro lv cv hnd hl hc
    cases lv with
    | nil => simp at hl
    | cons a as =>
      cases cv with
      | nil => simp at hc
      | cons b bs =>
        obtain ⟨hn, hnd'⟩ := List.nodup_cons.mp hnd
        simp only [List.length_cons, Nat.add_right_cancel_iff] at hl hc
        have ih' := ih as bs hnd' hl hc
        unfold decodeVariant encodeVariant at ih' ⊢
        simp only [List.zip_cons_cons, List.map_cons]
        congr 1
        · simp [lookupName]
        · rw [← ih']
          apply List.map_congr_left
          intro m hm
          exact lookup_skip n m (a, b) _ (by intro hh; subst hh; exact hn hm)

/-- the context keeps its keys except `__builtins__` (values are not exported, by design) -/
theorem context_roundtrip (keys : List String) (h : "__builtins__" ∉ keys) : encodeContext keys = keys := by
  unfold encodeContext
  apply List.filter_eq_self.mpr
  intro k hk
  simp only [ne_eq, decide_eq_true_eq]
  intro hh
  subst hh
  exact h hk

/-! ### composition on whole lists: order and content -/

/- `normQ`, `normE`, `normB` (normal forms after a round trip: attributes `None` become the empty set; std quantities
are re-created) are defined in `Lemmas/Portable.lean`. -/

theorem decodeQs_filterMap_encode : ∀ (l : List Quantity), (∀ q, q ∈ l → (kindCode q.kind).isSome) →
    decodeQs (l.filterMap encodeQ) = some (l.map normQ) := by
  intro l
  induction l with
  | nil => intro _; rfl
  | cons q l ih =>
    intro hall
    have hq := hall q (by simp)
    cases hk : kindCode q.kind with
    | none => simp [hk] at hq
    | some c =>
      have henc : encodeQ q = some ⟨c, q.name, q.logly, q.desc, q.attrs.getD []⟩ := by simp [encodeQ, hk]
      simp only [List.filterMap_cons, henc, decodeQs, List.map_cons]
      rw [quantity_roundtrip q _ henc, ih (fun x hx => hall x (by simp [hx]))]
      rfl

/-- QUANTITIES, composed: decoding the exported list gives back the exportable quantities (everything but the stds),
in kind order and in their original order within a kind, each with its name, kind, log status and description -/
theorem quantities_roundtrip (qs : List Quantity) :
    decodeQs (encodeQs qs) = some ((groupQ exportOrder qs).map normQ) := by
  unfold encodeQs groupQ
  rw [← List.filterMap_flatMap]
  apply decodeQs_filterMap_encode
  intro q hq
  simp only [List.mem_flatMap, List.mem_filter, decide_eq_true_eq] at hq
  obtain ⟨k, hk, _, rfl⟩ := hq
  simp only [exportOrder, List.mem_cons, List.not_mem_nil, or_false] at hk
  rcases hk with h | h | h | h | h | h | h <;> simp [h, kindCode]

theorem decodeEs_map_encode : ∀ (l : List Equation), decodeEs (l.map encodeE) = some (l.map normE) := by
  intro l
  induction l with
  | nil => rfl
  | cons e l ih =>
    simp only [List.map_cons, decodeEs]
    rw [equation_roundtrip e, ih]
    rfl

/-- EQUATIONS, composed: decoding the exported list gives back every equation pair, grouped by kind in their original
order, with kind, dynamic text, steady text and description -/
theorem equations_roundtrip (es : List Equation) :
    decodeEs (encodeEs es) = some ((groupE es).map normE) := by
  unfold encodeEs groupE
  rw [← List.map_flatMap]
  exact decodeEs_map_encode _

/-- a model whose quantities are already in kind order (every model built by `from_source` is: `reorder_by_kind`) keeps
the ORDER of its exportable quantities -/
theorem quantities_roundtrip_sorted (qs : List Quantity) (h : groupQ exportOrder qs = qs.filter (fun q => !q.kind.isStd)) :
    decodeQs (encodeQs qs) = some ((qs.filter (fun q => !q.kind.isStd)).map normQ) := by
  rw [quantities_roundtrip, h]

/-! ### the whole record -/

/-- the well-formedness the codec needs; every model built by `from_source` has it (`base` = its non-std quantities) -/
structure PortableWF (d : InvData) (base : List Quantity) (vars : List (List Val × List Val)) : Prop where
  /-- the std parameters are exactly the ones derived from the shocks, and come last -/
  split : d.quantities = base ++ stdsOf d.flags base
  nostd : ∀ q, q ∈ base → q.kind.isStd = false
  /-- the quantities are in kind order (`reorder_by_kind`) -/
  sorted : groupQ exportOrder base = base
  /-- every transition shock has its anticipated counterpart -/
  ant : missingAnt base = []
  /-- names are pairwise distinct -/
  nodup : (d.quantities.map (·.name)).Nodup
  counts : countQ d.quantities .transVar = countE d.equations .transition ∧
           countQ d.quantities .measVar = countE d.equations .measurement
  /-- the equation pairs are in kind order -/
  esorted : groupE d.equations = d.equations
  ctx : "__builtins__" ∉ d.contextKeys
  vars_ne : vars ≠ []
  /-- every variant holds one level and one change per quantity and satisfies the assignment rules (shock levels 0,
  no change for non-loggables), as every variant produced by `assign`/`steady` does -/
  vars_ok : ∀ v, v ∈ vars → v.1.length = d.quantities.length ∧ v.2.length = d.quantities.length ∧
    enforceLevels d.quantities v.1 = v.1 ∧ enforceChanges d.quantities v.2 = v.2

/-- what comes back: the same description, flags, context keys, names, kinds, log status, quantity descriptions, dynamic
and steady equation texts; FORGOTTEN: attributes `None` (they come back as the empty set: `normB`, `normE`), the identity of
the std parameters (re-created from the shocks: equal to the originals under `PortableWF.split`), the tolerances and the
default std (not part of the portable: reset to `tol` and to the default of the flags), context VALUES (keys only). -/
def roundTripped (d : InvData) (tol : Rat) : InvData :=
  { desc := d.desc, flags := d.flags, quantities := d.quantities.map normB, equations := d.equations.map normE,
    contextKeys := d.contextKeys, tolEig := tol, tolEq := tol, defaultStd := if d.flags.linear then 1 else 1 / 100 }

theorem importVariant_roundtrip (d : InvData) (tol : Rat) (v : List Val × List Val)
    (hnd : (d.quantities.map (·.name)).Nodup) (h1 : v.1.length = d.quantities.length)
    (h2 : v.2.length = d.quantities.length) (h3 : enforceLevels d.quantities v.1 = v.1)
    (h4 : enforceChanges d.quantities v.2 = v.2) :
    importVariant (roundTripped d tol) (encodeVariant (d.quantities.map (·.name)) v.1 v.2) = v := by
  unfold importVariant
  have hn : (roundTripped d tol).quantities.map (·.name) = d.quantities.map (·.name) := names_map_normB _
  have hpairs := variant_values_roundtrip (d.quantities.map (·.name)) v.1 v.2 hnd (by simp [h1]) (by simp [h2])
  simp only [hn, hpairs]
  have l1 : (initLevels (roundTripped d tol)).length = v.1.length := by simp [initLevels, roundTripped, h1]
  have l2 : (initChanges (roundTripped d tol)).length = v.1.length := by simp [initChanges, roundTripped, h1]
  rw [zipWith_fst v.1 v.2 _ l1 (by rw [h1, h2]), zipWith_snd v.1 v.2 _ l2 (by rw [h1, h2])]
  show (enforceLevels (d.quantities.map normB) v.1, enforceChanges (d.quantities.map normB) v.2) = v
  rw [enforceLevels_map normB normB_kind, enforceChanges_map normB normB_kind, h3, h4]

/-- the whole-record round trip for ANY per-variant import function `imp` that maps the exported dictionary of a variant
`v` to `g v` (in-memory portable: `g = id`; after JSON: the changes are reset) -/
theorem portable_roundtrip_G (imp : InvData → List (String × Val × Val) → List Val × List Val)
    (g : List Val × List Val → List Val × List Val)
    (subst : List Quantity → Equation → Equation) (tol : Rat) (d : InvData)
    (base : List Quantity) (vars : List (List Val × List Val)) (w : PortableWF d base vars)
    (himp : ∀ v, v ∈ vars → imp (roundTripped d tol) (encodeVariant (d.quantities.map (·.name)) v.1 v.2) = g v) :
    fromPortableG imp subst tol (toPortable d vars) = .ok (roundTripped d tol, vars.map g) := by
  have hQ : decodeQs (encodeQs d.quantities) = some (base.map normQ) := by
    rw [quantities_roundtrip, w.split, groupQ_export_base d.flags base w.sorted]
  have hE : decodeEs (encodeEs d.equations) = some (d.equations.map normE) := by
    rw [equations_roundtrip, w.esorted]
  have hqs2 : sourceQuantities d.flags (base.map normQ) = d.quantities.map normB := by
    rw [sourceQuantities_roundtrip d.flags base w.ant w.nostd, ← w.split]
  have hes1 : sourceEquations subst (base.map normQ) (d.equations.map normE) = d.equations.map normE :=
    sourceEquations_roundtrip subst base w.ant _
  have hsorted : groupQ fullOrder d.quantities = d.quantities := by
    rw [w.split]; exact groupQ_full_sorted d.flags base w.sorted w.nostd
  have hinv : mkInv (toPortable d vars) tol (d.quantities.map normB) (d.equations.map normE) = roundTripped d tol := by
    unfold mkInv toPortable roundTripped
    simp only [groupQ_map normB normB_kind, hsorted, groupE_map_normE, w.esorted, context_roundtrip _ w.ctx]
  have hnames : ((d.quantities.map normB).map (·.name)).Nodup := by rw [names_map_normB]; exact w.nodup
  have hcounts : ¬ (countQ (d.quantities.map normB) .transVar ≠ countE (d.equations.map normE) .transition
      ∨ countQ (d.quantities.map normB) .measVar ≠ countE (d.equations.map normE) .measurement) := by
    rw [countQ_map normB normB_kind, countQ_map normB normB_kind, countE_map_normE, countE_map_normE]
    simp [w.counts.1, w.counts.2]
  have hvars : (toPortable d vars).variants = vars.map (fun v => encodeVariant (d.quantities.map (·.name)) v.1 v.2) := rfl
  have hne : ((toPortable d vars).variants).isEmpty = false := by
    rw [hvars]
    cases hv : vars with
    | nil => exact absurd hv w.vars_ne
    | cons a as => rfl
  have hknown : (toPortable d vars).variants.all (namesKnown (roundTripped d tol)) = true := by
    rw [hvars, List.all_eq_true]
    intro dict hd
    simp only [List.mem_map] at hd
    obtain ⟨v, _, rfl⟩ := hd
    unfold namesKnown
    rw [List.all_eq_true]
    intro e he
    have hn : (roundTripped d tol).quantities.map (·.name) = d.quantities.map (·.name) := names_map_normB _
    rw [hn]
    unfold encodeVariant at he
    have := (List.of_mem_zip he).1
    simpa using this
  have himport : (toPortable d vars).variants.map (imp (roundTripped d tol)) = vars.map g := by
    rw [hvars, List.map_map]
    apply List.map_congr_left
    intro v hv
    exact himp v hv
  unfold fromPortableG
  have hfmt : (toPortable d vars).format = "0.3.0" := rfl
  have hq' : (toPortable d vars).quantities = encodeQs d.quantities := rfl
  have he' : (toPortable d vars).equations = encodeEs d.equations := rfl
  have hfl : (toPortable d vars).flags = d.flags := rfl
  simp only [hfmt, hq', he', hfl, hQ, hE, hqs2, hes1, hinv, ne_eq, not_true_eq_false, if_false, hnames, hcounts, hne,
    hknown, himport, Bool.false_eq_true]

/-- WHOLE-RECORD ROUND TRIP: for every well-formed model record and every list of variants,
`fromPortable (toPortable (d, vars))` succeeds and returns `roundTripped d` with EXACTLY the same variant values
(levels and changes of every quantity of every variant, parameters and stds included) -- whatever the substitution
function and the tolerance are. -/
theorem portable_roundtrip (subst : List Quantity → Equation → Equation) (tol : Rat) (d : InvData)
    (base : List Quantity) (vars : List (List Val × List Val)) (w : PortableWF d base vars) :
    fromPortable subst tol (toPortable d vars) = .ok (roundTripped d tol, vars) := by
  have := portable_roundtrip_G importVariant id subst tol d base vars w (fun v hv => by
    obtain ⟨h1, h2, h3, h4⟩ := w.vars_ok v hv
    exact importVariant_roundtrip d tol v w.nodup h1 h2 h3 h4)
  rw [List.map_id] at this
  exact this

/-- the executable check the driver runs on every generated model implies the well-formedness of the theorem -/
theorem portableWFb_sound (d : InvData) (vars : List (List Val × List Val)) (h : portableWFb d vars = true) :
    PortableWF d (d.quantities.filter (fun q => !q.kind.isStd)) vars := by
  unfold portableWFb at h
  simp only [Bool.and_eq_true, decide_eq_true_eq, Bool.not_eq_true', List.all_eq_true] at h
  obtain ⟨⟨⟨⟨⟨⟨⟨⟨⟨h1, h2⟩, h3⟩, h4⟩, h5⟩, h6⟩, h7⟩, h8⟩, h9⟩, h10⟩ := h
  refine ⟨h1, ?_, h2, h3, h4, ⟨h5, h6⟩, h7, h8, ?_, ?_⟩
  · intro q hq
    simp only [List.mem_filter, Bool.not_eq_true'] at hq
    exact hq.2
  · intro hv
    rw [hv] at h9
    simp at h9
  · intro v hv
    have := h10 v hv
    exact ⟨this.1.1.1, this.1.1.2, this.1.2, this.2⟩

/-- so: whenever the executable check passes, the whole-record round trip is exact -/
theorem portable_roundtrip_checked (subst : List Quantity → Equation → Equation) (tol : Rat) (d : InvData)
    (vars : List (List Val × List Val)) (h : portableWFb d vars = true) :
    fromPortable subst tol (toPortable d vars) = .ok (roundTripped d tol, vars) :=
  portable_roundtrip subst tol d _ vars (portableWFb_sound d vars h)

/-- the corollary the property statement asks for: names, kinds, log status, equations, flags come back -/
theorem portable_roundtrip_fields (d : InvData) (tol : Rat) :
    (roundTripped d tol).quantities.map (fun q => (q.name, q.kind, q.logly, q.desc))
      = d.quantities.map (fun q => (q.name, q.kind, q.logly, q.desc)) ∧
    (roundTripped d tol).equations.map (fun e => (e.kind, e.dynamic, e.steady, e.desc))
      = d.equations.map (fun e => (e.kind, e.dynamic, e.steady, e.desc)) ∧
    (roundTripped d tol).flags = d.flags ∧ (roundTripped d tol).desc = d.desc ∧
    (roundTripped d tol).contextKeys = d.contextKeys := by
  refine ⟨?_, ?_, rfl, rfl, rfl⟩
  · show (d.quantities.map normB).map _ = _
    rw [List.map_map]
    apply List.map_congr_left
    intro q _
    simp
  · show (d.equations.map normE).map _ = _
    rw [List.map_map]
    apply List.map_congr_left
    intro e _
    rfl

/-! non-vacuity of `PortableWF`: a stochastic linear model `x = rho*x[-1] + e` with its derived `ant_e` and `std_e`,
one variant with `rho = 1/3` -/

private def baseW : List Quantity :=
  [q "x" .transVar (some false), q "e" .transShock none,
   { name := "ant_e", kind := .antShock, logly := none, desc := "(Anticipated value) e", attrs := none },
   q "rho" .param none]

private def flagsW : Flags := { linear := true, flat := false, deterministic := false }

private def dW : InvData :=
  { desc := "demo"
    flags := flagsW
    quantities := baseW ++ stdsOf flagsW baseW
    equations := [{ kind := .transition, dynamic := "x=rho*x[-1]+(e+ant_e)", steady := "x=rho*x[-1]+e" }]
    contextKeys := ["myfunc"]
    tolEig := 0
    tolEq := 0
    defaultStd := 1 }

private def varsW : List (List Val × List Val) :=
  [([none, some 0, some 0, some (1 / 3), some 1], [none, none, none, none, none])]

theorem portableWF_example : PortableWF dW baseW varsW where
  split := rfl
  nostd := by
    intro x hx
    simp only [baseW, List.mem_cons, List.not_mem_nil, or_false] at hx
    rcases hx with rfl | rfl | rfl | rfl <;> rfl
  sorted := by decide
  ant := by decide
  nodup := by decide
  counts := by decide
  esorted := by decide
  ctx := by decide
  vars_ne := by simp [varsW]
  vars_ok := by
    intro v hv
    simp only [varsW, List.mem_cons, List.not_mem_nil, or_false] at hv
    subst hv
    exact ⟨rfl, rfl, rfl, rfl⟩

/-- the hypotheses are satisfiable and the conclusion is about a non-trivial record: the std parameter is re-created,
`attrs = None` of `ant_e` comes back as the empty set, `rho = 1/3` comes back exactly -/
example : fromPortable (fun _ e => e) 0 (toPortable dW varsW) = .ok (roundTripped dW 0, varsW) :=
  portable_roundtrip _ 0 dW baseW varsW portableWF_example

example : encodeQ (q "ant_e" .antShock none |>.attrs |> fun _ => { name := "ant_e", kind := .antShock, logly := none, attrs := none })
    = some ⟨"#v", "ant_e", none, "", []⟩ := rfl


/-! ## round 4: flags resolution, variants added in one call, the solution memo, JSON transport, token substitution -/

open IrisVerif.C20State

/-! ### flags: total functions on the keyword dictionary, proved exhaustively -/

/-- every one of the 8 flag combinations survives `to_portable` / `from_portable` (all three `is_` aliases are read) -/
theorem flags_portable_roundtrip_all (f : Flags) : flagsFromPortable (flagsToPortable f) = f := by
  rcases f with ⟨a, b, c⟩
  cases a <;> cases b <;> cases c <;> rfl

/-- a flag is set exactly when its plain spelling OR its `is_` alias is `True` -- for each of the three flags -/
theorem fromKwargs_spec (k : FlagKw) :
    ((fromKwargs k).linear = true ↔ k.linear = some true ∨ k.isLinear = some true) ∧
    ((fromKwargs k).flat = true ↔ k.flat = some true ∨ k.isFlat = some true) ∧
    ((fromKwargs k).deterministic = true ↔ k.deterministic = some true ∨ k.isDeterministic = some true) := by
  simp [fromKwargs, truthy]

/-- `update_from_kwargs` (`resolve_flags` of solve / steady / systemize): an EXPLICIT value wins -- also an explicit
`False` over a `True` set at creation -- and an absent one keeps the model's flag; on all 8 × 27 inputs -/
theorem update_explicit_wins (f : Flags) (k : FlagKw) :
    (updateFromKwargs f k).linear = k.linear.getD f.linear ∧
    (updateFromKwargs f k).flat = k.flat.getD f.flat ∧
    (updateFromKwargs f k).deterministic = k.deterministic.getD f.deterministic := by
  simp [updateFromKwargs, fromKwargs, truthy]

example : (updateFromKwargs ⟨true, true, false⟩ { linear := some false }).linear = false := rfl
example : (updateFromKwargs ⟨true, true, false⟩ {}) = ⟨true, true, false⟩ := rfl
example : fromKwargs { isDeterministic := some true } = ⟨false, false, true⟩ := rfl

/-! ### `alter_num_variants` growing by several variants in one call -/

/-- the variants added by one call are pairwise DISTINCT, freshly allocated objects (1 → 3, 1 → 5, shrink-then-grow: any
`k`), and by `step_owned` each of them owns two dicts of its own -/
theorem expand_adds_distinct_variants (k : Nat) (vs : List Nat) (h h' : Heap) (vs' : List Nat) (hw : h.WF)
    (hr : expandVars h vs k = .ok (vs', h')) :
    ∃ news : List Nat, vs' = vs ++ news ∧ news.length = k ∧ news.Nodup ∧ (∀ v, v ∈ news → h.next ≤ v ∧ v < h'.next) := by
  obtain ⟨news, a, b, c, d, _⟩ := expandVars_fresh_distinct k vs h h' vs' hw hr
  exact ⟨news, a, b, c, d⟩

example : ∃ h', alter h0 4 5 = .ok h' ∧ (getModel h' 4).map (fun t => t.2.1.length) = .ok 5 ∧
    (getModel h' 4).map (fun t => decide t.2.1.Nodup) = .ok true := ⟨_, rfl, rfl, rfl⟩

/-! ### the expansion memo -/

/-- MEMO THEOREM: from any state in which every solution object satisfies the memo invariant (entry `k` carries stamp `k`
of the object's own version -- true for fresh objects: `memo = []`), after ANY history of horizon requests (longer,
shorter, repeated), copies (the memo travels) and re-solves on an original and its copies, EVERY answer ever given equals
the answer of a brand-new solution object of the same version: `freshAnswer version forward`. -/
theorem memo_answers_are_fresh : ∀ (ops : List MOp) (objs : List SolObj), AllInv objs →
    ∀ e, e ∈ mrun objs ops → e.2.2.1 = freshAnswer e.2.2.2 e.2.1 := by
  intro ops
  induction ops with
  | nil => intro objs _ e he; cases he
  | cons op rest ih =>
    intro objs hinv e he
    have hnext := mstep_inv objs op hinv
    cases op with
    | expand i f =>
      simp only [mrun] at he
      cases hi : objs[i]? with
      | none =>
        simp only [mstep, hi] at he hnext
        exact ih objs hnext e he
      | some s =>
        simp only [mstep, hi, List.mem_cons] at he hnext
        rcases he with rfl | he
        · simp only [Option.map_some, Option.getD_some]
          exact (expand_answer s (hinv s (List.mem_of_getElem? hi)) f).1
        · exact ih _ hnext e he
    | copy i =>
      simp only [mrun] at he
      exact ih _ hnext e he
    | resolve i v =>
      simp only [mrun] at he
      exact ih _ hnext e he

/-- in particular an original used at a short horizon and then at a longer one answers what a copy taken before any use
answers (the scenario of the seeded changes r2-1 and r4-2) -/
example : mrun [⟨7, []⟩] [.copy 0, .expand 0 1, .expand 0 5, .expand 1 5]
    = [(0, 1, freshAnswer 7 1, 7), (0, 5, freshAnswer 7 5, 7), (1, 5, freshAnswer 7 5, 7)] := by decide

example : AllInv [⟨7, []⟩] := by intro s hs; simp at hs; subst hs; rfl

/-! ### JSON transport of the portable: what survives -/

theorem initChanges_roundTripped (d : InvData) (tol : Rat) : initChanges (roundTripped d tol) = initChanges d := by
  unfold initChanges roundTripped
  simp only [List.map_map]
  apply List.map_congr_left
  intro q _
  simp

/-- after a JSON transport the LEVELS of a variant come back exactly, its CHANGES are whatever a fresh variant has -/
theorem importVariantJson_roundtrip (d : InvData) (tol : Rat) (v : List Val × List Val)
    (hnd : (d.quantities.map (·.name)).Nodup) (h1 : v.1.length = d.quantities.length)
    (h2 : v.2.length = d.quantities.length) (h3 : enforceLevels d.quantities v.1 = v.1) :
    importVariantJson (roundTripped d tol) (encodeVariant (d.quantities.map (·.name)) v.1 v.2)
      = (v.1, enforceChanges d.quantities (initChanges d)) := by
  unfold importVariantJson
  have hn : (roundTripped d tol).quantities.map (·.name) = d.quantities.map (·.name) := names_map_normB _
  have hpairs := variant_values_roundtrip (d.quantities.map (·.name)) v.1 v.2 hnd (by simp [h1]) (by simp [h2])
  simp only [hn, hpairs]
  have l1 : (initLevels (roundTripped d tol)).length = v.1.length := by simp [initLevels, roundTripped, h1]
  rw [zipWith_fst v.1 v.2 _ l1 (by rw [h1, h2]), initChanges_roundTripped]
  show (enforceLevels (d.quantities.map normB) v.1, enforceChanges (d.quantities.map normB) (initChanges d)) = _
  rw [enforceLevels_map normB normB_kind, enforceChanges_map normB normB_kind, h3]

/-- WHOLE RECORD THROUGH JSON (model of the code as it is): everything of `portable_roundtrip` survives -- names, kinds,
log status, equations, flags, and every LEVEL of every variant (parameters, stds, steady levels) -- but every steady CHANGE
is replaced by the initial one (`None`, or 0/1 for loggables of a flat model) -/
theorem portable_json_roundtrip (subst : List Quantity → Equation → Equation) (tol : Rat) (d : InvData)
    (base : List Quantity) (vars : List (List Val × List Val)) (w : PortableWF d base vars) :
    fromPortableG importVariantJson subst tol (toPortable d vars)
      = .ok (roundTripped d tol, vars.map (fun v => (v.1, enforceChanges d.quantities (initChanges d)))) :=
  portable_roundtrip_G importVariantJson _ subst tol d base vars w (fun v hv => by
    obtain ⟨h1, h2, h3, _⟩ := w.vars_ok v hv
    exact importVariantJson_roundtrip d tol v w.nodup h1 h2 h3)

private def varsW2 : List (List Val × List Val) :=
  [([none, some 0, some 0, some (1 / 3), some 1], [some 2, none, none, none, none])]

theorem portableWF_example2 : PortableWF dW baseW varsW2 :=
  { portableWF_example with
    vars_ne := by simp [varsW2]
    vars_ok := by
      intro v hv
      simp only [varsW2, List.mem_cons, List.not_mem_nil, or_false] at hv
      subst hv
      exact ⟨rfl, rfl, rfl, rfl⟩ }

/-- a witness that changes really are lost: in the (non-flat) demo model a steady change 2 of `x` comes back as `None`
through JSON, while `rho = 1/3` and every other level come back exactly -/
example : fromPortableG importVariantJson (fun _ e => e) 0 (toPortable dW varsW2)
    = .ok (roundTripped dW 0, [([none, some 0, some 0, some (1 / 3), some 1], [none, none, none, none, none])]) := by
  rw [portable_json_roundtrip _ 0 dW baseW varsW2 portableWF_example2]
  rfl

/-! ### the anticipated-shock substitution on tokens -/

/-- with no shock lacking its counterpart the substitution is the identity (exported well-formed models: `missingAnt = []`) -/
theorem substTokens_nil (toks : List String) : substTokens [] toks = toks := by
  unfold substTokens
  simp

/-- more generally it only touches tokens that ARE a missing shock name -/
theorem substTokens_no_occurrence (missing toks : List String) (h : ∀ t, t ∈ toks → t ∉ missing) :
    substTokens missing toks = toks := by
  unfold substTokens
  induction toks with
  | nil => rfl
  | cons t ts ih =>
    have ht : missing.contains t = false := by
      simpa using h t (by simp)
    simp only [List.flatMap_cons, ht]
    rw [ih (fun x hx => h x (by simp [hx]))]
    rfl

/-- and it is NOT idempotent on its own output: applying it to an already substituted equation doubles the anticipated
term -- this is the defect `portable-import-raises` of the first round seen at token level -/
example : substTokens ["e"] (substTokens ["e"] ["x", "=", "e"])
    = ["x", "=", "(", "(", "e", "+", "ant_e", ")", "+", "ant_e", ")"] := by decide


/-! ## reading back: singleton unpacking happens only when there is exactly one variant -/

/-- with several variants (or none) EVERY spelling returns the full per-variant list, whatever `unpack_singleton` says -/
theorem unpack_only_singleton (vs : List Val) (u : Bool) (h : vs.length ≠ 1) :
    unpackSingleton vs (vs.length == 1) u = .list vs := by
  unfold unpackSingleton
  have : (vs.length == 1) = false := by simpa using h
  simp [this]

/-- with exactly one variant the unpacking spelling returns THE value, the non-unpacking one the one-element list -/
theorem unpack_singleton_one (v : Val) (u : Bool) :
    unpackSingleton [v] (([v] : List Val).length == 1) u = if u then .scalar v else .list [v] := by
  cases u <;> rfl

/-- what the unpacking spellings must show given the per-variant list -/
def unpackRead (vals : List Val) : Read :=
  match vals with
  | [v] => .scalar v
  | _ => .list vals

/-- the spellings agree: the unpacked read is the head of the list read for a singleton and IS the list read otherwise -/
theorem getValue_spellings_agree (h : Heap) (m : Ref) (name : String) (vals : List Val)
    (hl : getValue h m name false = .ok (.list vals)) :
    getValue h m name true = .ok (unpackRead vals) := by
  unfold getValue at hl ⊢
  cases hm : getModel h m with
  | error e => simp [hm] at hl
  | ok t =>
    obtain ⟨i, vs, d⟩ := t
    simp only [hm] at hl ⊢
    cases hq : qidOf d name with
    | none => simp [hq] at hl
    | some q =>
      simp only [hq] at hl ⊢
      cases hv : levelsOf h q vs with
      | none => simp [hv] at hl
      | some l =>
        have hlen : ∀ (ws : List Ref) (r : List Val), levelsOf h q ws = some r → r.length = ws.length := by
          intro ws
          induction ws with
          | nil => intro r hr; simp only [levelsOf, Option.some.injEq] at hr; subst hr; rfl
          | cons w ws ih =>
            intro r hr
            simp only [levelsOf] at hr
            split at hr
            · rename_i o rest _ hrest
              split at hr
              · simp only [Option.some.injEq] at hr
                subst hr
                simp [ih rest hrest]
              · cases hr
            · cases hr
        have hll := hlen vs l hv
        simp only [hv, Except.ok.injEq] at hl ⊢
        have hvals : l = vals := by
          unfold unpackSingleton at hl
          simpa using hl
        subst hvals
        unfold unpackSingleton unpackRead
        rw [← hll]
        match l with
        | [] => rfl
        | [v] => rfl
        | _ :: _ :: _ => rfl

example : getValue h0 4 "rho" = .ok (.scalar none) := rfl
example : getValue h0 4 "rho" false = .ok (.list [none]) := rfl
example : getValue h0 4 "nosuch" = .error .bad := rfl
example : (alter h0 4 3).bind (fun h' => getValue h' 4 "e") = .ok (.list [some 0, some 0, some 0]) := rfl


/-! ## every equation kind is exported -/

/-- the export loop runs over ALL equation kinds the language has (transition, measurement, steady autovalues) ... -/
theorem all_equation_kinds_exported (k : EKind) : k ∈ eexportOrder := by
  cases k <;> simp [eexportOrder]

/-- ... so NO equation is dropped: the portable has exactly as many equation records as the model has equation pairs
(`mem_encodeEs` says which, `equations_roundtrip` that they decode to the same kind, dynamic and steady text, description) -/
theorem encodeEs_length (es : List Equation) : (encodeEs es).length = es.length := by
  unfold encodeEs
  simp only [eexportOrder, List.flatMap_cons, List.flatMap_nil, List.append_nil, List.length_append, List.length_map]
  induction es with
  | nil => rfl
  | cons e es ih =>
    simp only [List.filter_cons, List.length_cons]
    cases hk : e.kind <;> simp <;> omega

/-- and every quantity kind except the two derived std kinds has a portable code (the stds are re-created: `PortableWF.split`) -/
theorem quantity_kinds_exported (k : QKind) : k ∈ exportOrder ∨ k.isStd = true := by
  cases k <;> simp [exportOrder, QKind.isStd]

example : (encodeEs [{ kind := .autovalue, dynamic := "sx=2*x1+1", steady := "sx=2*x1+1" },
    { kind := .transition, dynamic := "x1=r1*x1[-1]", steady := "x1=r1*x1[-1]" }]).map (·.code) = ["#T", "#A"] := by decide


/-! ## round 5: statement audit -- input-level end-to-end theorems, rejection branches, invariant mutators -/

/-- everything allocated -/
def Alloc (h : Heap) : Ref → Prop := fun x => x < h.next

/-- a heap without dangling pointers: well-formed and every stored pointer is allocated -/
structure Good (h : Heap) : Prop where
  wf : h.WF
  closed : Closed (Alloc h) h

theorem Good.empty : Good Heap.empty :=
  ⟨fun _ _ => rfl, fun x o _ hg => by simp [Heap.empty] at hg⟩

/-- an operation that succeeds was aimed at an allocated object (`getModel` fails on anything else) -/
theorem step_ok_target_allocated (fs : Funs) {h h' : Heap} (hw : h.WF) (op : Op) {r : Option Ref}
    (hr : step fs h op = .ok (r, h')) : op.target < h.next := by
  apply Nat.lt_of_not_le
  intro hle
  have hg : h.get op.target = none := hw _ hle
  cases op <;>
    simp [step, Op.target, assign, solve, steady, alter, setDesc, setTol, copy, pickle, view, mutInv, getModel, Except.map] at hr hg <;>
    simp [hg] at hr

theorem side_alloc {h0 h : Heap} (hle : h0.next ≤ h.next) (x : Ref) :
    Side (Alloc h0) h0.next h.next x ↔ Alloc h x := by
  unfold Side Alloc
  constructor
  · rintro (hx | ⟨_, hx⟩)
    · exact Nat.lt_of_lt_of_le hx hle
    · exact hx
  · intro hx
    by_cases h1 : x < h0.next
    · exact Or.inl h1
    · exact Or.inr ⟨Nat.le_of_not_lt h1, hx⟩

/-- every operation keeps the heap free of dangling pointers -/
theorem step_good (fs : Funs) {h h' : Heap} (g : Good h) (op : Op) {r : Option Ref}
    (hr : step fs h op = .ok (r, h')) : Good h' := by
  have ht := step_ok_target_allocated fs g.wf op hr
  obtain ⟨e, le, _⟩ := step_ext fs (Ext.refl g.wf g.closed) op (Or.inl ht) hr
  refine ⟨e.wf, ?_⟩
  intro x o hx hg y hy
  exact (side_alloc le y).mp (e.closed x o ((side_alloc le x).mpr hx) hg y hy)

theorem newModel_good {h : Heap} (g : Good h) (d : InvData) : Good (newModel h d).2 := by
  unfold newModel
  have e0 := Ext.refl g.wf g.closed
  obtain ⟨e1, _⟩ := e0.alloc (.inv d) (by simp [Obj.refs])
  obtain ⟨e2, s2⟩ := e1.alloc (.dict (enforceLevels d.quantities (initLevels d))) (by simp [Obj.refs])
  obtain ⟨e3, s3⟩ := e2.alloc (.dict (enforceChanges d.quantities (initChanges d))) (by simp [Obj.refs])
  obtain ⟨e4, s4⟩ := e3.alloc (.var (h.next + 1) (h.next + 1 + 1) none) (by
    intro y hy
    simp only [Obj.refs, Option.toList, List.mem_cons, List.not_mem_nil, or_false] at hy
    rcases hy with rfl | rfl
    · exact Side.mono (by simp) s2
    · exact s3)
  obtain ⟨e5, _⟩ := e4.alloc (.model h.next [h.next + 1 + 1 + 1]) (by
    intro y hy
    simp only [Obj.refs, List.mem_cons, List.not_mem_nil, or_false] at hy
    rcases hy with rfl | rfl
    · exact Or.inr ⟨Nat.le_refl _, by
        show (h.next : Nat) < _
        simp only [Heap.next_alloc]
        omega⟩
    · exact s4)
  refine ⟨e5.wf, ?_⟩
  intro x o hx hg y hy
  have le : h.next ≤ (newModel h d).2.next := by simp [newModel]; omega
  exact (side_alloc le y).mp (e5.closed x o ((side_alloc le x).mpr hx) hg y hy)

/-- after ANY history from a freshly built model the heap has no dangling pointers -/
theorem good_after_history (fs : Funs) (d : InvData) : ∀ (ops : List Op), Good (runOps fs (newModel Heap.empty d).2 ops) := by
  have gen : ∀ (ops : List Op) (h : Heap), Good h → Good (runOps fs h ops) := by
    intro ops
    induction ops with
    | nil => intro h g; exact g
    | cons op rest ih =>
      intro h g
      simp only [runOps]
      cases hst : step fs h op with
      | error e => exact ih h g
      | ok p =>
        obtain ⟨r, h'⟩ := p
        exact ih h' (step_good fs g op hst)
  intro ops
  exact gen ops _ (newModel_good Good.empty d)

/-- END-TO-END, input-level hypotheses only: build a model from ANY invariant data, run ANY history on it and on whatever
it creates, take a copy (or a pickle round trip) of ANY model object; then for EVERY interleaving of operations tagged
"everything that existed before the copy" / "the copy and everything made from it", every step leaves the objects and the
observable state of the other side unchanged.  No separation hypothesis: `Sep` is established by `good_after_history` and
`copy_disjoint`.  The operations include every mutator of the invariant (`Op.mutInv f` for any `f`: `change_logly`,
`reset_tolerance`, `set_description`, `override_tolerance`). -/
theorem copy_isolated_end_to_end (fs : Funs) (d : InvData) (history : List Op) (m m' : Ref) (h' : Heap)
    (hc : copy (runOps fs (newModel Heap.empty d).2 history) m = .ok (m', h')) (ops : List (Tag × Op)) :
    IsolatedRun fs h' (Alloc (runOps fs (newModel Heap.empty d).2 history))
      (Fresh (runOps fs (newModel Heap.empty d).2 history) h') ops := by
  have g := good_after_history fs d history
  exact interleaving_isolated fs ops h' _ _ (copy_disjoint g.wf g.closed (fun _ hx => hx) hc).2.2

theorem pickle_isolated_end_to_end (fs : Funs) (d : InvData) (history : List Op) (m m' : Ref) (h' : Heap)
    (hc : pickle (runOps fs (newModel Heap.empty d).2 history) m = .ok (m', h')) (ops : List (Tag × Op)) :
    IsolatedRun fs h' (Alloc (runOps fs (newModel Heap.empty d).2 history))
      (Fresh (runOps fs (newModel Heap.empty d).2 history) h') ops := by
  have g := good_after_history fs d history
  exact interleaving_isolated fs ops h' _ _ (pickle_disjoint g.wf g.closed (fun _ hx => hx) hc).2.2

/-- non-vacuity: the copy of the concrete model exists, the copy is on the fresh side, the original on the old side, and a
`change_logly` on the copy followed by a `set_description` on the original is a history both of whose steps are covered -/
private def fs0 : Funs := ⟨fun _ _ _ => "s", fun _ l c => (l, c), fun _ l c => (l, c)⟩

example : (copy (runOps fs0 (newModel Heap.empty d0).2 [.alter 4 3, .solve 4]) 4).toOption.map (·.1) = some 27 := rfl

example : (step ⟨fun _ _ _ => "s", fun _ l c => (l, c), fun _ l c => (l, c)⟩ h0 (.mutInv 4 (changeLogly true []))).toOption.bind
    (fun p => (observe p.2 4).map (fun o => o.inv.quantities.map (·.logly))) = some [some true, none, none] := rfl

/-- `solve` at model level (the loop of `solve_each_variant` is what `m.solve()` runs) -/
theorem solve_model_each_variant (F : InvData → List Val → List Val → Sol) {h h' : Heap} {m i : Nat} {vs : List Nat}
    {d : InvData} (hw : h.WF) (hm : getModel h m = .ok (i, vs, d)) (hnd : vs.Nodup) (hr : solve F h m = .ok h') :
    ∀ v o, v ∈ vs → observeVar h v = some o →
      observeVar h' v = some ⟨o.levels, o.changes, some (F d o.levels o.changes)⟩ := by
  unfold solve at hr
  simp only [hm] at hr
  exact (solve_each_variant F d vs h h' hw hnd hr).1

/-! ### rejection branches: the model rejects what the code rejects -/

/-- `alter_num_variants(0)` on any model with at least one variant raises, and nothing changes (an `Except.error` carries no heap) -/
theorem alter_zero_rejected {h : Heap} {m i : Nat} {vs : List Nat} {d : InvData}
    (hm : getModel h m = .ok (i, vs, d)) (hne : vs ≠ []) : alter h m 0 = .error .bad := by
  unfold alter
  have : 0 < vs.length := List.length_pos_iff.mpr hne
  simp [hm, this]

/-- reading an unknown name raises (`IrisPieCritical: Invalid model name`) -/
theorem getValue_unknown_name_rejected {h : Heap} {m i : Nat} {vs : List Nat} {d : InvData} (name : String) (u : Bool)
    (hm : getModel h m = .ok (i, vs, d)) (hq : qidOf d name = none) : getValue h m name u = .error .bad := by
  unfold getValue
  simp [hm, hq]

/-- a portable of another format version is rejected before anything is decoded -/
theorem fromPortable_rejects_other_format (subst : List Quantity → Equation → Equation) (tol : Rat) (p : PModel)
    (h : p.format ≠ "0.3.0") : fromPortable subst tol p = .error .format := by
  unfold fromPortable fromPortableG
  simp [h]

/-- a portable with an unknown quantity or equation kind code is rejected -/
theorem fromPortable_rejects_unknown_code (subst : List Quantity → Equation → Equation) (tol : Rat) (p : PModel)
    (hf : p.format = "0.3.0") (h : decodeQs p.quantities = none) : fromPortable subst tol p = .error .badCode := by
  unfold fromPortable fromPortableG
  simp [hf, h]

/-- a portable without variants is rejected (`alter_num_variants(0)`) -- when everything before it passes -/
example : fromPortable (fun _ e => e) 0 { toPortable dW varsW with variants := [] } = .error .noVariants := rfl
example : fromPortable (fun _ e => e) 0 { toPortable dW varsW with format := "0.2.0" } = .error .format := rfl
example : alter h0 4 0 = .error .bad := alter_zero_rejected (i := 0) (vs := [3]) (d := d0) rfl (by simp)


/-! ## slice selectors: `m[a:b:c]` is `list(range(n))[a:b:c]` -/

/-- every position a slice selects exists (so the view is never rejected and never wraps around) -/
theorem sliceSel_positive_step_in_range (n : Nat) (a b : Option Int) (st : Int) (hst : 0 < st) (l : List Int)
    (h : sliceSel n a b (some st) = some l) : ∀ p, p ∈ l → 0 ≤ p := by
  unfold sliceSel at h
  have h0 : ¬ (st = 0) := by omega
  have h1 : ¬ (st < 0) := by omega
  simp only [Option.getD_some, h0, if_false, h1, Option.some.injEq] at h
  subst h
  intro p hp
  simp only [List.mem_map, List.mem_range] at hp
  obtain ⟨i, _, rfl⟩ := hp
  have hi : (0 : Int) ≤ (i : Int) * st := Int.mul_nonneg (Int.natCast_nonneg i) (Int.le_of_lt hst)
  cases a with
  | none => simpa using hi
  | some s =>
    simp only []
    by_cases hs : s < 0
    · simp only [hs, if_true]; omega
    · simp only [hs, if_false]; omega

/-- step 0 is rejected (`ValueError: slice step cannot be zero`) -/
theorem sliceSel_zero_step_rejected (n : Nat) (a b : Option Int) : sliceSel n a b (some 0) = none := by
  simp [sliceSel]

example : sliceSel 3 (some (-1)) none none = some [2] := by decide
example : sliceSel 3 (some (-2)) none none = some [1, 2] := by decide
example : sliceSel 3 none (some (-1)) none = some [0, 1] := by decide
example : sliceSel 5 none none (some (-2)) = some [4, 2, 0] := by decide
example : sliceSel 4 (some 1) (some 100) (some 2) = some [1, 3] := by decide
example : sliceSel 3 (some (-100)) (some 2) none = some [0, 1] := by decide

end IrisVerif.C20
