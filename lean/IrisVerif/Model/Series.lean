/-
Model of irispie/series/main.py: a time series is a frequency, an optional start serial and a
rectangular block of cells (`none` = NaN), `rows.length` periods by `nv` variants.

The operations mirror the *padding / position arithmetic* of the code (`_get_date_positions`,
`_create_expanded_data`, `set_data`, `get_data`, `get_data_from_until`, `clip`, `overlay`,
`underlay`, `hstack`, `_binop`, `apply`, `trim`), not an idealised map: the theorems of
`Props/C10.lean` prove that this arithmetic *refines* the map `abs : Series → Int → Nat → Cell`.

Two layers: a core on integer serials (`Series.setData`, …) and frequency-checked wrappers on
`Period`s (`Series.setDataP`, …) that raise `mixedFreq` exactly where `t - base`, `min(...)` or a
period comparison of the code raises.

Core Lean only (no Mathlib).

Behaviours kept as they are in the code (not idealised):
* `clip` / `empty()` / unary minus leave a start on a series without rows;
* `set_data` trims, `-x`, `abs(x)`, `clip`, `shift` do not;
* exhaust-then-last broadcasting of data variants; duplicate periods: last write wins;
* `_broadcast_variants_if_needed` is modelled as *repaired* (broadcasts a copy of `other`,
  pending fix C10-a) and `_binop` of two start-less series returns the empty series (pending fix C10-b).
Not modelled: the state left behind by a write that raises half-way (the op sequence ends at an error).
-/
import IrisVerif.Model.Spans

namespace IrisVerif.Series
open IrisVerif.Dates

/-- an observed IEEE value: a finite number (kept as an exact rational) or ±∞. NaN is *not* a value: it is the missing
cell `none`. Only NaN is missing — an infinite value is observed, is never trimmed and reads back as it was written. -/
inductive Num where
  | fin (q : Rat)
  | pinf
  | ninf
  deriving Repr, DecidableEq, Inhabited

instance (n : Nat) : OfNat Num n := ⟨.fin (n : Rat)⟩

abbrev Cell := Option Num

namespace Num

def neg : Num → Num
  | .fin q => .fin (-q)
  | .pinf => .ninf
  | .ninf => .pinf

/-- the sign as -1, 0, 1 -/
def sgn : Num → Int
  | .fin q => if q < 0 then -1 else if q = 0 then 0 else 1
  | .pinf => 1
  | .ninf => -1

/-- IEEE addition: `inf + (-inf)` is NaN -/
def add : Num → Num → Cell
  | .fin a, .fin b => some (.fin (a + b))
  | .pinf, .ninf => none
  | .ninf, .pinf => none
  | .pinf, _ => some .pinf
  | _, .pinf => some .pinf
  | .ninf, _ => some .ninf
  | _, .ninf => some .ninf

def sub (x y : Num) : Cell := x.add y.neg

/-- IEEE multiplication: `0 * inf` is NaN -/
def mul : Num → Num → Cell
  | .fin a, .fin b => some (.fin (a * b))
  | x, y => if x.sgn * y.sgn = 0 then none else if x.sgn * y.sgn > 0 then some .pinf else some .ninf

/-- division by a positive count (`mean`) -/
def divNat : Num → Nat → Num
  | .fin q, n => .fin (q / (n : Rat))
  | x, _ => x

def lt : Num → Num → Bool
  | .fin a, .fin b => decide (a < b)
  | .ninf, .ninf => false
  | .ninf, _ => true
  | _, .ninf => false
  | .pinf, _ => false
  | _, .pinf => true

def le (x y : Num) : Bool := !(y.lt x)

def abs : Num → Num
  | .fin q => .fin (if q < 0 then -q else q)
  | _ => .pinf

end Num

abbrev Row := List Cell

structure Series where
  freq : Freq            -- meaningful only while `start` is `some _` (an empty series has frequency UNKNOWN)
  start : Option Int
  nv : Nat
  rows : List Row
  deriving Repr, DecidableEq, Inhabited

def nanRow (nv : Nat) : Row := List.replicate nv none
def nanRows (n nv : Nat) : List Row := List.replicate n (nanRow nv)

/-- `Series(num_variants=nv)` -/
def Series.new (f : Freq) (nv : Nat) : Series := ⟨f, none, nv, []⟩

/-- `reset()`: `__init__(num_variants=self.num_variants)` -/
def Series.reset (s : Series) : Series := { s with start := none, rows := [] }

/-- `end`: `start + shape[0] - 1 if start else None` -/
def Series.endSerial (s : Series) : Option Int := s.start.map (fun st => st + s.rows.length - 1)

/-- `is_empty`: `not data.size` -/
def Series.isEmpty (s : Series) : Bool := s.rows.length * s.nv == 0

/-! ### The abstraction: a series as a total map (serial, variant) ↦ cell -/

def cellAt (rows : List Row) (i v : Nat) : Cell :=
  match rows[i]? with
  | none => none
  | some r => (r[v]?).getD none

def Series.abs (s : Series) (t : Int) (v : Nat) : Cell :=
  match s.start with
  | none => none
  | some st => if st ≤ t then cellAt s.rows (t - st).toNat v else none

/-! ### trim -/

def allNan (r : Row) : Bool := r.all (fun c => c.isNone)

/-- number of leading all-NaN rows -/
def numLeading : List Row → Nat
  | [] => 0
  | r :: rs => if allNan r then numLeading rs + 1 else 0

/-- `trim()`: remove leading and trailing all-NaN rows; an all-NaN (or zero-size) series is reset. -/
def Series.trim (s : Series) : Series :=
  if s.rows.length * s.nv = 0 then s.reset
  else
    let lead := numLeading s.rows
    let trail := numLeading s.rows.reverse
    if trail = s.rows.length then s.reset
    else { s with rows := (s.rows.drop lead).take (s.rows.length - lead - trail),
                  start := s.start.map (fun st => st + lead) }

/-! ### positions and padding -/

def minOr0 : List Int → Int
  | [] => 0
  | x :: xs => xs.foldr min x

def maxOr0 : List Int → Int
  | [] => 0
  | x :: xs => xs.foldr max x

structure Positions where
  pos : List Nat
  addBefore : Nat
  addAfter : Nat
  deriving Repr

/-- `_get_date_positions(dates, base, num_periods)` -/
def getDatePositions (serials : List Int) (base : Int) (numPeriods : Nat) : Positions :=
  let pos := serials.map (fun t => t - base)
  let addBefore := (max (-(minOr0 pos)) 0).toNat
  let addAfter := (max (maxOr0 pos - (numPeriods : Int) + 1) 0).toNat
  ⟨pos.map (fun p => (p + (addBefore : Int)).toNat), addBefore, addAfter⟩

/-- `_create_expanded_data(add_before, add_after)` -/
def expand (nv : Nat) (rows : List Row) (addBefore addAfter : Nat) : List Row :=
  nanRows addBefore nv ++ rows ++ nanRows addAfter nv

/-! ### writes -/

/-- what one `self.data[pos, c] = d` receives -/
inductive Col where
  | scalar (c : Cell)
  | column (cs : List Cell)
  deriving Repr, DecidableEq

/-- the `data` argument of `set_data` after `_reshape_numpy_array` (a Series argument is read with
`data.get_data(dates)` by the caller and arrives as `array`) -/
inductive DataArg where
  | pyNone                          -- `None`
  | scalar (c : Cell)               -- a number (NaN = `none`)
  | variants (l : List Col)         -- a Python list: one item per variant
  | array (cols : List (List Cell)) -- an ndarray, given by its columns (`reshape(shape[0], -1).T`)
  deriving Repr, DecidableEq

/-- `data is None or (ndarray and data.size == 0)` -/
def DataArg.isEmptyData : DataArg → Bool
  | .pyNone => true
  | .array cols => cols.all (fun c => c.isEmpty)
  | _ => false

/-- `exhaust_then_last(l, default)[k]` -/
def exhaustThenLast {α} (l : List α) (dflt : α) (k : Nat) : α :=
  match l[k]? with
  | some x => x
  | none => (l.getLast?).getD dflt

/-- the `k`-th item of `has_variants.iter_variants(data)` -/
def DataArg.variant (d : DataArg) (k : Nat) : Col :=
  match d with
  | .pyNone => .scalar none
  | .scalar c => .scalar c
  | .variants l => exhaustThenLast l (.scalar none) k
  | .array cols => exhaustThenLast (cols.map Col.column) (.scalar none) k

/-- numpy index normalisation along an axis of length `n` (`none` = IndexError) -/
def normIdx (n : Nat) (c : Int) : Option Nat :=
  if 0 ≤ c ∧ c < n then some c.toNat
  else if -(n : Int) ≤ c ∧ c < 0 then some (c + n).toNat
  else none

/-- the values numpy broadcasts `d` to for `n` addressed positions (`none` = shape mismatch) -/
def Col.values (n : Nat) : Col → Option (List Cell)
  | .scalar c => some (List.replicate n c)
  | .column cs =>
    if cs.length = n then some cs
    else if cs.length = 1 then some (List.replicate n (cs.headD none))
    else none

def setCell (rows : List Row) (i v : Nat) (c : Cell) : List Row :=
  match rows[i]? with
  | none => rows
  | some r => rows.set i (r.set v c)

/-- `data[pos, v] = vals` (fancy assignment in order: with repeated positions the last one wins) -/
def assignCells (rows : List Row) (v : Nat) : List (Nat × Cell) → List Row
  | [] => rows
  | (p, c) :: rest => assignCells (setCell rows p v c) v rest

/-- the loop `for c, d in zip(vids, data_variants): self.data[pos, c] = d`, `k` = index into the variants -/
def assignAll (nv : Nat) (rows : List Row) (pos : List Nat) (data : DataArg) : List Int → Nat → R (List Row)
  | [], _ => pure rows
  | c :: cs, k =>
    match normIdx nv c, (data.variant k).values pos.length with
    | some v, some vals => assignAll nv (assignCells rows v (pos.zip vals)) pos data cs (k + 1)
    | _, _ => throw .badInput

/-- `_resolve_variants`: `None` → all, an int, or an iterable of ints -/
inductive VarArg where
  | all
  | one (c : Int)
  | list (l : List Int)
  | slice (a b : Option Int)        -- `slice(a, b)`: `range(*slice.indices(num_variants))`
  deriving Repr, DecidableEq

/-- one end of `slice.indices(n)` for step 1: negative ends count from the back, everything is clamped to `[0, n]` -/
def sliceEnd (n : Nat) (dflt : Int) : Option Int → Int
  | none => dflt
  | some x => if x < 0 then max (x + n) 0 else min x n

def resolveVariants (nv : Nat) : VarArg → List Int
  | .all => (List.range nv).map (fun (i : Nat) => (i : Int))
  | .one c => [c]
  | .list l => l
  | .slice a b =>
    let lo := sliceEnd nv 0 a
    let hi := sliceEnd nv nv b
    (List.range (hi - lo).toNat).map (fun (i : Nat) => lo + (i : Int))

/-- `set_data(dates, data, variants)` on serials of the series' own frequency -/
def Series.setData (s : Series) (serials : List Int) (data : DataArg) (vids : List Int) : R Series :=
  if serials.isEmpty ∧ data.isEmptyData then pure s
  else if data.isEmptyData ∧ data ≠ .pyNone then throw .badInput   -- `reshape(0, -1)` in `iter_variants` raises
  else
    let s1 : Series := match s.start with
      | some _ => s
      | none => { s with start := serials.head?, rows := [nanRow s.nv] }
    let P := getDatePositions serials (s1.start.getD 0) s1.rows.length
    let rows := expand s1.nv s1.rows P.addBefore P.addAfter
    let start := s1.start.map (fun st => st - (P.addBefore : Int))
    match assignAll s1.nv rows P.pos data vids 0 with
    | .error e => .error e
    | .ok rows' => pure ({ s1 with start := start, rows := rows' } : Series).trim

/-! ### reads -/

def pickRow (nv : Nat) (row : Row) (vids : List Int) : R Row :=
  vids.mapM (fun c => match normIdx nv c with
    | some v => pure ((row[v]?).getD none)
    | none => throw .badInput)

/-- `get_data(dates, variants)`: `expanded[np.ix_(pos, variants)]` -/
def Series.getData (s : Series) (serials : List Int) (vids : List Int) : R (List Row) :=
  if serials.isEmpty then
    (do let _ ← pickRow s.nv (nanRow s.nv) vids; pure [])      -- `[:, variants]` on a (0, nv) array still checks the index
  else
    let base := s.start.getD (minOr0 serials)
    let P := getDatePositions serials base s.rows.length
    let data := expand s.nv s.rows P.addBefore P.addAfter
    P.pos.mapM (fun p => pickRow s.nv ((data[p]?).getD (nanRow s.nv)) vids)

/-- `get_data_from_until((a, b), variants)`: the slice `expanded[pos[0] : pos[-1]+1, variants]` -/
def Series.getDataFromUntil (s : Series) (a b : Int) (vids : List Int) : R (List Row) :=
  let base := s.start.getD (min a b)
  let P := getDatePositions [a, b] base s.rows.length
  let data := expand s.nv s.rows P.addBefore P.addAfter
  let fromPos := (a - base + (P.addBefore : Int)).toNat
  let toPos := (b - base + (P.addBefore : Int)).toNat + 1
  ((data.drop fromPos).take (toPos - fromPos)).mapM (fun row => pickRow s.nv row vids)

def allVids (s : Series) : List Int := resolveVariants s.nv .all

/-- all variants of the slice: no index can fail -/
def Series.sliceFromUntil (s : Series) (a b : Int) : List Row :=
  let base := s.start.getD (min a b)
  let P := getDatePositions [a, b] base s.rows.length
  let data := expand s.nv s.rows P.addBefore P.addAfter
  let fromPos := (a - base + (P.addBefore : Int)).toNat
  let toPos := (b - base + (P.addBefore : Int)).toNat + 1
  (data.drop fromPos).take (toPos - fromPos)

/-! ### shift, clip, empty, copy -/

/-- `_shift_by_number(by)` -/
def Series.shift (s : Series) (k : Int) : Series := { s with start := s.start.map (fun st => st - k) }

/-- `new_start = self.start if new_start is None or new_start < self.start` -/
def clampLo (st : Int) : Option Int → Int
  | none => st
  | some a => if a < st then st else a

/-- `new_end = self.end if new_end is None or new_end > self.end` -/
def clampHi (en : Int) : Option Int → Int
  | none => en
  | some b => if b > en then en else b

/-- `clip(new_start, new_end)` on serials; the caller has checked frequencies -/
def Series.clip (s : Series) (a b : Option Int) : R Series :=
  match s.start with
  | none => if a.isNone ∧ b.isNone then pure s else throw .mixedFreq   -- `period < None` raises
  | some st =>
    let en := st + s.rows.length - 1
    let ns := clampLo st a
    let ne := clampHi en b
    if ns = st ∧ ne = en then pure s
    else pure { s with rows := s.sliceFromUntil ns ne, start := some ns }

/-- `empty()`: drops the rows, keeps the start -/
def Series.empty (s : Series) : Series := { s with rows := [] }

/-! ### overlay / underlay -/

def transpose (nv : Nat) (rows : List Row) : List (List Cell) :=
  (List.range nv).map (fun v => rows.map (fun r => (r[v]?).getD none))

/-- `_broadcast_variants(num_variants)` -/
def Series.broadcastVariants (s : Series) (n : Nat) : R Series :=
  if s.nv = n then pure s
  else if s.nv = 1 then pure { s with nv := n, rows := s.rows.map (fun r => List.replicate n ((r[0]?).getD none)) }
  else throw .badInput

/-- `_broadcast_variants_if_needed(self, other)` as repaired: `other` is broadcast as a copy -/
def broadcastPair (self other : Series) : R (Series × Series) :=
  if self.nv = other.nv then pure (self, other)
  else if self.nv = 1 then do let s ← self.broadcastVariants other.nv; pure (s, other)
  else if other.nv = 1 then do let o ← other.broadcastVariants self.nv; pure (self, o)
  else throw .badInput

/-- `other.span` as serials: `Span(start, end) if start else ()` -/
def Series.spanSerials (s : Series) : List Int :=
  match s.start with
  | none => []
  | some st => (List.range s.rows.length).map (fun (i : Nat) => st + (i : Int))

/-- `overlay_by_span` after broadcasting: `set_data(other.span, other.data); trim()` -/
def Series.overlayCore (self other : Series) : R Series := do
  let r ← self.setData other.spanSerials (.array (transpose other.nv other.rows)) (allVids self)
  pure r.trim

def Series.overlay (self other : Series) : R Series := do
  let (s, o) ← broadcastPair self other
  s.overlayCore o

/-- `underlay_by_span`: `new = other.copy(); new.overlay(self); self.start, self.data = new.start, new.data` -/
def Series.underlay (self other : Series) : R Series := do
  let (s, o) ← broadcastPair self other
  let r ← o.overlay s
  pure r

/-! ### element-wise -/

def mapCells (g : Cell → Cell) (s : Series) : Series := { s with rows := s.rows.map (fun r => r.map g) }

/-- `apply(func)` for a shape-preserving element-wise `func`: copy, `_replace_data`, trim -/
def Series.apply (g : Cell → Cell) (s : Series) : Series := (mapCells g s).trim

/-- numpy broadcasting of the variant axis of two blocks with the same number of rows -/
def bcastNv (n m : Nat) : Option Nat :=
  if n = m then some n else if n = 1 then some m else if m = 1 then some n else none

def zipRow (f : Cell → Cell → Cell) (nv : Nat) (a b : Row) : Row :=
  (List.range nv).map (fun v =>
    f ((a[if a.length = 1 then 0 else v]?).getD none) ((b[if b.length = 1 then 0 else v]?).getD none))

def optMin (a b : Option Int) : Option Int :=
  match a, b with
  | some x, some y => some (min x y)
  | some x, none => some x
  | none, y => y

def optMax (a b : Option Int) : Option Int :=
  match a, b with
  | some x, some y => some (max x y)
  | some x, none => some x
  | none, y => y

/-- `_binop(other, func)` for two series of one frequency: evaluate `func` on the encompassing span, trim -/
def Series.binop (f : Cell → Cell → Cell) (a b : Series) : R Series :=
  match bcastNv a.nv b.nv with
  | none => throw .badInput
  | some nv =>
    match optMin a.start b.start, optMax a.endSerial b.endSerial with
    | some lo, some hi =>
      let da := a.sliceFromUntil lo hi
      let db := b.sliceFromUntil lo hi
      let rows := List.zipWith (zipRow f nv) da db
      pure ({ freq := if a.start.isSome then a.freq else b.freq, start := some lo, nv := nv, rows := rows } : Series).trim
    | _, _ => pure (Series.new a.freq nv)      -- pending fix C10-b (the code raises TypeError here)

/-! ### hstack -/

/-- `hstack(self, *args)` for series of one frequency -/
def hstack (f : Freq) (l : List Series) : R Series :=
  let total := (l.map (fun s => s.nv)).foldl (· + ·) 0
  if l.all (fun s => s.isEmpty) then pure (Series.new f total)
  else
    match l.foldl (fun acc s => optMin acc s.start) none, l.foldl (fun acc s => optMax acc s.endSerial) none with
    | some lo, some hi =>
      let blocks := l.map (fun s => s.sliceFromUntil lo hi)
      let n := (hi - lo + 1).toNat
      let rows := (List.range n).map (fun i => (blocks.map (fun blk => (blk[i]?).getD [])).flatten)
      let span := (List.range n).map (fun (i : Nat) => lo + (i : Int))
      let new := Series.new f total
      new.setData span (.array (transpose total rows)) (allVids new)
    | _, _ => throw .badInput

/-! ### frequency-checked wrappers on periods -/

def serialsOf (f : Freq) (ps : List Period) : R (List Int) :=
  ps.mapM (fun p => if p.freq = f then pure p.serial else throw .mixedFreq)

/-- the frequency against which the dates of a write/read are checked: the series' own, or that of the first date -/
def Series.freqFor (s : Series) (ps : List Period) : Freq :=
  match s.start, ps with
  | none, p :: _ => p.freq
  | _, _ => s.freq

def Series.setDataP (s : Series) (ps : List Period) (data : DataArg) (vars : VarArg) : R Series :=
  if ps.isEmpty ∧ data.isEmptyData then pure s
  else do
    let f := s.freqFor ps
    let serials ← serialsOf f ps
    ({ s with freq := f } : Series).setData serials data (resolveVariants s.nv vars)

def Series.getDataP (s : Series) (ps : List Period) (vars : VarArg) : R (List Row) := do
  let f := s.freqFor ps
  let serials ← serialsOf f ps
  s.getData serials (resolveVariants s.nv vars)

def Series.getDataFromUntilP (s : Series) (a b : Period) (vars : VarArg) : R (List Row) := do
  let f := s.freqFor [a, b]
  let serials ← serialsOf f [a, b]
  match serials with
  | [x, y] => s.getDataFromUntil x y (resolveVariants s.nv vars)
  | _ => throw .badInput

/-- `self(dates, variants)`: `_get_data_and_recreate` -/
def Series.recreateP (s : Series) (ps : List Period) (vars : VarArg) : R Series := do
  let data ← s.getDataP ps vars
  let n := (resolveVariants s.nv vars).length
  let new := Series.new s.freq n
  if n = 0 then pure new            -- a block without columns: `set_data` writes nothing and `trim()` resets the zero-size data
  else new.setDataP ps (.array (transpose n data)) .all

def Series.clipP (s : Series) (a b : Option Period) : R Series := do
  let chk : Option Period → R (Option Int) := fun p => match p with
    | none => pure none
    | some p => if s.start.isSome ∧ p.freq = s.freq then pure (some p.serial) else throw .mixedFreq
  let a' ← chk a
  -- the code compares `new_start` first and `new_end` second; both raise the same error kind
  let b' ← chk b
  s.clip a' b'

def sameFreq (a b : Series) : Bool :=
  match a.start, b.start with
  | some _, some _ => a.freq == b.freq
  | _, _ => true

def Series.binopS (f : Cell → Cell → Cell) (a b : Series) : R Series :=
  if sameFreq a b then a.binop f b else throw .mixedFreq

def Series.overlayS (self other : Series) : R Series := do
  let (s, o) ← broadcastPair self other
  -- `set_data(other.span, ...)`: dates of `other`'s frequency against `self.start`
  if o.spanSerials.isEmpty then
    s.overlayCore o
  else if s.start.isSome ∧ s.freq ≠ o.freq then throw .mixedFreq
  else ({ s with freq := o.freq } : Series).overlayCore o

def Series.underlayS (self other : Series) : R Series := do
  let (s, o) ← broadcastPair self other
  o.overlayS s

/-- the frequency of the first operand that has a start (`min(start_dates)` compares against it) -/
def hstackFreq (l : List Series) : Freq :=
  match l.filter (fun s => s.start.isSome), l with
  | s :: _, _ => s.freq
  | [], first :: _ => first.freq
  | [], [] => .I

def hstackS (l : List Series) : R Series :=
  match l with
  | [] => throw .badInput
  | [s] => pure s                       -- `if not args: return self.copy()`
  | _ :: _ :: _ =>
    if l.all (fun s => s.isEmpty) then hstack (hstackFreq l) l
    else if (l.filter (fun s => s.start.isSome)).all (fun s => s.freq == hstackFreq l) then hstack (hstackFreq l) l
    else throw .mixedFreq

/-! ### span / date-argument resolution (`resolve_periods`) -/

inductive DatesArg where
  | all                                            -- `...` / `None`
  | list (ps : List Period)
  | span (a b : Option Period) (step : Int)        -- `Span(a, b, step)`, `None` ends resolve to the series' own ends
  deriving Repr

def Series.resolveDates (s : Series) : DatesArg → R (List Period)
  | .all => pure (s.spanSerials.map (fun x => ⟨s.freq, x⟩))
  | .list ps => pure ps
  | .span a b step => do
    if step = 0 then throw .badInput
    -- missing ends default to the contextual start/end (swapped for negative steps) and are resolved against the series
    let ctxStart : R Period := match s.start with | some st => pure ⟨s.freq, st⟩ | none => throw .badInput
    let ctxEnd : R Period := match s.endSerial with | some e => pure ⟨s.freq, e⟩ | none => throw .badInput
    let a' ← match a with | some p => pure p | none => (if step > 0 then ctxStart else ctxEnd)
    let b' ← match b with | some p => pure p | none => (if step > 0 then ctxEnd else ctxStart)
    if a'.freq ≠ b'.freq then throw .mixedFreq
    pure ((pyRange a'.serial (b'.serial + sign step) step).map (fun x => ⟨a'.freq, x⟩))

/-! ### keyword shifts (`_shift_yoy/soy/eopy/tty`) through the calendar model -/

def Series.shiftBy (s : Series) : ShiftBy → R Series
  | .by_ k => pure (s.shift k)
  | .yoy => pure (s.shift (-(s.freq.value)))     -- an empty series: `_shift_by_number` returns at once
  | .soy => do
    let ps ← s.spanSerials.mapM (fun x => createSoy ⟨s.freq, x⟩)
    let data ← s.getDataP ps .all
    pure ({ s with rows := data } : Series).trim
  | .eopy => do
    let ps ← s.spanSerials.mapM (fun x => createEopy ⟨s.freq, x⟩)
    let data ← s.getDataP ps .all
    pure ({ s with rows := data } : Series).trim
  | .tty => do
    let own := s.spanSerials.map (fun x => (⟨s.freq, x⟩ : Period))
    let _ ← own.mapM (fun p => toYearSegment p)       -- `create_tty` of every period (raises for integer periods)
    let withTty := own.filterMap (fun p => match createTty p with | .ok q => some (p, q) | .error _ => none)
    let neutral := own.filter (fun p => match createTty p with | .ok _ => false | .error _ => true)
    let data ← s.getDataP (withTty.map (·.2)) .all
    let s1 ← s.setDataP (withTty.map (·.1)) (.array (transpose s.nv data)) .all
    s1.setDataP neutral .pyNone .all

/-! ### row statistics along variants (`series/_statistics.py`) -/

inductive StatFn where
  | sum | prod | mean | min | max
  | nansum | nanprod | nanmean | nanmin | nanmax
  deriving Repr, DecidableEq

/-- the non-missing values of a row, or `none` when any cell is missing (NaN propagates through `np.sum/prod/mean/min/max`) -/
def strictVals : List Cell → Option (List Num)
  | [] => some []
  | none :: _ => none
  | some x :: rest => (strictVals rest).map (fun l => x :: l)

/-- the non-missing values of a row (what the `nan*` functions see) -/
def obsVals (r : List Cell) : List Num := r.filterMap id

/-- sums and products of observed values can still be NaN (`inf - inf`, `0 * inf`) -/
def sumQ (l : List Num) : Cell := l.foldr (fun x acc => acc.bind (fun a => x.add a)) (some 0)
def prodQ (l : List Num) : Cell := l.foldr (fun x acc => acc.bind (fun a => x.mul a)) (some 1)
def minQ : List Num → Cell
  | [] => none
  | x :: xs => some (xs.foldr (fun a b => if a.lt b then a else b) x)
def maxQ : List Num → Cell
  | [] => none
  | x :: xs => some (xs.foldr (fun a b => if b.lt a then a else b) x)
def meanQ (l : List Num) : Cell := if l.isEmpty then none else (sumQ l).map (fun x => x.divNat l.length)

/-- one row → one cell. `nansum` / `nanprod` of an all-missing row are 0 / 1, `nanmean/nanmin/nanmax` are NaN -/
def StatFn.eval (f : StatFn) (r : List Cell) : Cell :=
  match f with
  | .sum => (strictVals r).bind sumQ
  | .prod => (strictVals r).bind prodQ
  | .mean => (strictVals r).bind meanQ
  | .min => (strictVals r).bind minQ
  | .max => (strictVals r).bind maxQ
  | .nansum => sumQ (obsVals r)
  | .nanprod => prodQ (obsVals r)
  | .nanmean => meanQ (obsVals r)
  | .nanmin => minQ (obsVals r)
  | .nanmax => maxQ (obsVals r)

/-- `x.sum()`, … : `data = np.f(data, axis=1).reshape(num_periods, -1); trim()`. Zero rows: the empty series
(pending fix C10-c: the code's `reshape(0, -1)` raises). `min/max` of zero variants raise in numpy. -/
def Series.rowStat (f : StatFn) (s : Series) : R Series :=
  if s.nv = 0 ∧ (f = .min ∨ f = .max ∨ f = .nanmin ∨ f = .nanmax) then throw .badInput
  else pure ({ s with nv := 1, rows := s.rows.map (fun r => [f.eval r]) } : Series).trim

/-! ### moving windows (`series/_moving.py`) -/

inductive MovFn where
  | sum | avg | prod
  deriving Repr, DecidableEq

/-- `func(window, axis=2)` for one window (oldest value first); a missing value makes the result missing -/
def MovFn.eval (f : MovFn) (w : List Cell) : Cell :=
  match f with
  | .sum => (strictVals w).bind sumQ
  | .avg => (strictVals w).bind meanQ
  | .prod => (strictVals w).bind prodQ

/-- `_get_default_moving_window()` -/
def Series.defaultWindow (s : Series) : Int :=
  if s.start.isSome ∧ s.freq.value > 0 then -(s.freq.value) else -4

/-- the sliding windows of length `wl` over the rows padded in front with `wl - 1` NaN rows -/
def movRows (f : MovFn) (wl nv : Nat) (rows : List Row) : List Row :=
  let padded := expand nv rows (wl - 1) 0          -- `np.pad(data, ((window_length - 1, 0), (0, 0)), constant_values=nan)`
  (List.range rows.length).map (fun i =>
    (List.range nv).map (fun v => f.eval ((List.range wl).map (fun k => cellAt padded (i + k) v))))

/-- `moving_window(func, window)`: `window` is negative (`window_length = -window`), anything else raises in `np.pad`.
Zero rows: the empty series (pending fix C10-d: `sliding_window_view` raises). -/
def Series.movWindow (f : MovFn) (w : Option Int) (s : Series) : R Series :=
  let wl : Int := -(w.getD s.defaultWindow)
  if wl ≤ 0 then throw .badInput
  else pure ({ s with rows := movRows f wl.toNat s.nv s.rows } : Series).trim

/-! ### fill_missing (`series/_filling.py`) and replace_where -/

inductive FillMethod where
  | constant (c : Cell)
  | next | previous | nearest | linear
  deriving Repr, DecidableEq

/-- the closest observed index at or after `i` -/
def nextObs (col : List Cell) (i : Nat) : Option Nat :=
  ((List.range col.length).filter (fun j => i ≤ j ∧ (col[j]?).getD none ≠ none)).head?

/-- the closest observed index at or before `i` -/
def prevObs (col : List Cell) (i : Nat) : Option Nat :=
  ((List.range col.length).filter (fun j => j ≤ i ∧ (col[j]?).getD none ≠ none)).getLast?

def colAt (col : List Cell) (j : Nat) : Cell := (col[j]?).getD none

/-- the value a missing cell at index `i` receives -/
def fillAt (m : FillMethod) (col : List Cell) (i : Nat) : Cell :=
  match m with
  | .constant c => c
  | .next => (nextObs col i).bind (colAt col)
  | .previous => (prevObs col i).bind (colAt col)
  | .nearest =>
    match prevObs col i, nextObs col i with
    | some p, some n => if i - p ≤ n - i then colAt col p else colAt col n      -- `argmin` keeps the first: ties go back
    | some p, none => colAt col p
    | none, some n => colAt col n
    | none, none => none
  | .linear =>
    match prevObs col i, nextObs col i with
    | some p, some n =>
      (match colAt col p, colAt col n with
       | some a, some b =>
         -- `previous_value + (next_value - previous_value) * ((i - prev) / (next - prev))`
         (b.sub a).bind (fun d => (d.mul (.fin (((i : Rat) - (p : Rat)) / ((n : Rat) - (p : Rat))))).bind (fun e => a.add e))
       | _, _ => none)
    | some p, none => colAt col p
    | none, some n => colAt col n
    | none, none => none

/-- `_fill_neighbor` / `_fill_interp` / `_fill_constant` on one variant: observed cells stay, missing ones are filled -/
def fillColumn (m : FillMethod) (col : List Cell) : List Cell :=
  (List.range col.length).map (fun i => match colAt col i with | some x => some x | none => fillAt m col i)

/-- `fill_missing(method, method_args, span)`: read the span, fill every variant by index, write the span back -/
def Series.fillMissingP (s : Series) (m : FillMethod) (ps : List Period) : R Series := do
  let data ← s.getDataP ps .all
  let cols := transpose s.nv data
  s.setDataP ps (.variants (cols.map (fun c => Col.column (fillColumn m c)))) .all

inductive TestFn where
  | lt (c : Rat) | le (c : Rat) | gt (c : Rat) | ge (c : Rat) | eq (c : Rat) | ne (c : Rat)
  | isnan
  deriving Repr, DecidableEq

/-- `test(data)` cell by cell (comparisons with NaN are False, except `!=`) -/
def TestFn.eval : TestFn → Cell → Bool
  | .lt c, some x => x.lt (.fin c)
  | .le c, some x => x.le (.fin c)
  | .gt c, some x => (Num.fin c).lt x
  | .ge c, some x => (Num.fin c).le x
  | .eq c, some x => decide (x = .fin c)
  | .ne c, some x => decide (x ≠ .fin c)
  | .ne _, none => true
  | .isnan, none => true
  | _, _ => false

/-- `replace_where(test, new_value)`: `data[test(data)] = new_value; trim()` -/
def Series.replaceWhere (t : TestFn) (new : Cell) (s : Series) : Series :=
  (mapCells (fun x => if t.eval x then new else x) s).trim

/-! ### extrapolate (`series/_extrapolate.py`): the autoregressive recursion over rationals -/

/-- one step `x_t = ρ_1 x_{t-1} + … + ρ_p x_{t-p} + c`; `hist` holds `x_{t-1}, x_{t-2}, …` (most recent first).
A missing value among the `p` lags makes the result missing (NaN runs through `lfiltic`/`lfilter`). -/
def arStep (coeffs : List Rat) (c : Rat) (hist : List Cell) : Cell :=
  if hist.length < coeffs.length then none
  else (strictVals (hist.take coeffs.length)).bind (fun xs =>
    ((List.zipWith (fun (r : Rat) (x : Num) => (Num.fin r).mul x) coeffs xs).foldr
      (fun t acc => acc.bind (fun a => t.bind (fun y => y.add a))) (some 0)).bind (fun sm => sm.add (.fin c)))

/-- `n` steps of the recursion, each new value becoming the most recent lag of the next -/
def arRun (coeffs : List Rat) (c : Rat) : Nat → List Cell → List Cell
  | 0, _ => []
  | n + 1, hist => arStep coeffs c hist :: arRun coeffs c n (arStep coeffs c hist :: hist)

/-- `extrapolate(ar_coeffs, span, intercept=c)` on serials: nothing on a start-less series or an empty span; the initial
condition is read from `(span[0] - p, span[0] - 1)` of every own variant (calendar order, flipped to most-recent-first),
`len(span)` steps are computed and written to the dates of the span in order with `set_data`. (`log=True` is not modelled.) -/
def Series.extrapolate (s : Series) (coeffs : List Rat) (c : Rat) (serials : List Int) : R Series :=
  match s.start, serials with
  | none, _ => pure s
  | some _, [] => pure s
  | some _, a :: _ =>
    if s.nv = 0 then throw .badInput               -- `np.hstack(())` raises
    else
      let p := coeffs.length
      let init := s.sliceFromUntil (a - (p : Int)) (a - 1)
      let cols := (transpose s.nv init).map (fun col => arRun coeffs c serials.length col.reverse)
      s.setData serials (.array cols) (allVids s)

def Series.extrapolateP (s : Series) (coeffs : List Rat) (c : Rat) (ps : List Period) : R Series :=
  match s.start with
  | none => pure s
  | some _ => do
    let serials ← serialsOf s.freq ps
    s.extrapolate coeffs c serials

/-! ### op sequences over a pool of series (the protocol of the differential check and of `reachable_inv`) -/

inductive BinFn where | add | sub | mul
  deriving Repr, DecidableEq
inductive CmpFn where | gt | lt | ge | le | eq | ne
  deriving Repr, DecidableEq
inductive UnFn where | neg | pos | abs
  deriving Repr, DecidableEq

def BinFn.op : BinFn → Num → Num → Cell
  | .add, x, y => x.add y
  | .sub, x, y => x.sub y
  | .mul, x, y => x.mul y

/-- IEEE semantics of `+ - *` on cells: NaN-strict; two observed values give NaN only for `inf - inf` and `0 * inf` -/
def BinFn.eval (f : BinFn) : Cell → Cell → Cell
  | some x, some y => f.op x y
  | _, _ => none

def CmpFn.op : CmpFn → Num → Num → Bool
  | .gt, x, y => y.lt x
  | .lt, x, y => x.lt y
  | .ge, x, y => y.le x
  | .le, x, y => x.le y
  | .eq, x, y => decide (x = y)
  | .ne, x, y => decide (x ≠ y)

/-- comparisons give a boolean array (modelled as 0/1): with a NaN operand everything is False except `!=` -/
def CmpFn.eval (f : CmpFn) : Cell → Cell → Cell
  | some x, some y => some (if f.op x y then 1 else 0)
  | _, _ => some (if f = .ne then 1 else 0)

def UnFn.eval : UnFn → Cell → Cell
  | .neg, c => c.map Num.neg
  | .pos, c => c
  | .abs, c => c.map Num.abs

inductive DataSrc where
  | lit (d : DataArg)
  | series (j : Nat)        -- `x[dates] = y`: read with `y.get_data(dates)`
  deriving Repr

inductive Op where
  | new (k : Nat) (f : Freq) (nv : Nat)                                 -- pool[k] = Series(num_variants=nv)
  | init (k : Nat) (f : Freq) (start : Int) (nv : Nat) (rows : List Row) -- pool[k] = Series(start=…, values=ndarray)
  | set (i : Nat) (dates : DatesArg) (vars : VarArg) (data : DataSrc)    -- pool[i][dates, vars] = data
  | get (i : Nat) (dates : DatesArg) (vars : VarArg)                     -- pool[i][dates, vars]
  | gfu (i : Nat) (a b : Period) (vars : VarArg)                         -- get_data_from_until
  | call (k i : Nat) (dates : DatesArg) (vars : VarArg)                  -- pool[k] = pool[i](dates, vars)
  | shift (i : Nat) (by_ : ShiftBy)                                      -- pool[i].shift(by)
  | fshift (k i : Nat) (by_ : ShiftBy)                                   -- pool[k] = irispie.shift(pool[i], by) / pool[i][by]
  | clip (i : Nat) (a b : Option Period)
  | overlay (i j : Nat) | underlay (i j : Nat)
  | foverlay (k i j : Nat) | funderlay (k i j : Nat)                     -- pool[k] = irispie.overlay(pool[i], pool[j])
  | hstack (k : Nat) (is : List Nat)
  | binop (k : Nat) (f : BinFn) (i j : Nat)                              -- pool[k] = pool[i] f pool[j]
  | cmp (f : CmpFn) (i j : Nat)                                          -- observed only
  | scalar (k : Nat) (f : BinFn) (i : Nat) (c : Cell) (reflected : Bool) -- pool[k] = pool[i] f c   /   c f pool[i]
  | unary (k : Nat) (g : UnFn) (i : Nat)                                 -- pool[k] = -pool[i], +pool[i], abs(pool[i])
  | trim (i : Nat) | empty (i : Nat) | copy (k i : Nat)
  | stat (k i : Nat) (f : StatFn)                                        -- pool[k] = irispie.sum(pool[i]) …; k = i: pool[i].sum()
  | mov (k i : Nat) (f : MovFn) (w : Option Int)                         -- pool[k] = irispie.mov_sum(pool[i], w)
  | fill (k i : Nat) (m : FillMethod) (dates : DatesArg)                 -- pool[k] = irispie.fill_missing(pool[i], m, arg, span=dates)
  | replaceWhere (i : Nat) (t : TestFn) (new : Cell)                     -- pool[i].replace_where(test, new)
  | extrap (k i : Nat) (coeffs : List Rat) (c : Rat) (dates : DatesArg)  -- pool[k] = irispie.extrapolate(pool[i], coeffs, dates, intercept=c)
  deriving Repr

inductive Output where
  | none
  | data (rows : List Row) (ncols : Nat)
  | series (s : Series)
  deriving Repr

abbrev Pool := List Series

def Pool.get (p : Pool) (i : Nat) : R Series :=
  match p[i]? with | some s => pure s | none => throw .badInput

def Pool.put (p : Pool) (k : Nat) (s : Series) : R Pool :=
  if k < p.length then pure (p.set k s) else throw .badInput

def dataOf (p : Pool) (s : Series) (dates : DatesArg) : DataSrc → R DataArg
  | .lit d => pure d
  | .series j => do
    let y ← p.get j
    let ps ← s.resolveDates dates
    let d ← y.getDataP ps .all
    if d.isEmpty then throw .badInput       -- `reshape(0, -1)` of the (0, nv) array raises
    pure (.array (transpose y.nv d))

def scalarFn (f : BinFn) (c : Cell) (reflected : Bool) : Cell → Cell :=
  fun x => if reflected then f.eval c x else f.eval x c

/-- one operation: the new pool and what the operation itself returned -/
def step (p : Pool) : Op → R (Pool × Output)
  | .new k f nv => do pure (← p.put k (Series.new f nv), .none)
  | .init k f st nv rows =>
    if rows.all (fun r => r.length == nv) then do pure (← p.put k (⟨f, some st, nv, rows⟩ : Series).trim, .none)
    else throw .badInput                      -- numpy refuses a ragged array
  | .set i dates vars src => do
    let s ← p.get i
    let ps ← s.resolveDates dates
    let d ← dataOf p s dates src
    pure (← p.put i (← s.setDataP ps d vars), .none)
  | .get i dates vars => do
    let s ← p.get i
    let ps ← s.resolveDates dates
    let d ← s.getDataP ps vars
    pure (p, .data d (resolveVariants s.nv vars).length)
  | .gfu i a b vars => do
    let s ← p.get i
    let d ← s.getDataFromUntilP a b vars
    pure (p, .data d (resolveVariants s.nv vars).length)
  | .call k i dates vars => do
    let s ← p.get i
    let ps ← s.resolveDates dates
    pure (← p.put k (← s.recreateP ps vars), .none)
  | .shift i b => do
    let s ← p.get i
    pure (← p.put i (← s.shiftBy b), .none)
  | .fshift k i b => do
    let s ← p.get i
    pure (← p.put k (← s.shiftBy b), .none)
  | .clip i a b => do
    let s ← p.get i
    pure (← p.put i (← s.clipP a b), .none)
  | .overlay i j => do pure (← p.put i (← (← p.get i).overlayS (← p.get j)), .none)
  | .underlay i j => do pure (← p.put i (← (← p.get i).underlayS (← p.get j)), .none)
  | .foverlay k i j => do pure (← p.put k (← (← p.get i).overlayS (← p.get j)), .none)
  | .funderlay k i j => do pure (← p.put k (← (← p.get i).underlayS (← p.get j)), .none)
  | .hstack k is => do
    let l ← is.mapM p.get
    pure (← p.put k (← hstackS l), .none)
  | .binop k f i j => do pure (← p.put k (← (← p.get i).binopS f.eval (← p.get j)), .none)
  | .cmp f i j => do pure (p, .series (← (← p.get i).binopS f.eval (← p.get j)))
  | .scalar k f i c r => do pure (← p.put k ((← p.get i).apply (scalarFn f c r)), .none)
  | .unary k g i => do pure (← p.put k (mapCells g.eval (← p.get i)), .none)
  | .trim i => do pure (← p.put i (← p.get i).trim, .none)
  | .empty i => do pure (← p.put i (← p.get i).empty, .none)
  | .copy k i => do pure (← p.put k (← p.get i), .none)
  | .stat k i f => do pure (← p.put k (← (← p.get i).rowStat f), .none)
  | .mov k i f w => do pure (← p.put k (← (← p.get i).movWindow f w), .none)
  | .fill k i m dates => do
    let s ← p.get i
    let ps ← s.resolveDates dates
    pure (← p.put k (← s.fillMissingP m ps), .none)
  | .replaceWhere i t new => do pure (← p.put i ((← p.get i).replaceWhere t new), .none)
  | .extrap k i coeffs c dates => do
    let s ← p.get i
    if s.start.isNone then pure (← p.put k s, .none)          -- returns before the span is looked at
    else do
      let ps ← s.resolveDates dates
      pure (← p.put k (← s.extrapolateP coeffs c ps), .none)

/-- a whole sequence; the first error ends it -/
def run (p : Pool) : List Op → R Pool
  | [] => pure p
  | op :: rest => do
    let (p', _) ← step p op
    run p' rest

end IrisVerif.Series
