/-
Model of the dictionary layer of irispie/databoxes/main.py and databoxes/_merge.py (property C19).

A databox is an insertion-ordered `dict`: here a name-keyed association list with distinct keys.
Items are series, scalars or lists.  The *series-level* operations (overlay, underlay, clip,
hstack = `|`) are parameters (`SOps`): what they compute is property C10's business; this file
models which names a databox-level call selects (`_resolve_source_target_names`, `_lay`, `clip`,
`merge`) and what happens to the dictionary (order, deletions, overwrites, error branches).

Core Lean only (no Mathlib).
-/
import IrisVerif.Model.Dates

namespace IrisVerif.Databox
open IrisVerif.Dates (Err R)

/-- frequency of a series / of a CSV block: the six period classes, WEEKLY (enum member without a period
class) and UNKNOWN (the frequency of an empty series) -/
inductive BFreq where
  | Y | H | Q | M | W | D | I | U
  deriving DecidableEq, Repr, Inhabited

/-- a time series reduced to what C19 needs: frequency, serial of the first row, number of variants
(columns), rows of cells (`none` = NaN, `some v` = an opaque value token), description -/
structure Ser (V : Type) where
  freq : BFreq
  start : Int
  nv : Nat
  rows : List (List (Option V))
  desc : String
  deriving Repr, DecidableEq

def nanRow {V : Type} (nv : Nat) : List (Option V) := List.replicate nv none

def allNan {V : Type} (r : List (Option V)) : Bool := r.all Option.isNone

/-- `Series(num_variants=nv, description=desc)`: no data, no start, frequency UNKNOWN -/
def Ser.empty {V : Type} (nv : Nat) (desc : String) : Ser V := ⟨.U, 0, nv, [], desc⟩

/-- the data row of period serial `t` (`get_data` pads with NaN outside the stored range) -/
def Ser.rowAt {V : Type} (s : Ser V) (t : Int) : List (Option V) :=
  if s.start ≤ t then (s.rows[(t - s.start).toNat]?).getD (nanRow s.nv) else nanRow s.nv

/-- serial of `end_date` (meaningful for non-empty series) -/
def Ser.stop {V : Type} (s : Ser V) : Int := s.start + s.rows.length - 1

/-- `Series.trim()`: drop leading and trailing all-NaN rows; nothing left -> `reset()` (empty, UNKNOWN; `reset` re-runs
`__init__` with the number of variants only, so the description is lost too) -/
def Ser.trim {V : Type} (s : Ser V) : Ser V :=
  let lead := (s.rows.takeWhile allNan).length
  let rows1 := s.rows.dropWhile allNan
  let rows2 := (rows1.reverse.dropWhile allNan).reverse
  if rows2.isEmpty then Ser.empty s.nv "" else ⟨s.freq, s.start + lead, s.nv, rows2, s.desc⟩

inductive Item (S V : Type) where
  | ser (s : S)
  | scalar (v : Option V)
  | list (l : List (Option V))
  deriving Repr, DecidableEq

abbrev Box (S V : Type) := List (String × Item S V)

def keys {α : Type} (db : List (String × α)) : List String := db.map (·.1)

def lookup {α : Type} (db : List (String × α)) (k : String) : Option α :=
  match db with
  | [] => none
  | (k', v) :: rest => if k' = k then some v else lookup rest k

/-- `d[k] = v`: replace in place when the key exists, append otherwise -/
def setKey {α : Type} (db : List (String × α)) (k : String) (v : α) : List (String × α) :=
  match db with
  | [] => [(k, v)]
  | (k', v') :: rest => if k' = k then (k, v) :: rest else (k', v') :: setKey rest k v

/-- `del d[k]` (all entries with that key; keys are distinct in a dict) -/
def delKey {α : Type} (db : List (String × α)) (k : String) : List (String × α) :=
  db.filter (fun p => p.1 ≠ k)

/-- the dict built by successive `d[k] = v` -/
def dictOfList {α : Type} (l : List (String × α)) : List (String × α) :=
  l.foldl (fun acc p => setKey acc p.1 p.2) []

/-! ### Name selection: `_resolve_source_target_names` -/

/-- `SourceNames`: `None`, one string, an iterable of strings, or a predicate on names -/
inductive Sel where
  | all
  | one (n : String)
  | names (l : List String)
  | pred (p : String → Bool)

/-- `TargetNames`: `None` (= the sources), one string, an iterable, or a renaming function -/
inductive Tgt where
  | same
  | one (n : String)
  | names (l : List String)
  | func (f : String → String)

def Sel.resolve (ctx : List String) : Sel → List String
  | .all => ctx
  | .one n => [n]
  | .names l => l
  | .pred p => ctx.filter p

def Tgt.resolve (src : List String) : Tgt → List String
  | .same => src
  | .one n => [n]
  | .names l => l
  | .func f => src.map f

/-- the (source, target) pairs every caller zips together; without `strict_names` pairs whose source is not
a key are dropped -/
def resolvePairs (ctx : List String) (src : Sel) (tgt : Tgt) (strict : Bool) : List (String × String) :=
  let s := src.resolve ctx
  let t := tgt.resolve s
  let pairs := s.zip t
  if strict then pairs else pairs.filter (fun p => ctx.contains p.1)

/-- the resolved source names when no targets are given (`remove`, `keep`, `apply`) -/
def resolveSources (ctx : List String) (src : Sel) (strict : Bool) : List String :=
  let s := src.resolve ctx
  if strict then s else s.filter (fun n => ctx.contains n)

/-! ### Dictionary operations -/

section Ops
variable {S V : Type}

/-- `values = [self.pop(s) for s, _ in pairs]`: the sources are popped one after the other; a missing (or repeated) source is a
`KeyError` -/
def popAll (db : Box S V) : List String → R (Box S V × List (Item S V))
  | [] => pure (db, [])
  | s :: rest =>
    match lookup db s with
    | none => throw .badInput
    | some v => do
      let (db', vs) ← popAll (delKey db s) rest
      pure (db', v :: vs)

/-- `for (_, t), v in zip(pairs, values): self[t] = v` -/
def assignAll (db : Box S V) (l : List (String × Item S V)) : Box S V :=
  l.foldl (fun acc p => setKey acc p.1 p.2) db

/-- `rename` on the zipped (source, target) pairs, simultaneously: all sources are popped first, then the targets are assigned
in pair order (a target that is also a source gets the value its partner had) -/
def renamePairs (db : Box S V) (pairs : List (String × String)) : R (Box S V) := do
  let (db', vs) ← popAll db (pairs.map (·.1))
  pure (assignAll db' ((pairs.map (·.2)).zip vs))

def rename (db : Box S V) (src : Sel) (tgt : Tgt) (strict : Bool) : R (Box S V) :=
  renamePairs db (resolvePairs (keys db) src tgt strict)

/-- `remove`: `del self[n]` in sequence; a missing (or repeated) name is a `KeyError` -/
def removeNames (db : Box S V) : List String → R (Box S V)
  | [] => pure db
  | n :: rest => if (keys db).contains n then removeNames (delKey db n) rest else throw .badInput

def remove (db : Box S V) (src : Option Sel) (strict : Bool) : R (Box S V) :=
  match src with
  | none => pure db
  | some sel => removeNames db (resolveSources (keys db) sel strict)

/-- `keep`: delete every key not among the resolved names (never raises) -/
def keep (db : Box S V) (src : Option Sel) (strict : Bool) : Box S V :=
  match src with
  | none => db
  | some sel => let ks := resolveSources (keys db) sel strict; db.filter (fun p => ks.contains p.1)

/-- the name tuples `copy` hands on to `rename` and `keep`: with `strict_names` the resolved tuples as they are (not
zipped, not truncated), otherwise the two sides of the surviving pairs -/
def copyLists (ctx : List String) (src : Option Sel) (tgt : Option Tgt) (strict : Bool) : List String × List String :=
  let s := (src.getD .all).resolve ctx
  let t := (tgt.getD .same).resolve s
  if strict then (s, t)
  else
    let ps := (s.zip t).filter (fun p => ctx.contains p.1)
    (ps.map (·.1), ps.map (·.2))

/-- `copy(source_names, target_names)`: deep copy, then `rename(sources, targets)`, then `keep(targets)`; the names are
resolved once, against the original -/
def copy (db : Box S V) (src : Option Sel) (tgt : Option Tgt) (strict : Bool) : R (Box S V) :=
  match src, tgt with
  | none, none => pure db
  | _, _ =>
    let l := copyLists (keys db) src tgt strict
    do
      let db1 ← rename db (Sel.names l.1) (Tgt.names l.2) strict
      pure (keep db1 (some (Sel.names l.2)) strict)

/-- `shallow(source_names, target_names)`: `Databox((t, self[s]) for s, t in pairs)` -/
def shallow (db : Box S V) (src : Sel) (tgt : Tgt) (strict : Bool) : R (Box S V) := do
  let pairs := resolvePairs (keys db) src tgt strict
  let items ← pairs.mapM (fun (p : String × String) => match lookup db p.1 with
    | some v => (pure (p.2, v) : R (String × Item S V))
    | none => throw .badInput)
  pure (dictOfList items)

/-- the series-level operations the databox-level calls delegate to (their semantics: property C10) -/
structure SOps (S : Type) where
  freq : S → BFreq
  overlay : S → S → S
  underlay : S → S → S
  clip : S → Option Int → Option Int → S
  hstack : S → S → S

def isSer : Item S V → Bool
  | .ser _ => true
  | _ => false

def seriesNames (db : Box S V) : List String := (db.filter (fun p => isSer p.2)).map (·.1)

/-- the names `_lay` works on -/
def layNames (db other : Box S V) (names : Option (List String)) (strict : Bool) : List String :=
  let names := match names with
    | none => (seriesNames db).filter (fun n => (seriesNames other).contains n)
    | some l => l
  if strict then names else names.filter (fun n => (keys db).contains n && (keys other).contains n)

inductive LayAct where
  | skip | apply | raise
  deriving DecidableEq, Repr

/-- what `_lay` does for one name of its list -/
def layAct (o : SOps S) (db other : Box S V) (n : String) : LayAct :=
  match lookup db n with
  | none => .raise                                  -- KeyError (only reachable with strict_names)
  | some (.ser s) =>
    if o.freq s = .U then .skip
    else match lookup other n with
      | none => .raise
      | some (.ser t) => if o.freq s = o.freq t then .apply else .skip
      | some _ => .raise                            -- `.frequency` of a non-series
  | some _ => .raise

def lay (o : SOps S) (f : S → S → S) (db other : Box S V) (names : Option (List String)) (strict : Bool) : R (Box S V) :=
  let ns := layNames db other names strict
  if ns.any (fun n => layAct o db other n = .raise) then throw .badInput
  else pure (db.map (fun p =>
    if ns.contains p.1 && layAct o db other p.1 = .apply then
      match p.2, lookup other p.1 with
      | .ser s, some (.ser t) => (p.1, .ser (f s t))
      | _, _ => p
    else p))

def overlay (o : SOps S) := lay (V := V) o o.overlay
def underlay (o : SOps S) := lay (V := V) o o.underlay

/-- `clip(new_start, new_end)`: every series of the frequency of the given period(s); both `None`: nothing -/
def clip (o : SOps S) (db : Box S V) (f : BFreq) (lo hi : Option Int) : Box S V :=
  match lo, hi with
  | none, none => db
  | _, _ => db.map (fun p => match p.2 with
    | .ser s => if o.freq s = f then (p.1, .ser (o.clip s lo hi)) else p
    | _ => p)

/-- `prepend(other, end)`: `other.copy().clip(None, end)`, then `self.underlay(other)` -/
def prepend (o : SOps S) (db other : Box S V) (f : BFreq) (stop : Int) : R (Box S V) :=
  underlay o db (clip o other f none (some stop)) none false

inductive Strategy where
  | stack | replace | discard | report | raise
  deriving DecidableEq, Repr

def toList : Item S V → Option (List (Option V))
  | .scalar v => some [v]
  | .list l => some l
  | .ser _ => none

/-- one `key, value` of `merge` when the key exists already; `none`: outside the modelled domain
(a series stacked with a non-series) -/
def mergeExisting (o : SOps S) (st : Strategy) (old new : Item S V) : Option (Item S V) :=
  match st with
  | .stack =>
    match old, new with
    | .ser s, .ser t => some (.ser (o.hstack s t))
    | _, .ser _ => none
    | .ser _, _ => none
    | a, b => match toList a, toList b with
      | some x, some y => some (.list (x ++ y))
      | _, _ => none
  | .replace => some new
  | _ => some old

def mergeOne (o : SOps S) (st : Strategy) (db : Box S V) : Box S V → R (Box S V × Bool)
  | [] => pure (db, false)
  | (k, v) :: rest =>
    match lookup db k with
    | none => mergeOne o st (db ++ [(k, v)]) rest
    | some old =>
      match mergeExisting o st old v with
      | none => throw .badInput
      | some w => do
        let (r, dup) ← mergeOne o st (setKey db k w) rest
        pure (r, true || dup)

/-- `merge(others, strategy)`; the reporting strategies raise after everything was merged
(`error`, `critical`) or do not raise (`silent`, `warning`) -/
def merge (o : SOps S) (st : Strategy) (db : Box S V) : List (Box S V) → R (Box S V)
  | [] => pure db
  | t :: rest => do
    let (db1, dup) ← mergeOne o st db t
    let r ← merge o st db1 rest
    if st = .raise && dup then throw .badInput else pure r

/-! ### Spellings of one call: option resolution -/

/-- `Databox.merge(other, merge_strategy="stack", action=None)`: the deprecated keyword `action`, whenever it is given, IS the
strategy; otherwise the explicit `merge_strategy` (positional or keyword), otherwise the default `"stack"` -/
def resolveStrategy (explicit legacy : Option Strategy) : Strategy :=
  match legacy with
  | some a => a
  | none => explicit.getD .stack

/-- `_imports._resolve_legacy_option(option, legacy)`: the new option when it is given (not `None`), the legacy one otherwise -/
def resolveLegacy {α : Type} (option legacy : Option α) : Option α :=
  match option with
  | some x => some x
  | none => legacy

/-- `db.merge(others, <explicit>, action=<legacy>)` through any spelling -/
def mergeCall (o : SOps S) (explicit legacy : Option Strategy) (db : Box S V) (others : List (Box S V)) : R (Box S V) :=
  merge o (resolveStrategy explicit legacy) db others

/-- `Databox.by_merging(databoxes, merge_strategy)`: an empty databox, then `merge` -/
def byMerging (o : SOps S) (st : Option Strategy) (boxes : List (Box S V)) : R (Box S V) :=
  mergeCall o st none [] boxes

/-- the operations as data, for sequences -/
inductive Op (S V : Type) where
  | rename (src : Sel) (tgt : Tgt) (strict : Bool)
  | remove (src : Option Sel) (strict : Bool)
  | keep (src : Option Sel) (strict : Bool)
  | copy (src : Option Sel) (tgt : Option Tgt) (strict : Bool)
  | overlay (other : Box S V) (names : Option (List String)) (strict : Bool)
  | underlay (other : Box S V) (names : Option (List String)) (strict : Bool)
  | clip (f : BFreq) (lo hi : Option Int)
  | prepend (other : Box S V) (f : BFreq) (stop : Int)
  | merge (others : List (Box S V)) (st : Strategy)

def applyOp (o : SOps S) (db : Box S V) : Op S V → R (Box S V)
  | .rename s t b => rename db s t b
  | .remove s b => remove db s b
  | .keep s b => pure (keep db s b)
  | .copy s t b => copy db s t b
  | .overlay other ns b => overlay o db other ns b
  | .underlay other ns b => underlay o db other ns b
  | .clip f lo hi => pure (clip o db f lo hi)
  | .prepend other f stop => prepend o db other f stop
  | .merge others st => merge o st db others

/-- a sequence of operations; the first exception ends it -/
def applyOps (o : SOps S) (db : Box S V) : List (Op S V) → R (Box S V)
  | [] => pure db
  | op :: rest => do let db1 ← applyOp o db op; applyOps o db1 rest

/-- the names an operation may change (add, delete, re-bind or re-order): everything else is the frame -/
def touched (o : SOps S) (db : Box S V) : Op S V → List String
  | .rename s t b => let ps := resolvePairs (keys db) s t b; ps.map (·.1) ++ ps.map (·.2)
  | .remove none _ => []
  | .remove (some s) b => resolveSources (keys db) s b
  | .keep none _ => []
  | .keep (some s) b => (keys db).filter (fun n => !(resolveSources (keys db) s b).contains n)
  | .copy none none _ => []
  | .copy s t b =>
    let l := copyLists (keys db) s t b
    l.1 ++ l.2 ++ (keys db).filter (fun n => !l.2.contains n)
  | .overlay other ns b => (layNames db other ns b).filter (fun n => layAct o db other n = .apply)
  | .underlay other ns b => (layNames db other ns b).filter (fun n => layAct o db other n = .apply)
  | .clip f lo hi => match lo, hi with
    | none, none => []
    | _, _ => (db.filter (fun p => match p.2 with | .ser s => o.freq s = f | _ => false)).map (·.1)
  | .prepend other f stop =>
    let other' := clip o other f none (some stop)
    (layNames db other' none false).filter (fun n => layAct o db other' n = .apply)
  | .merge others _ => (others.map keys).flatten

end Ops

end IrisVerif.Databox
