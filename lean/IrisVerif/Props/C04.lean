/-
Property C04 -- model source text is translated to equations without changing their meaning.
Theorems about the token-level model `IrisVerif.Model.ModelLang` (see the header of that file for what is and
is not inside the model: character-level parsing is tied by the differential run only => level "partial").
-/
import IrisVerif.Model.ModelLang
import IrisVerif.Model.ModelLangTok
import Mathlib.Algebra.Field.Basic
import Mathlib.Algebra.BigOperators.Group.List.Basic
import Mathlib.Tactic.Ring
import Mathlib.Tactic.FieldSimp
import Mathlib.Algebra.Order.Field.Basic
import Mathlib.Algebra.Order.Field.Rat
import Mathlib.Tactic.Positivity
import Mathlib.Tactic.NormNum
import Mathlib.Data.Rat.Defs

namespace IrisVerif.C04

open IrisVerif.ModelLang

/-! ## 1. Shifting all names -/

/-- `eval (shiftAllNames e k) data t = eval e data (t+k)`: for every tree, every carrier, every interpretation of the
operation and function symbols; only names move, function names are untouched. -/
theorem eval_shiftAllNames {α : Type} (A : Alg α) (data : Data α) (k t : Int) (e : Expr) :
    eval A data t (shiftAllNames k e) = eval A data (t + k) e := by
  induction e with
  | num q => rfl
  | name n j => simp only [shiftAllNames, eval]; congr 1; omega
  | neg e ih => simp only [shiftAllNames, eval, ih]
  | bin op a b iha ihb => simp only [shiftAllNames, eval, iha, ihb]
  | call1 f a ih => simp only [shiftAllNames, eval, ih]
  | call2 f a b iha ihb => simp only [shiftAllNames, eval, iha, ihb]

/-- shifting by zero is the identity on trees (the `|shift| = 1` branch of `_pseudo_mov` returns the code unshifted) -/
theorem shiftAllNames_zero (e : Expr) : shiftAllNames 0 e = e := by
  induction e with
  | num q => rfl
  | name n j => simp [shiftAllNames]
  | neg e ih => simp [shiftAllNames, ih]
  | bin op a b iha ihb => simp [shiftAllNames, iha, ihb]
  | call1 f a ih => simp [shiftAllNames, ih]
  | call2 f a b iha ihb => simp [shiftAllNames, iha, ihb]

/-- two shifts compose additively (a shifted name inside a pseudofunction: `diff(x{-1}, -2)` reads `x{-3}`) -/
theorem shiftAllNames_add (j k : Int) (e : Expr) : shiftAllNames k (shiftAllNames j e) = shiftAllNames (j + k) e := by
  induction e with
  | num q => rfl
  | name n i => simp [shiftAllNames]; omega
  | neg e ih => simp [shiftAllNames, ih]
  | bin op a b iha ihb => simp [shiftAllNames, iha, ihb]
  | call1 f a ih => simp [shiftAllNames, ih]
  | call2 f a b iha ihb => simp [shiftAllNames, iha, ihb]

example : shiftAllNames (-2) (.bin .add (.name "x" (-1)) (.call1 "log" (.name "y" 0)))
    = .bin .add (.name "x" (-3)) (.call1 "log" (.name "y" (-2))) := by decide

/-! ## 2. Pseudofunctions evaluate to their documented formulas

The carrier is any field `K` with arbitrary interpretations `powf` of `^` and `f1`, `f2` of the function symbols. -/

section Field
variable {K : Type} [Field K]

/-- the standard interpretation: `+ - * /` and unary minus are the field operations -/
def fieldAlg (ofRat : Rat → K) (powf : K → K → K) (f1 : String → K → K) (f2 : String → K → K → K) : Alg K where
  const := ofRat
  neg := fun a => -a
  bin := fun op a b => match op with
    | .add => a + b | .sub => a - b | .mul => a * b | .div => a / b | .pow => powf a b
  call1 := f1
  call2 := f2

variable (ofRat : Rat → K) (powf : K → K → K) (f1 : String → K → K) (f2 : String → K → K → K)

local notation "𝔸" => fieldAlg ofRat powf f1 f2

theorem eval_shift (data : Data K) (t k : Int) (e : Expr) :
    eval 𝔸 data t (expandPF .shift e k) = eval 𝔸 data (t + k) e := by
  simp [expandPF, eval_shiftAllNames]

theorem eval_diff (data : Data K) (t k : Int) (e : Expr) :
    eval 𝔸 data t (expandPF .diff e k) = eval 𝔸 data t e - eval 𝔸 data (t + k) e := by
  simp [expandPF, eval, eval_shiftAllNames, fieldAlg]

theorem eval_diffLog (data : Data K) (t k : Int) (e : Expr) :
    eval 𝔸 data t (expandPF .diffLog e k) = f1 "log" (eval 𝔸 data t e) - f1 "log" (eval 𝔸 data (t + k) e) := by
  simp [expandPF, eval, eval_shiftAllNames, fieldAlg]

theorem eval_roc (data : Data K) (t k : Int) (e : Expr) :
    eval 𝔸 data t (expandPF .roc e k) = eval 𝔸 data t e / eval 𝔸 data (t + k) e := by
  simp [expandPF, eval, eval_shiftAllNames, fieldAlg]

/-- `pct`: the expansion `100*(e)/(e[k])-100` is the documented `100*(e/e[k] - 1)`
(the proof is `mul_div_assoc` and distributivity: it does not use the value of a division by zero) -/
theorem eval_pct (data : Data K) (t k : Int) (e : Expr) (h100 : ofRat 100 = 100) :
    eval 𝔸 data t (expandPF .pct e k) = 100 * (eval 𝔸 data t e / eval 𝔸 data (t + k) e - 1) := by
  simp only [expandPF, eval, eval_shiftAllNames, fieldAlg, h100]
  rw [mul_div_assoc, mul_sub, mul_one]

/-- evaluation of a left-associated join -/
theorem eval_joinOp_add (data : Data K) (t : Int) (x : Expr) (xs : List Expr) :
    eval 𝔸 data t (joinOp .add (x :: xs)) = eval 𝔸 data t x + (xs.map (eval 𝔸 data t)).sum := by
  simp only [joinOp]
  induction xs generalizing x with
  | nil => simp
  | cons y ys ih =>
    simp only [List.foldl_cons, List.map_cons, List.sum_cons]
    rw [ih]; simp [eval, fieldAlg, add_assoc]

theorem eval_joinOp_mul (data : Data K) (t : Int) (x : Expr) (xs : List Expr) :
    eval 𝔸 data t (joinOp .mul (x :: xs)) = eval 𝔸 data t x * (xs.map (eval 𝔸 data t)).prod := by
  simp only [joinOp]
  induction xs generalizing x with
  | nil => simp
  | cons y ys ih =>
    simp only [List.foldl_cons, List.map_cons, List.prod_cons]
    rw [ih]; simp [eval, fieldAlg, mul_assoc]

/-- the periods of a moving window of length `|k|`: `t, t±1, …` towards the sign of `k` -/
def window (t k : Int) : List Int := (movShifts k).map (fun s => t + s)

theorem movTerms_eval (data : Data K) (t k : Int) (e : Expr) (hk : k ≠ 0) :
    (movTerms e k).map (eval 𝔸 data t) = (window t k).map (fun s => eval 𝔸 data s e) := by
  unfold movTerms window
  rw [if_neg hk]
  split
  · rename_i h
    rcases h with h | h <;> subst h <;> simp [movShifts]
  · simp [List.map_map, Function.comp_def, eval_shiftAllNames]

theorem movTerms_ne_nil (e : Expr) (k : Int) : movTerms e k ≠ [] := by
  unfold movTerms
  split
  · simp
  · split
    · simp
    · rename_i h0 h1
      have : k.natAbs ≠ 0 := by omega
      simp [movShifts, this]

/-- `mov_sum(e, k)` is the sum of `e` over the window, for every window length (induction on the window inside `eval_joinOp_add`) -/
theorem eval_movSum (data : Data K) (t k : Int) (e : Expr) (hk : k ≠ 0) :
    eval 𝔸 data t (expandPF .movSum e k) = ((window t k).map (fun s => eval 𝔸 data s e)).sum := by
  simp only [expandPF]
  rw [← movTerms_eval ofRat powf f1 f2 data t k e hk]
  cases h : movTerms e k with
  | nil => exact absurd h (movTerms_ne_nil e k)
  | cons x xs => rw [eval_joinOp_add]; simp

theorem eval_movProd (data : Data K) (t k : Int) (e : Expr) (hk : k ≠ 0) :
    eval 𝔸 data t (expandPF .movProd e k) = ((window t k).map (fun s => eval 𝔸 data s e)).prod := by
  simp only [expandPF]
  rw [← movTerms_eval ofRat powf f1 f2 data t k e hk]
  cases h : movTerms e k with
  | nil => exact absurd h (movTerms_ne_nil e k)
  | cons x xs => rw [eval_joinOp_mul]; simp

theorem eval_movAvg (data : Data K) (t k : Int) (e : Expr) (hk : k ≠ 0) :
    eval 𝔸 data t (expandPF .movAvg e k)
      = ((window t k).map (fun s => eval 𝔸 data s e)).sum / ofRat (k.natAbs : Nat) := by
  have h := eval_movSum ofRat powf f1 f2 data t k e hk
  simp only [expandPF] at h ⊢
  simp only [eval, fieldAlg, movTotal] at h ⊢
  rw [h]

/-- the window has `|k|` periods, starts at `t` and moves one period at a time towards the sign of `k` -/
theorem window_length (t k : Int) : (window t k).length = k.natAbs := by simp [window, movShifts]

theorem window_get (t k : Int) (i : Nat) (hi : i < k.natAbs) :
    (window t k)[i]? = some (if k > 0 then t + i else t - i) := by
  simp only [window, movShifts, List.map_map, List.getElem?_map, List.getElem?_range hi, Option.map_some,
    Function.comp_apply]
  split <;> simp <;> omega

example : window 10 (-4) = [10, 9, 8, 7] := by decide
example : window 10 3 = [10, 11, 12] := by decide

/-- default shifts: `-1` for shift/diff/diff_log/pct/roc, `-4` for the moving windows; an explicit shift wins -/
theorem resolveShift_default (pf : PF) : resolveShift pf none = pf.defaultShift := rfl
theorem resolveShift_explicit (pf : PF) (k : Int) : resolveShift pf (some k) = k := rfl

/-- an explicit zero is an explicit shift, not "no second argument": it is never replaced by the default -/
theorem resolveShift_zero (pf : PF) : resolveShift pf (some 0) = 0 := rfl

theorem eval_shift_zero (data : Data K) (t : Int) (e : Expr) :
    eval 𝔸 data t (expandPF .shift e (resolveShift .shift (some 0))) = eval 𝔸 data t e := by
  simp [resolveShift, expandPF, shiftAllNames_zero]

theorem eval_diff_zero (data : Data K) (t : Int) (e : Expr) :
    eval 𝔸 data t (expandPF .diff e (resolveShift .diff (some 0))) = 0 := by
  simp [resolveShift, expandPF, shiftAllNames_zero, eval, fieldAlg]

theorem eval_roc_zero (data : Data K) (t : Int) (e : Expr) (h : eval 𝔸 data t e ≠ 0) :
    eval 𝔸 data t (expandPF .roc e (resolveShift .roc (some 0))) = 1 := by
  simp only [resolveShift, Option.getD_some, expandPF, shiftAllNames_zero, eval]
  exact div_self h

/-- `mov_sum(e, 0)` is the empty sum -/
theorem eval_movSum_zero (data : Data K) (t : Int) (e : Expr) :
    eval 𝔸 data t (expandPF .movSum e (resolveShift .movSum (some 0))) = ofRat 0 := by
  simp [resolveShift, expandPF, movTerms, joinOp, eval, fieldAlg]

/-- ... whereas the omitted argument is the default: the two differ already on a single name -/
theorem explicit_zero_is_not_default (defs : String → Option Expr) :
    expand defs (.pseudo .shift (.name "x" 0) (some 0)) = some (.name "x" 0)
    ∧ expand defs (.pseudo .shift (.name "x" 0) none) = some (.name "x" (-1)) := by
  constructor <;> simp [expand, expandPF, resolveShift, PF.defaultShift, shiftAllNames]

/-- every documented spelling is recognised, the two spellings of a pseudofunction are the same pseudofunction -/
theorem spellings :
    PF.ofName? "diff_log" = PF.ofName? "difflog" ∧ PF.ofName? "mov_sum" = PF.ofName? "movsum"
    ∧ PF.ofName? "mov_avg" = PF.ofName? "movavg" ∧ PF.ofName? "mov_prod" = PF.ofName? "movprod"
    ∧ (["diff", "diff_log", "difflog", "pct", "roc", "shift", "mov_sum", "movsum", "mov_avg", "movavg", "mov_prod", "movprod"].all
        (fun n => (PF.ofName? n).isSome)) = true := by
  refine ⟨rfl, rfl, rfl, rfl, by decide⟩

/-! ## 3. Equations: `lhs = rhs` evaluates to `rhs - lhs`; macro expansion; steady variants; anticipated shocks -/

theorem eval_translate (data : Data K) (t : Int) (lhs rhs : Expr) :
    eval 𝔸 data t (translate lhs rhs) = eval 𝔸 data t rhs - eval 𝔸 data t lhs := by
  simp only [translate, eval, fieldAlg]; ring

/-- documented meaning of an equation side as written (pseudofunctions by their formulas through `expandPF`'s theorems:
here stated directly as evaluation of the argument at shifted periods) -/
def evalDoc (A : Alg K) (defs : String → Option Expr) (data : Data K) (t : Int) : PExpr → Option K
  | .num q => some (A.const q)
  | .name n k => some (data n (t + k))
  | .neg e => (evalDoc A defs data t e).map A.neg
  | .bin op a b => do
    let x ← evalDoc A defs data t a
    let y ← evalDoc A defs data t b
    pure (A.bin op x y)
  | .call1 f a => (evalDoc A defs data t a).map (A.call1 f)
  | .call2 f a b => do
    let x ← evalDoc A defs data t a
    let y ← evalDoc A defs data t b
    pure (A.call2 f x y)
  | .pseudo pf arg s => some (eval A data t (expandPF pf arg (resolveShift pf s)))
  | .subs s => (defs s).map (eval A data t)

/-- macro expansion (pseudofunctions, then substitutions) is compositional: expanding the whole side and evaluating equals
evaluating the side as written, node by node -/
theorem eval_expand (A : Alg K) (defs : String → Option Expr) (data : Data K) (t : Int) (p : PExpr) (e : Expr)
    (h : expand defs p = some e) : evalDoc A defs data t p = some (eval A data t e) := by
  induction p generalizing e with
  | num q => simp [expand] at h; subst h; rfl
  | name n k => simp [expand] at h; subst h; rfl
  | neg a ih =>
    simp only [expand, Option.map_eq_some_iff] at h
    obtain ⟨a', ha, rfl⟩ := h
    simp [evalDoc, ih a' ha, eval]
  | bin op a b iha ihb =>
    simp only [expand, Option.bind_eq_bind, Option.bind_eq_some_iff, Option.pure_def, Option.some.injEq] at h
    obtain ⟨a', ha, b', hb, rfl⟩ := h
    simp [evalDoc, iha a' ha, ihb b' hb, eval]
  | call1 f a ih =>
    simp only [expand, Option.map_eq_some_iff] at h
    obtain ⟨a', ha, rfl⟩ := h
    simp [evalDoc, ih a' ha, eval]
  | call2 f a b iha ihb =>
    simp only [expand, Option.bind_eq_bind, Option.bind_eq_some_iff, Option.pure_def, Option.some.injEq] at h
    obtain ⟨a', ha, b', hb, rfl⟩ := h
    simp [evalDoc, iha a' ha, ihb b' hb, eval]
  | pseudo pf arg s => simp [expand] at h; subst h; rfl
  | subs s => simp only [expand] at h; simp [evalDoc, h]

/-- the steady version of an equation is the text after `!!` when there is one, the dynamic text otherwise -/
theorem steadyVersion_some (e : Equation) (s : Eqn PExpr) (h : e.steady = some s) : e.steadyVersion = s := by
  simp [Equation.steadyVersion, h]
theorem steadyVersion_none (e : Equation) (h : e.steady = none) : e.steadyVersion = e.dynamic := by
  simp [Equation.steadyVersion, h]

/-- inserting anticipated shocks = evaluating on data where each transition shock stands for shock + anticipated value -/
theorem eval_addAnticipated (data : Data K) (t : Int) (shocks : List String) (e : Expr) :
    eval 𝔸 data t (addAnticipated shocks e)
      = eval 𝔸 (fun n s => if n ∈ shocks then data n s + data (antName n) s else data n s) t e := by
  induction e with
  | num q => rfl
  | name n k =>
    simp only [addAnticipated]
    split <;> simp_all [eval, fieldAlg]
  | neg e ih => simp only [addAnticipated, eval, ih]
  | bin op a b iha ihb => simp only [addAnticipated, eval, iha, ihb]
  | call1 f a ih => simp only [addAnticipated, eval, ih]
  | call2 f a b iha ihb => simp only [addAnticipated, eval, iha, ihb]

end Field

/-! ## 4. Log status and ordering by kind -/

/-- without `!all-but` exactly the listed names are log-variables; with it exactly the others -/
theorem isLogly_listed (listed : List String) (n : String) : isLogly false listed n = decide (n ∈ listed) := by
  simp [isLogly]
theorem isLogly_allBut (listed : List String) (n : String) : isLogly true listed n = !decide (n ∈ listed) := by
  simp [isLogly]

/-- listing a set, or `!all-but` its complement (within any universe of names), is the same log status -/
theorem isLogly_complement (univ listed : List String) (n : String) (hn : n ∈ univ) :
    isLogly true (univ.filter (fun m => m ∉ listed)) n = isLogly false listed n := by
  simp [isLogly, hn]

theorem filter_kind_filter (ds : List Decl) (k k' : QKind) :
    (ds.filter (·.kind = k')).filter (·.kind = k) = if k' = k then ds.filter (·.kind = k) else [] := by
  split
  · rename_i h; subst h; simp [List.filter_filter]
  · rename_i h
    simp only [List.filter_filter, List.filter_eq_nil_iff, Bool.and_eq_true, decide_eq_true_eq, not_and]
    intro d _ h1 h2; exact h (h2 ▸ h1)

/-- `reorder_by_kind` only permutes whole kinds: within a kind the order is untouched -/
theorem reorderByKind_filter (ds : List Decl) (k : QKind) :
    (reorderByKind ds).filter (·.kind = k) = ds.filter (·.kind = k) := by
  simp only [reorderByKind, QKind.all, List.flatMap_cons, List.flatMap_nil, List.filter_append, filter_kind_filter,
    List.filter_nil]
  cases k <;> simp

/-- the names of a declared kind come out in declaration order, whatever else is declared and wherever the blocks are
(the generated `ant_`/`std_` quantities have their own kinds) -/
theorem namesOfKind_declared (decls : List Decl) (allBut : Bool) (listed : List String) (k : QKind)
    (hk : k = .tv ∨ k = .mv ∨ k = .ts ∨ k = .ms ∨ k = .par ∨ k = .exo) :
    namesOfKind (quantities decls allBut listed) k = (decls.filter (·.kind = k)).map (·.name) := by
  simp only [namesOfKind, quantities, List.filter_map, List.map_map]
  have : ((fun q : Quantity => decide (q.kind = k)) ∘ fun d : Decl => (⟨d.name, d.kind, loglyOf allBut listed d, d.descr⟩ : Quantity))
      = fun d : Decl => decide (d.kind = k) := by funext d; rfl
  rw [this, reorderByKind_filter]
  simp only [allDecls, List.filter_append, List.filter_map, List.map_append, List.map_map]
  rcases hk with h | h | h | h | h | h <;> subst h <;> simp [Function.comp_def]

/-- the generated names: one `ant_` per transition shock, `std_` per transition / measurement shock, in shock order -/
theorem namesOfKind_ant (decls : List Decl) (allBut : Bool) (listed : List String)
    (hdecl : ∀ d ∈ decls, d.kind ≠ .ant) :
    namesOfKind (quantities decls allBut listed) .ant = (decls.filter (·.kind = .ts)).map (fun d => antName d.name) := by
  simp only [namesOfKind, quantities, List.filter_map, List.map_map]
  have : ((fun q : Quantity => decide (q.kind = QKind.ant)) ∘ fun d : Decl => (⟨d.name, d.kind, loglyOf allBut listed d, d.descr⟩ : Quantity))
      = fun d : Decl => decide (d.kind = QKind.ant) := by funext d; rfl
  rw [this, reorderByKind_filter]
  simp only [allDecls, List.filter_append, List.filter_map, List.map_append, List.map_map]
  have h0 : decls.filter (fun d => decide (d.kind = QKind.ant)) = [] := by
    simp only [List.filter_eq_nil_iff, decide_eq_true_eq]; exact hdecl
  simp [Function.comp_def, h0]

/-- log status of the model: every loggable declared name has the status `isLogly`, nothing else has one -/
theorem logly_of_quantities (decls : List Decl) (allBut : Bool) (listed : List String) (q : Quantity)
    (hq : q ∈ quantities decls allBut listed) :
    q.logly = if q.kind.loggable then some (isLogly allBut listed q.name) else none := by
  simp only [quantities, List.mem_map] at hq
  obtain ⟨d, _, rfl⟩ := hq
  simp [loglyOf]

example : namesOfKind (quantities [⟨.par, "a", ""⟩, ⟨.tv, "x", "X"⟩, ⟨.ts, "e", ""⟩, ⟨.tv, "xx", ""⟩] true ["xx"]) .tv = ["x", "xx"] := by decide
example : (quantities [⟨.par, "a", ""⟩, ⟨.tv, "x", "X"⟩, ⟨.ts, "e", ""⟩, ⟨.tv, "xx", ""⟩] true ["xx"]).map (fun q => (q.name, q.logly))
    = [("x", some true), ("xx", some false), ("e", none), ("ant_e", none), ("a", none), ("std_e", none)] := by decide

/-! ## 5. The directive machine returns the denotation of every well-nested forest -/

theorem substAll_text (σ : Subst) (ws : List Word) :
    Item.substAll σ (.text ws) = .text (ws.map (Word.substAll σ)) := by
  induction σ generalizing ws with
  | nil =>
    have : (fun w : Word => Word.substAll [] w) = id := by funext w; rfl
    simp [Item.substAll, this]
  | cons ct σ ih =>
    simp only [Item.substAll, List.foldl_cons, Item.subst] at ih ⊢
    rw [ih]; simp [Word.substAll, List.map_map, Function.comp_def]

theorem substAll_for (σ : Subst) (c : String) (t : Toks) :
    Item.substAll σ (.for c t) = .for c (t.substAll σ) := by
  induction σ generalizing t with
  | nil => rfl
  | cons ct σ ih =>
    simp only [Item.substAll, List.foldl_cons, Item.subst] at ih ⊢
    rw [ih]; rfl

theorem substAll_if (σ : Subst) (c : Cond) : Item.substAll σ (.if c) = .if (c.substAll σ) := by
  induction σ generalizing c with
  | nil => rfl
  | cons ct σ ih =>
    simp only [Item.substAll, List.foldl_cons, Item.subst] at ih ⊢
    rw [ih]; rfl

theorem substAll_else (σ : Subst) : Item.substAll σ .else = .else := by
  induction σ with
  | nil => rfl
  | cons ct σ ih => simpa [Item.substAll, Item.subst] using ih

theorem substAll_end (σ : Subst) : Item.substAll σ .end = .end := by
  induction σ with
  | nil => rfl
  | cons ct σ ih => simpa [Item.substAll, Item.subst] using ih

/-- the flat sequence of a forest with the substitution of the enclosing loops applied -/
def flatσ (σ : Subst) (f : Forest) : List Item := f.flatten.map (Item.substAll σ)

theorem flatσ_nil (σ : Subst) : flatσ σ .nil = [] := rfl
theorem flatσ_text (σ : Subst) (ws rest) :
    flatσ σ (.text ws rest) = .text (ws.map (Word.substAll σ)) :: flatσ σ rest := by
  simp [flatσ, Forest.flatten, substAll_text]
theorem flatσ_for (σ : Subst) (c t body rest) :
    flatσ σ (.for c t body rest) = .for c (t.substAll σ) :: (flatσ σ body ++ .end :: flatσ σ rest) := by
  simp [flatσ, Forest.flatten, substAll_for, substAll_end]
theorem flatσ_ite_false (σ : Subst) (c th el rest) :
    flatσ σ (.ite c th false el rest) = .if (c.substAll σ) :: (flatσ σ th ++ .end :: flatσ σ rest) := by
  simp [flatσ, Forest.flatten, substAll_if, substAll_end]
theorem flatσ_ite_true (σ : Subst) (c th el rest) :
    flatσ σ (.ite c th true el rest)
      = .if (c.substAll σ) :: (flatσ σ th ++ .else :: (flatσ σ el ++ .end :: flatσ σ rest)) := by
  simp [flatσ, Forest.flatten, substAll_if, substAll_end, substAll_else]

/-- a balanced prefix is skipped by `_find_matching_end` at any level >= 1 -/
theorem splitEnd_flat (σ : Subst) (f : Forest) : ∀ (lvl : Nat) (rest : List Item), 1 ≤ lvl →
    splitEnd (flatσ σ f ++ rest) lvl = (splitEnd rest lvl).map (fun p => (flatσ σ f ++ p.1, p.2)) := by
  induction f with
  | nil => intro lvl rest _; simp [flatσ_nil]
  | text ws r ih =>
    intro lvl rest h
    simp only [flatσ_text, List.cons_append, splitEnd, ih lvl rest h, Option.map_map]
    rfl
  | «for» c t body r ihb ihr =>
    intro lvl rest h
    simp only [flatσ_for, List.cons_append, List.append_assoc, splitEnd]
    rw [ihb (lvl + 1) _ (by omega)]
    simp only [splitEnd]
    rw [if_neg (by omega)]
    simp only [Nat.add_sub_cancel, ihr lvl rest h, Option.map_map]
    congr 1
  | ite c th he el r iht ihe ihr =>
    intro lvl rest h
    cases he with
    | false =>
      simp only [flatσ_ite_false, List.cons_append, List.append_assoc, splitEnd]
      rw [iht (lvl + 1) _ (by omega)]
      simp only [splitEnd]
      rw [if_neg (by omega)]
      simp only [Nat.add_sub_cancel, ihr lvl rest h, Option.map_map]
      congr 1
    | true =>
      simp only [flatσ_ite_true, List.cons_append, List.append_assoc, splitEnd]
      rw [iht (lvl + 1) _ (by omega)]
      simp only [splitEnd]
      rw [ihe (lvl + 1) _ (by omega)]
      simp only [splitEnd]
      rw [if_neg (by omega)]
      simp only [Nat.add_sub_cancel, ihr lvl rest h, Option.map_map]
      congr 1


/-- ... and by `_find_matching_else`: an `!else` nested inside the prefix is never at level 1 -/
theorem splitElse_flat (σ : Subst) (f : Forest) : ∀ (lvl : Nat) (rest : List Item), 1 ≤ lvl →
    splitElse (flatσ σ f ++ rest) lvl = (splitElse rest lvl).map (fun p => (flatσ σ f ++ p.1, p.2)) := by
  induction f with
  | nil => intro lvl rest _; simp [flatσ_nil]
  | text ws r ih =>
    intro lvl rest h
    simp only [flatσ_text, List.cons_append, splitElse, ih lvl rest h, Option.map_map]
    rfl
  | «for» c t body r ihb ihr =>
    intro lvl rest h
    simp only [flatσ_for, List.cons_append, List.append_assoc, splitElse]
    rw [ihb (lvl + 1) _ (by omega)]
    simp only [splitElse]
    simp only [Nat.add_sub_cancel, ihr lvl rest h, Option.map_map]
    congr 1
  | ite c th he el r iht ihe ihr =>
    intro lvl rest h
    cases he with
    | false =>
      simp only [flatσ_ite_false, List.cons_append, List.append_assoc, splitElse]
      rw [iht (lvl + 1) _ (by omega)]
      simp only [splitElse]
      simp only [Nat.add_sub_cancel, ihr lvl rest h, Option.map_map]
      congr 1
    | true =>
      simp only [flatσ_ite_true, List.cons_append, List.append_assoc, splitElse]
      rw [iht (lvl + 1) _ (by omega)]
      simp only [splitElse]
      rw [if_neg (by omega)]
      rw [ihe (lvl + 1) _ (by omega)]
      simp only [splitElse]
      simp only [Nat.add_sub_cancel, ihr lvl rest h, Option.map_map]
      congr 1

theorem resolveSeq_for (ctx : Ctx) (d : Nat) (ctl : String) (toks : Toks) (rest body after : List Item)
    (h : splitEnd rest 1 = some (body, after)) :
    resolveSeq ctx (d + 1) (.for ctl toks :: rest) = (do
      let ts ← toks.eval ctx
      let a ← resolveSeq ctx d (expandFor ctl ts body)
      let b ← resolveSeq ctx (d + 1) after
      pure (a ++ b)) := by
  rw [resolveSeq]
  split
  · rename_i h'; rw [h] at h'; cases h'
  · rename_i b' a' h'; rw [h] at h'; cases h'; rfl

theorem resolveSeq_if (ctx : Ctx) (d : Nat) (c : Cond) (rest body after : List Item)
    (h : splitEnd rest 1 = some (body, after)) :
    resolveSeq ctx (d + 1) (.if c :: rest) = (do
      let v ← c.eval ctx
      let a ← resolveSeq ctx d (if v then ((splitElse body 1).getD (body, [])).1 else ((splitElse body 1).getD (body, [])).2)
      let b ← resolveSeq ctx (d + 1) after
      pure (a ++ b)) := by
  rw [resolveSeq]
  split
  · rename_i h'; rw [h] at h'; cases h'
  · rename_i b' a' h'; rw [h] at h'; cases h'; rfl

theorem substAll_snoc (σ : Subst) (c t : String) (it : Item) :
    Item.substAll (σ ++ [(c, t)]) it = (Item.substAll σ it).subst c t := by
  simp [Item.substAll, List.foldl_append]

theorem expandFor_flat (σ : Subst) (c : String) (ts : List String) (body : Forest) :
    expandFor c ts (flatσ σ body) = ts.flatMap (fun t => flatσ (σ ++ [(c, t)]) body) := by
  simp only [expandFor, flatσ, List.map_map]
  congr 1; funext t; congr 1; funext it; simp [substAll_snoc]


theorem resolveSeq_text (ctx : Ctx) (d : Nat) (ws : List Word) (rest : List Item) :
    resolveSeq ctx d (.text ws :: rest) = (do
      let r ← resolveSeq ctx d rest
      pure (ws.map Word.render ++ r)) := by
  rw [resolveSeq]

/-- the repetition of a loop body: one copy per token, each resolved to its denotation -/
theorem resolveSeq_loop (ctx : Ctx) (σ : Subst) (c : String) (body : Forest) (d : Nat)
    (ih : ∀ (σ' : Subst) (tail : List Item), resolveSeq ctx d (flatσ σ' body ++ tail) = (do
      let a ← body.denote ctx σ'
      let b ← resolveSeq ctx d tail
      pure (a ++ b))) :
    ∀ (ts : List String) (tail : List Item),
      resolveSeq ctx d (ts.flatMap (fun t => flatσ (σ ++ [(c, t)]) body) ++ tail) = (do
        let a ← ts.mapM (fun t => body.denote ctx (σ ++ [(c, t)]))
        let b ← resolveSeq ctx d tail
        pure (a.flatten ++ b)) := by
  intro ts
  induction ts with
  | nil => intro tail; simp
  | cons t ts iht =>
    intro tail
    simp only [List.flatMap_cons, List.append_assoc, List.mapM_cons]
    rw [ih, iht]
    cases body.denote ctx (σ ++ [(c, t)]) with
    | error e => rfl
    | ok a =>
      cases List.mapM (fun t => body.denote ctx (σ ++ [(c, t)])) ts with
      | error e => rfl
      | ok as =>
        cases resolveSeq ctx d tail with
        | error e => rfl
        | ok b => simp [bind, Except.bind, pure, Except.pure]

/-- MAIN: for every well-nested directive forest (nesting to any depth), every substitution of enclosing loops and
every continuation, the flat machine with a recursion budget of at least the depth of the forest produces the
denotation of the forest followed by the result of the continuation -/
theorem resolveSeq_flat (ctx : Ctx) (f : Forest) : ∀ (σ : Subst) (d : Nat) (tail : List Item), f.depth ≤ d →
    resolveSeq ctx d (flatσ σ f ++ tail) = (do
      let a ← f.denote ctx σ
      let b ← resolveSeq ctx d tail
      pure (a ++ b)) := by
  induction f with
  | nil =>
    intro σ d tail _
    simp only [flatσ_nil, List.nil_append, Forest.denote]
    cases resolveSeq ctx d tail <;> rfl
  | text ws r ih =>
    intro σ d tail h
    simp only [flatσ_text, List.cons_append, resolveSeq_text, Forest.denote]
    rw [ih σ d tail (by simpa [Forest.depth] using h)]
    cases r.denote ctx σ with
    | error e => rfl
    | ok a =>
      cases resolveSeq ctx d tail with
      | error e => rfl
      | ok b => simp [bind, Except.bind, pure, Except.pure, List.map_map, Function.comp_def]
  | «for» c t body r ihb ihr =>
    intro σ d tail h
    simp only [Forest.depth] at h
    obtain ⟨d, rfl⟩ : ∃ d', d = d' + 1 := ⟨d - 1, by omega⟩
    have hs : splitEnd (flatσ σ body ++ Item.end :: (flatσ σ r ++ tail)) 1 = some (flatσ σ body, flatσ σ r ++ tail) := by
      rw [splitEnd_flat σ body 1 _ (by omega)]; simp [splitEnd]
    simp only [flatσ_for, List.cons_append, List.append_assoc]
    rw [resolveSeq_for ctx d c _ _ _ _ hs]
    simp only [expandFor_flat]
    have hl := resolveSeq_loop ctx σ c body d (fun σ' tl => ihb σ' d tl (by omega))
    simp only [Forest.denote]
    rw [ihr σ (d + 1) tail (by omega)]
    cases (t.substAll σ).eval ctx with
    | error e => rfl
    | ok ts =>
      have := hl ts []
      simp only [List.append_nil] at this
      simp only [bind, Except.bind] at this ⊢
      rw [this]
      cases List.mapM (fun t => body.denote ctx (σ ++ [(c, t)])) ts with
      | error e => rfl
      | ok as =>
        simp only [resolveSeq]
        cases r.denote ctx σ with
        | error e => rfl
        | ok a =>
          cases resolveSeq ctx (d + 1) tail with
          | error e => rfl
          | ok b => simp [pure, Except.pure]
  | ite c th he el r iht ihe ihr =>
    intro σ d tail h
    cases he with
    | false =>
      simp only [Forest.depth] at h
      obtain ⟨d, rfl⟩ : ∃ d', d = d' + 1 := ⟨d - 1, by omega⟩
      have hs : splitEnd (flatσ σ th ++ Item.end :: (flatσ σ r ++ tail)) 1 = some (flatσ σ th, flatσ σ r ++ tail) := by
        rw [splitEnd_flat σ th 1 _ (by omega)]; simp [splitEnd]
      have he : splitElse (flatσ σ th) 1 = none := by
        have := splitElse_flat σ th 1 [] (by omega)
        simpa [splitElse] using this
      simp only [flatσ_ite_false, List.cons_append, List.append_assoc]
      rw [resolveSeq_if ctx d _ _ _ _ hs, he]
      simp only [Forest.denote, Option.getD_none]
      rw [ihr σ (d + 1) tail (by omega)]
      cases (c.substAll σ).eval ctx with
      | error e => rfl
      | ok v =>
        have h1 := iht σ d [] (by omega)
        simp only [List.append_nil] at h1
        cases v with
        | true =>
          simp only [bind, Except.bind, if_true] at h1 ⊢
          rw [h1]
          simp only [resolveSeq]
          cases th.denote ctx σ with
          | error e => rfl
          | ok a =>
            cases r.denote ctx σ with
            | error e => rfl
            | ok a' =>
              cases resolveSeq ctx (d + 1) tail with
              | error e => rfl
              | ok b => simp [pure, Except.pure]
        | false =>
          simp only [Bool.false_eq_true, if_false, bind, Except.bind, resolveSeq]
          cases r.denote ctx σ with
          | error e => rfl
          | ok a' =>
            cases resolveSeq ctx (d + 1) tail with
            | error e => rfl
            | ok b => simp [pure, Except.pure]
    | true =>
      simp only [Forest.depth] at h
      obtain ⟨d, rfl⟩ : ∃ d', d = d' + 1 := ⟨d - 1, by omega⟩
      have hs : splitEnd (flatσ σ th ++ Item.else :: (flatσ σ el ++ Item.end :: (flatσ σ r ++ tail))) 1
          = some (flatσ σ th ++ Item.else :: flatσ σ el, flatσ σ r ++ tail) := by
        rw [splitEnd_flat σ th 1 _ (by omega)]
        simp only [splitEnd]
        rw [splitEnd_flat σ el 1 _ (by omega)]
        simp [splitEnd]
      have he : splitElse (flatσ σ th ++ Item.else :: flatσ σ el) 1 = some (flatσ σ th, flatσ σ el) := by
        rw [splitElse_flat σ th 1 _ (by omega)]; simp [splitElse]
      simp only [flatσ_ite_true, List.cons_append, List.append_assoc]
      rw [resolveSeq_if ctx d _ _ _ _ hs, he]
      simp only [Forest.denote, Option.getD_some]
      rw [ihr σ (d + 1) tail (by omega)]
      cases (c.substAll σ).eval ctx with
      | error e => rfl
      | ok v =>
        have h1 := iht σ d [] (by omega)
        have h2 := ihe σ d [] (by omega)
        simp only [List.append_nil] at h1 h2
        cases v with
        | true =>
          simp only [bind, Except.bind, if_true] at h1 ⊢
          rw [h1]
          simp only [resolveSeq]
          cases th.denote ctx σ with
          | error e => rfl
          | ok a =>
            cases r.denote ctx σ with
            | error e => rfl
            | ok a' =>
              cases resolveSeq ctx (d + 1) tail with
              | error e => rfl
              | ok b => simp [pure, Except.pure]
        | false =>
          simp only [bind, Except.bind] at h2 ⊢
          simp only [Bool.false_eq_true, if_false, if_true]
          rw [h2]
          simp only [resolveSeq]
          cases el.denote ctx σ with
          | error e => rfl
          | ok a =>
            cases r.denote ctx σ with
            | error e => rfl
            | ok a' =>
              cases resolveSeq ctx (d + 1) tail with
              | error e => rfl
              | ok b => simp [pure, Except.pure]


theorem depth_le_length (f : Forest) : f.depth ≤ f.flatten.length := by
  induction f with
  | nil => simp [Forest.depth]
  | text ws r ih => simp [Forest.depth, Forest.flatten]; omega
  | «for» c t body r ihb ihr => simp [Forest.depth, Forest.flatten]; omega
  | ite c th he el r iht ihe ihr =>
    cases he <;> simp [Forest.depth, Forest.flatten] <;> omega

theorem flatσ_empty (f : Forest) : flatσ [] f = f.flatten := by
  have : (fun it : Item => Item.substAll [] it) = id := by funext it; rfl
  simp [flatσ, this]

/-- `resolve (flatten tree) = denote tree`, with any recursion budget from the depth of the tree upwards -/
theorem resolveSeq_flatten (ctx : Ctx) (f : Forest) (d : Nat) (h : f.depth ≤ d) :
    resolveSeq ctx d f.flatten = f.denote ctx [] := by
  have := resolveSeq_flat ctx f [] d [] h
  simp only [List.append_nil, flatσ_empty] at this
  rw [this]
  cases f.denote ctx [] with
  | error e => rfl
  | ok a => simp [bind, Except.bind, resolveSeq, pure, Except.pure]

/-- the directive stage of the preparser on the flat sequence of any well-nested tree is the denotation of the tree:
for-loops are the concatenation of their substituted bodies in token order, if/else selects by the condition -/
theorem resolve_flatten (ctx : Ctx) (f : Forest) : resolve ctx f.flatten = f.denote ctx [] :=
  resolveSeq_flatten ctx f _ (depth_le_length f)

/-- a misplaced `!end` or `!else` is rejected -/
theorem resolve_misplaced_end (ctx : Ctx) (d : Nat) (rest : List Item) : resolveSeq ctx d (.end :: rest) = .error .bad := by
  rw [resolveSeq]
theorem resolve_misplaced_else (ctx : Ctx) (d : Nat) (rest : List Item) : resolveSeq ctx d (.else :: rest) = .error .bad := by
  rw [resolveSeq]

/-- an opening directive without its `!end` is rejected -/
theorem resolve_unclosed_for (ctx : Ctx) (d : Nat) (c : String) (t : Toks) (f : Forest) :
    resolveSeq ctx (d + 1) (.for c t :: f.flatten) = .error .bad := by
  have h : splitEnd f.flatten 1 = none := by
    have := splitEnd_flat [] f 1 [] (by omega)
    simpa [flatσ_empty, splitEnd] using this
  rw [resolveSeq]
  split
  · rfl
  · rename_i h'; rw [h] at h'; cases h'

/-- Corollary (meaning-preserving variations): whatever is computed downstream from the resolved text (`P`), two directive
trees with the same denotation -- a loop and its written-out copies, an `!if` on a true condition and its bare branch --
give the same result: every rendering is a section of the one map `denote`. -/
theorem same_denotation_same_model {β : Type} (P : List String → β) (ctx : Ctx) (f g : Forest)
    (h : f.denote ctx [] = g.denote ctx []) :
    (resolve ctx f.flatten).map P = (resolve ctx g.flatten).map P := by
  rw [resolve_flatten, resolve_flatten, h]

/-- a loop over written-out tokens denotes its body once per token, in order, with the control name replaced -/
theorem denote_for_words (ctx : Ctx) (c : String) (ws : List Word) (body : Forest) :
    (Forest.for c (.words ws) body .nil).denote ctx []
      = (do let a ← (ws.map Word.render).mapM (fun t => body.denote ctx [(c, t)]); pure a.flatten) := by
  simp only [Forest.denote, Toks.substAll, List.foldl_nil, Toks.eval, List.nil_append, bind, Except.bind]
  generalize List.mapM (fun t => body.denote ctx [(c, t)]) (ws.map Word.render) = r
  cases r <;> simp [pure, Except.pure]

/-- an if/else denotes the branch selected by its condition -/
theorem denote_ite (ctx : Ctx) (k : String) (v : Bool) (th el : Forest) (hk : ctx.flags k = some v) :
    (Forest.ite (.flag [.lit k]) th true el .nil).denote ctx [] = (if v then th.denote ctx [] else el.denote ctx []) := by
  have : Word.render [Piece.lit k] = k := by simp [Word.render, Piece.render, String.join]
  simp only [Forest.denote, Cond.substAll, List.foldl_nil, Cond.eval, this, hk]
  cases v
  · simp only [bind, Except.bind, Bool.false_eq_true, if_false, if_true]
    generalize el.denote ctx [] = r
    cases r <;> simp [pure, Except.pure]
  · simp only [bind, Except.bind, if_true]
    generalize th.denote ctx [] = r
    cases r <;> simp [pure, Except.pure]

/-- non-vacuity: a nested loop with an upper-case form and a conditional, through the flat machine -/
def exampleForest : Forest :=
  .for "(s)" (.words [[.lit "a"], [.lit "Hh"]])
    (.ite (.eq [.ctl "(s)" .plain] [.lit "a"])
      (.text [[.lit "x_", .ctl "(s)" .plain]] .nil) true
      (.for "k" (.words [[.lit "1"], [.lit "2"]]) (.text [[.lit "Y", .ctl "(s)" .upper, .ctl "k" .plain]] .nil) .nil) .nil)
    (.text [[.lit "end"]] .nil)

def exampleCtx : Ctx := ⟨fun _ => none, fun _ => none⟩

-- `#eval exampleForest.denote exampleCtx []` and `#eval resolve exampleCtx exampleForest.flatten` both give
--   Except.ok ["x_a", "YHH1", "YHH2", "end"]
example : exampleForest.depth = 3 := by decide
example : exampleForest.flatten.length = 10 := by decide
example : resolve exampleCtx exampleForest.flatten = exampleForest.denote exampleCtx [] := resolve_flatten _ _


/-! ## 6. Meaning-preserving variations of an equation -/

/-- writing the default shift out, or leaving it out, is the same expansion -/
theorem expand_default_shift (defs : String → Option Expr) (pf : PF) (e : Expr) :
    expand defs (.pseudo pf e none) = expand defs (.pseudo pf e (some pf.defaultShift)) := rfl

/-- `=` and `:=`, `^` and `**`, the two bracket styles, comments, continuation lines and redundant parentheses do not exist at
token level: they are different renderings of the same tree (tied by the differential run). What the theorems add: any two
equation sides as written whose documented values agree evaluate identically after macro expansion. -/
theorem same_meaning_same_value {K : Type} [Field K] (A : Alg K) (defs : String → Option Expr) (data : Data K) (t : Int)
    (p q : PExpr) (e₁ e₂ : Expr) (h₁ : expand defs p = some e₁) (h₂ : expand defs q = some e₂)
    (h : evalDoc A defs data t p = evalDoc A defs data t q) : eval A data t e₁ = eval A data t e₂ := by
  rw [eval_expand A defs data t p e₁ h₁, eval_expand A defs data t q e₂ h₂] at h
  exact Option.some.inj h

/-! ## 7. Printer / parser round trip -/

theorem printFull_head (e : Expr) : ∃ t r, printFull e = t :: r ∧ t ≠ .op .sub := by
  cases e <;> simp [printFull]

theorem parseTok_lp (n : Nat) (t : Tok) (r : List Tok) (h : t ≠ .op .sub) :
    parseTok (n + 1) (.lp :: t :: r) = parseBinRest (parseTok n) (t :: r) := by
  cases t with
  | op o => cases o <;> first | exact absurd rfl h | rfl
  | _ => rfl

/-- the parser reads back exactly the tree that was printed, and leaves what follows it untouched; any depth budget from the
height of the tree upwards will do -/
theorem parseTok_printFull (e : Expr) : ∀ (n : Nat) (rest : List Tok), e.height ≤ n →
    parseTok n (printFull e ++ rest) = some (e, rest) := by
  induction e with
  | num q =>
    intro n rest h
    obtain ⟨m, rfl⟩ : ∃ m, n = m + 1 := ⟨n - 1, by simp [Expr.height] at h; omega⟩
    simp [printFull, parseTok]
  | name x k =>
    intro n rest h
    obtain ⟨m, rfl⟩ : ∃ m, n = m + 1 := ⟨n - 1, by simp [Expr.height] at h; omega⟩
    simp [printFull, parseTok]
  | neg e ih =>
    intro n rest h
    simp only [Expr.height] at h
    obtain ⟨m, rfl⟩ : ∃ m, n = m + 1 := ⟨n - 1, by omega⟩
    simp only [printFull, List.cons_append, List.append_assoc, parseTok]
    rw [ih m _ (by omega)]
    simp
  | bin o a b iha ihb =>
    intro n rest h
    simp only [Expr.height] at h
    obtain ⟨m, rfl⟩ : ∃ m, n = m + 1 := ⟨n - 1, by omega⟩
    obtain ⟨t, r, ht, hne⟩ := printFull_head a
    have hp : parseTok (m + 1) (.lp :: (printFull a ++ .op o :: (printFull b ++ .rp :: rest)))
        = parseBinRest (parseTok m) (printFull a ++ .op o :: (printFull b ++ .rp :: rest)) := by
      rw [ht]; exact parseTok_lp m t _ hne
    simp only [printFull, List.cons_append, List.append_assoc, List.nil_append]
    rw [hp]
    simp only [parseBinRest]
    rw [iha m _ (by omega)]
    simp only
    rw [ihb m _ (by omega)]
  | call1 f a ih =>
    intro n rest h
    simp only [Expr.height] at h
    obtain ⟨m, rfl⟩ : ∃ m, n = m + 1 := ⟨n - 1, by omega⟩
    simp only [printFull, List.cons_append, List.append_assoc, parseTok]
    rw [ih m _ (by omega)]
    simp
  | call2 f a b iha ihb =>
    intro n rest h
    simp only [Expr.height] at h
    obtain ⟨m, rfl⟩ : ∃ m, n = m + 1 := ⟨n - 1, by omega⟩
    simp only [printFull, List.cons_append, List.append_assoc, parseTok]
    rw [iha m _ (by omega)]
    simp only
    rw [ihb m _ (by omega)]
    simp

theorem height_le_length (e : Expr) : e.height ≤ (printFull e).length := by
  induction e with
  | num q => simp [Expr.height, printFull]
  | name x k => simp [Expr.height, printFull]
  | neg e ih => simp [Expr.height, printFull]; omega
  | bin o a b iha ihb => simp [Expr.height, printFull]; omega
  | call1 f a ih => simp [Expr.height, printFull]; omega
  | call2 f a b iha ihb => simp [Expr.height, printFull]; omega

/-- `parse (print e) = e` for every tree of the expression grammar -/
theorem parse_print (e : Expr) : parseExprTok (printFull e) = some e := by
  have := parseTok_printFull e (printFull e).length [] (height_le_length e)
  simp only [List.append_nil] at this
  simp [parseExprTok, this]


theorem length_printFull_pos (e : Expr) : e.height ≤ (printFull e).length := height_le_length e

/-- equations: `lhs = rhs` and bare expressions are read back exactly -/
theorem parseEqn_printEqn (q : Eqn Expr) : parseEqn (printEqn q) = some q := by
  cases q with
  | bare e =>
    have := parseTok_printFull e (printFull e).length [] (height_le_length e)
    simp only [List.append_nil] at this
    simp [parseEqn, printEqn, this]
  | eq l r =>
    have hl : l.height ≤ (printFull l ++ Tok.eq :: printFull r).length := by
      have := height_le_length l; simp; omega
    have hr : r.height ≤ (printFull l ++ Tok.eq :: printFull r).length := by
      have := height_le_length r; simp; omega
    have h1 := parseTok_printFull l _ (Tok.eq :: printFull r) hl
    have h2 := parseTok_printFull r _ [] hr
    simp only [List.append_nil] at h2
    simp only [parseEqn, printEqn, h1, h2]

/-! ## 8. Keyword aliases -/

theorem expandShortcut_of_not_bang (w : List Char) (h : w.head? ≠ some '!') : expandShortcut w = w := by
  unfold expandShortcut
  have h1 : w ≠ kwVariables := by intro e; rw [e] at h; exact h rfl
  have h2 : w ≠ kwShocks := by intro e; rw [e] at h; exact h rfl
  have h3 : w ≠ kwEquations := by intro e; rw [e] at h; exact h rfl
  simp [h1, h2, h3]

/-- a word that does not start with `!` (a name such as `k_ss`, a number, an operator) is never touched -/
theorem normaliseWord_of_not_bang (w : List Char) (h : w.head? ≠ some '!') : normaliseWord w = w := by
  unfold normaliseWord
  rw [expandShortcut_of_not_bang w h]
  match w, h with
  | [], _ => rfl
  | c :: r, h =>
    have hc : c ≠ '!' := by intro e; subst e; exact h rfl
    unfold hyphenate
    split
    · rename_i heq; cases heq; exact absurd rfl hc
    · rename_i heq; cases heq; exact absurd rfl hc
    · rfl

/-- the `!!` separator, with whatever is glued to it (`!!k_ss`), is never touched -/
theorem normaliseWord_bangbang (r : List Char) : normaliseWord ('!' :: '!' :: r) = '!' :: '!' :: r := by
  have h : expandShortcut ('!' :: '!' :: r) = '!' :: '!' :: r := by
    unfold expandShortcut
    have h1 : ('!' :: '!' :: r) ≠ kwVariables := by simp [kwVariables]
    have h2 : ('!' :: '!' :: r) ≠ kwShocks := by simp [kwShocks]
    have h3 : ('!' :: '!' :: r) ≠ kwEquations := by simp [kwEquations]
    simp [h1, h2, h3]
  unfold normaliseWord
  rw [h]; rfl

/-- every documented spelling of every block keyword is mapped to its canonical keyword -/
theorem normalise_aliases : ∀ p ∈ keywordAliases, normaliseWord p.1 = p.2 := by decide

/-- the canonical keywords are fixed points (normalising twice changes nothing on the documented spellings) -/
theorem normalise_canonical_fixed : ∀ p ∈ keywordAliases, normaliseWord p.2 = p.2 := by decide

/-- on a token list: length and positions are kept, `!!…` tokens and non-keyword tokens stay as they are -/
theorem normaliseKeywords_getElem (ws : List (List Char)) (i : Nat) (h : i < ws.length) :
    (normaliseKeywords ws)[i]? = some (normaliseWord ws[i]) := by
  simp [normaliseKeywords, h]

example : normaliseKeywords [['!', '!', 'k', '_', 's', 's'], ['k', '_', 's', 's'], kwVariables,
      ['!', 'l', 'o', 'g', '_', 'v', 'a', 'r', 'i', 'a', 'b', 'l', 'e', 's']]
    = [['!', '!', 'k', '_', 's', 's'], ['k', '_', 's', 's'], kwTransitionVariables,
      ['!', 'l', 'o', 'g', '-', 'v', 'a', 'r', 'i', 'a', 'b', 'l', 'e', 's']] := by decide

/-! ## 9. Substitutions: a pure function of this source's definitions -/

theorem resolveSubstitutions_append (defs : List (String × List STok)) (a b : List STok) :
    resolveSubstitutions defs (a ++ b) = resolveSubstitutions defs a ++ resolveSubstitutions defs b := by
  simp [resolveSubstitutions]

theorem resolveSubstitutions_cons (defs : List (String × List STok)) (t : STok) (r : List STok) :
    resolveSubstitutions defs (t :: r) = resolveSubstitutions defs [t] ++ resolveSubstitutions defs r := by
  simp [resolveSubstitutions]

/-- ordinary words are untouched -/
theorem resolveSubstitutions_word (defs : List (String × List STok)) (w : String) :
    resolveSubstitutions defs [.word w] = [.word w] := by simp [resolveSubstitutions]

/-- a defined `$s$` is replaced by the body of its definition, as it is written (textual substitution) -/
theorem resolveSubstitutions_ref (defs : List (String × List STok)) (s : String) (d : List STok)
    (h : lookupLast defs s = some d) : resolveSubstitutions defs [.ref s] = d := by
  simp [resolveSubstitutions, h]

/-- an undefined `$s$` stays (the code then rejects the equation) -/
theorem resolveSubstitutions_undefined (defs : List (String × List STok)) (s : String)
    (h : lookupLast defs s = none) : resolveSubstitutions defs [.ref s] = [.ref s] := by
  simp [resolveSubstitutions, h]

/-- the last definition of a name is the one in force -/
theorem lookupLast_snoc (defs : List (String × List STok)) (s : String) (d : List STok) :
    lookupLast (defs ++ [(s, d)]) s = some d := by
  simp [lookupLast]

/-- definitions of other names are irrelevant for `$s$` -/
theorem lookupLast_snoc_ne (defs : List (String × List STok)) (s s' : String) (d : List STok) (h : s' ≠ s) :
    lookupLast (defs ++ [(s', d)]) s = lookupLast defs s := by
  simp [lookupLast, h]

/-- text without references does not depend on the definitions at all -/
theorem resolveSubstitutions_no_refs (defs : List (String × List STok)) (ws : List String) :
    resolveSubstitutions defs (ws.map .word) = ws.map .word := by
  induction ws with
  | nil => rfl
  | cons w r ih => rw [List.map_cons, resolveSubstitutions_cons, ih, resolveSubstitutions_word]; rfl

/-- statelessness: translating a sequence of sources is the map of the one-source function -- the result for a source is a
function of that source's own definitions and text, whatever was translated before it with the same substitution names -/
def translateAll (sources : List (List (String × List STok) × List STok)) : List (List STok) :=
  sources.map (fun src => resolveSubstitutions src.1 src.2)

theorem translateAll_local (before after : List (List (String × List STok) × List STok))
    (src : List (String × List STok) × List STok) :
    (translateAll (before ++ src :: after))[before.length]? = some (resolveSubstitutions src.1 src.2) := by
  simp [translateAll]

example : translateAll [([("s0", [.word "a", .word "+", .word "b"])], [.word "2", .word "*", .ref "s0"]),
                        ([("s0", [.word "c"])], [.ref "s0", .word "-", .ref "s1"])]
    = [[.word "2", .word "*", .word "a", .word "+", .word "b"], [.word "c", .word "-", .ref "s1"]] := by decide


/-! ## 10. End to end: print, parse, translate, evaluate -/

/-- `evalEquation (parse (print e)) = evalEquation e`, for every carrier and interpretation -/
theorem evalEquation_print_parse {α : Type} (A : Alg α) (data : Data α) (t : Int) (q : Eqn Expr) :
    (parseEqn (printEqn q)).map (fun p => eval A data t p.xtring) = some (eval A data t q.xtring) := by
  rw [parseEqn_printEqn]; rfl

/-- composed statement with input-level hypotheses only: an equation as written (pseudofunctions, substitutions), macro-expanded,
printed to tokens, parsed back, translated by `lhs = rhs -> -(lhs)+rhs` and evaluated gives the documented value of the
right-hand side minus the documented value of the left-hand side, for all data and periods -/
theorem equation_end_to_end {K : Type} [Field K] (ofRat : Rat → K) (powf : K → K → K) (f1 : String → K → K)
    (f2 : String → K → K → K) (defs : String → Option Expr) (data : Data K) (t : Int) (lhs rhs : PExpr) (l r : Expr)
    (hl : expand defs lhs = some l) (hr : expand defs rhs = some r) :
    (parseEqn (printEqn (.eq l r))).map (fun p => eval (fieldAlg ofRat powf f1 f2) data t p.xtring)
      = (do let a ← evalDoc (fieldAlg ofRat powf f1 f2) defs data t rhs
            let b ← evalDoc (fieldAlg ofRat powf f1 f2) defs data t lhs
            pure (a - b)) := by
  rw [evalEquation_print_parse, eval_expand _ defs data t lhs l hl, eval_expand _ defs data t rhs r hr]
  simp only [Eqn.xtring, eval_translate]
  rfl

example : parseEqn (printEqn (.eq (.name "x" 0) (.bin .add (.neg (.name "y" (-1))) (.call2 "maximum" (.num 2) (.name "z" 1)))))
    = some (.eq (.name "x" 0) (.bin .add (.neg (.name "y" (-1))) (.call2 "maximum" (.num 2) (.name "z" 1)))) := parseEqn_printEqn _

/-! ## 11. Moving windows, written out for each sign -/

theorem window_pos (t k : Int) (h : 0 < k) : window t k = (List.range k.natAbs).map (fun (i : Nat) => t + (i : Int)) := by
  unfold window movShifts
  rw [List.map_map]
  apply List.map_congr_left
  intro i _
  simp [h]

theorem window_neg (t k : Int) (h : k < 0) : window t k = (List.range k.natAbs).map (fun (i : Nat) => t - (i : Int)) := by
  have : ¬ (0 < k) := by omega
  unfold window movShifts
  rw [List.map_map]
  apply List.map_congr_left
  intro i _
  simp [this, Int.sub_eq_add_neg]

example : window 10 4 = [10, 11, 12, 13] := by decide

/-! ## 12. Statement audit: concrete instances of the hypotheses, rejection branches -/

/-- a concrete carrier: the rationals, `^` read as multiplication by the exponent (any function will do), functions as identity -/
def ratAlg : Alg ℚ := fieldAlg (fun q => q) (fun a b => a * b) (fun _ x => x) (fun _ x _ => x)
def rampData : Data ℚ := fun _ s => (s : ℚ)

example : eval ratAlg rampData 5 (expandPF .diff (.bin .mul (.name "x" 0) (.name "y" (-1))) (-2)) = 5 * 4 - 3 * 2 := by
  rw [ratAlg, eval_diff]; simp [eval, fieldAlg, rampData]

example : eval ratAlg rampData 5 (expandPF .pct (.name "x" 0) (-1)) = 100 * ((5 : ℚ) / 4 - 1) := by
  rw [ratAlg, eval_pct _ _ _ _ _ _ _ _ rfl]; simp [eval, fieldAlg, rampData]

example : eval ratAlg rampData 10 (expandPF .movSum (.name "x" 0) (-4)) = 10 + 9 + 8 + 7 := by
  rw [ratAlg, eval_movSum _ _ _ _ _ _ _ _ (by decide)]
  have : window 10 (-4) = [10, 9, 8, 7] := by decide
  simp [this, eval, fieldAlg, rampData]; norm_num

example : eval ratAlg rampData 10 (expandPF .movProd (.name "x" 0) 3) = 10 * (11 * 12) := by
  rw [ratAlg, eval_movProd _ _ _ _ _ _ _ _ (by decide)]
  have : window 10 3 = [10, 11, 12] := by decide
  simp [this, eval, fieldAlg, rampData]

example : eval ratAlg rampData 5 (expandPF .roc (.name "x" 0) (resolveShift .roc (some 0))) = 1 := by
  rw [ratAlg]; exact eval_roc_zero _ _ _ _ _ _ _ (by simp [eval, fieldAlg, rampData])

/-! ### macro expansion rejects exactly the sides that mention an undefined substitution -/

def _root_.IrisVerif.ModelLang.PExpr.refs : PExpr → List String
  | .num _ => []
  | .name _ _ => []
  | .neg e => e.refs
  | .bin _ a b => a.refs ++ b.refs
  | .call1 _ a => a.refs
  | .call2 _ a b => a.refs ++ b.refs
  | .pseudo _ _ _ => []
  | .subs s => [s]

theorem expand_isSome_iff (defs : String → Option Expr) (p : PExpr) :
    (expand defs p).isSome ↔ ∀ s ∈ p.refs, (defs s).isSome := by
  induction p with
  | num q => simp [expand, PExpr.refs]
  | name n k => simp [expand, PExpr.refs]
  | neg a ih => simpa [expand, PExpr.refs] using ih
  | bin op a b iha ihb =>
    simp only [expand, PExpr.refs, List.mem_append]
    cases ha : expand defs a <;> cases hb : expand defs b <;> simp_all [or_imp, forall_and]
  | call1 f a ih => simpa [expand, PExpr.refs] using ih
  | call2 f a b iha ihb =>
    simp only [expand, PExpr.refs, List.mem_append]
    cases ha : expand defs a <;> cases hb : expand defs b <;> simp_all [or_imp, forall_and]
  | pseudo pf arg s => simp [expand, PExpr.refs]
  | subs s => simp [expand, PExpr.refs]

/-- rejection: one undefined `$s$` anywhere in a side makes the expansion fail (the code reports a syntax error) -/
theorem expand_none_of_undefined (defs : String → Option Expr) (p : PExpr) (s : String) (hs : s ∈ p.refs) (hd : defs s = none) :
    expand defs p = none := by
  have := (expand_isSome_iff defs p).not.mpr (by
    intro h; have := h s hs; simp [hd] at this)
  simpa using this

example : expand (fun s => if s = "s0" then some (.name "a" 0) else none)
    (.bin .mul (.subs "s0") (.pseudo .diff (.name "x" 0) none))
    = some (.bin .mul (.name "a" 0) (.bin .sub (.name "x" 0) (.name "x" (-1)))) := by decide
example : expand (fun s => if s = "s0" then some (.name "a" 0) else none) (.bin .mul (.subs "s1") (.num 2)) = none := by decide

/-- `_verify_log_variables`: accepted exactly when every listed name is a declared loggable variable -/
theorem logListOk_iff (decls : List Decl) (listed : List String) :
    logListOk decls listed = true ↔ ∀ n ∈ listed, ∃ d ∈ decls, d.name = n ∧ d.kind.loggable = true := by
  simp [logListOk]

example : logListOk [⟨.tv, "x", ""⟩, ⟨.par, "a", ""⟩] ["x"] = true ∧ logListOk [⟨.tv, "x", ""⟩, ⟨.par, "a", ""⟩] ["a"] = false := by decide

/-- rejection: a `!for` over a `<...>` expression that cannot be evaluated fails the whole directive stage -/
theorem resolve_for_bad_context (ctx : Ctx) (c : String) (k : Word) (body rest : Forest) (h : ctx.lists k.render = none) :
    resolve ctx (Forest.for c (.ctx k) body rest).flatten = .error .bad := by
  rw [resolve_flatten]
  simp [Forest.denote, Toks.substAll, Toks.eval, h, bind, Except.bind]

/-- rejection: an `!if` whose condition cannot be evaluated -/
theorem resolve_if_bad_context (ctx : Ctx) (k : Word) (th el : Forest) (he : Bool) (rest : Forest) (h : ctx.flags k.render = none) :
    resolve ctx (Forest.ite (.flag k) th he el rest).flatten = .error .bad := by
  rw [resolve_flatten]
  simp [Forest.denote, Cond.substAll, Cond.eval, h, bind, Except.bind]

/-- non-vacuity of the end-to-end statement: both sides of `diff(x) = $s0$ * 2` expand -/
example (ofRat : Rat → ℚ) (powf : ℚ → ℚ → ℚ) (f1 : String → ℚ → ℚ) (f2 : String → ℚ → ℚ → ℚ) (data : Data ℚ) (t : Int) :
    (parseEqn (printEqn (.eq (.bin .sub (.name "x" 0) (.name "x" (-1))) (.bin .mul (.name "a" 0) (.num 2))))).map
        (fun p => eval (fieldAlg ofRat powf f1 f2) data t p.xtring)
      = (do let a ← evalDoc (fieldAlg ofRat powf f1 f2) (fun s => if s = "s0" then some (.name "a" 0) else none) data t
                  (.bin .mul (.subs "s0") (.num 2))
            let b ← evalDoc (fieldAlg ofRat powf f1 f2) (fun s => if s = "s0" then some (.name "a" 0) else none) data t
                  (.pseudo .diff (.name "x" 0) none)
            pure (a - b)) :=
  equation_end_to_end ofRat powf f1 f2 _ data t _ _ _ _ (by decide) (by decide)

/-! ## 13. Operator precedence and associativity of minimally parenthesised text (for all names / shifts) -/

section Prec
variable (x y z : String) (i j k : Int)
local notation "X" => Tok.name x i
local notation "Y" => Tok.name y j
local notation "Z" => Tok.name z k
local notation "ex" => Expr.name x i
local notation "ey" => Expr.name y j
local notation "ez" => Expr.name z k

/-- `* /` bind tighter than `+ -` -/
theorem prec_add_mul : parsePrec [X, .op .add, Y, .op .mul, Z] = some (.bin .add ex (.bin .mul ey ez)) := rfl
theorem prec_mul_add : parsePrec [X, .op .mul, Y, .op .add, Z] = some (.bin .add (.bin .mul ex ey) ez) := rfl
theorem prec_sub_div : parsePrec [X, .op .sub, Y, .op .div, Z] = some (.bin .sub ex (.bin .div ey ez)) := rfl
/-- `+ -` and `* /` associate to the left -/
theorem assoc_sub_sub : parsePrec [X, .op .sub, Y, .op .sub, Z] = some (.bin .sub (.bin .sub ex ey) ez) := rfl
theorem assoc_sub_add : parsePrec [X, .op .sub, Y, .op .add, Z] = some (.bin .add (.bin .sub ex ey) ez) := rfl
theorem assoc_div_div : parsePrec [X, .op .div, Y, .op .div, Z] = some (.bin .div (.bin .div ex ey) ez) := rfl
theorem assoc_div_mul : parsePrec [X, .op .div, Y, .op .mul, Z] = some (.bin .mul (.bin .div ex ey) ez) := rfl
/-- `^` binds tighter than `* /` and associates to the RIGHT -/
theorem prec_mul_pow : parsePrec [X, .op .mul, Y, .op .pow, Z] = some (.bin .mul ex (.bin .pow ey ez)) := rfl
theorem assoc_pow_pow : parsePrec [X, .op .pow, Y, .op .pow, Z] = some (.bin .pow ex (.bin .pow ey ez)) := rfl
/-- unary minus: looser than `^` on its left (`-x^y = -(x^y)`), allowed in an exponent (`x^-y`), tighter than `* /` -/
theorem neg_pow : parsePrec [.op .sub, X, .op .pow, Y] = some (.neg (.bin .pow ex ey)) := rfl
theorem pow_neg : parsePrec [X, .op .pow, .op .sub, Y] = some (.bin .pow ex (.neg ey)) := rfl
theorem pow_neg_pow : parsePrec [X, .op .pow, .op .sub, Y, .op .pow, Z] = some (.bin .pow ex (.neg (.bin .pow ey ez))) := rfl
theorem neg_mul : parsePrec [.op .sub, X, .op .mul, Y] = some (.bin .mul (.neg ex) ey) := rfl
theorem mul_neg : parsePrec [X, .op .mul, .op .sub, Y] = some (.bin .mul ex (.neg ey)) := rfl
theorem sub_neg : parsePrec [X, .op .sub, .op .sub, Y] = some (.bin .sub ex (.neg ey)) := rfl
theorem neg_neg : parsePrec [.op .sub, .op .sub, X] = some (.neg (.neg ex)) := rfl
/-- parentheses override, function calls are primaries -/
theorem paren_add_mul : parsePrec [.lp, X, .op .add, Y, .rp, .op .mul, Z] = some (.bin .mul (.bin .add ex ey) ez) := rfl
theorem paren_pow_base : parsePrec [.lp, .op .sub, X, .rp, .op .pow, Y] = some (.bin .pow (.neg ex) ey) := rfl
theorem call_pow (f : String) : parsePrec [.fn f, .lp, X, .comma, Y, .rp, .op .pow, Z] = some (.bin .pow (.call2 f ex ey) ez) := rfl
/-- rejection: a dangling operator, an unclosed parenthesis -/
theorem reject_dangling : parsePrec [X, .op .add] = none := rfl
theorem reject_unclosed : parsePrec [.lp, X, .op .add, Y] = none := rfl

/-- the text `-(lhs)+a+b` that `_postprocess_xtring` produces for `lhs = a + b` reads `((-lhs)+a)+b`: the right-hand side is not
re-parenthesised (same value as `(a+b)-lhs` in a field -- `eval_translate` -- but a different order of the floating-point
additions: the reason why bit-exact comparison is limited to single-term right-hand sides) -/
theorem translate_text_assoc :
    parsePrec (translateTokens [X] [Y, .op .add, Z]) = some (.bin .add (.bin .add (.neg ex) ey) ez) := rfl
/-- for a single-term right-hand side the text is the tree `translate lhs rhs` -/
theorem translate_text_single :
    parsePrec (translateTokens [X] [Y, .op .mul, Z]) = some (translate ex (.bin .mul ey ez)) := rfl
end Prec

/-- the precedence parser also reads the fully parenthesised spelling (instance; the general statement is tied by the `pparse`
stream, see notes: not proved) -/
example : parsePrec (printFull (.bin .add (.neg (.name "y" (-1))) (.call2 "maximum" (.num 2) (.bin .pow (.name "z" 1) (.num 3)))))
    = some (.bin .add (.neg (.name "y" (-1))) (.call2 "maximum" (.num 2) (.bin .pow (.name "z" 1) (.num 3)))) := by decide

/-! ## 14. `<...>` stringification: the text that is re-read is the value -/

theorem ofDigits10_digits10 (n : Nat) : ofDigits10 (digits10 n) = n := by
  induction n using Nat.strong_induction_on with
  | _ n ih =>
    rw [digits10]
    split
    · simp [ofDigits10]
    · rename_i h
      simp only [ofDigits10]
      rw [ih (n / 10) (by omega)]
      omega

/-- every digit is printed: for a value with `k` decimals (`q * 10^k` is an integer) the text re-read is the value itself;
in particular nothing is rounded to a fixed number of significant digits -/
theorem reread_stringify (q : Rat) (k : Nat) (h : (q * (10 : Rat) ^ k).den = 1) :
    rereadDec (stringifyDec q k) = q := by
  have h10 : ((10 : Rat) ^ k) ≠ 0 := by positivity
  have hpos : (0 : Rat) < (10 : Rat) ^ k := by positivity
  set m := q * (10 : Rat) ^ k with hm
  have hq : q = m / (10 : Rat) ^ k := by rw [hm]; field_simp
  have hmnum : (m.num : Rat) = m := by
    have := Rat.num_div_den m
    rw [h] at this; simpa using this
  simp only [rereadDec, stringifyDec, ofDigits10_digits10]
  rw [← hm]
  by_cases hneg : q < 0
  · have hm0 : m < 0 := by rw [hm]; exact mul_neg_of_neg_of_pos hneg hpos
    have hn0 : m.num < 0 := Rat.num_neg.mpr hm0
    have : ((m.num.natAbs : Nat) : Rat) = -m := by
      have e : ((m.num.natAbs : Nat) : Int) = -m.num := by omega
      have : ((m.num.natAbs : Nat) : Rat) = ((-m.num : Int) : Rat) := by rw [← e]; simp
      rw [this, Int.cast_neg, hmnum]
    simp only [hneg, decide_true, if_true, this]
    rw [hq]; field_simp
  · have hm0 : 0 ≤ m := by rw [hm]; exact mul_nonneg (not_lt.mp hneg) hpos.le
    have hn0 : 0 ≤ m.num := Rat.num_nonneg.mpr hm0
    have : ((m.num.natAbs : Nat) : Rat) = m := by
      have e : ((m.num.natAbs : Nat) : Int) = m.num := by omega
      have : ((m.num.natAbs : Nat) : Rat) = ((m.num : Int) : Rat) := by rw [← e]; simp
      rw [this, hmnum]
    simp only [hneg, decide_false, Bool.false_eq_true, if_false, this]
    rw [hq]; field_simp

theorem reread_stringifyList (qs : List (Rat × Nat)) (h : ∀ p ∈ qs, (p.1 * (10 : Rat) ^ p.2).den = 1) :
    (stringifyList qs).map rereadDec = qs.map (·.1) := by
  induction qs with
  | nil => rfl
  | cons p r ih =>
    simp only [stringifyList, List.map_cons, List.map_map] at ih ⊢
    rw [reread_stringify p.1 p.2 (h p (by simp))]
    congr 1
    exact ih (fun p' hp' => h p' (by simp [hp']))

example : digits10 125 = [5, 2, 1] := by simp [digits10]
example : rereadDec (stringifyDec (-5 / 4) 2) = -5 / 4 := reread_stringify _ _ (by norm_num)

/-! ## 15. The templating step depends on the context of its own call only -/

/-- statelessness: in a sequence of calls the result of a call is the one-call function of its own context and template,
whatever contexts the earlier calls had (the model has no other input; the `jinja-history` stream ties the code to it) -/
theorem renderAllJinja_local (before after : List (JCtx × List JPiece)) (call : JCtx × List JPiece) :
    (renderAllJinja (before ++ call :: after))[before.length]? = some (renderJinja call.1 call.2) := by
  simp [renderAllJinja]

/-- an undefined variable prints nothing and an undefined flag selects the else-branch, however the template continues -/
theorem renderJinja_undefined_var (c : JCtx) (n : String) (rest : List JPiece) (h : c.vars n = none) :
    renderJinja c (.var n :: rest) = renderJinja c rest := by
  simp [renderJinja, h]

theorem renderJinja_undefined_flag (c : JCtx) (f : String) (th el : List String) (rest : List JPiece) (h : c.flags f = none) :
    renderJinja c (.ite f false th el :: rest) = el ++ renderJinja c rest := by
  simp [renderJinja, h]

theorem renderJinja_flag (c : JCtx) (f : String) (v neg : Bool) (th el : List String) (rest : List JPiece) (h : c.flags f = some v) :
    renderJinja c (.ite f neg th el :: rest) = (if v != neg then th else el) ++ renderJinja c rest := by
  simp [renderJinja, h]

example : renderAllJinja
    [(⟨fun _ => none, fun f => if f = "open_economy" then some true else none⟩, [.ite "open_economy" false ["nx"] [], .text "y"]),
     (⟨fun _ => none, fun _ => none⟩, [.ite "open_economy" false ["nx"] [], .text "y"])]
    = [["nx", "y"], ["y"]] := by decide

end IrisVerif.C04
