/-
Worked clients of the `QMat → Matrix` bridge (`Lemmas/QMatRefines.lean`): property theorems that were stated over
Mathlib matrices with an *assumed* algebraic hypothesis are carried down to the executable models, the hypothesis
being *derived* from the model's own exact re-check.

Part A (C18, reduced-form VAR): `RedVar.estimate … = .ok e` ⇒ the Mathlib views of `e.lhsEst`, `e.rhsEst`, `e.beta`
satisfy `LeastSquares.NormalEq` -- the hypothesis of every theorem in `Props/C18.lean` Part 1 -- hence the model's
coefficient matrix minimises the sum of squared residuals over exactly the fitted columns (+ dummy observations),
and the residuals the model reports on the fitted columns are the residuals of that minimiser.

What stays unbridged is said at the end of each part and in `notes/QMatRefines.md`.
-/
import IrisVerif.Lemmas.QMatRefines
import IrisVerif.Props.C18
import IrisVerif.Props.C01
import IrisVerif.Model.FirstOrder
import Mathlib.Algebra.Order.Field.Rat

open Matrix

namespace IrisVerif.QMatBridge

open IrisVerif IrisVerif.QMat IrisVerif.RedVar IrisVerif.LeastSquares

/-! ## Part A: C18 -- the executable VAR estimate satisfies the normal equations, hence is the least-squares minimiser -/

/-- both dummy blocks of a prior have `Prior.numObs` columns -/
theorem prior_cols (s : Spec) (pr : Prior) : (pr.lhs s).cols = (pr.rhs s).cols := by
  cases pr <;> rfl

theorem prior_lhs_rows (s : Spec) (pr : Prior) : (pr.lhs s).rows = s.n := by cases pr <;> rfl
theorem prior_rhs_rows (s : Spec) (pr : Prior) : (pr.rhs s).rows = s.numRhs := by cases pr <;> rfl

theorem foldl_hstack_rows (f : Prior → QMat) (ps : List Prior) (acc : QMat) :
    (ps.foldl (fun acc pr => QMat.hstack acc (f pr)) acc).rows = acc.rows := by
  induction ps generalizing acc with
  | nil => rfl
  | cons p ps ih => rw [List.foldl_cons, ih]; rfl

theorem foldl_hstack_cols (f g : Prior → QMat) (hfg : ∀ pr, (f pr).cols = (g pr).cols) (ps : List Prior)
    (acc acc' : QMat) (h : acc.cols = acc'.cols) :
    (ps.foldl (fun acc pr => QMat.hstack acc (f pr)) acc).cols
      = (ps.foldl (fun acc pr => QMat.hstack acc (g pr)) acc').cols := by
  induction ps generalizing acc acc' with
  | nil => exact h
  | cons p ps ih =>
    rw [List.foldl_cons, List.foldl_cons]
    apply ih
    rw [hstack_cols, hstack_cols, h, hfg]

theorem dummy_cols (s : Spec) (ps : List Prior) : (dummyLhs s ps).cols = (dummyRhs s ps).cols :=
  foldl_hstack_cols _ _ (prior_cols s) ps _ _ rfl

theorem lhsFull_rows (s : Spec) (Y : OMat) (cols : List Nat) (pr : Option (List Prior)) :
    (lhsFull s Y cols pr).rows = s.n := by
  cases pr <;> rfl

theorem rhsFull_rows (s : Spec) (Y X : OMat) (cols : List Nat) (pr : Option (List Prior)) :
    (rhsFull s Y X cols pr).rows = s.numRhs := by
  cases pr <;> rfl

/-- the two estimation matrices have the same number of columns (fitted periods + dummy observations) -/
theorem full_cols (s : Spec) (Y X : OMat) (cols : List Nat) (pr : Option (List Prior)) :
    (rhsFull s Y X cols pr).cols = (lhsFull s Y cols pr).cols := by
  cases pr with
  | none => rfl
  | some ps =>
    show (rhsData s Y X cols).cols + (dummyRhs s ps).cols = (lhsData s Y cols).cols + (dummyLhs s ps).cols
    rw [dummy_cols]; rfl

/-- what a successful `estimate` returns (everything the bridge needs, read off the definition) -/
theorem estimate_ok (s : Spec) (dof : Bool) (Y X : OMat) (pr : Option (List Prior)) (e : Estimate)
    (h : estimate s dof Y X pr = .ok e) :
    e.fittedCols = fitted s Y X ∧
    e.lhsEst = lhsFull s Y (fitted s Y X) pr ∧
    e.rhsEst = rhsFull s Y X (fitted s Y X) pr ∧
    e.u = OMat.ofFn s.n (numBase s Y) (residual s e.beta Y X) ∧
    ∃ x : QMat, QMat.solveChecked (normalMx e.rhsEst) (normalMy e.lhsEst e.rhsEst) = some x ∧
      e.beta = x.transpose := by
  unfold estimate at h
  simp only at h
  split at h
  · cases h
  · split at h
    · cases h
    split at h
    · cases h
    · rename_i beta hols
      generalize ((fitted s Y X).length : Int) - (if dof = true then (dofCount s : Int) else 0) = denom at h
      split at h
      · cases h
      · injection h with h
        subst h
        refine ⟨rfl, rfl, rfl, rfl, ?_⟩
        simp only
        unfold ols at hols
        cases hs : QMat.solveChecked (normalMx (rhsFull s Y X (fitted s Y X) pr))
            (normalMy (lhsFull s Y (fitted s Y X) pr) (rhsFull s Y X (fitted s Y X) pr)) with
        | none => simp [hs] at hols
        | some x =>
          simp only [hs, Option.map_some, Option.some.injEq] at hols
          exact ⟨x, rfl, hols.symm⟩

/-- dimensions of a successful estimate: `lhsEst` is `n × T`, `rhsEst` is `numRhs × T`, `beta` is `n × numRhs` -/
theorem estimate_dims (s : Spec) (dof : Bool) (Y X : OMat) (pr : Option (List Prior)) (e : Estimate)
    (h : estimate s dof Y X pr = .ok e) :
    e.lhsEst.rows = s.n ∧ e.rhsEst.rows = s.numRhs ∧ e.rhsEst.cols = e.lhsEst.cols ∧
      e.beta.rows = s.n ∧ e.beta.cols = s.numRhs ∧ e.beta.wellShaped = true := by
  obtain ⟨_, hl, hr, _, x, hx, hb⟩ := estimate_ok s dof Y X pr e h
  have hlr : e.lhsEst.rows = s.n := by rw [hl]; exact lhsFull_rows _ _ _ _
  have hrr : e.rhsEst.rows = s.numRhs := by rw [hr]; exact rhsFull_rows _ _ _ _ _
  obtain ⟨_, _, h3, h4, _, _⟩ := solveChecked_sound _ _ x hx
  refine ⟨hlr, hrr, by rw [hl, hr]; exact full_cols _ _ _ _ _, ?_, ?_, ?_⟩
  · rw [hb, transpose_rows, h4]; exact hlr
  · rw [hb, transpose_cols, h3]; exact hrr
  · rw [hb]; exact wellShaped_transpose x

/-- **Bridge (C18).**  A successful run of the executable estimator yields matrices whose Mathlib views satisfy the
normal equations `(X Xᵀ) βᵀ = X Yᵀ` -- the hypothesis `NormalEq` of `Props/C18.lean` Part 1 -- *derived* from the
model's exact re-check (`QMat.solveChecked`), not assumed. -/
theorem estimate_normalEq (s : Spec) (dof : Bool) (Y X : OMat) (pr : Option (List Prior)) (e : Estimate)
    (h : estimate s dof Y X pr = .ok e) :
    NormalEq (e.lhsEst.toMat s.n e.lhsEst.cols) (e.rhsEst.toMat s.numRhs e.lhsEst.cols)
      (e.beta.toMat s.n s.numRhs) := by
  obtain ⟨hlr, hrr, hc, _, _, _⟩ := estimate_dims s dof Y X pr e h
  obtain ⟨_, _, _, _, x, hx, hb⟩ := estimate_ok s dof Y X pr e h
  obtain ⟨_, _, h3, h4, _, h6⟩ := solveChecked_sound _ _ x hx
  -- the dimensions of the normal-equation matrices
  have ha : (normalMx e.rhsEst).rows = s.numRhs := hrr
  have hbc : (normalMy e.lhsEst e.rhsEst).cols = s.n := hlr
  rw [ha, hbc] at h6
  rw [ha] at h3
  rw [hbc] at h4
  -- `normalMx = R Rᵀ`, `normalMy = R Lᵀ`, `beta = xᵀ`
  have hMx : (normalMx e.rhsEst).toMat s.numRhs s.numRhs
      = e.rhsEst.toMat s.numRhs e.lhsEst.cols * (e.rhsEst.toMat s.numRhs e.lhsEst.cols)ᵀ := by
    unfold normalMx
    rw [toMat_mul _ _ s.numRhs e.lhsEst.cols s.numRhs hrr hc hrr, toMat_transpose _ _ _ hrr hc]
  have hMy : (normalMy e.lhsEst e.rhsEst).toMat s.numRhs s.n
      = e.rhsEst.toMat s.numRhs e.lhsEst.cols * (e.lhsEst.toMat s.n e.lhsEst.cols)ᵀ := by
    unfold normalMy
    rw [toMat_mul _ _ s.numRhs e.lhsEst.cols s.n hrr hc hlr, toMat_transpose _ _ _ hlr rfl]
  have hβ : (e.beta.toMat s.n s.numRhs)ᵀ = x.toMat s.numRhs s.n := by
    rw [hb, toMat_transpose x _ _ h3 h4, Matrix.transpose_transpose]
  unfold NormalEq
  rw [hβ, ← hMx, ← hMy]
  exact h6

/-- **C18 carried down to the executable model**: the coefficient matrix returned by `RedVar.estimate` minimises the
sum of squared residuals over exactly the columns that entered the estimation, against *every* competing coefficient
matrix -- for all specifications, data sets, missing-value patterns and priors on which the model returns `ok`. -/
theorem estimate_minimises (s : Spec) (dof : Bool) (Y X : OMat) (pr : Option (List Prior)) (e : Estimate)
    (h : estimate s dof Y X pr = .ok e) (β' : Matrix (Fin s.n) (Fin s.numRhs) ℚ) :
    ssr (e.lhsEst.toMat s.n e.lhsEst.cols) (e.rhsEst.toMat s.numRhs e.lhsEst.cols) (e.beta.toMat s.n s.numRhs)
      ≤ ssr (e.lhsEst.toMat s.n e.lhsEst.cols) (e.rhsEst.toMat s.numRhs e.lhsEst.cols) β' :=
  C18.normalEq_minimises _ _ _ (estimate_normalEq s dof Y X pr e h) β'

/-- … equation by equation -/
theorem estimate_minimises_row (s : Spec) (dof : Bool) (Y X : OMat) (pr : Option (List Prior)) (e : Estimate)
    (h : estimate s dof Y X pr = .ok e) (β' : Matrix (Fin s.n) (Fin s.numRhs) ℚ) (i : Fin s.n) :
    let L := e.lhsEst.toMat s.n e.lhsEst.cols
    let R := e.rhsEst.toMat s.numRhs e.lhsEst.cols
    let β := e.beta.toMat s.n s.numRhs
    ∑ t, (L - β * R) i t * (L - β * R) i t ≤ ∑ t, (L - β' * R) i t * (L - β' * R) i t :=
  C18.normalEq_minimises_row _ _ _ (estimate_normalEq s dof Y X pr e h) β' i

/-- … and, when the moment matrix of the regressors is non-singular, the estimate is the closed form
`((X Xᵀ)⁻¹ X Yᵀ)ᵀ`, the unique solution -/
theorem estimate_eq_closed_form (s : Spec) (dof : Bool) (Y X : OMat) (pr : Option (List Prior)) (e : Estimate)
    (h : estimate s dof Y X pr = .ok e)
    (hdet : IsUnit ((e.rhsEst.toMat s.numRhs e.lhsEst.cols) * (e.rhsEst.toMat s.numRhs e.lhsEst.cols)ᵀ).det) :
    let L := e.lhsEst.toMat s.n e.lhsEst.cols
    let R := e.rhsEst.toMat s.numRhs e.lhsEst.cols
    e.beta.toMat s.n s.numRhs = ((R * Rᵀ)⁻¹ * (R * Lᵀ))ᵀ :=
  C18.normalEq_unique _ _ _ _ hdet (estimate_normalEq s dof Y X pr e h) (C18.normalEq_solution _ _ hdet)

/-- **noise-free data return the generating coefficients, on the executable model**: if the left-hand data of the
fitted columns are exactly `β₀ ·` regressors, the model returns `β₀` -/
theorem estimate_noise_free (s : Spec) (dof : Bool) (Y X : OMat) (pr : Option (List Prior)) (e : Estimate)
    (h : estimate s dof Y X pr = .ok e) (β₀ : Matrix (Fin s.n) (Fin s.numRhs) ℚ)
    (hdet : IsUnit ((e.rhsEst.toMat s.numRhs e.lhsEst.cols) * (e.rhsEst.toMat s.numRhs e.lhsEst.cols)ᵀ).det)
    (hgen : e.lhsEst.toMat s.n e.lhsEst.cols = β₀ * e.rhsEst.toMat s.numRhs e.lhsEst.cols) :
    e.beta.toMat s.n s.numRhs = β₀ := by
  have hne := estimate_normalEq s dof Y X pr e h
  rw [hgen] at hne
  exact C18.noise_free_recovery _ β₀ _ hdet hne

/-! ### the matrices of the bridge are the data: entries of `lhsEst`/`rhsEst`, and the reported residuals -/

theorem getD_mem_fitted (s : Spec) (Y X : OMat) (k : Nat) (hk : k < (fitted s Y X).length) :
    (fitted s Y X).getD k 0 ∈ fitted s Y X := by
  have : (fitted s Y X).getD k 0 = (fitted s Y X)[k] := by simp [List.getD, hk]
  rw [this]
  exact List.getElem_mem hk

theorem some_getD_of_isSome {α : Type} (o : Option α) (d : α) (h : o.isSome = true) : some (o.getD d) = o := by
  cases o with
  | none => cases h
  | some v => rfl

/-- the first `#fitted` columns of `lhsEst` hold the left-hand data of the fitted periods, in order … -/
theorem lhsEst_entry (s : Spec) (dof : Bool) (Y X : OMat) (pr : Option (List Prior)) (e : Estimate)
    (h : estimate s dof Y X pr = .ok e) (i k : Nat) (hi : i < s.n) (hk : k < (fitted s Y X).length) :
    some (e.lhsEst.get i k) = y0 s Y i ((fitted s Y X).getD k 0) := by
  obtain ⟨_, hl, _, _, _⟩ := estimate_ok s dof Y X pr e h
  have hd : (lhsData s Y (fitted s Y X)).get i k = (y0 s Y i ((fitted s Y X).getD k 0)).getD 0 := by
    unfold lhsData; rw [get_ofFn_of_lt _ _ _ _ _ hi hk]
  have hfull : e.lhsEst.get i k = (lhsData s Y (fitted s Y X)).get i k := by
    rw [hl]
    cases pr with
    | none => rfl
    | some ps =>
      show (QMat.hstack (lhsData s Y (fitted s Y X)) (dummyLhs s ps)).get i k = _
      rw [get_hstack, if_pos ⟨hi, Nat.lt_add_right _ hk⟩]
      exact if_pos hk
  rw [hfull, hd]
  exact some_getD_of_isSome _ _ ((C18.fitted_complete s Y X _ (getD_mem_fitted s Y X k hk)).1 i hi)

/-- … and those of `rhsEst` the regressors `[y1; x; 1]` of the fitted periods -/
theorem rhsEst_entry (s : Spec) (dof : Bool) (Y X : OMat) (pr : Option (List Prior)) (e : Estimate)
    (h : estimate s dof Y X pr = .ok e) (r k : Nat) (hr : r < s.numRhs) (hk : k < (fitted s Y X).length) :
    some (e.rhsEst.get r k) = reg s Y X r ((fitted s Y X).getD k 0) := by
  obtain ⟨_, _, hrE, _, _⟩ := estimate_ok s dof Y X pr e h
  have hd : (rhsData s Y X (fitted s Y X)).get r k = (reg s Y X r ((fitted s Y X).getD k 0)).getD 0 := by
    unfold rhsData; rw [get_ofFn_of_lt _ _ _ _ _ hr hk]
  have hfull : e.rhsEst.get r k = (rhsData s Y X (fitted s Y X)).get r k := by
    rw [hrE]
    cases pr with
    | none => rfl
    | some ps =>
      show (QMat.hstack (rhsData s Y X (fitted s Y X)) (dummyRhs s ps)).get r k = _
      rw [get_hstack, if_pos ⟨hr, Nat.lt_add_right _ hk⟩]
      exact if_pos hk
  rw [hfull, hd]
  exact some_getD_of_isSome _ _ ((C18.fitted_complete s Y X _ (getD_mem_fitted s Y X k hk)).2 r hr)

theorem omat_get_ofFn (r c : Nat) (f : Nat → Nat → Cell) (i j : Nat) (hi : i < r) (hj : j < c) :
    (OMat.ofFn r c f).get i j = f i j := by
  unfold OMat.get OMat.ofFn
  simp [hi, hj]

/-- the number of fitted columns is at most the number of columns of the estimation matrices -/
theorem fitted_le_cols (s : Spec) (dof : Bool) (Y X : OMat) (pr : Option (List Prior)) (e : Estimate)
    (h : estimate s dof Y X pr = .ok e) : (fitted s Y X).length ≤ e.lhsEst.cols := by
  obtain ⟨_, hl, _, _, _⟩ := estimate_ok s dof Y X pr e h
  rw [hl]
  cases pr with
  | none => exact Nat.le_refl _
  | some ps => exact Nat.le_add_right _ _

/-- **the residuals the model reports on the fitted periods are the residuals `Y - β X` of the Mathlib-level
minimiser** (so the sums of squares in `estimate_minimises` are sums of squares of the reported residuals) -/
theorem residual_fitted (s : Spec) (dof : Bool) (Y X : OMat) (pr : Option (List Prior)) (e : Estimate)
    (h : estimate s dof Y X pr = .ok e) (i : Fin s.n) (k : Fin e.lhsEst.cols) (hk : (k : Nat) < (fitted s Y X).length) :
    e.u.get i ((fitted s Y X).getD k 0)
      = some ((e.lhsEst.toMat s.n e.lhsEst.cols - e.beta.toMat s.n s.numRhs * e.rhsEst.toMat s.numRhs e.lhsEst.cols) i k) := by
  obtain ⟨_, _, _, hu, _⟩ := estimate_ok s dof Y X pr e h
  have hmem := getD_mem_fitted s Y X k hk
  have hbase : (fitted s Y X).getD k 0 < numBase s Y := ((C18.fitted_iff s Y X _).1 hmem).1
  have hfin : regsFinite s Y X ((fitted s Y X).getD k 0) = true := by
    have := ((C18.fitted_iff s Y X _).1 hmem).2
    unfold whereObs at this
    simp only [Bool.and_eq_true] at this
    exact this.2
  rw [hu, omat_get_ofFn _ _ _ _ _ i.isLt hbase]
  unfold residual
  rw [← lhsEst_entry s dof Y X pr e h i k i.isLt hk]
  simp only [hfin, if_true, Option.some.injEq, Matrix.sub_apply, Matrix.mul_apply, toMat_apply]
  congr 1
  unfold fitAt sumTo
  rw [foldl_sum, ← Fin.sum_univ_eq_sum_range (fun r => e.beta.get i r * (reg s Y X r ((fitted s Y X).getD k 0)).getD 0)]
  refine Finset.sum_congr rfl (fun r _ => ?_)
  rw [← rhsEst_entry s dof Y X pr e h r k r.isLt hk]
  rfl

/-! ### the residual covariance and the mean of the model -/

/-- the covariance a successful `estimate` returns, and its (non-zero) denominator -/
theorem estimate_cov (s : Spec) (dof : Bool) (Y X : OMat) (pr : Option (List Prior)) (e : Estimate)
    (h : estimate s dof Y X pr = .ok e) :
    ∃ denom : Int, denom ≠ 0 ∧
      denom = ((fitted s Y X).length : Int) - (if dof then (dofCount s : Int) else 0) ∧
      e.cov = covResiduals s e.u (fitted s Y X) denom := by
  unfold estimate at h
  simp only at h
  split at h
  · cases h
  · split at h
    · cases h
    split at h
    · cases h
    · generalize hd : ((fitted s Y X).length : Int) - (if dof = true then (dofCount s : Int) else 0) = denom at h
      split at h
      · cases h
      · rename_i hden
        injection h with h
        subst h
        exact ⟨denom, hden, rfl, rfl⟩

/-- **`C18.cov_residuals_spec` carried down**: the model's `cov` is `(1/d) U Uᵀ` for the matrix `U` of the reported
residuals on the fitted periods (the `symmetrize` step changes nothing), it is symmetric, `d · cov = U Uᵀ`, and its
diagonal is non-negative when `d > 0` -/
theorem estimate_cov_spec (s : Spec) (dof : Bool) (Y X : OMat) (pr : Option (List Prior)) (e : Estimate)
    (h : estimate s dof Y X pr = .ok e) :
    ∃ d : ℚ, d ≠ 0 ∧ d = ((fitted s Y X).length : ℚ) - (if dof then (s.numRhs : ℚ) else 0) ∧
      let U : Matrix (Fin s.n) (Fin (fitted s Y X).length) ℚ :=
        fun i k => (e.u.get i ((fitted s Y X).getD k 0)).getD 0
      e.cov.toMat s.n s.n = (1 / d) • (U * Uᵀ) ∧ (e.cov.toMat s.n s.n)ᵀ = e.cov.toMat s.n s.n ∧
      d • e.cov.toMat s.n s.n = U * Uᵀ ∧ (0 < d → ∀ i, 0 ≤ e.cov.toMat s.n s.n i i) := by
  obtain ⟨denom, hden, hdef, hcov⟩ := estimate_cov s dof Y X pr e h
  refine ⟨(denom : ℚ), by exact_mod_cast hden, ?_, ?_⟩
  · rw [hdef]
    cases dof <;> simp [dofCount]
  · intro U
    set uw := QMat.ofFn s.n (fitted s Y X).length (fun i k => (e.u.get i ((fitted s Y X).getD k 0)).getD 0) with huw
    have hU : uw.toMat s.n (fitted s Y X).length = U := by
      rw [huw, toMat_ofFn]; rfl
    have hc : (QMat.smul (1 / (denom : Rat)) (uw * uw.transpose)).toMat s.n s.n = (1 / (denom : ℚ)) • (U * Uᵀ) := by
      rw [toMat_smul _ _ s.n s.n rfl rfl, toMat_mul _ _ s.n (fitted s Y X).length s.n rfl rfl rfl,
        toMat_transpose uw s.n (fitted s Y X).length rfl rfl, hU]
    have hview : e.cov.toMat s.n s.n
        = (1 / (2 : ℚ)) • ((1 / (denom : ℚ)) • (U * Uᵀ) + ((1 / (denom : ℚ)) • (U * Uᵀ))ᵀ) := by
      rw [hcov]
      unfold covResiduals
      simp only
      rw [toMat_smul _ _ s.n s.n rfl rfl, toMat_add _ _ s.n s.n rfl rfl,
        toMat_transpose (QMat.smul (1 / (denom : Rat)) (uw * uw.transpose)) s.n s.n rfl rfl, hc]
    obtain ⟨g1, g2, g3, g4⟩ := C18.cov_residuals_spec U (denom : ℚ) (by exact_mod_cast hden)
    have heq : e.cov.toMat s.n s.n = (1 / (denom : ℚ)) • (U * Uᵀ) := by rw [hview]; exact g3
    rw [heq]
    exact ⟨rfl, g2, g1, g4⟩

/-- **`C18.mean_fixed_point` carried down**: a mean returned by the model through the checked solve (non-zero
intercept) satisfies `(I − Σ_l A_l) μ = c`, hence is a fixed point of the VAR recursion without shocks -/
theorem mean_spec (s : Spec) (p : Nat) (hp : s.p = p + 1) (A : QMat) (c μ : QVec) (hc : c.all (· == 0) = false)
    (h : mean s A (some c) = some μ) :
    let Al : Fin (p + 1) → Matrix (Fin s.n) (Fin s.n) ℚ := fun l i j => A.get i (l * s.n + j)
    (1 - ∑ l, Al l) *ᵥ QVec.toFn μ s.n = QVec.toFn c s.n ∧
    (∑ l, Al l *ᵥ QVec.toFn μ s.n) + QVec.toFn c s.n = QVec.toFn μ s.n := by
  intro Al
  unfold mean at h
  simp only [hc, Bool.false_eq_true, if_false] at h
  cases hs : QMat.solveChecked (QMat.identity s.n - sumA s A) (QMat.col c) with
  | none => rw [hs] at h; cases h
  | some x =>
    rw [hs] at h
    simp only [Option.map_some, Option.some.injEq] at h
    obtain ⟨_, _, h3, _, _, h6⟩ := solveChecked_sound _ _ x hs
    have hr : (QMat.identity s.n - sumA s A).rows = s.n := rfl
    rw [hr, col_cols] at h6
    rw [hr] at h3
    have hsys := mulVec_of_mul_col _ x _ h6
    have hA : (QMat.identity s.n - sumA s A).toMat s.n s.n = 1 - ∑ l, Al l := by
      rw [toMat_sub _ _ s.n s.n rfl rfl, toMat_identity]
      congr 1
      ext i j
      unfold sumA sumTo
      rw [toMat_apply, get_ofFn_of_lt _ _ _ _ _ i.isLt j.isLt, foldl_sum, hp, Matrix.sum_apply,
        ← Fin.sum_univ_eq_sum_range (fun l => A.get i (l * s.n + j)) (p + 1)]
    have hμ : QVec.toFn μ s.n = fun i : Fin s.n => x.get i 0 := by
      rw [← h]; exact toFn_toVec x s.n h3
    have hcv : QVec.toFn c s.n = fun i : Fin s.n => (QMat.col c).get i 0 := by
      funext i; rw [get_col_zero]; rfl
    have hfix : (1 - ∑ l, Al l) *ᵥ QVec.toFn μ s.n = QVec.toFn c s.n := by
      rw [← hA, hμ, hcv]; exact hsys
    exact ⟨hfix, C18.mean_fixed_point p Al _ _ hfix⟩

/-! ### resimulation reproduces the data; the companion form -/

theorem sumTo_eq_sum (n : Nat) (f : Nat → Rat) : sumTo n f = ∑ k ∈ Finset.range n, f k := foldl_sum n f

theorem sumTo_add (a b : Nat) (f : Nat → Rat) : sumTo (a + b) f = sumTo a f + sumTo b (fun k => f (a + k)) := by
  rw [sumTo_eq_sum, sumTo_eq_sum, sumTo_eq_sum, Finset.sum_range_add]

theorem fill_get (a : OMat) (d : Rat) (i j : Nat) (hi : i < a.rows) (hj : j < a.cols) :
    (a.fill d).get i j = (a.get i j).getD d := by
  unfold OMat.fill
  rw [get_ofFn_of_lt _ _ _ _ _ hi hj]

/-- completeness of the data used below: every cell of `Y` (n × cols) and of `X` (m × cols) is a number -/
structure Complete (s : Spec) (Y X : OMat) : Prop where
  Y_rows : Y.rows = s.n
  X_rows : X.rows = s.m
  X_cols : X.cols = Y.cols
  Y_some : ∀ i j, i < s.n → j < Y.cols → (Y.get i j).isSome = true
  X_some : ∀ k j, k < s.m → j < Y.cols → (X.get k j).isSome = true

theorem reg_some (s : Spec) (Y X : OMat) (hc : Complete s Y X) (r τ : Nat) (hτ : s.p + τ < Y.cols) :
    (reg s Y X r τ).isSome = true := by
  unfold reg
  split
  · rename_i h
    unfold y1
    have hn : 0 < s.n := by
      unfold Spec.numLagged at h
      rcases Nat.eq_zero_or_pos s.n with h0 | h0
      · rw [h0] at h; simp at h
      · exact h0
    exact hc.Y_some _ _ (Nat.mod_lt _ hn) (Nat.lt_of_le_of_lt (Nat.sub_le _ _) hτ)
  · split
    · rename_i h1 h2
      unfold xx
      exact hc.X_some _ _ (by omega) hτ
    · rfl

theorem regsFinite_of_complete (s : Spec) (Y X : OMat) (hc : Complete s Y X) (τ : Nat)
    (hτ : s.p + τ < Y.cols) : regsFinite s Y X τ = true := by
  unfold regsFinite
  rw [List.all_eq_true]
  intro r _
  exact reg_some s Y X hc r τ hτ

theorem some_getD {α : Type} (o : Option α) (d : α) (h : o.isSome = true) : o = some (o.getD d) := by
  cases o with
  | none => cases h
  | some v => rfl

/-- the simulated value computed from the data equals the fitted value of the estimation equation -/
theorem simValue_eq_fit (s : Spec) (beta : QMat) (Y X : OMat) (hc : Complete s Y X) (E : QMat)
    (i τ : Nat) (hi : i < s.n) (hτ : s.p + τ < Y.cols) :
    simValue s (coefA s beta) (coefB s beta)
        ((coefC s beta).getD ((Array.range s.n).map (fun _ => 0))) (X.fill 0) E (Y.fill 0) i (s.p + τ)
      = fitAt s beta Y X i τ + E.get i (s.p + τ) := by
  unfold simValue fitAt
  have hA : sumTo s.numLagged (fun r => (coefA s beta).get i r * (Y.fill 0).get (r % s.n) (s.p + τ - (r / s.n + 1)))
      = sumTo s.numLagged (fun r => beta.get i r * (reg s Y X r τ).getD 0) := by
    apply sumTo_congr
    intro r hr
    have hn : 0 < s.n := by
      unfold Spec.numLagged at hr
      rcases Nat.eq_zero_or_pos s.n with h0 | h0
      · rw [h0] at hr; simp at hr
      · exact h0
    unfold coefA reg y1
    rw [get_block, if_pos ⟨by omega, by omega⟩, if_pos hr, Nat.zero_add, Nat.zero_add,
      fill_get _ _ _ _ (by rw [hc.Y_rows]; exact Nat.mod_lt _ hn) (Nat.lt_of_le_of_lt (Nat.sub_le _ _) hτ)]
  have hB : sumTo s.m (fun k => (coefB s beta).get i k * (X.fill 0).get k (s.p + τ))
      = sumTo s.m (fun k => beta.get i (s.numLagged + k) * (reg s Y X (s.numLagged + k) τ).getD 0) := by
    apply sumTo_congr
    intro k hk
    unfold coefB reg xx
    rw [get_block, if_pos ⟨by omega, by omega⟩, if_neg (by omega), if_pos (by omega), Nat.zero_add,
      Nat.add_sub_cancel_left, fill_get _ _ _ _ (by rw [hc.X_rows]; exact hk) (by rw [hc.X_cols]; exact hτ)]
  have hC : ((coefC s beta).getD ((Array.range s.n).map (fun _ => 0))).getD i 0
      = sumTo (if s.icpt then 1 else 0)
          (fun k => beta.get i (s.numLagged + s.m + k) * (reg s Y X (s.numLagged + s.m + k) τ).getD 0) := by
    unfold coefC
    by_cases hic : s.icpt = true
    · simp only [hic, if_true, Option.getD_some]
      unfold sumTo reg
      simp [hi]
    · simp only [hic, Bool.false_eq_true, if_false, Option.getD_none]
      unfold sumTo
      simp [hi]
  rw [hA, hB, hC]
  have hsplit : s.numRhs = s.numLagged + s.m + (if s.icpt then 1 else 0) := by
    unfold Spec.numRhs Spec.numNonendog; omega
  rw [hsplit, sumTo_add, sumTo_add]
  ring

/-- **`C18.simulate_reproduces` end to end on the model.**  For complete data, resimulating all base periods with the
residuals the estimator reports (whatever the coefficient matrix is) returns the data exactly, in every cell. -/
theorem resimulate_reproduces (s : Spec) (Y X : OMat) (e : Estimate) (hc : Complete s Y X) (hp : 1 ≤ s.p)
    (hpc : s.p ≤ Y.cols) (hu : e.u = OMat.ofFn s.n (numBase s Y) (residual s e.beta Y X))
    (path : QMat) (h : resimulate s Y X e = some path) :
    ∀ i j, i < s.n → j < Y.cols → path.get i j = (Y.get i j).getD 0 := by
  unfold resimulate at h
  simp only at h
  split at h
  · cases h
  · injection h with h
    intro i j hi hj
    have hnb : s.p + numBase s Y = Y.cols := by unfold numBase; omega
    have key := C18.simulate_reproduces s (coefA s e.beta) (coefB s e.beta)
      ((coefC s e.beta).getD ((Array.range s.n).map (fun _ => 0))) (X.fill 0)
      (QMat.ofFn s.n Y.cols (fun i j => if j < s.p then 0 else (e.u.get i (j - s.p)).getD 0))
      (Y.fill 0) (Y.fill 0) s.p (numBase s Y) hp hc.Y_rows.symm rfl rfl (by show _ ≤ Y.cols; omega)
      (fun _ _ _ _ => rfl) ?_ i j (by show i < Y.rows; rw [hc.Y_rows]; exact hi) (by omega)
    · rw [← h, key, fill_get _ _ _ _ (by rw [hc.Y_rows]; exact hi) hj]
    · intro t ht1 ht2 i' hi'
      have hi'' : i' < s.n := by rw [← hc.Y_rows]; exact hi'
      obtain ⟨τ, rfl⟩ : ∃ τ, t = s.p + τ := ⟨t - s.p, by omega⟩
      have hτ : s.p + τ < Y.cols := by omega
      have hτb : τ < numBase s Y := by omega
      rw [simValue_eq_fit s e.beta Y X hc _ i' τ hi'' hτ, get_ofFn_of_lt _ _ _ _ _ hi'' hτ,
        if_neg (by omega), Nat.add_sub_cancel_left, hu, omat_get_ofFn _ _ _ _ _ hi'' hτb,
        fill_get _ _ _ _ hi' hτ]
      unfold residual y0
      rw [some_getD (Y.get i' (s.p + τ)) 0 (hc.Y_some _ _ hi'' hτ)]
      simp only [regsFinite_of_complete s Y X hc τ hτ, if_true, Option.getD_some]
      ring

theorem estimate_base_pos (s : Spec) (dof : Bool) (Y X : OMat) (pr : Option (List Prior)) (e : Estimate)
    (he : estimate s dof Y X pr = .ok e) : s.p < Y.cols := by
  unfold estimate at he
  simp only at he
  split at he
  · cases he
  · rename_i hne
    have h1 : (fitted s Y X).length ≤ numBase s Y := by
      unfold fitted
      exact (List.length_filter_le _ _).trans (by simp)
    unfold numBase at h1
    omega

/-- … in particular for the residuals of a successful `estimate` -/
theorem estimate_resimulate_reproduces (s : Spec) (dof : Bool) (Y X : OMat) (pr : Option (List Prior))
    (e : Estimate) (he : estimate s dof Y X pr = .ok e) (hc : Complete s Y X) (hp : 1 ≤ s.p)
    (path : QMat) (h : resimulate s Y X e = some path) :
    ∀ i j, i < s.n → j < Y.cols → path.get i j = (Y.get i j).getD 0 :=
  resimulate_reproduces s Y X e hc hp (Nat.le_of_lt (estimate_base_pos s dof Y X pr e he))
    (estimate_ok s dof Y X pr e he).2.2.2.1 path h

/-! ### the companion form -/

/-- **the model's companion matrix is `C18.companion`** (so `C18.companion_step` is a statement about it): with the
flat index `l · n + i` of lag `l`, variable `i` (`finProdFinEquiv`) and `A_l = A[:, l n : (l+1) n]` -/
theorem companionT_view (s : Spec) (p : Nat) (hp : s.p = p + 1) (A : QMat) :
    ((companionT s A).toMat ((p + 1) * s.n) ((p + 1) * s.n)).submatrix finProdFinEquiv finProdFinEquiv
      = C18.companion p (fun (l : Fin (p + 1)) (i j : Fin s.n) => A.get i (l * s.n + j)) := by
  ext ⟨la, ia⟩ ⟨lb, ib⟩
  have hL : s.numLagged = (p + 1) * s.n := by unfold Spec.numLagged; rw [hp, Nat.mul_comm]
  have ha : (ia : Nat) + s.n * la < (p + 1) * s.n := (finProdFinEquiv (la, ia)).isLt
  have hb : (ib : Nat) + s.n * lb < (p + 1) * s.n := (finProdFinEquiv (lb, ib)).isLt
  unfold companionT C18.companion
  simp only [Matrix.submatrix_apply, toMat_apply, finProdFinEquiv_apply_val]
  rw [get_ofFn_of_lt _ _ _ _ _ (by rw [hL]; exact ha) (by rw [hL]; exact hb)]
  have hia := ia.isLt
  have hib := ib.isLt
  refine Fin.cases ?_ (fun l0 => ?_) la
  · simp only [Fin.val_zero, Nat.mul_zero, Nat.add_zero, hia, if_true, Fin.cases_zero]
    rw [Nat.mul_comm, Nat.add_comm]
  · have hge : ¬ ((ia : Nat) + s.n * ((Fin.succ l0 : Fin (p + 1)) : Nat) < s.n) := by
      rw [Fin.val_succ, Nat.mul_succ]; omega
    simp only [hge, if_false, Fin.cases_succ]
    congr 1
    rw [Fin.val_succ, Nat.mul_succ, Fin.ext_iff, Fin.ext_iff, Fin.val_castSucc]
    apply propext
    constructor
    · intro h
      have h1 : (ib : Nat) + s.n * lb = (ia : Nat) + s.n * l0 := by omega
      have h2 := congrArg (· % s.n) h1
      simp only [Nat.add_mul_mod_self_left, Nat.mod_eq_of_lt hia, Nat.mod_eq_of_lt hib] at h2
      refine ⟨?_, h2.symm⟩
      have h3 : s.n * (lb : Nat) = s.n * (l0 : Nat) := by omega
      exact Nat.eq_of_mul_eq_mul_left (by omega) h3
    · rintro ⟨h1, h2⟩
      rw [h1, h2]; omega


/-
What is NOT bridged for C18:
* non-singularity of `X Xᵀ` (the hypothesis `hdet` of `estimate_eq_closed_form`/`estimate_noise_free`) is not derived
  from the model: `solveChecked` returning `some` proves `A X = B`, not that `A` is invertible (that would need the
  correctness of Gauss-Jordan `QMat.solve`, unproved by design);
* the converse (a non-singular system makes `estimate` return `ok`) needs the same;
* `resimulate_reproduces` assumes complete data (`Complete`): with a NaN in a base period the residual is NaN, the
  model substitutes 0 and the simulated value is the fit, not the (missing) datum -- the statement is then false.
-/

/-! ## Part B: C01 -- the executable certificate computes the theorem-level certificate matrices

`FirstOrder.certificate` (run by the C01 driver on the rational images of irispie's system and solution matrices)
builds `E1 E2 E3 E4_1…E4_smax W` with `QMat` operations, an array of powers of `T`, an array of partial geometric
sums and a fold carrying `(V_a, [E4_1 … E4_a])`.  Below each piece is shown to be, seen through `QMat.toMat`, the
corresponding definition of `Props/C01.lean` (`Lmat lK Mmat E1 E2 E3 leadMat Vmat E4`) on the views of the inputs;
then the `Certified` hypothesis of `C01.equations_hold` is *derived* from the executable certificate being exactly
zero, and `C01.residAt_expansion` is restated with the executable blocks for the inexact (float-born) case. -/

section C01
open IrisVerif.FirstOrder

theorem le_foldl_max (l : List Nat) (init x : Nat) (hx : x ∈ l ∨ x ≤ init) : x ≤ l.foldl max init := by
  induction l generalizing init with
  | nil =>
    rcases hx with h | h
    · cases h
    · exact h
  | cons a l ih =>
    rw [List.foldl_cons]
    apply ih
    rcases hx with h | h
    · rcases List.mem_cons.1 h with h | h
      · right; rw [h]; exact Nat.le_max_right _ _
      · left; exact h
    · right; exact Nat.le_trans h (Nat.le_max_left _ _)

theorem mapM_option_spec {α β : Type} (f : α → Option β) (l : List α) (r : List β) (h : l.mapM f = some r) :
    r.length = l.length ∧ ∀ y ∈ r, ∃ x ∈ l, f x = some y := by
  induction l generalizing r with
  | nil =>
    simp only [List.mapM_nil, pure, Option.some.injEq] at h
    subst h
    exact ⟨rfl, fun y hy => by cases hy⟩
  | cons a l ih =>
    rw [List.mapM_cons] at h
    simp only [bind, Option.bind, pure] at h
    split at h
    · cases h
    · rename_i b hb
      simp only at h
      split at h
      · cases h
      · rename_i bs hbs
        cases h
        obtain ⟨h1, h2⟩ := ih bs hbs
        refine ⟨by simp [h1], fun y hy => ?_⟩
        rcases List.mem_cons.1 hy with hy | hy
        · exact ⟨a, List.mem_cons_self, by rw [hy]; exact hb⟩
        · obtain ⟨x, hx, hfx⟩ := h2 y hy
          exact ⟨x, List.mem_cons_of_mem _ hx, hfx⟩

theorem indexOf?_lt (l : List Token) (t : Token) (i : Nat) (h : indexOf? l t = some i) : i < l.length := by
  unfold indexOf? at h
  simp only at h
  split at h
  · cases h; assumption
  · cases h

theorem toArray_getD (l : List Nat) (i : Nat) : l.toArray.getD i 0 = l.getD i 0 := by
  simp [Array.getD_eq_getD_getElem?, List.getD_eq_getElem?_getD]

theorem leadStruct_ok (sysvec : List Token) (ls : LeadStruct) (h : leadStruct sysvec = some ls) :
    (∀ i, i < ls.nf → ls.sh.getD i 0 ≤ ls.smax) ∧ (∀ i, i < ls.nf → ls.src.getD i 0 < ls.nb) := by
  unfold leadStruct at h
  simp only [bind, Option.bind, pure] at h
  split at h
  · cases h
  · rename_i src hsrc
    cases h
    obtain ⟨hlen, hmem⟩ := mapM_option_spec _ _ _ hsrc
    simp only
    constructor
    · intro i _
      apply le_foldl_max
      by_cases hi : i < (List.map (fun t => t.shift.toNat) (List.take (numForwards sysvec) sysvec)).length
      · left
        rw [toArray_getD]
        rw [List.getD_eq_getElem?_getD, List.getElem?_eq_getElem hi, Option.getD_some]
        exact List.getElem_mem hi
      · right
        rw [toArray_getD]
        rw [List.getD_eq_getElem?_getD, List.getElem?_eq_none (by omega)]
        exact Nat.le_refl _
    · intro i hi
      have hnf : numForwards sysvec ≤ sysvec.length := by
        unfold numForwards; exact List.length_filter_le _ _
      have hi' : i < src.length := by
        rw [hlen, List.length_take]; omega
      rw [toArray_getD]
      rw [List.getD_eq_getElem?_getD, List.getElem?_eq_getElem hi', Option.getD_some]
      obtain ⟨x, _, hx⟩ := hmem _ (List.getElem_mem hi')
      exact indexOf?_lt _ _ _ hx


/-- `k`-fold iteration with the step index -/
def iter {α : Type} (f : α → Nat → α) (a0 : α) : Nat → α
  | 0 => a0
  | k + 1 => f (iter f a0 k) k

theorem foldl_push_back {α : Type} [Inhabited α] (f : α → Nat → α) (a0 : α) (n : Nat) :
    ((List.range n).foldl (fun acc k => acc.push (f acc.back! k)) #[a0]).size = n + 1 ∧
    ∀ k, k ≤ n → ((List.range n).foldl (fun acc k => acc.push (f acc.back! k)) #[a0])[k]? = some (iter f a0 k) := by
  induction n with
  | zero =>
    refine ⟨rfl, fun k hk => ?_⟩
    have : k = 0 := by omega
    subst this
    rfl
  | succ n ih =>
    obtain ⟨hsz, hget⟩ := ih
    rw [List.range_succ, List.foldl_append]
    simp only [List.foldl_cons, List.foldl_nil]
    refine ⟨by rw [Array.size_push, hsz], fun k hk => ?_⟩
    rw [Array.getElem?_push]
    by_cases hkn : k = n + 1
    · subst hkn
      rw [hsz, if_pos rfl]
      have hb : ((List.range n).foldl (fun acc k => acc.push (f acc.back! k)) #[a0]).back! = iter f a0 n := by
        rw [Array.back!, hsz]
        have := hget n (Nat.le_refl _)
        simp only [Nat.add_sub_cancel]
        rw [getElem!_def, this]
      rw [hb]
      rfl
    · rw [hsz, if_neg hkn]
      exact hget k (by omega)

theorem iter_powers (T : QMat) (k : Nat) : iter (fun x (_ : Nat) => x * T) (identity T.rows) k = pow T k := by
  induction k with
  | zero => rfl
  | succ k ih => show iter _ _ k * T = pow T k * T; rw [ih]

theorem powers_getD (T : QMat) (n k : Nat) (hk : k ≤ n) : (powers T n).getD k (QMat.zero 0 0) = pow T k := by
  unfold powers
  rw [Array.getD_eq_getD_getElem?]
  have := (foldl_push_back (fun x (_ : Nat) => x * T) (identity T.rows) n).2 k hk
  rw [this, Option.getD_some, iter_powers]

theorem powers_getElem? (T : QMat) (n k : Nat) (hk : k ≤ n) : (powers T n)[k]? = some (pow T k) := by
  unfold powers
  have := (foldl_push_back (fun x (_ : Nat) => x * T) (identity T.rows) n).2 k hk
  rw [this, iter_powers]

theorem powers_size (T : QMat) (n : Nat) : (powers T n).size = n + 1 :=
  (foldl_push_back (fun x (_ : Nat) => x * T) (identity T.rows) n).1

section
variable {nb : Type} [Fintype nb] [DecidableEq nb] {K : Type} [CommRing K]
theorem geom_succ' (T : Matrix nb nb K) (j : Nat) : C01.geom T (j + 1) = C01.geom T j + T ^ j := by
  induction j with
  | zero => simp [C01.geom]
  | succ j ih =>
    show T * C01.geom T (j + 1) + 1 = (T * C01.geom T j + 1) + T ^ (j + 1)
    rw [ih, Matrix.mul_add, ← pow_succ']
    abel
end

/-! ### the pieces of `FirstOrder.certificate`, named -/

def Lq (ls : LeadStruct) (T : QMat) : QMat :=
  QMat.ofFn ls.nf ls.nb fun i j => ((powers T ls.smax).getD (ls.sh.getD i 0) (QMat.zero 0 0)).get (ls.src.getD i 0) j

def geomArr (ls : LeadStruct) (T K : QMat) : Array QMat :=
  (List.range ls.smax).foldl (fun acc k => acc.push (acc.back! + ((powers T ls.smax).getD k (QMat.zero 0 0)) * K))
    #[QMat.zero ls.nb 1]

def lKq (ls : LeadStruct) (T K : QMat) : QMat :=
  QMat.ofFn ls.nf 1 fun i _ => ((geomArr ls T K).getD (ls.sh.getD i 0) (QMat.zero 0 0)).get (ls.src.getD i 0) 0

def Mq (ls : LeadStruct) (Af Ab T : QMat) : QMat := Af * Lq ls T + Ab

def stepVE (ls : LeadStruct) (Af : QMat) (sol : Solution) (VE : QMat × List QMat) (k : Nat) : QMat × List QMat :=
  (VE.1 * sol.J - Af * leadRows ls (powers sol.T ls.smax) (k + 1) sol.X,
   VE.2 ++ [Af * leadRows ls (powers sol.T ls.smax) (k + 1) sol.P + VE.1 * sol.Ru])

def foldVE (ls : LeadStruct) (Af Ab : QMat) (sol : Solution) (n : Nat) : QMat × List QMat :=
  (List.range n).foldl (stepVE ls Af sol) (-(Mq ls Af Ab sol.T * sol.X), [])

/-- `certificate` in terms of the named pieces (by unfolding) -/
theorem certificate_eq (sysvec : List Token) (ne : Nat) (sys : System) (sol : Solution) (c : Certificate)
    (h : certificate sysvec ne sys sol = some c) :
    ∃ ls, leadStruct sysvec = some ls ∧
      c.bLead = colsTo (sys.B.selectRows (claimRows sysvec ne)) ls.nf ∧
      c.E1 = Mq ls (colsTo (sys.A.selectRows (claimRows sysvec ne)) ls.nf)
                (colsFrom (sys.A.selectRows (claimRows sysvec ne)) ls.nf) sol.T * sol.T
              + colsFrom (sys.B.selectRows (claimRows sysvec ne)) ls.nf ∧
      c.E2 = Mq ls (colsTo (sys.A.selectRows (claimRows sysvec ne)) ls.nf)
                (colsFrom (sys.A.selectRows (claimRows sysvec ne)) ls.nf) sol.T * sol.K
              + colsTo (sys.A.selectRows (claimRows sysvec ne)) ls.nf * lKq ls sol.T sol.K
              + sys.C.selectRows (claimRows sysvec ne) ∧
      c.E3 = Mq ls (colsTo (sys.A.selectRows (claimRows sysvec ne)) ls.nf)
                (colsFrom (sys.A.selectRows (claimRows sysvec ne)) ls.nf) sol.T * sol.P
              + sys.D.selectRows (claimRows sysvec ne) ∧
      c.E4 = (foldVE ls (colsTo (sys.A.selectRows (claimRows sysvec ne)) ls.nf)
                (colsFrom (sys.A.selectRows (claimRows sysvec ne)) ls.nf) sol ls.smax).2 ∧
      c.W = (foldVE ls (colsTo (sys.A.selectRows (claimRows sysvec ne)) ls.nf)
                (colsFrom (sys.A.selectRows (claimRows sysvec ne)) ls.nf) sol ls.smax).1 := by
  unfold certificate at h
  simp only [bind, Option.bind] at h
  split at h
  · cases h
  · rename_i ls hls
    simp only [pure] at h
    cases h
    exact ⟨ls, hls, rfl, rfl, rfl, rfl, rfl, rfl⟩

/-! ### the views of the pieces are the theorem-level matrices of `Props/C01.lean` -/

section views
variable (ls : LeadStruct) (sol : Solution)
variable (hsh : ∀ i, i < ls.nf → ls.sh.getD i 0 ≤ ls.smax) (hsrc : ∀ i, i < ls.nf → ls.src.getD i 0 < ls.nb)

/-- lead depths and sources as functions on `Fin` -/
def shF : Fin ls.nf → ℕ := fun i => ls.sh.getD i 0
def srcF (hsrc : ∀ i, i < ls.nf → ls.src.getD i 0 < ls.nb) : Fin ls.nf → Fin ls.nb :=
  fun i => ⟨ls.src.getD i 0, hsrc i i.isLt⟩

include hsh in
theorem Lq_view (T : QMat) (hTr : T.rows = ls.nb) (hTc : T.cols = ls.nb) :
    (Lq ls T).toMat ls.nf ls.nb = C01.Lmat (T.toMat ls.nb ls.nb) (shF ls) (srcF ls hsrc) := by
  ext i j
  unfold Lq C01.Lmat
  rw [toMat_apply, get_ofFn_of_lt _ _ _ _ _ i.isLt j.isLt, powers_getD _ _ _ (hsh i i.isLt), Matrix.of_apply,
    ← toMat_pow T ls.nb hTr hTc]
  rfl

theorem Lq_rows (T : QMat) : (Lq ls T).rows = ls.nf := rfl
theorem Lq_cols (T : QMat) : (Lq ls T).cols = ls.nb := rfl

include hsh in
theorem Mq_view (Af Ab T : QMat) (m : Nat) (hAf : Af.rows = m) (hAfc : Af.cols = ls.nf)
    (hTr : T.rows = ls.nb) (hTc : T.cols = ls.nb) :
    (Mq ls Af Ab T).toMat m ls.nb =
      C01.Mmat (T.toMat ls.nb ls.nb) (shF ls) (srcF ls hsrc) (Af.toMat m ls.nf) (Ab.toMat m ls.nb) := by
  unfold Mq C01.Mmat
  rw [toMat_add _ _ m ls.nb (by rw [mul_rows, hAf]) (by rw [mul_cols, Lq_cols]),
    toMat_mul _ _ m ls.nf ls.nb hAf hAfc (Lq_cols ls T), Lq_view ls hsh hsrc T hTr hTc]

theorem Mq_rows (Af Ab T : QMat) : (Mq ls Af Ab T).rows = Af.rows := rfl
theorem Mq_cols (Af Ab T : QMat) : (Mq ls Af Ab T).cols = ls.nb := rfl

/-- the iteration behind `geomArr` -/
def geomQ (ls : LeadStruct) (T K : QMat) : Nat → QMat :=
  iter (fun x k => x + ((powers T ls.smax).getD k (QMat.zero 0 0)) * K) (QMat.zero ls.nb 1)

theorem geomArr_getD (T K : QMat) (j : Nat) (hj : j ≤ ls.smax) :
    (geomArr ls T K).getD j (QMat.zero 0 0) = geomQ ls T K j := by
  unfold geomArr geomQ
  rw [Array.getD_eq_getD_getElem?]
  have := (foldl_push_back (fun x k => x + ((powers T ls.smax).getD k (QMat.zero 0 0)) * K) (QMat.zero ls.nb 1) ls.smax).2 j hj
  rw [this, Option.getD_some]

theorem geomQ_view (T K : QMat) (hTr : T.rows = ls.nb) (hTc : T.cols = ls.nb) (hK : K.cols = 1) (j : Nat)
    (hj : j ≤ ls.smax) :
    (geomQ ls T K j).rows = ls.nb ∧ (geomQ ls T K j).cols = 1 ∧
      (geomQ ls T K j).toMat ls.nb 1 = C01.geom (T.toMat ls.nb ls.nb) j * K.toMat ls.nb 1 := by
  induction j with
  | zero =>
    refine ⟨rfl, rfl, ?_⟩
    show (QMat.zero ls.nb 1).toMat ls.nb 1 = _
    rw [toMat_zero, C01.geom, Matrix.zero_mul]
  | succ j ih =>
    obtain ⟨h1, h2, h3⟩ := ih (by omega)
    have hstep : geomQ ls T K (j + 1) = geomQ ls T K j + ((powers T ls.smax).getD j (QMat.zero 0 0)) * K := rfl
    rw [hstep, powers_getD _ _ _ (by omega)]
    refine ⟨by rw [add_rows, h1], by rw [add_cols, h2], ?_⟩
    rw [toMat_add _ _ ls.nb 1 h1 h2, h3,
      toMat_mul _ _ ls.nb ls.nb 1 (by rw [pow_rows, hTr]) (by rw [pow_cols T (hTr.trans hTc.symm), hTc]) hK,
      toMat_pow T ls.nb hTr hTc, geom_succ', Matrix.add_mul]

include hsh in
theorem lKq_view (T K : QMat) (hTr : T.rows = ls.nb) (hTc : T.cols = ls.nb) (hK : K.cols = 1) (i : Fin ls.nf) :
    (lKq ls T K).get i 0 =
      C01.lK (T.toMat ls.nb ls.nb) (fun k : Fin ls.nb => K.get k 0) (shF ls) (srcF ls hsrc) i := by
  unfold lKq C01.lK
  rw [get_ofFn_of_lt _ _ _ _ _ i.isLt (by omega), geomArr_getD ls T K _ (hsh i i.isLt)]
  have h3 := (geomQ_view ls T K hTr hTc hK _ (hsh i i.isLt)).2.2
  have := congrFun (congrFun h3 (srcF ls hsrc i)) (0 : Fin 1)
  rw [toMat_apply] at this
  exact this

/-! the three unanticipated blocks -/

include hsh in
theorem E1_view (Af Ab Bb T : QMat) (m : Nat) (hAf : Af.rows = m) (hAfc : Af.cols = ls.nf)
    (hTr : T.rows = ls.nb) (hTc : T.cols = ls.nb) :
    (Mq ls Af Ab T * T + Bb).toMat m ls.nb =
      C01.E1 (T.toMat ls.nb ls.nb) (shF ls) (srcF ls hsrc) (Af.toMat m ls.nf) (Ab.toMat m ls.nb) (Bb.toMat m ls.nb) := by
  unfold C01.E1
  rw [toMat_add _ _ m ls.nb (by rw [mul_rows, Mq_rows, hAf]) (by rw [mul_cols, hTc]),
    toMat_mul _ _ m ls.nb ls.nb (by rw [Mq_rows, hAf]) (Mq_cols ls _ _ _) hTc,
    Mq_view ls hsh hsrc Af Ab T m hAf hAfc hTr hTc]

include hsh in
theorem E3_view (Af Ab D T P : QMat) (m nu : Nat) (hAf : Af.rows = m) (hAfc : Af.cols = ls.nf)
    (hTr : T.rows = ls.nb) (hTc : T.cols = ls.nb) (hP : P.cols = nu) :
    (Mq ls Af Ab T * P + D).toMat m nu =
      C01.E3 (T.toMat ls.nb ls.nb) (P.toMat ls.nb nu) (shF ls) (srcF ls hsrc) (Af.toMat m ls.nf) (Ab.toMat m ls.nb)
        (D.toMat m nu) := by
  unfold C01.E3
  rw [toMat_add _ _ m nu (by rw [mul_rows, Mq_rows, hAf]) (by rw [mul_cols, hP]),
    toMat_mul _ _ m ls.nb nu (by rw [Mq_rows, hAf]) (Mq_cols ls _ _ _) hP,
    Mq_view ls hsh hsrc Af Ab T m hAf hAfc hTr hTc]

include hsh in
theorem E2_view (Af Ab C T K : QMat) (m : Nat) (hAf : Af.rows = m) (hAfc : Af.cols = ls.nf)
    (hTr : T.rows = ls.nb) (hTc : T.cols = ls.nb) (hK : K.cols = 1) :
    (fun i : Fin m => (Mq ls Af Ab T * K + Af * lKq ls T K + C).get i 0) =
      C01.E2 (T.toMat ls.nb ls.nb) (fun k : Fin ls.nb => K.get k 0) (shF ls) (srcF ls hsrc)
        (Af.toMat m ls.nf) (Ab.toMat m ls.nb) (fun i : Fin m => C.get i 0) := by
  funext i
  have hv : (Mq ls Af Ab T * K + Af * lKq ls T K + C).toMat m 1
      = (Mq ls Af Ab T).toMat m ls.nb * K.toMat ls.nb 1 + Af.toMat m ls.nf * (lKq ls T K).toMat ls.nf 1
          + C.toMat m 1 := by
    rw [toMat_add _ _ m 1 (by rw [add_rows, mul_rows, Mq_rows, hAf]) (by rw [add_cols, mul_cols, hK]),
      toMat_add _ _ m 1 (by rw [mul_rows, Mq_rows, hAf]) (by rw [mul_cols, hK]),
      toMat_mul _ _ m ls.nb 1 (by rw [Mq_rows, hAf]) (Mq_cols ls _ _ _) hK,
      toMat_mul _ _ m ls.nf 1 hAf hAfc rfl]
  have := congrFun (congrFun hv i) (0 : Fin 1)
  rw [toMat_apply] at this
  show (Mq ls Af Ab T * K + Af * lKq ls T K + C).get i 0 = _
  rw [show ((0 : Fin 1) : Nat) = 0 from rfl] at this
  rw [this, Mq_view ls hsh hsrc Af Ab T m hAf hAfc hTr hTc]
  unfold C01.E2
  simp only [Matrix.add_apply, Matrix.mul_apply, Pi.add_apply, Matrix.mulVec, dotProduct, toMat_apply]
  congr 2
  refine Finset.sum_congr rfl (fun k _ => ?_)
  rw [show ((0 : Fin 1) : Nat) = 0 from rfl, lKq_view ls hsh hsrc T K hTr hTc hK k]

/-! the anticipated blocks -/

include hsh in
theorem leadRows_view (T Y : QMat) (c : Nat) (hTr : T.rows = ls.nb) (hTc : T.cols = ls.nb) (hY : Y.cols = c)
    (a : Nat) (ha : 1 ≤ a) :
    (leadRows ls (powers T ls.smax) a Y).toMat ls.nf c =
      C01.leadMat (T.toMat ls.nb ls.nb) (shF ls) (srcF ls hsrc) a (Y.toMat ls.nb c) := by
  subst hY
  ext i j
  unfold leadRows C01.leadMat
  simp only [toMat_apply, Matrix.of_apply]
  rw [get_ofFn_of_lt _ _ _ _ _ i.isLt j.isLt]
  by_cases h : a ≤ ls.sh.getD i 0
  · have hk : ls.sh.getD i 0 - a ≤ ls.smax := le_trans (Nat.sub_le _ _) (hsh i i.isLt)
    have hs : a ≤ shF ls i := h
    rw [if_pos ⟨ha, h⟩, if_pos hs, Array.getD_eq_getD_getElem?, Array.getElem?_map, powers_getElem? _ _ _ hk]
    simp only [Option.map_some, Option.getD_some]
    rw [← toMat_pow T ls.nb hTr hTc, ← toMat_mul _ _ ls.nb ls.nb Y.cols (by rw [pow_rows, hTr])
      (by rw [pow_cols T (hTr.trans hTc.symm), hTc]) rfl]
    rfl
  · have hs : ¬ a ≤ shF ls i := h
    rw [if_neg (fun hh => h hh.2), if_neg hs]
    rfl

theorem leadRows_cols (Tp : Array QMat) (a : Nat) (Y : QMat) : (leadRows ls Tp a Y).cols = Y.cols := rfl
theorem leadRows_rows (Tp : Array QMat) (a : Nat) (Y : QMat) : (leadRows ls Tp a Y).rows = ls.nf := rfl

theorem foldVE_succ (Af Ab : QMat) (n : Nat) :
    foldVE ls Af Ab sol (n + 1) = stepVE ls Af sol (foldVE ls Af Ab sol n) n := by
  unfold foldVE
  rw [List.range_succ, List.foldl_append]
  rfl

include hsh in
/-- invariant of the `(V, E4)` fold: after `n` steps `V` is `V_n` and the list holds `E4_1 … E4_n` -/
theorem foldVE_view (Af Ab : QMat) (m nu nj : Nat) (hAf : Af.rows = m) (hAfc : Af.cols = ls.nf)
    (hTr : sol.T.rows = ls.nb) (hTc : sol.T.cols = ls.nb) (hP : sol.P.cols = nu) (hX : sol.X.cols = nj)
    (hJ : sol.J.cols = nj) (hRu : sol.Ru.cols = nu) (n : Nat) :
    (foldVE ls Af Ab sol n).1.rows = m ∧ (foldVE ls Af Ab sol n).1.cols = nj ∧
    (foldVE ls Af Ab sol n).1.toMat m nj =
      C01.Vmat (sol.T.toMat ls.nb ls.nb) (shF ls) (srcF ls hsrc) (Af.toMat m ls.nf) (Ab.toMat m ls.nb)
        (sol.X.toMat ls.nb nj) (sol.J.toMat nj nj) n ∧
    (foldVE ls Af Ab sol n).2.length = n ∧
    ∀ a, a < n → ((foldVE ls Af Ab sol n).2.getD a (QMat.zero 0 0)).toMat m nu =
      C01.E4 (sol.T.toMat ls.nb ls.nb) (sol.P.toMat ls.nb nu) (shF ls) (srcF ls hsrc) (Af.toMat m ls.nf)
        (Ab.toMat m ls.nb) (sol.X.toMat ls.nb nj) (sol.J.toMat nj nj) (sol.Ru.toMat nj nu) (a + 1) := by
  induction n with
  | zero =>
    refine ⟨?_, ?_, ?_, rfl, fun a ha => absurd ha (Nat.not_lt_zero _)⟩
    · show (-(Mq ls Af Ab sol.T * sol.X)).rows = m
      rw [neg_rows, mul_rows, Mq_rows, hAf]
    · show (-(Mq ls Af Ab sol.T * sol.X)).cols = nj
      rw [neg_cols, mul_cols, hX]
    · show (-(Mq ls Af Ab sol.T * sol.X)).toMat m nj = _
      rw [toMat_neg _ m nj (by rw [mul_rows, Mq_rows, hAf]) (by rw [mul_cols, hX]),
        toMat_mul _ _ m ls.nb nj (by rw [Mq_rows, hAf]) (Mq_cols ls _ _ _) hX,
        Mq_view ls hsh hsrc Af Ab sol.T m hAf hAfc hTr hTc]
      rfl
  | succ n ih =>
    obtain ⟨h1, h2, h3, h4, h5⟩ := ih
    rw [foldVE_succ]
    unfold stepVE
    refine ⟨?_, ?_, ?_, ?_, ?_⟩
    · show (_ - _ : QMat).rows = m
      rw [sub_rows, mul_rows, h1]
    · show (_ - _ : QMat).cols = nj
      rw [sub_cols, mul_cols, hJ]
    · show (_ - _ : QMat).toMat m nj = _
      rw [toMat_sub _ _ m nj (by rw [mul_rows, h1]) (by rw [mul_cols, hJ]),
        toMat_mul _ _ m nj nj h1 h2 hJ, h3,
        toMat_mul _ _ m ls.nf nj hAf hAfc (by rw [leadRows_cols, hX]),
        leadRows_view ls hsh hsrc sol.T sol.X nj hTr hTc hX (n + 1) (by omega)]
      rfl
    · show (_ ++ [_]).length = n + 1
      rw [List.length_append, h4]; rfl
    · intro a ha
      show ((_ ++ [_]).getD a (QMat.zero 0 0)).toMat m nu = _
      by_cases han : a < n
      · rw [List.getD_eq_getElem?_getD, List.getElem?_append_left (by rw [h4]; exact han), ← List.getD_eq_getElem?_getD]
        exact h5 a han
      · have : a = n := by omega
        subst this
        rw [List.getD_eq_getElem?_getD, List.getElem?_append_right (by rw [h4]), h4, Nat.sub_self]
        simp only [List.getElem?_cons_zero, Option.getD_some]
        rw [toMat_add _ _ m nu (by rw [mul_rows, hAf]) (by rw [mul_cols, leadRows_cols, hP]),
          toMat_mul _ _ m ls.nf nu hAf hAfc (by rw [leadRows_cols, hP]),
          leadRows_view ls hsh hsrc sol.T sol.P nu hTr hTc hP (a + 1) (by omega),
          toMat_mul _ _ m nj nu h1 h2 hRu, h3]
        rfl

end views

/-! ### the bridge theorems for C01 -/

section final
variable (sysvec : List Token) (ne : Nat) (sys : System) (sol : Solution) (ls : LeadStruct)

/-- the blocks of the unsolved system on the claimed rows, as `certificate` cuts them -/
def selAf : QMat := colsTo (sys.A.selectRows (claimRows sysvec ne)) ls.nf
def selAb : QMat := colsFrom (sys.A.selectRows (claimRows sysvec ne)) ls.nf
def selBb : QMat := colsFrom (sys.B.selectRows (claimRows sysvec ne)) ls.nf
def selC : QMat := sys.C.selectRows (claimRows sysvec ne)
def selD : QMat := sys.D.selectRows (claimRows sysvec ne)

/-- dimension side conditions on the solution matrices (`nu` shocks, `nj` unstable roots) -/
structure SolDims (nu nj : Nat) : Prop where
  T_rows : sol.T.rows = ls.nb
  T_cols : sol.T.cols = ls.nb
  K_cols : sol.K.cols = 1
  P_cols : sol.P.cols = nu
  X_cols : sol.X.cols = nj
  J_cols : sol.J.cols = nj
  Ru_cols : sol.Ru.cols = nu

variable (hls : leadStruct sysvec = some ls) (nu nj : Nat)

set_option quotPrecheck false
local notation "mm" => (claimRows sysvec ne).length
local notation "srcm" => srcF ls (leadStruct_ok sysvec ls hls).2
local notation "Tm" => sol.T.toMat ls.nb ls.nb
local notation "Kc" => (fun k : Fin ls.nb => sol.K.get k 0)
local notation "Pm" => sol.P.toMat ls.nb nu
local notation "Xm" => sol.X.toMat ls.nb nj
local notation "Jm" => sol.J.toMat nj nj
local notation "Rum" => sol.Ru.toMat nj nu
local notation "Afm" => (selAf sysvec ne sys ls).toMat mm ls.nf
local notation "Abm" => (selAb sysvec ne sys ls).toMat mm ls.nb
local notation "Bbm" => (selBb sysvec ne sys ls).toMat mm ls.nb
local notation "Cv" => (fun i : Fin mm => (selC sysvec ne sys).get i 0)
local notation "Dm" => (selD sysvec ne sys).toMat mm nu

/-- **Bridge (C01), refinement form.**  The matrices computed by the executable `FirstOrder.certificate` are, seen as
Mathlib matrices, exactly the certificate matrices `E1 E2 E3 E4_a V_smax` of `Props/C01.lean` built from the views
of the model's inputs -- for every lead structure, every size, every (rational) system and solution. -/
theorem certificate_refines (c : Certificate) (h : certificate sysvec ne sys sol = some c)
    (hd : SolDims sol ls nu nj) :
    c.E1.toMat mm ls.nb = C01.E1 Tm (shF ls) srcm Afm Abm Bbm ∧
    (fun i : Fin mm => c.E2.get i 0) = C01.E2 Tm Kc (shF ls) srcm Afm Abm Cv ∧
    c.E3.toMat mm nu = C01.E3 Tm Pm (shF ls) srcm Afm Abm Dm ∧
    c.E4.length = ls.smax ∧
    (∀ a, a < ls.smax → (c.E4.getD a (QMat.zero 0 0)).toMat mm nu =
      C01.E4 Tm Pm (shF ls) srcm Afm Abm Xm Jm Rum (a + 1)) ∧
    c.W.toMat mm nj = C01.Vmat Tm (shF ls) srcm Afm Abm Xm Jm ls.smax := by
  obtain ⟨ls', hls', _, h1, h2, h3, h4, h5⟩ := certificate_eq sysvec ne sys sol c h
  have hsh := (leadStruct_ok sysvec ls hls).1
  have hsrc := (leadStruct_ok sysvec ls hls).2
  have hEq : ls = ls' := Option.some.inj (hls.symm.trans hls')
  subst hEq
  have hAf : (selAf sysvec ne sys ls).rows = mm := rfl
  have hAfc : (selAf sysvec ne sys ls).cols = ls.nf := rfl
  obtain ⟨g1, g2, g3, g4, g5⟩ := foldVE_view ls sol hsh hsrc (selAf sysvec ne sys ls) (selAb sysvec ne sys ls) mm nu nj
    hAf hAfc hd.T_rows hd.T_cols hd.P_cols hd.X_cols hd.J_cols hd.Ru_cols ls.smax
  refine ⟨?_, ?_, ?_, ?_, ?_, ?_⟩
  · rw [h1]; exact E1_view ls hsh hsrc _ _ _ sol.T mm hAf hAfc hd.T_rows hd.T_cols
  · rw [h2]; exact E2_view ls hsh hsrc _ _ _ sol.T sol.K mm hAf hAfc hd.T_rows hd.T_cols hd.K_cols
  · rw [h3]; exact E3_view ls hsh hsrc _ _ _ sol.T sol.P mm nu hAf hAfc hd.T_rows hd.T_cols hd.P_cols
  · rw [h4]; exact g4
  · rw [h4]; exact g5
  · rw [h5]; exact g3

/-- **Bridge (C01), exact form.**  If every block of the executable certificate is exactly zero (`QMat.isZero`), the
hypothesis `Certified` of `C01.equations_hold` holds for the views of the model's inputs. -/
theorem certified_of_isZero (c : Certificate) (h : certificate sysvec ne sys sol = some c)
    (hd : SolDims sol ls nu nj)
    (z1 : c.E1.isZero = true) (z2 : c.E2.isZero = true) (z3 : c.E3.isZero = true)
    (z4 : ∀ e ∈ c.E4, e.isZero = true) (zW : c.W.isZero = true) :
    C01.Certified Tm Kc Pm (shF ls) srcm Afm Abm Bbm Cv Dm Xm Jm Rum ls.smax := by
  obtain ⟨r1, r2, r3, r4, r5, r6⟩ := certificate_refines sysvec ne sys sol ls hls nu nj c h hd
  refine ⟨fun i => (leadStruct_ok sysvec ls hls).1 i i.isLt, ?_, ?_, ?_, ?_, ?_⟩
  · rw [← r1]; exact toMat_of_isZero _ z1 _ _
  · rw [← r2]; funext i; exact get_of_isZero _ z2 _ _
  · rw [← r3]; exact toMat_of_isZero _ z3 _ _
  · intro a ha1 ha2
    obtain ⟨a', rfl⟩ : ∃ a', a = a' + 1 := ⟨a - 1, by omega⟩
    rw [← r5 a' (by omega)]
    refine toMat_of_isZero _ (z4 _ ?_) _ _
    have hlt : a' < c.E4.length := by rw [r4]; omega
    have : c.E4.getD a' (QMat.zero 0 0) = c.E4[a'] := by simp [List.getD, hlt]
    rw [this]
    exact List.getElem_mem hlt
  · rw [← r6]; exact toMat_of_isZero _ zW _ _

/-- **C01 carried down to the executable model**: an exactly-zero executable certificate makes every claimed equation
hold in every period, for every initial condition, every path of unanticipated shocks and every finite-horizon path
of anticipated shocks. -/
theorem equations_hold_of_certificate (c : Certificate) (h : certificate sysvec ne sys sol = some c)
    (hd : SolDims sol ls nu nj)
    (z1 : c.E1.isZero = true) (z2 : c.E2.isZero = true) (z3 : c.E3.isZero = true)
    (z4 : ∀ e ∈ c.E4, e.isZero = true) (zW : c.W.isZero = true)
    (H : ℕ) (x0 : Fin ls.nb → ℚ) (u v : ℕ → Fin nu → ℚ) (hv : ∀ s, H < s → v s = 0) (t : ℕ) :
    C01.residAt Tm Kc Pm (shF ls) srcm Afm Abm Bbm Cv Dm x0 u v (C01.impact Pm Xm Jm Rum H v) t = 0 :=
  C01.equations_hold _ _ _ _ _ _ _ _ _ _ _ _ _ ls.smax
    (certified_of_isZero sysvec ne sys sol ls hls nu nj c h hd z1 z2 z3 z4 zW) H x0 u v hv t

/-- **… and for the inexact certificates the driver actually sees** (solution matrices converted from floats): the
residual of the claimed rows along any simulated path is *exactly* the combination of the executable certificate's
blocks given by `C01.residAt_expansion` -- so bounds on the printed `maxAbs` of the blocks bound the residual. -/
theorem residAt_of_certificate (c : Certificate) (h : certificate sysvec ne sys sol = some c)
    (hd : SolDims sol ls nu nj)
    (H : ℕ) (x0 : Fin ls.nb → ℚ) (u v : ℕ → Fin nu → ℚ) (hv : ∀ s, H < s → v s = 0) (t : ℕ) :
    C01.residAt Tm Kc Pm (shF ls) srcm Afm Abm Bbm Cv Dm x0 u v (C01.impact Pm Xm Jm Rum H v) t
      = c.E1.toMat mm ls.nb *ᵥ C01.path Tm Kc Pm x0 u (C01.impact Pm Xm Jm Rum H v) t
        + (fun i : Fin mm => c.E2.get i 0)
        + c.E3.toMat mm nu *ᵥ (u (t + 1) + v (t + 1))
        + (∑ a ∈ Finset.range ls.smax, (c.E4.getD a (QMat.zero 0 0)).toMat mm nu *ᵥ v (t + 1 + (a + 1)))
        + c.W.toMat mm nj *ᵥ C01.phi Jm Rum H v (t + 1 + ls.smax) := by
  obtain ⟨r1, r2, r3, _, r5, r6⟩ := certificate_refines sysvec ne sys sol ls hls nu nj c h hd
  rw [C01.residAt_expansion Tm Kc Pm (shF ls) srcm Afm Abm Bbm Cv Dm Xm Jm Rum ls.smax ls.smax
    (fun i => (leadStruct_ok sysvec ls hls).1 i i.isLt) le_rfl H x0 u v hv t, r1, r2, r3, r6]
  congr 2
  exact Finset.sum_congr rfl (fun a ha => by rw [r5 a (Finset.mem_range.1 ha)])

end final


/-
What is NOT bridged for C01:
* `bLead = 0` (the stacked `B` reads no lead column on the claimed rows) is an assumption built into `C01.resid`; the
  executable certificate reports it, the bridge does not use it;
* the views `Afm Abm Bbm Cv Dm` are views of the *selected and cut* blocks (`selectRows` + `block`); unfolding them to
  submatrices of the views of `sys.A … sys.D` is `toMat_selectRows` + `toMat_block` (not done here, not needed);
* `SolDims` (dimension side conditions on `T K P X J Ru`) is a hypothesis: the driver parses these matrices from text,
  nothing in the model enforces their dimensions;
* the simulation part of the model (`simulateFrame`, `antImpact`, `expansion`) is not connected to `C01.path`,
  `C01.impact`, `C01.Rexp` (these need `toMat_mul`, `toMat_add`, `toMat_pow`, `toMat_block` and the same
  `powers_getD` used here);
* the stability certificate (`infNorm`, `powTwo`, `stableCert`) is not connected to `C01.RowSumLe`/`nonexplosive`.
-/

end C01

/-! ## Non-vacuity: the hypotheses of the bridge theorems are met by concrete runs of the executable models
(evaluated by the kernel with `decide +kernel`; nothing beyond the standard kernel trust base) -/

namespace Examples
open IrisVerif.FirstOrder

/-- `y = (1, 2, 5, 4)`, one lag and an intercept: three fitted periods, two regressors, non-zero residuals -/
def exS : Spec := ⟨1, 0, 1, true⟩
def exY : OMat := ⟨1, 4, #[#[some 1, some 2, some 5, some 4]]⟩
def exX : OMat := ⟨0, 4, #[]⟩

theorem ex_estimate_ok :
    ((estimate exS false exY exX none).toOption.map (fun e => e.fittedCols)) = some [0, 1, 2] := by decide +kernel

/-- hypothesis `h` of `estimate_normalEq`/`estimate_minimises` -/
example : ∃ e, estimate exS false exY exX none = .ok e ∧ e.fittedCols = [0, 1, 2] := by
  have h := ex_estimate_ok
  cases hh : estimate exS false exY exX none with
  | error err => rw [hh] at h; cases h
  | ok e =>
    rw [hh] at h
    simp only [Except.toOption, Option.map_some, Option.some.injEq] at h
    exact ⟨e, rfl, h⟩

/-- the forward-looking model of `Props/C01.lean` (non-vacuity section):
`x[t] = 3/8 x[t-1] + 1/2 E x[t+1] + 1 + e[t]`, stacked vector `(x[t+1], x[t])`, one claimed row -/
def exVec : List Token := [⟨0, 1⟩, ⟨0, 0⟩]
def exSys : System :=
  ⟨QMat.ofRows [[1/2, -1], [0, 1]], QMat.ofRows [[0, 3/8], [-1, 0]], QMat.ofRows [[1], [0]], QMat.ofRows [[1], [0]]⟩
def exSol : Solution :=
  ⟨QMat.ofRows [[1/2]], QMat.ofRows [[4]], QMat.ofRows [[4/3]], QMat.ofRows [[1]], QMat.ofRows [[2/3]], QMat.ofRows [[-8/9]]⟩

def certExact (c : Certificate) : Bool :=
  c.E1.isZero && c.E2.isZero && c.E3.isZero && c.E4.all QMat.isZero && c.W.isZero

theorem ex_certificate : (certificate exVec 1 exSys exSol).map certExact = some true := by decide +kernel
theorem ex_leadStruct : (leadStruct exVec).map (fun ls => (ls.nf, ls.nb, ls.smax)) = some (1, 1, 1) := by
  decide +kernel

/-- all hypotheses of `equations_hold_of_certificate` at once -/
example : ∃ c ls, certificate exVec 1 exSys exSol = some c ∧ leadStruct exVec = some ls ∧ SolDims exSol ls 1 1 ∧
    c.E1.isZero = true ∧ c.E2.isZero = true ∧ c.E3.isZero = true ∧ (∀ e ∈ c.E4, e.isZero = true) ∧
    c.W.isZero = true := by
  have h1 := ex_certificate
  have h2 := ex_leadStruct
  cases hc : certificate exVec 1 exSys exSol with
  | none => rw [hc] at h1; cases h1
  | some c =>
    cases hl : leadStruct exVec with
    | none => rw [hl] at h2; cases h2
    | some ls =>
      rw [hc] at h1
      rw [hl] at h2
      simp only [Option.map_some, Option.some.injEq, Prod.mk.injEq] at h1 h2
      unfold certExact at h1
      simp only [Bool.and_eq_true, List.all_eq_true] at h1
      obtain ⟨⟨⟨⟨z1, z2⟩, z3⟩, z4⟩, zW⟩ := h1
      obtain ⟨_, hnb, _⟩ := h2
      refine ⟨c, ls, rfl, rfl, ⟨?_, ?_, rfl, rfl, rfl, rfl, rfl⟩, z1, z2, z3, z4, zW⟩
      · rw [hnb]; rfl
      · rw [hnb]; rfl

end Examples

end IrisVerif.QMatBridge
