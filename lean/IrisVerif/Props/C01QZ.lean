/-
Property C01, stretch part: the block algebra of `fords/solutions.py: _solve_transition_equations`
(+ `detach_stable_from_unit_roots`, `_square_from_triangular`) implies the residual certificate.

"The algorithm's output is a solution whenever the QZ factorisation is exact and the named blocks are invertible":
from `Q A Z = S`, `Q B Z = T̃` (upper block-triangular, stable block first), `Q` left-invertible, and inverses of exactly the
blocks the code divides by (`Z21`, `T̃22`, `S22 + T̃22`, `S11`), the matrices the code computes
(`G Ru Ku Xg0 Xg1 Tg Rg Kg J Xg` -> `T = Z21 Tg Z21⁻¹`, `K = Z21 Kg`, `P = Z21 Rg`, `X = Z21 Xg`, `J`, `Ru`) satisfy
`E1 = 0`, `E2 = 0`, `E3 = 0` of `Props/C01.lean` (`certificate_qz`) and make every claimed row hold in every period along every
simulated path with unanticipated AND anticipated shocks (`equations_hold_qz`, through the forward expansion
`R_k = -X J^(k-1) Ru`) -- for any dimensions, any lead structure (the dynamic identities of the lead tokens enter as
`LeadIdentities`), over any commutative ring.  The Schur rotation of `detach_stable_from_unit_roots` cancels in
`_square_from_triangular` (`square_from_triangular_qz`), and `T Ua = Ua Ta` (`square_triangular_consistency`).
Not derived: the matrix equalities `E4_a = 0`, `W = 0` themselves (the anticipated part is proved in the semantic form).
-/
import IrisVerif.Props.C01
import Mathlib.Data.Matrix.Block

open Matrix

set_option linter.unusedSectionVars false

namespace IrisVerif.C01

/-- exact QZ data of the stacked system `A ζ[t] + B ζ[t-1] + C + D u[t] = 0`; `ζ = (leads ; ξ)` is indexed by `nf ⊕ nb`,
the transformed vector `(stable ; unstable)` by `nb ⊕ nf` (`num_stable = num_backwards`), rows by `nr`.
`left_div(M, Y)` of the code is `Mi * Y` for the given inverse `Mi` of `M`. -/
structure QZ (nr nf nb nu : Type) [Fintype nr] [Fintype nf] [Fintype nb] [Fintype nu]
    [DecidableEq nr] [DecidableEq nf] [DecidableEq nb] (K : Type) [CommRing K] where
  A : Matrix nr (nf ⊕ nb) K
  B : Matrix nr (nf ⊕ nb) K
  C : nr → K
  D : Matrix nr nu K
  Q : Matrix (nb ⊕ nf) nr K
  Qi : Matrix nr (nb ⊕ nf) K
  S11 : Matrix nb nb K
  S12 : Matrix nb nf K
  S22 : Matrix nf nf K
  T11 : Matrix nb nb K
  T12 : Matrix nb nf K
  T22 : Matrix nf nf K
  Z11 : Matrix nf nb K
  Z12 : Matrix nf nf K
  Z21 : Matrix nb nb K
  Z22 : Matrix nb nf K
  S11i : Matrix nb nb K
  T22i : Matrix nf nf K
  ST22i : Matrix nf nf K
  Z21i : Matrix nb nb K
  hQ : Qi * Q = 1
  hS : Q * A * fromBlocks Z11 Z12 Z21 Z22 = fromBlocks S11 S12 0 S22
  hT : Q * B * fromBlocks Z11 Z12 Z21 Z22 = fromBlocks T11 T12 0 T22
  hS11 : S11 * S11i = 1
  hT22 : T22 * T22i = 1
  hST22 : (S22 + T22) * ST22i = 1
  hZ21 : Z21 * Z21i = 1
  hZ21' : Z21i * Z21 = 1

namespace QZ

variable {nr nf nb nu : Type} [Fintype nr] [Fintype nf] [Fintype nb] [Fintype nu]
variable [DecidableEq nr] [DecidableEq nf] [DecidableEq nb]
variable {K : Type} [CommRing K] (d : QZ nr nf nb nu K)

/-! ### what `_solve_transition_equations` computes -/

def Zm : Matrix (nf ⊕ nb) (nb ⊕ nf) K := fromBlocks d.Z11 d.Z12 d.Z21 d.Z22
def QC1 : nb → K := fun i => (d.Q *ᵥ d.C) (Sum.inl i)
def QC2 : nf → K := fun i => (d.Q *ᵥ d.C) (Sum.inr i)
def QD1 : Matrix nb nu K := (d.Q * d.D).submatrix Sum.inl id
def QD2 : Matrix nf nu K := (d.Q * d.D).submatrix Sum.inr id
/-- `G = -Z21 \ Z22` -/
def G : Matrix nb nf K := -(d.Z21i * d.Z22)
/-- `Ru = -T22 \ Q_DD2` -/
def Ru : Matrix nf nu K := -(d.T22i * d.QD2)
/-- `Ku = -(S22 + T22) \ Q_CC2` -/
def Ku : nf → K := -(d.ST22i *ᵥ d.QC2)
/-- `Xg0 = S11 \ (T11 G + T12)` -/
def Xg0 : Matrix nb nf K := d.S11i * (d.T11 * d.G + d.T12)
/-- `Xg1 = G + S11 \ S12` -/
def Xg1 : Matrix nb nf K := d.G + d.S11i * d.S12
/-- `Tg = -S11 \ T11` -/
def Tg : Matrix nb nb K := -(d.S11i * d.T11)
/-- `Rg = -Xg0 Ru - S11 \ Q_DD1` -/
def Rg : Matrix nb nu K := -(d.Xg0 * d.Ru) - d.S11i * d.QD1
/-- `Kg = -(Xg0 + Xg1) Ku - S11 \ Q_CC1` -/
def Kg : nb → K := -((d.Xg0 + d.Xg1) *ᵥ d.Ku) - d.S11i *ᵥ d.QC1
/-- `J = -T22 \ S22` -/
def Jm : Matrix nf nf K := -(d.T22i * d.S22)
/-- `Xg = Xg1 + Xg0 J` -/
def Xg : Matrix nb nf K := d.Xg1 + d.Xg0 * d.Jm

/-! ### the square solution (`Ug = Z21`; the Schur rotation cancels, see `square_from_triangular_qz`) -/

def Tsq : Matrix nb nb K := d.Z21 * d.Tg * d.Z21i
def Psq : Matrix nb nu K := d.Z21 * d.Rg
def Ksq : nb → K := d.Z21 *ᵥ d.Kg
def Xsq : Matrix nb nf K := d.Z21 * d.Xg

/-! ### block identities -/

theorem lower_block_qz (u : nu → K) :
    d.S22 *ᵥ d.Ku + d.T22 *ᵥ (d.Ku + d.Ru *ᵥ u) + d.QC2 + d.QD2 *ᵥ u = 0 := by
  have h1 : (d.S22 + d.T22) *ᵥ d.Ku = -d.QC2 := by
    rw [Ku, Matrix.mulVec_neg, Matrix.mulVec_mulVec, d.hST22, Matrix.one_mulVec]
  have h2 : d.T22 *ᵥ (d.Ru *ᵥ u) = -(d.QD2 *ᵥ u) := by
    rw [Ru, Matrix.neg_mulVec, Matrix.mulVec_neg, ← Matrix.mulVec_mulVec, Matrix.mulVec_mulVec, d.hT22, Matrix.one_mulVec]
  have e : d.S22 *ᵥ d.Ku + d.T22 *ᵥ (d.Ku + d.Ru *ᵥ u) + d.QC2 + d.QD2 *ᵥ u
      = (d.S22 + d.T22) *ᵥ d.Ku + d.T22 *ᵥ (d.Ru *ᵥ u) + d.QC2 + d.QD2 *ᵥ u := by
    simp only [Matrix.mulVec_add, Matrix.add_mulVec]; abel
  rw [e, h1, h2]; abel

theorem S11_mul_inv_mulVec (x : nb → K) : d.S11 *ᵥ (d.S11i *ᵥ x) = x := by
  rw [Matrix.mulVec_mulVec, d.hS11, Matrix.one_mulVec]

theorem upper_block_qz (γ : nb → K) (u : nu → K) :
    d.S11 *ᵥ (d.Tg *ᵥ γ + d.Kg + d.Rg *ᵥ u + d.G *ᵥ d.Ku) + d.S12 *ᵥ d.Ku
      + d.T11 *ᵥ (γ + d.G *ᵥ (d.Ku + d.Ru *ᵥ u)) + d.T12 *ᵥ (d.Ku + d.Ru *ᵥ u) + d.QC1 + d.QD1 *ᵥ u = 0 := by
  have e1 : d.S11 *ᵥ (d.Tg *ᵥ γ) = -(d.T11 *ᵥ γ) := by
    rw [Tg, Matrix.neg_mulVec, Matrix.mulVec_neg, ← Matrix.mulVec_mulVec, S11_mul_inv_mulVec]
  have e0 : ∀ x : nf → K, d.S11 *ᵥ (d.Xg0 *ᵥ x) = d.T11 *ᵥ (d.G *ᵥ x) + d.T12 *ᵥ x := by
    intro x
    rw [Xg0, ← Matrix.mulVec_mulVec, S11_mul_inv_mulVec, Matrix.add_mulVec, ← Matrix.mulVec_mulVec]
  have e1' : ∀ x : nf → K, d.S11 *ᵥ (d.Xg1 *ᵥ x) = d.S11 *ᵥ (d.G *ᵥ x) + d.S12 *ᵥ x := by
    intro x
    rw [Xg1, Matrix.add_mulVec, Matrix.mulVec_add, ← Matrix.mulVec_mulVec, S11_mul_inv_mulVec]
  have e2 : d.S11 *ᵥ d.Kg = -(d.T11 *ᵥ (d.G *ᵥ d.Ku) + d.T12 *ᵥ d.Ku + (d.S11 *ᵥ (d.G *ᵥ d.Ku) + d.S12 *ᵥ d.Ku)) - d.QC1 := by
    rw [Kg, Matrix.mulVec_sub, Matrix.mulVec_neg, Matrix.add_mulVec, Matrix.mulVec_add, e0, e1', S11_mul_inv_mulVec]
  have e3 : d.S11 *ᵥ (d.Rg *ᵥ u) = -(d.T11 *ᵥ (d.G *ᵥ (d.Ru *ᵥ u)) + d.T12 *ᵥ (d.Ru *ᵥ u)) - d.QD1 *ᵥ u := by
    rw [Rg, Matrix.sub_mulVec, Matrix.neg_mulVec, Matrix.mulVec_sub, Matrix.mulVec_neg, ← Matrix.mulVec_mulVec, e0,
      ← Matrix.mulVec_mulVec, S11_mul_inv_mulVec]
  simp only [Matrix.mulVec_add, e1, e2, e3]
  abel

/-- the transformed system `S w[t] + T̃ w' + Q C + Q D u = 0` holds for the pair built by the algorithm -/
theorem transformed_qz (γ : nb → K) (u : nu → K) :
    fromBlocks d.S11 d.S12 0 d.S22 *ᵥ Sum.elim (d.Tg *ᵥ γ + d.Kg + d.Rg *ᵥ u + d.G *ᵥ d.Ku) d.Ku
      + fromBlocks d.T11 d.T12 0 d.T22 *ᵥ Sum.elim (γ + d.G *ᵥ (d.Ku + d.Ru *ᵥ u)) (d.Ku + d.Ru *ᵥ u)
      + d.Q *ᵥ d.C + (d.Q * d.D) *ᵥ u = 0 := by
  funext i
  rcases i with i | i
  · have h := congrFun (upper_block_qz d γ u) i
    simp only [Matrix.fromBlocks_mulVec, Pi.add_apply, Sum.elim_inl, Pi.zero_apply] at h ⊢
    simp only [Sum.elim_comp_inl, Sum.elim_comp_inr]
    simpa [QC1, QD1, Matrix.mulVec, add_assoc] using h
  · have h := congrFun (lower_block_qz d u) i
    simp only [Matrix.fromBlocks_mulVec, Pi.add_apply, Sum.elim_inr, Pi.zero_apply, Matrix.zero_mulVec, zero_add] at h ⊢
    simp only [Sum.elim_comp_inl, Sum.elim_comp_inr]
    simpa [QC2, QD2, Matrix.mulVec, add_assoc] using h

/-! ### back to the original coordinates -/

/-- lead part of the stacked vector `Z (γ + G un ; un)` -/
def lead (γ : nb → K) (un : nf → K) : nf → K := d.Z11 *ᵥ (γ + d.G *ᵥ un) + d.Z12 *ᵥ un

/-- `ξ = Ug γ` whatever the unstable block: `Z (γ + G un ; un) = (lead ; Z21 γ)` because `Z21 G + Z22 = 0` -/
theorem Zm_mulVec_qz (γ : nb → K) (un : nf → K) :
    d.Zm *ᵥ Sum.elim (γ + d.G *ᵥ un) un = Sum.elim (d.lead γ un) (d.Z21 *ᵥ γ) := by
  have hG : d.Z21 *ᵥ (d.G *ᵥ un) = -(d.Z22 *ᵥ un) := by
    rw [G, Matrix.neg_mulVec, Matrix.mulVec_neg, ← Matrix.mulVec_mulVec, Matrix.mulVec_mulVec, d.hZ21, Matrix.one_mulVec]
  rw [Zm, Matrix.fromBlocks_mulVec]
  simp only [Sum.elim_comp_inl, Sum.elim_comp_inr]
  congr 1
  rw [Matrix.mulVec_add, hG]; abel

/-- the original stacked system (ALL rows, dynamic identities included) holds for the pair built by the algorithm -/
theorem original_qz (γ : nb → K) (u : nu → K) :
    d.A *ᵥ (d.Zm *ᵥ Sum.elim (d.Tg *ᵥ γ + d.Kg + d.Rg *ᵥ u + d.G *ᵥ d.Ku) d.Ku)
      + d.B *ᵥ (d.Zm *ᵥ Sum.elim (γ + d.G *ᵥ (d.Ku + d.Ru *ᵥ u)) (d.Ku + d.Ru *ᵥ u))
      + d.C + d.D *ᵥ u = 0 := by
  have hq : d.Q *ᵥ (d.A *ᵥ (d.Zm *ᵥ Sum.elim (d.Tg *ᵥ γ + d.Kg + d.Rg *ᵥ u + d.G *ᵥ d.Ku) d.Ku)
      + d.B *ᵥ (d.Zm *ᵥ Sum.elim (γ + d.G *ᵥ (d.Ku + d.Ru *ᵥ u)) (d.Ku + d.Ru *ᵥ u))
      + d.C + d.D *ᵥ u) = 0 := by
    have key : ∀ (M : Matrix nr (nf ⊕ nb) K) (w : nb ⊕ nf → K),
        d.Q *ᵥ (M *ᵥ (d.Zm *ᵥ w)) = (d.Q * M * d.Zm) *ᵥ w := by
      intro M w; rw [Matrix.mulVec_mulVec, Matrix.mulVec_mulVec]
    rw [Matrix.mulVec_add, Matrix.mulVec_add, Matrix.mulVec_add, key, key, Matrix.mulVec_mulVec]
    unfold Zm
    rw [d.hS, d.hT]
    exact transformed_qz d γ u
  have := congrArg (fun x => d.Qi *ᵥ x) hq
  simpa [Matrix.mulVec_mulVec, d.hQ] using this

/-- forward solution: the lead tokens as a function of the state, on the expectation-consistent path (`un = Ku`) -/
def Phi (ξ : nb → K) : nf → K := d.lead (d.Z21i *ᵥ ξ) d.Ku

theorem Z21_Z21i_mulVec (ξ : nb → K) : d.Z21 *ᵥ (d.Z21i *ᵥ ξ) = ξ := by
  rw [Matrix.mulVec_mulVec, d.hZ21, Matrix.one_mulVec]

theorem Z21i_Z21_mulVec (γ : nb → K) : d.Z21i *ᵥ (d.Z21 *ᵥ γ) = γ := by
  rw [Matrix.mulVec_mulVec, d.hZ21', Matrix.one_mulVec]

theorem next_state_qz (ξ : nb → K) (u : nu → K) :
    d.Z21 *ᵥ (d.Tg *ᵥ (d.Z21i *ᵥ ξ) + d.Kg + d.Rg *ᵥ u) = d.Tsq *ᵥ ξ + d.Ksq + d.Psq *ᵥ u := by
  simp only [Tsq, Ksq, Psq, Matrix.mulVec_add, ← Matrix.mulVec_mulVec]

/-- **The stacked system holds along the algorithm's solution**: for every state `ξ` and shock `u`, with
`ξ' = T ξ + K + P u`, the current stacked vector `(Φ ξ' ; ξ')` and a previous one whose `ξ` part is `ξ` satisfy every row. -/
theorem system_holds_qz (ξ : nb → K) (u : nu → K) :
    d.A *ᵥ Sum.elim (d.Phi (d.Tsq *ᵥ ξ + d.Ksq + d.Psq *ᵥ u)) (d.Tsq *ᵥ ξ + d.Ksq + d.Psq *ᵥ u)
      + d.B *ᵥ Sum.elim (d.lead (d.Z21i *ᵥ ξ) (d.Ku + d.Ru *ᵥ u)) ξ + d.C + d.D *ᵥ u = 0 := by
  have h := original_qz d (d.Z21i *ᵥ ξ) u
  rw [Zm_mulVec_qz, Zm_mulVec_qz, Z21_Z21i_mulVec, next_state_qz] at h
  have hΦ : d.Phi (d.Tsq *ᵥ ξ + d.Ksq + d.Psq *ᵥ u) = d.lead (d.Tg *ᵥ (d.Z21i *ᵥ ξ) + d.Kg + d.Rg *ᵥ u) d.Ku := by
    rw [Phi, ← next_state_qz, Z21i_Z21_mulVec]
  rw [hΦ]; exact h

/-! ### the same with anticipated shocks: unstable block `un = Ku + φ`, `φ` the forward state -/

theorem S11_Xg0_mulVec (x : nf → K) : d.S11 *ᵥ (d.Xg0 *ᵥ x) = d.T11 *ᵥ (d.G *ᵥ x) + d.T12 *ᵥ x := by
  rw [Xg0, ← Matrix.mulVec_mulVec, S11_mul_inv_mulVec, Matrix.add_mulVec, ← Matrix.mulVec_mulVec]

theorem S11_Xg1_mulVec (x : nf → K) : d.S11 *ᵥ (d.Xg1 *ᵥ x) = d.S11 *ᵥ (d.G *ᵥ x) + d.S12 *ᵥ x := by
  rw [Xg1, Matrix.add_mulVec, Matrix.mulVec_add, ← Matrix.mulVec_mulVec, S11_mul_inv_mulVec]

theorem lower_block_ant_qz (s : nu → K) (φ : nf → K) :
    d.S22 *ᵥ (d.Ku + φ) + d.T22 *ᵥ (d.Ku + d.Jm *ᵥ φ + d.Ru *ᵥ s) + d.QC2 + d.QD2 *ᵥ s = 0 := by
  have hJ : d.T22 *ᵥ (d.Jm *ᵥ φ) = -(d.S22 *ᵥ φ) := by
    rw [Jm, Matrix.neg_mulVec, Matrix.mulVec_neg, ← Matrix.mulVec_mulVec, Matrix.mulVec_mulVec, d.hT22, Matrix.one_mulVec]
  have e : d.S22 *ᵥ (d.Ku + φ) + d.T22 *ᵥ (d.Ku + d.Jm *ᵥ φ + d.Ru *ᵥ s) + d.QC2 + d.QD2 *ᵥ s
      = (d.S22 *ᵥ d.Ku + d.T22 *ᵥ (d.Ku + d.Ru *ᵥ s) + d.QC2 + d.QD2 *ᵥ s) + (d.S22 *ᵥ φ + d.T22 *ᵥ (d.Jm *ᵥ φ)) := by
    simp only [Matrix.mulVec_add]; abel
  rw [e, lower_block_qz, hJ]; abel

theorem upper_block_ant_qz (γ : nb → K) (s : nu → K) (φ : nf → K) :
    d.S11 *ᵥ (d.Tg *ᵥ γ + d.Kg + d.Rg *ᵥ s - d.Xg *ᵥ φ + d.G *ᵥ (d.Ku + φ)) + d.S12 *ᵥ (d.Ku + φ)
      + d.T11 *ᵥ (γ + d.G *ᵥ (d.Ku + d.Jm *ᵥ φ + d.Ru *ᵥ s)) + d.T12 *ᵥ (d.Ku + d.Jm *ᵥ φ + d.Ru *ᵥ s)
      + d.QC1 + d.QD1 *ᵥ s = 0 := by
  have hX : d.S11 *ᵥ (d.Xg *ᵥ φ)
      = d.S11 *ᵥ (d.G *ᵥ φ) + d.S12 *ᵥ φ + (d.T11 *ᵥ (d.G *ᵥ (d.Jm *ᵥ φ)) + d.T12 *ᵥ (d.Jm *ᵥ φ)) := by
    rw [Xg, Matrix.add_mulVec, Matrix.mulVec_add, ← Matrix.mulVec_mulVec, S11_Xg1_mulVec, S11_Xg0_mulVec]
  have e : d.S11 *ᵥ (d.Tg *ᵥ γ + d.Kg + d.Rg *ᵥ s - d.Xg *ᵥ φ + d.G *ᵥ (d.Ku + φ)) + d.S12 *ᵥ (d.Ku + φ)
      + d.T11 *ᵥ (γ + d.G *ᵥ (d.Ku + d.Jm *ᵥ φ + d.Ru *ᵥ s)) + d.T12 *ᵥ (d.Ku + d.Jm *ᵥ φ + d.Ru *ᵥ s)
      + d.QC1 + d.QD1 *ᵥ s
      = (d.S11 *ᵥ (d.Tg *ᵥ γ + d.Kg + d.Rg *ᵥ s + d.G *ᵥ d.Ku) + d.S12 *ᵥ d.Ku
          + d.T11 *ᵥ (γ + d.G *ᵥ (d.Ku + d.Ru *ᵥ s)) + d.T12 *ᵥ (d.Ku + d.Ru *ᵥ s) + d.QC1 + d.QD1 *ᵥ s)
        + (d.S11 *ᵥ (d.G *ᵥ φ) + d.S12 *ᵥ φ + (d.T11 *ᵥ (d.G *ᵥ (d.Jm *ᵥ φ)) + d.T12 *ᵥ (d.Jm *ᵥ φ))
            - d.S11 *ᵥ (d.Xg *ᵥ φ)) := by
    simp only [Matrix.mulVec_add, Matrix.mulVec_sub]; abel
  rw [e, upper_block_qz, hX]; abel

theorem transformed_ant_qz (γ : nb → K) (s : nu → K) (φ : nf → K) :
    fromBlocks d.S11 d.S12 0 d.S22 *ᵥ Sum.elim (d.Tg *ᵥ γ + d.Kg + d.Rg *ᵥ s - d.Xg *ᵥ φ + d.G *ᵥ (d.Ku + φ)) (d.Ku + φ)
      + fromBlocks d.T11 d.T12 0 d.T22 *ᵥ Sum.elim (γ + d.G *ᵥ (d.Ku + d.Jm *ᵥ φ + d.Ru *ᵥ s)) (d.Ku + d.Jm *ᵥ φ + d.Ru *ᵥ s)
      + d.Q *ᵥ d.C + (d.Q * d.D) *ᵥ s = 0 := by
  funext i
  rcases i with i | i
  · have h := congrFun (upper_block_ant_qz d γ s φ) i
    simp only [Matrix.fromBlocks_mulVec, Pi.add_apply, Sum.elim_inl, Pi.zero_apply] at h ⊢
    simp only [Sum.elim_comp_inl, Sum.elim_comp_inr]
    simpa [QC1, QD1, Matrix.mulVec, add_assoc] using h
  · have h := congrFun (lower_block_ant_qz d s φ) i
    simp only [Matrix.fromBlocks_mulVec, Pi.add_apply, Sum.elim_inr, Pi.zero_apply, Matrix.zero_mulVec, zero_add] at h ⊢
    simp only [Sum.elim_comp_inl, Sum.elim_comp_inr]
    simpa [QC2, QD2, Matrix.mulVec, add_assoc] using h

theorem original_ant_qz (γ : nb → K) (s : nu → K) (φ : nf → K) :
    d.A *ᵥ (d.Zm *ᵥ Sum.elim (d.Tg *ᵥ γ + d.Kg + d.Rg *ᵥ s - d.Xg *ᵥ φ + d.G *ᵥ (d.Ku + φ)) (d.Ku + φ))
      + d.B *ᵥ (d.Zm *ᵥ Sum.elim (γ + d.G *ᵥ (d.Ku + d.Jm *ᵥ φ + d.Ru *ᵥ s)) (d.Ku + d.Jm *ᵥ φ + d.Ru *ᵥ s))
      + d.C + d.D *ᵥ s = 0 := by
  have hq : d.Q *ᵥ (d.A *ᵥ (d.Zm *ᵥ Sum.elim (d.Tg *ᵥ γ + d.Kg + d.Rg *ᵥ s - d.Xg *ᵥ φ + d.G *ᵥ (d.Ku + φ)) (d.Ku + φ))
      + d.B *ᵥ (d.Zm *ᵥ Sum.elim (γ + d.G *ᵥ (d.Ku + d.Jm *ᵥ φ + d.Ru *ᵥ s)) (d.Ku + d.Jm *ᵥ φ + d.Ru *ᵥ s))
      + d.C + d.D *ᵥ s) = 0 := by
    have key : ∀ (M : Matrix nr (nf ⊕ nb) K) (w : nb ⊕ nf → K),
        d.Q *ᵥ (M *ᵥ (d.Zm *ᵥ w)) = (d.Q * M * d.Zm) *ᵥ w := by
      intro M w; rw [Matrix.mulVec_mulVec, Matrix.mulVec_mulVec]
    rw [Matrix.mulVec_add, Matrix.mulVec_add, Matrix.mulVec_add, key, key, Matrix.mulVec_mulVec]
    unfold Zm
    rw [d.hS, d.hT]
    exact transformed_ant_qz d γ s φ
  have := congrArg (fun x => d.Qi *ᵥ x) hq
  simpa [Matrix.mulVec_mulVec, d.hQ] using this

/-- forward solution with anticipated information: lead tokens given the state and the forward state `φ` -/
def PhiA (ξ : nb → K) (φ : nf → K) : nf → K := d.lead (d.Z21i *ᵥ ξ) (d.Ku + φ)

theorem next_state_ant_qz (ξ : nb → K) (s : nu → K) (φ : nf → K) :
    d.Z21 *ᵥ (d.Tg *ᵥ (d.Z21i *ᵥ ξ) + d.Kg + d.Rg *ᵥ s - d.Xg *ᵥ φ) = d.Tsq *ᵥ ξ + d.Ksq + d.Psq *ᵥ s - d.Xsq *ᵥ φ := by
  simp only [Tsq, Ksq, Psq, Xsq, Matrix.mulVec_add, Matrix.mulVec_sub, ← Matrix.mulVec_mulVec]

/-- the stacked system holds along the solution with anticipated shocks: total shock `s = u + v[t]`, forward state `φ[t]`,
next state `ξ' = T ξ + K + P s - X φ[t]` -/
theorem system_holds_ant_qz (ξ : nb → K) (s : nu → K) (φ : nf → K) :
    d.A *ᵥ Sum.elim (d.PhiA (d.Tsq *ᵥ ξ + d.Ksq + d.Psq *ᵥ s - d.Xsq *ᵥ φ) φ) (d.Tsq *ᵥ ξ + d.Ksq + d.Psq *ᵥ s - d.Xsq *ᵥ φ)
      + d.B *ᵥ Sum.elim (d.lead (d.Z21i *ᵥ ξ) (d.Ku + d.Jm *ᵥ φ + d.Ru *ᵥ s)) ξ + d.C + d.D *ᵥ s = 0 := by
  have h := original_ant_qz d (d.Z21i *ᵥ ξ) s φ
  rw [Zm_mulVec_qz, Zm_mulVec_qz, Z21_Z21i_mulVec, next_state_ant_qz] at h
  have hΦ : d.PhiA (d.Tsq *ᵥ ξ + d.Ksq + d.Psq *ᵥ s - d.Xsq *ᵥ φ) φ
      = d.lead (d.Tg *ᵥ (d.Z21i *ᵥ ξ) + d.Kg + d.Rg *ᵥ s - d.Xg *ᵥ φ) (d.Ku + φ) := by
    rw [PhiA, ← next_state_ant_qz, Z21i_Z21_mulVec]
  rw [hΦ]; exact h

end QZ

/-! ### lead structure: the dynamic identities turn the forward solution into the lead read -/

section leads
variable {nr nf nb nu nc : Type} [Fintype nr] [Fintype nf] [Fintype nb] [Fintype nu] [Fintype nc]
variable [DecidableEq nr] [DecidableEq nf] [DecidableEq nb] [DecidableEq nu]
variable {K : Type} [CommRing K] (d : QZ nr nf nb nu K)

theorem cont_shift (T : Matrix nb nb K) (Kc : nb → K) (j : ℕ) (x : nb → K) :
    cont T Kc (fun _ => 0) j (T *ᵥ x + Kc) = cont T Kc (fun _ => 0) (j + 1) x := by
  induction j with
  | zero => simp [cont]
  | succ j ih => rw [cont, ih]; rfl

/-- the dynamic identities of `_create_dynid_matrices` for the lead tokens: row `idr i` says
`ζ[t](prev i) - ζ[t-1](lead i) = 0`, where `prev i` is the token of the same variable one shift lower
(the zero-shift token `src i` of the solution vector when `sh i = 1`, another lead otherwise) -/
structure LeadIdentities (sh : nf → ℕ) (src : nf → nb) (prev : nf → nf ⊕ nb) (idr : nf → nr) : Prop where
  prev_b : ∀ i b, prev i = Sum.inr b → sh i = 1 ∧ src i = b
  prev_f : ∀ i i', prev i = Sum.inl i' → sh i = sh i' + 1 ∧ src i = src i'
  rowA : ∀ i j, d.A (idr i) j = if j = prev i then 1 else 0
  rowB : ∀ i j, d.B (idr i) j = if j = Sum.inl i then -1 else 0
  rowC : ∀ i, d.C (idr i) = 0
  rowD : ∀ i k, d.D (idr i) k = 0

variable {sh : nf → ℕ} {src : nf → nb} {prev : nf → nf ⊕ nb} {idr : nf → nr}

theorem Phi_step_qz (hl : LeadIdentities d sh src prev idr) (ξ : nb → K) (i : nf) :
    d.Phi ξ i = Sum.elim (d.Phi (d.Tsq *ᵥ ξ + d.Ksq)) (d.Tsq *ᵥ ξ + d.Ksq) (prev i) := by
  have h := congrFun (d.system_holds_qz ξ 0) (idr i)
  simp only [Matrix.mulVec_zero, add_zero] at h
  have hA : ∀ z : nf ⊕ nb → K, (d.A *ᵥ z) (idr i) = z (prev i) := by
    intro z; simp [Matrix.mulVec, dotProduct, hl.rowA]
  have hB : ∀ z : nf ⊕ nb → K, (d.B *ᵥ z) (idr i) = -z (Sum.inl i) := by
    intro z; simp [Matrix.mulVec, dotProduct, hl.rowB]
  simp only [Pi.add_apply, hA, hB, hl.rowC, Sum.elim_inl, Pi.zero_apply, add_zero] at h
  exact (add_neg_eq_zero.mp h).symm

/-- the forward solution IS the lead read from the model-consistent continuation, for every lead depth (induction on depth) -/
theorem Phi_eq_cont_qz (hl : LeadIdentities d sh src prev idr) :
    ∀ (n : ℕ) (i : nf), sh i = n → ∀ ξ : nb → K, d.Phi ξ i = cont d.Tsq d.Ksq (fun _ => 0) n ξ (src i) := by
  intro n
  induction n with
  | zero =>
    intro i hi
    rcases hp : prev i with i' | b
    · have := (hl.prev_f i i' hp).1; omega
    · have := (hl.prev_b i b hp).1; omega
  | succ n ih =>
    intro i hi ξ
    rw [Phi_step_qz d hl ξ i]
    rcases hp : prev i with i' | b
    · obtain ⟨h1, h2⟩ := hl.prev_f i i' hp
      rw [Sum.elim_inl, ih i' (by omega), cont_shift, h2]
    · obtain ⟨h1, h2⟩ := hl.prev_b i b hp
      have hn : n = 0 := by omega
      subst hn
      rw [Sum.elim_inr, h2]
      simp [cont]

theorem leadRead_eq_Phi_qz (hl : LeadIdentities d sh src prev idr) (ξ : nb → K) :
    leadRead d.Tsq d.Ksq (fun _ => 0) sh src ξ = d.Phi ξ := by
  funext i
  exact (Phi_eq_cont_qz d hl (sh i) i rfl ξ).symm

/-! ### the claimed rows and the certificate -/

variable (cr : nc → nr)

def Afq : Matrix nc nf K := Matrix.of fun r i => d.A (cr r) (Sum.inl i)
def Abq : Matrix nc nb K := Matrix.of fun r b => d.A (cr r) (Sum.inr b)
def Bbq : Matrix nc nb K := Matrix.of fun r b => d.B (cr r) (Sum.inr b)
def Ccq : nc → K := fun r => d.C (cr r)
def Ddq : Matrix nc nu K := Matrix.of fun r k => d.D (cr r) k

/-- **Every claimed row holds** for every state and every unanticipated shock, with leads read from the continuation
(claimed rows: `B` reads `ζ[t-1]` in its `ξ` part only -- `bLead = 0` of the executable certificate). -/
theorem resid_zero_qz (hl : LeadIdentities d sh src prev idr) (hB0 : ∀ r i, d.B (cr r) (Sum.inl i) = 0)
    (ξ : nb → K) (u : nu → K) :
    resid (Afq d cr) (Abq d cr) (Bbq d cr) (Ccq d cr) (Ddq d cr)
      (leadRead d.Tsq d.Ksq (fun _ => 0) sh src (d.Tsq *ᵥ ξ + d.Ksq + d.Psq *ᵥ u))
      (d.Tsq *ᵥ ξ + d.Ksq + d.Psq *ᵥ u) ξ u = 0 := by
  rw [leadRead_eq_Phi_qz d hl]
  funext r
  have h := congrFun (d.system_holds_qz ξ u) (cr r)
  have hA : ∀ (f : nf → K) (x : nb → K), (d.A *ᵥ Sum.elim f x) (cr r) = (Afq d cr *ᵥ f) r + (Abq d cr *ᵥ x) r := by
    intro f x; simp [Matrix.mulVec, dotProduct, Fintype.sum_sum_type, Afq, Abq]
  have hB : ∀ (f : nf → K) (x : nb → K), (d.B *ᵥ Sum.elim f x) (cr r) = (Bbq d cr *ᵥ x) r := by
    intro f x; simp [Matrix.mulVec, dotProduct, Fintype.sum_sum_type, Bbq, hB0]
  simp only [Pi.add_apply, hA, hB, Pi.zero_apply] at h
  simp only [resid, Pi.add_apply, Pi.zero_apply, Ccq]
  have hD : (d.D *ᵥ u) (cr r) = (Ddq d cr *ᵥ u) r := by simp [Matrix.mulVec, dotProduct, Ddq]
  rw [← hD]; exact h

theorem matrix_eq_zero_of_mulVec {m n : Type} [Fintype n] [DecidableEq n] (M : Matrix m n K)
    (h : ∀ x : n → K, M *ᵥ x = 0) : M = 0 := by
  ext i j
  have := congrFun (h (Pi.single j 1)) i
  simpa [Matrix.mulVec, dotProduct, Pi.single_apply] using this

/-- **`_solve_transition_equations` produces a certified solution**: with exact QZ identities and the named blocks
invertible, the square solution `T = Z21 Tg Z21⁻¹`, `K = Z21 Kg`, `P = Z21 Rg` satisfies `E1 = 0`, `E2 = 0`, `E3 = 0`. -/
theorem certificate_qz (hl : LeadIdentities d sh src prev idr) (hB0 : ∀ r i, d.B (cr r) (Sum.inl i) = 0) :
    E1 d.Tsq sh src (Afq d cr) (Abq d cr) (Bbq d cr) = 0 ∧
    E2 d.Tsq d.Ksq sh src (Afq d cr) (Abq d cr) (Ccq d cr) = 0 ∧
    E3 d.Tsq d.Psq sh src (Afq d cr) (Abq d cr) (Ddq d cr) = 0 := by
  have key : ∀ (ξ : nb → K) (u : nu → K),
      E1 d.Tsq sh src (Afq d cr) (Abq d cr) (Bbq d cr) *ᵥ ξ + E2 d.Tsq d.Ksq sh src (Afq d cr) (Abq d cr) (Ccq d cr)
        + E3 d.Tsq d.Psq sh src (Afq d cr) (Abq d cr) (Ddq d cr) *ᵥ u = 0 := by
    intro ξ u
    have h := resid_identity d.Tsq d.Ksq d.Psq sh src (Afq d cr) (Abq d cr) (Bbq d cr) (Ccq d cr) (Ddq d cr)
      (fun _ => 0) ξ u 0
    have hz : ∀ j, hfrom d.Tsq (fun _ : ℕ => (0 : nb → K)) 0 j = 0 := by
      intro j; induction j with
      | zero => rfl
      | succ j ih => simp [hfrom, ih]
    have ha : antic d.Tsq sh src (Afq d cr) (Abq d cr) (Ddq d cr) (fun _ => 0) 0 = 0 := by
      simp only [antic, hz, Matrix.mulVec_zero, add_zero, Pi.zero_apply]
      have z : (fun _ : nf => (0 : K)) = 0 := rfl
      simp [z]
    simp only [add_zero] at h
    rw [resid_zero_qz d cr hl hB0 ξ u, ha, add_zero] at h
    exact h.symm
  have h2 : E2 d.Tsq d.Ksq sh src (Afq d cr) (Abq d cr) (Ccq d cr) = 0 := by
    have := key 0 0; simpa using this
  refine ⟨?_, h2, ?_⟩
  · apply matrix_eq_zero_of_mulVec
    intro ξ; have := key ξ 0; simpa [h2] using this
  · apply matrix_eq_zero_of_mulVec
    intro u; have := key 0 u; simpa [h2] using this

/-- hence every claimed row holds in every period along every simulated path of unanticipated shocks -/
theorem equations_hold_unanticipated_qz (hl : LeadIdentities d sh src prev idr) (hB0 : ∀ r i, d.B (cr r) (Sum.inl i) = 0)
    (x0 : nb → K) (u : ℕ → nu → K) (t : ℕ) :
    residAt d.Tsq d.Ksq d.Psq sh src (Afq d cr) (Abq d cr) (Bbq d cr) (Ccq d cr) (Ddq d cr) x0 u (fun _ => 0) (fun _ => 0) t = 0 := by
  obtain ⟨h1, h2, h3⟩ := certificate_qz d cr hl hB0
  exact equations_hold_unanticipated d.Tsq d.Ksq d.Psq sh src _ _ _ _ _ h1 h2 h3 x0 u t

/-! ### anticipated shocks: lead read and residual -/

theorem cont_shift_g (T : Matrix nb nb K) (Kc : nb → K) (g : ℕ → nb → K) (j : ℕ) (x : nb → K) :
    cont T Kc (fun a => g (a + 1)) j (T *ᵥ x + Kc + g 1) = cont T Kc g (j + 1) x := by
  induction j with
  | zero => simp [cont]
  | succ j ih => rw [cont, ih]; rfl

theorem PhiA_step_qz (hl : LeadIdentities d sh src prev idr) (ξ : nb → K) (φ φ' : nf → K) (v' : nu → K)
    (hφ : φ = d.Jm *ᵥ φ' + d.Ru *ᵥ v') (i : nf) :
    d.PhiA ξ φ i = Sum.elim (d.PhiA (d.Tsq *ᵥ ξ + d.Ksq + d.Psq *ᵥ v' - d.Xsq *ᵥ φ') φ')
      (d.Tsq *ᵥ ξ + d.Ksq + d.Psq *ᵥ v' - d.Xsq *ᵥ φ') (prev i) := by
  have h := congrFun (d.system_holds_ant_qz ξ v' φ') (idr i)
  have hA : ∀ z : nf ⊕ nb → K, (d.A *ᵥ z) (idr i) = z (prev i) := by
    intro z; simp [Matrix.mulVec, dotProduct, hl.rowA]
  have hB : ∀ z : nf ⊕ nb → K, (d.B *ᵥ z) (idr i) = -z (Sum.inl i) := by
    intro z; simp [Matrix.mulVec, dotProduct, hl.rowB]
  have hD : (d.D *ᵥ v') (idr i) = 0 := by simp [Matrix.mulVec, dotProduct, hl.rowD]
  simp only [Pi.add_apply, hA, hB, hD, hl.rowC, Sum.elim_inl, Pi.zero_apply, add_zero] at h
  have e : d.PhiA ξ φ = d.lead (d.Z21i *ᵥ ξ) (d.Ku + d.Jm *ᵥ φ' + d.Ru *ᵥ v') := by
    rw [QZ.PhiA, hφ, add_assoc]
  rw [e]
  exact (add_neg_eq_zero.mp h).symm

theorem PhiA_eq_cont_qz (hl : LeadIdentities d sh src prev idr) :
    ∀ (n : ℕ) (i : nf), sh i = n → ∀ (ξ : nb → K) (v : ℕ → nu → K) (φ : ℕ → nf → K),
      (∀ b, φ b = d.Jm *ᵥ φ (b + 1) + d.Ru *ᵥ v (b + 1)) →
      d.PhiA ξ (φ 0) i = cont d.Tsq d.Ksq (fun a => d.Psq *ᵥ v a - d.Xsq *ᵥ φ a) n ξ (src i) := by
  intro n
  induction n with
  | zero =>
    intro i hi
    rcases hp : prev i with i' | b
    · have := (hl.prev_f i i' hp).1; omega
    · have := (hl.prev_b i b hp).1; omega
  | succ n ih =>
    intro i hi ξ v φ hφ
    rw [PhiA_step_qz d hl ξ (φ 0) (φ 1) (v 1) (hφ 0) i]
    have hshift := cont_shift_g d.Tsq d.Ksq (fun a => d.Psq *ᵥ v a - d.Xsq *ᵥ φ a) n ξ
    have hx : d.Tsq *ᵥ ξ + d.Ksq + (d.Psq *ᵥ v 1 - d.Xsq *ᵥ φ 1) = d.Tsq *ᵥ ξ + d.Ksq + d.Psq *ᵥ v 1 - d.Xsq *ᵥ φ 1 := by abel
    rcases hp : prev i with i' | b
    · obtain ⟨h1, h2⟩ := hl.prev_f i i' hp
      rw [Sum.elim_inl, ih i' (by omega) _ (fun b => v (b + 1)) (fun b => φ (b + 1)) (fun b => hφ (b + 1)), h2, ← hshift, hx]
    · obtain ⟨h1, h2⟩ := hl.prev_b i b hp
      have hn : n = 0 := by omega
      subst hn
      rw [Sum.elim_inr, h2]
      simp only [cont]
      rw [← hx]

/-- **Every claimed row holds with anticipated shocks**: state `ξ`, unanticipated shock `u`, anticipated shocks `v[a]` and
forward states `φ[a]` (`a` periods ahead) obeying the backward recursion of the unstable block -/
theorem resid_zero_ant_qz (hl : LeadIdentities d sh src prev idr) (hB0 : ∀ r i, d.B (cr r) (Sum.inl i) = 0)
    (ξ : nb → K) (u : nu → K) (v : ℕ → nu → K) (φ : ℕ → nf → K)
    (hφ : ∀ b, φ b = d.Jm *ᵥ φ (b + 1) + d.Ru *ᵥ v (b + 1)) :
    resid (Afq d cr) (Abq d cr) (Bbq d cr) (Ccq d cr) (Ddq d cr)
      (leadRead d.Tsq d.Ksq (fun a => d.Psq *ᵥ v a - d.Xsq *ᵥ φ a) sh src
        (d.Tsq *ᵥ ξ + d.Ksq + d.Psq *ᵥ u + (d.Psq *ᵥ v 0 - d.Xsq *ᵥ φ 0)))
      (d.Tsq *ᵥ ξ + d.Ksq + d.Psq *ᵥ u + (d.Psq *ᵥ v 0 - d.Xsq *ᵥ φ 0)) ξ (u + v 0) = 0 := by
  have hx : d.Tsq *ᵥ ξ + d.Ksq + d.Psq *ᵥ u + (d.Psq *ᵥ v 0 - d.Xsq *ᵥ φ 0)
      = d.Tsq *ᵥ ξ + d.Ksq + d.Psq *ᵥ (u + v 0) - d.Xsq *ᵥ φ 0 := by
    rw [Matrix.mulVec_add]; abel
  have hlead : leadRead d.Tsq d.Ksq (fun a => d.Psq *ᵥ v a - d.Xsq *ᵥ φ a) sh src
      (d.Tsq *ᵥ ξ + d.Ksq + d.Psq *ᵥ (u + v 0) - d.Xsq *ᵥ φ 0)
      = d.PhiA (d.Tsq *ᵥ ξ + d.Ksq + d.Psq *ᵥ (u + v 0) - d.Xsq *ᵥ φ 0) (φ 0) := by
    funext i
    exact (PhiA_eq_cont_qz d hl (sh i) i rfl _ v φ hφ).symm
  rw [hx, hlead]
  funext r
  have h := congrFun (d.system_holds_ant_qz ξ (u + v 0) (φ 0)) (cr r)
  have hA : ∀ (f : nf → K) (x : nb → K), (d.A *ᵥ Sum.elim f x) (cr r) = (Afq d cr *ᵥ f) r + (Abq d cr *ᵥ x) r := by
    intro f x; simp [Matrix.mulVec, dotProduct, Fintype.sum_sum_type, Afq, Abq]
  have hB : ∀ (f : nf → K) (x : nb → K), (d.B *ᵥ Sum.elim f x) (cr r) = (Bbq d cr *ᵥ x) r := by
    intro f x; simp [Matrix.mulVec, dotProduct, Fintype.sum_sum_type, Bbq, hB0]
  simp only [Pi.add_apply, hA, hB, Pi.zero_apply] at h
  simp only [resid, Pi.add_apply, Pi.zero_apply, Ccq]
  have hD : (d.D *ᵥ (u + v 0)) (cr r) = (Ddq d cr *ᵥ (u + v 0)) r := by simp [Matrix.mulVec, dotProduct, Ddq]
  rw [← hD]; exact h

/-- **The algorithm's output is a solution**: with exact QZ identities and the named blocks invertible, along every path
simulated with `T, K, P` and the forward expansion `R_k = -X J^(k-1) Ru` of the computed `X, J, Ru`, every claimed row holds in
every period -- every initial condition, every unanticipated and every finite-horizon anticipated shock path. -/
theorem equations_hold_qz (hl : LeadIdentities d sh src prev idr) (hB0 : ∀ r i, d.B (cr r) (Sum.inl i) = 0)
    (H : ℕ) (x0 : nb → K) (u v : ℕ → nu → K) (hv : ∀ s, H < s → v s = 0) (t : ℕ) :
    residAt d.Tsq d.Ksq d.Psq sh src (Afq d cr) (Abq d cr) (Bbq d cr) (Ccq d cr) (Ddq d cr) x0 u v
      (impact d.Psq d.Xsq d.Jm d.Ru H v) t = 0 := by
  have himp : ∀ s, impact d.Psq d.Xsq d.Jm d.Ru H v s = d.Psq *ᵥ v s - d.Xsq *ᵥ phi d.Jm d.Ru H v s :=
    impact_expansion d.Psq d.Xsq d.Jm d.Ru H v hv
  have hg : (fun a => impact d.Psq d.Xsq d.Jm d.Ru H v (t + 1 + a))
      = (fun a => d.Psq *ᵥ (fun b => v (t + 1 + b)) a - d.Xsq *ᵥ (fun b => phi d.Jm d.Ru H v (t + 1 + b)) a) := by
    funext a; exact himp (t + 1 + a)
  have h := resid_zero_ant_qz d cr hl hB0 (path d.Tsq d.Ksq d.Psq x0 u (impact d.Psq d.Xsq d.Jm d.Ru H v) t) (u (t + 1))
    (fun b => v (t + 1 + b)) (fun b => phi d.Jm d.Ru H v (t + 1 + b))
    (fun b => phi_rec d.Jm d.Ru H v hv (t + 1 + b))
  simp only [residAt, path, hg, himp (t + 1)]
  simpa using h

end leads

/-! ### `detach_stable_from_unit_roots` + `_square_from_triangular`: the rotation cancels; `T Ua = Ua Ta` -/

section square
variable {nb nu nj : Type} [Fintype nb] [Fintype nu] [Fintype nj] [DecidableEq nb]
variable {K : Type} [CommRing K]

/-- square/triangular consistency: `T = Ua Ta Ua⁻¹` gives `T Ua = Ua Ta` (checked numerically by stream `square-triangular`) -/
theorem square_triangular_consistency (Ua Uai Ta : Matrix nb nb K) (h : Uai * Ua = 1) :
    (Ua * Ta * Uai) * Ua = Ua * Ta := by
  rw [Matrix.mul_assoc, h, Matrix.mul_one]

/-- with `Tg = u Ta uᵀ` (`u` orthogonal: Schur), `Ua = Ug u`, `Ra = uᵀ Rg`, `Ka = uᵀ Kg`, `Xa = uᵀ Xg`, the square solution
`T = Ua Ta Ua⁻¹`, `R = Ua Ra`, `K = Ua Ka`, `X = Ua Xa` does not depend on the rotation: it is `Ug Tg Ug⁻¹`, `Ug Rg`, `Ug Kg`, `Ug Xg` -/
theorem square_from_triangular_qz (Ug Ugi Tg u : Matrix nb nb K) (Rg : Matrix nb nu K) (Kg : nb → K) (Xg : Matrix nb nj K)
    (hu : u * uᵀ = 1) :
    (Ug * u) * (uᵀ * Tg * u) * (uᵀ * Ugi) = Ug * Tg * Ugi ∧ (Ug * u) * (uᵀ * Rg) = Ug * Rg ∧
    (Ug * u) *ᵥ (uᵀ *ᵥ Kg) = Ug *ᵥ Kg ∧ (Ug * u) * (uᵀ * Xg) = Ug * Xg := by
  have e : ∀ {m : Type} [Fintype m] (Y : Matrix nb m K), (Ug * u) * (uᵀ * Y) = Ug * Y := by
    intro m _ Y; rw [Matrix.mul_assoc, ← Matrix.mul_assoc u, hu, Matrix.one_mul]
  refine ⟨?_, e Rg, ?_, e Xg⟩
  · calc (Ug * u) * (uᵀ * Tg * u) * (uᵀ * Ugi)
        = Ug * ((u * uᵀ) * Tg * (u * uᵀ)) * Ugi := by simp only [Matrix.mul_assoc]
      _ = Ug * Tg * Ugi := by rw [hu, Matrix.one_mul, Matrix.mul_one]
  · rw [Matrix.mulVec_mulVec, Matrix.mul_assoc, hu, Matrix.mul_one]

end square

/-! ### Non-vacuity: an exact generalised Schur form of a forward-looking model meets every hypothesis -/

section example_qz

/-- `x = 3/8 x{-1} + 1/2 x{+1} + 1 + e` with an exact (non-orthogonal) generalised Schur form: eigenvectors (1,2) [root 1/2], (3,2) [root 3/2] -/
def exQZ : QZ (Fin 2) (Fin 1) (Fin 1) (Fin 1) ℚ where
  A := Matrix.of ![Sum.elim ![1/2] ![-1], Sum.elim ![0] ![1]]
  B := Matrix.of ![Sum.elim ![0] ![3/8], Sum.elim ![-1] ![0]]
  C := ![1, 0]
  D := !![1; 0]
  Q := Matrix.of (Sum.elim ![![1, 0]] ![![4/3, 1]])
  Qi := Matrix.of ![Sum.elim ![1] ![0], Sum.elim ![-4/3] ![1]]
  S11 := !![-3/2]
  S12 := !![-1/2]
  S22 := !![4/3]
  T11 := !![3/4]
  T12 := !![3/4]
  T22 := !![-2]
  Z11 := !![1]
  Z12 := !![3]
  Z21 := !![2]
  Z22 := !![2]
  S11i := !![-2/3]
  T22i := !![-1/2]
  ST22i := !![-3/2]
  Z21i := !![1/2]
  hQ := by
    ext i j; fin_cases i <;> fin_cases j <;> simp [Matrix.mul_apply, Fintype.sum_sum_type, Matrix.one_apply] <;> norm_num
  hS := by
    ext i j
    rcases i with i | i <;> rcases j with j | j <;> fin_cases i <;> fin_cases j <;>
      simp [Matrix.mul_apply, Fintype.sum_sum_type, Fin.sum_univ_two] <;> norm_num
  hT := by
    ext i j
    rcases i with i | i <;> rcases j with j | j <;> fin_cases i <;> fin_cases j <;>
      simp [Matrix.mul_apply, Fintype.sum_sum_type, Fin.sum_univ_two] <;> norm_num
  hS11 := by ext i j; fin_cases i; fin_cases j; simp [Matrix.mul_apply]; norm_num
  hT22 := by ext i j; fin_cases i; fin_cases j; simp [Matrix.mul_apply]; norm_num
  hST22 := by ext i j; fin_cases i; fin_cases j; simp [Matrix.mul_apply]; norm_num
  hZ21 := by ext i j; fin_cases i; fin_cases j; simp [Matrix.mul_apply]
  hZ21' := by ext i j; fin_cases i; fin_cases j; simp [Matrix.mul_apply]

theorem exQZ_leads : LeadIdentities exQZ (fun _ => 1) (fun _ => 0) (fun _ => Sum.inr 0) (fun _ => 1) where
  prev_b := by intro i b h; exact ⟨rfl, by fin_cases b; rfl⟩
  prev_f := by intro i i' h; cases h
  rowA := by
    intro i j; rcases j with j | j <;> fin_cases j <;> simp [exQZ]
  rowB := by
    intro i j; fin_cases i; rcases j with j | j <;> fin_cases j <;> simp [exQZ]
  rowC := by intro i; simp [exQZ]
  rowD := by intro i k; fin_cases k; simp [exQZ]

/-- the computed solution of the example is `T = 1/2`, `K = 4`, `P = 4/3` -/
example : exQZ.Tsq = !![1/2] ∧ exQZ.Ksq = ![4] ∧ exQZ.Psq = !![4/3] := by
  refine ⟨?_, ?_, ?_⟩
  · ext i j; fin_cases i; fin_cases j
    simp [QZ.Tsq, QZ.Tg, exQZ, Matrix.mul_apply]; norm_num
  · ext i; fin_cases i
    simp [QZ.Ksq, QZ.Kg, QZ.Xg0, QZ.Xg1, QZ.G, QZ.Ku, QZ.QC1, QZ.QC2, exQZ, Matrix.mulVec, dotProduct, Matrix.mul_apply, Fin.sum_univ_two]
    norm_num
  · ext i j; fin_cases i; fin_cases j
    simp [QZ.Psq, QZ.Rg, QZ.Xg0, QZ.G, QZ.Ru, QZ.QD1, QZ.QD2, exQZ, Matrix.mul_apply, Fin.sum_univ_two, Matrix.vecMul, dotProduct, Matrix.submatrix_apply]; norm_num

example : ∀ (x0 : Fin 1 → ℚ) (u : ℕ → Fin 1 → ℚ) (t : ℕ),
    residAt exQZ.Tsq exQZ.Ksq exQZ.Psq (fun _ => 1) (fun _ => 0) (Afq exQZ (fun _ : Fin 1 => (0 : Fin 2)))
      (Abq exQZ (fun _ => 0)) (Bbq exQZ (fun _ => 0)) (Ccq exQZ (fun _ => 0)) (Ddq exQZ (fun _ => 0)) x0 u (fun _ => 0) (fun _ => 0) t = 0 :=
  equations_hold_unanticipated_qz exQZ (fun _ => 0) exQZ_leads (by intro r i; fin_cases i; simp [exQZ])

/-- and with anticipated shocks, through the forward expansion of the computed `X, J, Ru` -/
example : ∀ (H : ℕ) (x0 : Fin 1 → ℚ) (u v : ℕ → Fin 1 → ℚ), (∀ s, H < s → v s = 0) → ∀ t : ℕ,
    residAt exQZ.Tsq exQZ.Ksq exQZ.Psq (fun _ => 1) (fun _ => 0) (Afq exQZ (fun _ : Fin 1 => (0 : Fin 2)))
      (Abq exQZ (fun _ => 0)) (Bbq exQZ (fun _ => 0)) (Ccq exQZ (fun _ => 0)) (Ddq exQZ (fun _ => 0)) x0 u v
      (impact exQZ.Psq exQZ.Xsq exQZ.Jm exQZ.Ru H v) t = 0 :=
  fun H x0 u v hv t =>
    equations_hold_qz exQZ (fun _ => 0) exQZ_leads (by intro r i; fin_cases i; simp [exQZ]) H x0 u v hv t

end example_qz

end IrisVerif.C01
