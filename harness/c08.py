"""
C08 -- Smoothed estimates reproduce the data and are a simulation of the model.

Correspondence: as C03 (same Lean model `IrisVerif/Model/Kalman.lean`, driver C03); in addition the model evaluates the
identities proved in Props/C08.lean exactly on its own rational output for every case (flags mid/tid/sim of the reply).
Oracle (independent of the model): the identities evaluated directly
  * on the records of `fords.kalmans.predict/smooth` called on random systems: measurement identity on observed rows,
    transition identity, re-simulation from the smoothed state, deviation equivariance;
  * on the output databoxes of `Simultaneous.kalman_filter` for random linear models: every measurement and transition
    equation evaluated with the generator's own coefficients (log-variables included), smoothed observables equal the data,
    `simulate(method="first_order")` on `smooth_med` reproduces the smoothed variables (from the smoothed initial condition
    obtained with `prepend_initial=True`), deviation mode on data minus steady state = level results minus steady state.
"""
from __future__ import annotations
import os, json, glob
import numpy as np

from .common import Ctx, VERIF
from . import kalman_shared as ks

DRIVERS = ["C03"]
EXTRA_PROPS = ['KalmanBridge', 'KalmanVariants', 'KalmanObject']   # refinement bridge from the executable QMat model to the matrix-level theorems (audited with this check)
LEVEL = "proof"
MANIFEST = {
    "category": "proof",
    "text": ("Lean 4 theorems about the Kalman recursion of fords/kalmans.py written over Mathlib matrices (any commutative ring with 2 "
             "invertible, all dimensions, every horizon N, any missing-data pattern as a period-dependent row type): measurement identity "
             "Z a2 + H w2 + D = y on the observed rows of every period t<N (given F_t Fi_t = 1, which the executable model re-checks exactly); "
             "transition identity a2(t+1) = T a2(t) + K + P u2(t+1); hence by induction re-simulating from any smoothed state with the smoothed "
             "shocks reproduces the smoothed states; deviation equivariance (filter and smoother affine in the data: running with K=0, D=0 on "
             "y - ybar from a - xbar gives level results minus xbar, same MSEs and smoothed shocks) by induction over periods. The executable "
             "rational model is tied to the code by tolerance-class correspondence (direct calls and through Simultaneous.kalman_filter) and "
             "evaluates the proved identities exactly on its own output for every case; an independent oracle evaluates the model's "
             "equations (own coefficients, log-variables) on the smoothed databoxes, re-simulates with Simultaneous.simulate and checks "
             "deviation mode on the real code."),
    "design": "7/C08",
    "note": ("The QMat model is tied to the abstract Mathlib recursion by Props/KalmanBridge.lean (exact flags, F*Fi = 1), KalmanVariants and KalmanObject; the update and smoother steps are not refined operation by operation; the output "
             "mapping through Ua, exp of log-variables and the data intake are covered by the end-to-end oracle, not by theorems. "
             "Tolerance 1e-8 relative on generator-controlled instances."),
    "technique": "Lean 4 proof over Mathlib matrices + executable rational model + differential correspondence + equation-residual oracle",
}
ASSUMPTIONS = [
    "class-T comparison: |impl - model| <= 1e-8*(1+scale) on instances with cond(F_t) <= 1e6; identity residuals <= 1e-8*(1+scale)",
    "the QMat model is tied to the abstract Mathlib recursion of Lemmas/Kalman.lean by Props/KalmanBridge.lean (exact runtime flags sound, F*Fi = 1); update and smoother steps are not refined operation by operation (two transcriptions of the same formulas, compared on every case)",
    "output mapping (Ua, log/exp, databox intake) is validated end-to-end only",
]

ITOL = 1e-8
MAXFAIL = 3


def fail(ctx: Ctx, site, case, detail):
    if sum(1 for f in ctx.failures if f["site"] == site) < MAXFAIL:
        ctx.fail(site, case, detail)
    else:
        ctx.count("failures_not_listed:" + site)


def iclose(a, b, tol=ITOL):
    return ks.close(a, b, tol)


# ---------------------------------------------------------------------------------------
# direct calls
# ---------------------------------------------------------------------------------------

def oracle_direct(ctx: Ctx, case, impl):
    A = ks.arrays(case)
    cw = {"stream": "direct", "case": case}
    nper = A["nper"]
    if impl["condF"] > ks.COND_MAX:
        ctx.count("direct:ill_conditioned_skipped"); return
    for t in range(nper):
        inx = A["mask"][t]
        lhs = A["Z"][inx] @ impl["a2"][t] + A["H"][inx] @ impl["w2"][t] + A["D"][inx]
        if not iclose(lhs, A["y"][t][inx]):
            fail(ctx, "direct-measurement-identity", cw, f"t={t}: Z a2 + H w2 + D = {lhs.tolist()} data = {A['y'][t][inx].tolist()}")
        if not iclose(impl["y2"][t], A["y"][t][inx], 0.0):
            fail(ctx, "direct-smoothed-observables", cw, f"t={t}: smoothed y {impl['y2'][t].tolist()} != data")
    x = impl["a2"][0]
    for t in range(1, nper):
        rhs = A["T"] @ impl["a2"][t - 1] + A["K"] + A["P"] @ impl["u2"][t]
        if not iclose(impl["a2"][t], rhs):
            fail(ctx, "direct-transition-identity", cw, f"t={t}: a2={impl['a2'][t].tolist()} T a2(t-1)+K+P u2={rhs.tolist()}")
        x = A["T"] @ x + A["K"] + A["P"] @ impl["u2"][t]
        if not iclose(impl["a2"][t], x, 1e-7):
            fail(ctx, "direct-resimulation", cw, f"t={t}: simulated {x.tolist()} smoothed {impl['a2'][t].tolist()}")


def deviation_direct(ctx: Ctx, case, impl):
    """run the implementation with K=0, D=0 on y - ybar from a - xbar (xbar = T xbar + K)"""
    A = ks.arrays(case)
    if A["xi"] is not None or impl["condF"] > ks.COND_MAX:
        return
    n = A["T"].shape[0]
    M = np.eye(n) - A["T"]
    if abs(np.linalg.det(M)) < 1e-3:
        ctx.count("direct:deviation_no_steady_state"); return
    xbar = np.linalg.solve(M, A["K"]); ybar = A["Z"] @ xbar + A["D"]
    c2 = dict(case)
    c2["K"] = [0.0] * n; c2["D"] = [0.0] * len(case["D"])
    c2["a"] = (A["a"] - xbar).tolist()
    c2["y"] = [(np.array(r) - ybar).tolist() for r in case["y"]]
    cw = {"stream": "direct-deviation", "case": case}
    try:
        dev = ks.impl_direct(c2)
    except Exception as e:
        fail(ctx, "direct-deviation", cw, "deviation run raises " + repr(e)[:200]); return
    if dev["condF"] > ks.COND_MAX:
        return
    for t in range(A["nper"]):
        ok = all([iclose(dev[k][t], impl[k][t] - xbar, 1e-7) for k in ("a0", "a1", "a2")]
                 + [iclose(dev[k][t], impl[k][t], 1e-7) for k in ("Q0", "Q1", "Q2", "u2", "w2", "pe")])
        if not ok:
            fail(ctx, "direct-deviation", cw, f"t={t}: deviation-mode results differ from level results minus steady state")
    if not iclose([dev["nll"]], [impl["nll"]], 1e-7):
        fail(ctx, "direct-deviation", cw, f"likelihood differs: {dev['nll']} vs {impl['nll']}")


def run_direct(ctx: Ctx, cases, stream, with_model=True):
    impls, lines = [], []
    for c in cases:
        try:
            impls.append(ks.impl_direct(c))
        except Exception as e:
            impls.append("err:" + type(e).__name__)
        lines.append(ks.encode(c))
    replies = ctx.model("C03", lines) if with_model else None
    for i, (c, im) in enumerate(zip(cases, impls)):
        ctx.evaluations += 1
        A = ks.arrays(c)
        nobs = int(sum(m.sum() for m in A["mask"]))
        ctx.count(f"{stream}:n={len(c['T'])}"); ctx.count(f"{stream}:ny={len(c['Z'])}"); ctx.count(f"{stream}:T={A['nper']}")
        ctx.count(f"{stream}:missing={'none' if nobs == A['nper'] * len(c['Z']) else ('all' if nobs == 0 else 'some')}")
        if isinstance(im, str):
            ctx.count(f"{stream}:impl_{im}"); continue
        if nobs > 0 and A["nper"] > 1:
            ctx.nontriv((stream, len(c["T"]), len(c["Z"]), A["nper"], tuple(tuple(int(b) for b in m) for m in A["mask"])))
        if i < 2:
            ctx.sample({"stream": stream, "case": c, "smoothed_states": [a.tolist() for a in im["a2"]]})
        oracle_direct(ctx, c, im)
        deviation_direct(ctx, c, im)
        if replies is None:
            continue
        ctx.streams_compared[stream] = ctx.streams_compared.get(stream, 0) + 1
        mo = ks.decode(replies[i], c["xi"] is not None)
        if "err" in mo:
            if mo["err"] not in ("err:singular", "err:zeroScale"):
                ctx.disagree(stream, c, "ok", mo["err"])
            continue
        if im["condF"] > ks.COND_MAX:
            continue
        bad = [b for b in ks.compare_direct(im, mo) if b[0] in ("a0", "Q0", "F", "pe", "a1", "Q1", "a2", "Q2", "u2", "w2", "u1", "w1", "y0")]
        if bad:
            ctx.disagree(stream, c, f"differs at {bad[:6]}", "model")
        if "F" in (mo["mid"], mo["tid"], mo["sim"]):
            ctx.disagree(stream + "-model-identities", c, "identities proved in Props/C08",
                         f"mid={mo['mid']} tid={mo['tid']} sim={mo['sim']}")


# ---------------------------------------------------------------------------------------
# through Simultaneous.kalman_filter: the model's own equations on the output databoxes
# ---------------------------------------------------------------------------------------

def logscale(db, name, is_log, span):
    v = ks.series_values(db, name, span)
    return np.log(v) if is_log else v


def equation_residuals(mc, db, span, first, with_ant=False):
    """residuals of every transition / measurement equation, from the generator's coefficient arrays, for span[first:]"""
    A0, A1, A2, E = (np.array(mc[k], dtype=float) for k in ("A0", "A1", "A2", "E"))
    M0, M1, Hw = (np.array(mc[k], dtype=float) for k in ("M0", "M1", "Hw"))
    nx, ne = E.shape; ny, nw = Hw.shape
    X = np.array([logscale(db, f"x{j}", mc["logx"][j], span) for j in range(nx)])          # nx x nper
    O = np.array([logscale(db, f"o{j}", mc["logy"][j], span) for j in range(ny)])
    Ee = np.array([ks.series_values(db, f"e{j}", span) for j in range(ne)])
    if with_ant:
        # the shock of an equation is the sum of its unanticipated and anticipated values
        Ee = Ee + np.array([np.nan_to_num(ks.series_values(db, f"ant_e{j}", span)) for j in range(ne)])
    fwd = mc.get("fwd")
    Fv = ks.series_values(db, "f", span) if fwd else None
    load = np.array(fwd["load"], dtype=float) if fwd else np.zeros(nx)
    mload = np.array(fwd["mload"], dtype=float) if fwd else np.zeros(ny)
    Ww = np.array([ks.series_values(db, f"w{j}", span) for j in range(nw)]).reshape(nw, X.shape[1])
    c = np.array(mc["c"], dtype=float); d = np.array(mc["d"], dtype=float)
    tr, me = [], []
    for t in range(first, X.shape[1]):
        x2 = X[:, t - 2] if t >= 2 else np.full(nx, np.nan)
        if not A2.any():
            x2 = np.zeros(nx)
        ft = Fv[t] if fwd else 0.0
        tr.append(X[:, t] - (A0 @ X[:, t] + A1 @ X[:, t - 1] + A2 @ x2 + c + E @ Ee[:, t] + load * ft))
        me.append(O[:, t] - (M0 @ X[:, t] + M1 @ X[:, t - 1] + d + (Hw @ Ww[:, t] if nw else 0.0) + mload * ft))
    return np.array(tr), np.array(me)


def check_identities(ctx: Ctx, cw, case, m, db, span, sm, prefix, with_ant=False, sim_db=None, column=None):
    """(1) smoothed observables = data where observed, (2) transition / observed measurement equations with the generator's own
    coefficients, (3) level = exp(log) for log-variables, (4) re-simulation with the smoothed shocks from in-sample smoothed
    initial conditions.  `sm` is a single-variant smooth_med; `sim_db`/`column` = the (multi-variant) databox to simulate from and
    the column to compare"""
    mc, data = case["mc"], case["data"]
    nper = data["nper"]; ny = len(mc["logy"]); nx = len(mc["logx"])
    lag = 2 if np.array(mc["A2"]).any() else 1
    for i in range(ny):
        got = ks.series_values(sm, f"o{i}", span); want = ks.series_values(db, f"o{i}", span)
        for t in range(nper):
            if data["mask"][t][i] and not iclose([got[t]], [want[t]], 1e-12):
                fail(ctx, prefix + "-smoothed-observables", cw, f"o{i} t={t}: smooth_med={got[t]!r} data={want[t]!r}")
    mcd = mc
    if case["deviation"]:
        mcd = dict(mc); mcd["c"] = [0.0] * nx; mcd["d"] = [0.0] * ny
    tr, me = equation_residuals(mcd, sm, span, lag, with_ant=with_ant)
    if tr.size and not iclose(tr, np.zeros_like(tr)):
        bad_t = [int(t) + lag for t in np.where(~(np.abs(tr) <= ITOL).all(axis=1))[0]]
        fail(ctx, prefix + "-transition-equations", cw, f"max residual {np.nanmax(np.abs(tr))!r} (nan={bool(np.isnan(tr).any())}) in periods {bad_t} of {nper}")
    for k, t in enumerate(range(lag, nper)):
        for i in range(ny):
            if data["mask"][t][i] and not abs(me[k, i]) <= ITOL * (1 + abs(data["y"][t][i])):
                fail(ctx, prefix + "-measurement-equations", cw, f"o{i} t={t}: residual {me[k, i]!r}")
    for j in range(nx):
        if mc["logx"][j]:
            if not iclose(ks.series_values(sm, f"x{j}", span), np.exp(ks.series_values(sm, f"log(x{j})", span)), 1e-12):
                fail(ctx, prefix + "-log-output", cw, f"x{j} != exp(log(x{j})) in smooth_med")
    if nper > lag:
        start = span.start
        sim_span = (start + lag) >> (start + (nper - 1))
        try:
            r = m.simulate(sim_db if sim_db is not None else sm, sim_span, method="first_order", deviation=case["deviation"])
            sdb = r[0] if isinstance(r, tuple) else r
            for name in [f"x{j}" for j in range(nx)] + (["f"] if mc.get("fwd") else []):
                a = np.array(sdb[name].get_data(sim_span), dtype=float)
                a = a.reshape(a.shape[0], -1)[:, column or 0]
                b = ks.series_values(sm, name, sim_span)
                if not iclose(a, b, 1e-7):
                    fail(ctx, prefix + "-resimulation", cw, f"{name}: simulated {a.tolist()} smoothed {b.tolist()}")
            # the measurement variables of the re-simulation: equal to the data wherever data exist, and in EVERY period equal to the
            # measurement equation evaluated with the generator's own coefficients (intercepts, log observables) on the smoothed
            # states and measurement shocks -- in level mode with the intercept, in deviation mode without it
            import irispie as ir
            chk = ir.Databox()
            for name in sm.keys():
                try:
                    chk[name] = ir.Series(start=span.start, values=ks.series_values(sm, name, span))
                except Exception:
                    pass
            for i in range(ny):
                a = np.array(sdb[f"o{i}"].get_data(span), dtype=float)
                a = a.reshape(a.shape[0], -1)[:, column or 0]
                chk[f"o{i}"] = ir.Series(start=span.start, values=a)
                want = ks.series_values(db, f"o{i}", span)
                for t in range(lag, nper):
                    if data["mask"][t][i] and not iclose([a[t]], [want[t]], 1e-7):
                        fail(ctx, prefix + "-resimulation-measurement", cw,
                             f"o{i} t={t} (deviation={case['deviation']}): re-simulated {a[t]!r} but the datum is {want[t]!r}")
            _, me_sim = equation_residuals(mcd, chk, span, lag, with_ant=with_ant)
            if me_sim.size and not iclose(me_sim, np.zeros_like(me_sim), 1e-7):
                fail(ctx, prefix + "-resimulation-measurement", cw,
                     f"deviation={case['deviation']}: re-simulated measurement variables do not satisfy the measurement equations, "
                     f"max residual {np.nanmax(np.abs(me_sim))!r} (nan={bool(np.isnan(me_sim).any())})")
        except Exception as e:
            fail(ctx, prefix + "-resimulation", cw, "simulate raises " + repr(e)[:200])


def oracle_e2e(ctx: Ctx, case):
    import irispie as ir
    mc, data = case["mc"], case["data"]
    cw = {"stream": "e2e", "case": case}
    B = ks.e2e_batch(case)
    if B.condS() > 1e8:
        ctx.count("e2e:degenerate_joint_distribution_skipped"); return
    try:
        m, db, span, out, info = ks.run_e2e(case)
    except Exception as e:
        fail(ctx, "e2e-raises", cw, repr(e)[:300]); return
    nper = data["nper"]; ny = len(mc["logy"]); nx = len(mc["logx"])
    unit = mc.get("unit") is not None
    check_identities(ctx, cw, case, m, db, span, out["smooth_med"], "e2e")
    sm = out["smooth_med"]
    # (5) from the smoothed initial condition (prepend_initial=True)
    try:
        m2, db2, span2, out2, info2 = ks.run_e2e(case, m=m, prepend_initial=True)
        sm2 = out2["smooth_med"]
        r = m.simulate(sm2, span, method="first_order", deviation=case["deviation"])
        sdb = r[0] if isinstance(r, tuple) else r
        for j in range(nx):
            a = ks.series_values(sdb, f"x{j}", span); b = ks.series_values(sm2, f"x{j}", span); b0 = ks.series_values(sm, f"x{j}", span)
            if not iclose(a, b, 1e-7) or not iclose(b, b0, 1e-9):
                fail(ctx, "prepend-initial", cw, f"x{j}: simulated from the smoothed initial condition {a.tolist()} smoothed {b.tolist()} / {b0.tolist()}")
    except Exception as e:
        fail(ctx, "prepend-initial", cw, "kalman_filter(prepend_initial=True) + simulate raises " + repr(e)[:200])
    # (6) deviation mode on data minus steady state = level results minus steady state
    # (with a unit root and drift the steady state is a time-varying path: `case_path`)
    xpath, ypath = ks.case_path(case)
    c_lvl = dict(case); c_lvl["deviation"] = False
    c_dev = dict(case); c_dev["deviation"] = True
    try:
        _, db_l, _, o_l, i_l = (m, db, span, out, info) if not case["deviation"] else ks.run_e2e(c_lvl, m=m)
        _, db_d, _, o_d, i_d = (m, db, span, out, info) if case["deviation"] else ks.run_e2e(c_dev, m=m)
    except Exception as e:
        fail(ctx, "e2e-deviation", cw, "raises " + repr(e)[:200]); return
    # the smoothed output is a simulation of the model in BOTH modes: the identities and the re-simulation of the other mode as well
    if case["deviation"]:
        check_identities(ctx, cw, c_lvl, m, db_l, span, o_l["smooth_med"], "e2e")
    else:
        check_identities(ctx, cw, c_dev, m, db_d, span, o_d["smooth_med"], "e2e")
    for step in ("predict_med", "update_med", "smooth_med"):
        for j in range(nx):
            key = ks.var_key(f"x{j}", mc["logx"][j])
            if not iclose(ks.series_values(o_d[step], key, span), ks.series_values(o_l[step], key, span) - xpath[:, j], 1e-7):
                fail(ctx, "e2e-deviation", cw, f"{step}[{key}]: deviation-mode result is not level result minus steady state")
            if mc["logx"][j] and not iclose(ks.series_values(o_d[step], f"x{j}", span),
                                             ks.series_values(o_l[step], f"x{j}", span) / np.exp(xpath[:, j]), 1e-7):
                fail(ctx, "e2e-deviation", cw, f"{step}[x{j}]: deviation-mode level is not level result / steady state")
        for nm in [f"e{j}" for j in range(len(mc["std_e"]))] + [f"w{j}" for j in range(len(mc["std_w"]))]:
            if step != "predict_med" and not iclose(ks.series_values(o_d[step], nm, span), ks.series_values(o_l[step], nm, span), 1e-7):
                fail(ctx, "e2e-deviation", cw, f"{step}[{nm}]: shocks differ between deviation and level mode")
    for step in ("predict_std", "update_std", "smooth_std"):
        for j in range(nx):
            key = ks.var_key(f"x{j}", mc["logx"][j])
            if not iclose(ks.series_values(o_d[step], key, span), ks.series_values(o_l[step], key, span), 1e-7):
                fail(ctx, "e2e-deviation", cw, f"{step}[{key}] differs between deviation and level mode")
    if case["rescale"] and not (min(i_d["var_scale"], i_l["var_scale"]) > 1e-12):
        ctx.count("e2e:zero_variance_scale_likelihood_not_compared")      # exact fit: log(var_scale) is not defined
    elif not iclose([i_d["neg_log_likelihood"]], [i_l["neg_log_likelihood"]], 1e-7):
        fail(ctx, "e2e-deviation", cw, f"likelihood differs: {i_d['neg_log_likelihood']} vs {i_l['neg_log_likelihood']}")


def run_variants(ctx: Ctx, cases):
    """several parameter variants in one model object: every variant's smoothed output must satisfy the equations with THAT
    variant's parameters and be reproduced by the simulator"""
    for i, c in enumerate(cases):
        ctx.evaluations += 1
        cw = {"stream": "variants", "case": c}
        nv = len(c["mcs"])
        cvs = ks.variant_subcases(c)
        if any(ks.e2e_batch(cv).condS() > 1e8 for cv in cvs):
            ctx.count("variants:degenerate_joint_distribution_skipped"); continue
        try:
            m, db, span, out, info = ks.run_variants(c)
        except Exception as e:
            fail(ctx, "variants-raises", cw, repr(e)[:300]); continue
        ctx.count(f"variants:nv={nv}"); ctx.count(f"variants:deviation={bool(c.get('deviation'))}")
        ctx.nontriv(("variants", json.dumps(c["mcs"], sort_keys=True), json.dumps(c["data"]["mask"])))
        if i < 1:
            ctx.sample({"stream": "variants", "source": ks.model_source(c["mcs"][0], params=True),
                        "own_lag_coefficients": [[mc["A1"][k][k] for k in range(len(mc["logx"]))] for mc in c["mcs"]]})
        for v in range(nv):
            sm_v = ks.slice_databox(out["smooth_med"], v, nv, span)
            check_identities(ctx, dict(cw, variant=v), cvs[v], m, db, span, sm_v, "variants", sim_db=out["smooth_med"], column=v)


def run_sequences(ctx: Ctx, cases):
    """forward-looking models, shock means (unanticipated, anticipated, measurement) from data, and other operations (simulate with
    anticipated shocks, an earlier filter run) on the same solved model object before the filter run that is checked"""
    for i, c in enumerate(cases):
        ctx.evaluations += 1
        cw = {"stream": "sequence", "case": c}
        try:
            m, results = ks.run_sequence(c)
        except np.linalg.LinAlgError:
            c.pop("_mc_now", None)
            ctx.count("sequence:singular_skipped"); continue
        except Exception as e:
            if c["mc"].get("fwd") and ("solv" in repr(e).lower() or "stab" in repr(e).lower() or "saddle" in repr(e).lower()):
                ctx.count("sequence:no_stable_solution_skipped"); continue
            fail(ctx, "sequence-raises", cw, repr(e)[:300]); continue
        try:
            conds = [np.linalg.cond(f) for r in results for f in r[2]["predict_mse_obs"][0] if f is not None and np.size(f)]
            if conds and max(conds) > ks.COND_MAX:
                ctx.count("sequence:ill_conditioned_skipped"); continue
        except Exception:
            pass
        mc_now = c.pop("_mc_now", c["mc"])
        if any(op in ("assign_stds", "rescale_stds") for op, _ in c["ops"]): ctx.count("sequence:with_std_change")
        if any(op == "copy" for op, _ in c["ops"]): ctx.count("sequence:with_copy")
        hs = [h for op, h in c["ops"] if op in ("filter", "simulate")]
        ctx.count(f"sequence:ops={'>'.join(op for op, _ in c['ops'])}"); ctx.count(f"sequence:forward={c['mc'].get('fwd') is not None}")
        ctx.count("sequence:horizons=" + ("single" if len(hs) == 1 else ("growing" if hs == sorted(hs) and hs[0] < hs[-1] else "other")))
        ctx.nontriv(("sequence", json.dumps(c["mc"], sort_keys=True), json.dumps(c["ant"]), json.dumps(c["ops"])))
        if i < 1:
            ctx.sample({"stream": "sequence", "source": ks.model_source(c["mc"]), "ops": c["ops"], "anticipated": c["ant"]})
        # every filter call of the sequence is checked, each with the anticipated shocks it was given
        for k, (db, span, out, info, ant) in enumerate(results):
            sm = out["smooth_med"]
            cwk = dict(cw, filter_call=k)
            for j in range(len(c["mc"]["std_e"])):
                got = np.nan_to_num(ks.series_values(sm, f"ant_e{j}", span))
                if not iclose(got, [r[j] for r in ant], 1e-12):
                    fail(ctx, "sequence-anticipated-values", cwk, f"ant_e{j} in smooth_med {got.tolist()} != input")
            check_identities(ctx, cwk, c, m, db, span, sm, "sequence", with_ant=True)
        # history independence: the last filter call must return what the same call returns on a freshly solved model object
        if len(c["ops"]) > 1 and results:
            db, span, out, info, ant = results[-1]
            try:
                fresh = ks.build_model(mc_now)          # same equations, the stds in force at the last call
                out_f, info_f = fresh.kalman_filter(db, span, return_info=True, shocks_from_data=True)
                names = [f"x{j}" for j in range(len(c["mc"]["logx"]))] + (["f"] if c["mc"].get("fwd") else []) \
                    + [f"e{j}" for j in range(len(c["mc"]["std_e"]))] + [f"w{j}" for j in range(len(c["mc"]["std_w"]))]
                for step in ("predict_med", "update_med", "smooth_med"):
                    for nm in names:
                        a = ks.series_values(out[step], nm, span); b = ks.series_values(out_f[step], nm, span)
                        if not iclose(a, b, 1e-9):
                            fail(ctx, "sequence-depends-on-history", cw, f"{step}[{nm}] after {c['ops'][:-1]}: {a.tolist()} but {b.tolist()} on a fresh model")
                if not iclose([info["neg_log_likelihood"]], [info_f["neg_log_likelihood"]], 1e-9):
                    fail(ctx, "sequence-depends-on-history", cw, f"likelihood {info['neg_log_likelihood']!r} vs {info_f['neg_log_likelihood']!r} on a fresh model")
            except Exception as e:
                fail(ctx, "sequence-depends-on-history", cw, "fresh-model run raises " + repr(e)[:200])


def run_e2e(ctx: Ctx, cases):
    for i, c in enumerate(cases):
        ctx.evaluations += 1
        mc, data = c["mc"], c["data"]
        ctx.count(f"e2e:nx={len(mc['logx'])}"); ctx.count(f"e2e:ny={len(mc['logy'])}"); ctx.count(f"e2e:T={data['nper']}")
        ctx.count(f"e2e:deviation={c['deviation']}"); ctx.count(f"e2e:logs={any(mc['logx']) or any(mc['logy'])}")
        ctx.count(f"e2e:lag2={bool(np.array(mc['A2']).any())}"); ctx.count(f"e2e:unit_root={mc.get('unit') is not None}")
        if not any(data["mask"][-1]): ctx.count("e2e:forecast_tail")
        ctx.nontriv(("e2e", json.dumps(mc, sort_keys=True), json.dumps(data["mask"]), c["deviation"]))
        if i < 2:
            ctx.sample({"stream": "e2e", "source": ks.model_source(mc), "mask": data["mask"], "deviation": c["deviation"]})
        oracle_e2e(ctx, c)


# ---------------------------------------------------------------------------------------
# entry points
# ---------------------------------------------------------------------------------------

def run_payload(ctx: Ctx, payload, with_model=True):
    case = payload.get("case", payload)
    inner = case.get("case") if isinstance(case, dict) and "case" in case else case
    if isinstance(inner, dict) and "T" in inner:
        run_direct(ctx, [inner], "replay", with_model)
    elif isinstance(inner, dict) and "mcs" in inner:
        run_variants(ctx, [inner])
    elif isinstance(inner, dict) and "ops" in inner:
        run_sequences(ctx, [inner])
    elif isinstance(inner, dict) and "mc" in inner:
        run_e2e(ctx, [inner])


def run(ctx: Ctx):
    ctx.rule = ("direct stream: random systems n<=5 states, <=3 observables, T<=12, dyadic entries, time-varying stds, shock means, random "
                "missing masks (incl. empty periods and no observations at the end); e2e: random linear Simultaneous models (1-3 variables, "
                "lags <=2, contemporaneous terms, log-variables, 1-3 observables with/without measurement shocks), simulated data, masks, "
                "time-varying stds, deviation flag, forecast tails; the same with one unit-root variable (fixed_unknown); variants: 2-3 parameter "
                "variants differing in own-lag coefficients/constants/stds, each checked with its own parameters; sequence: forward-looking "
                "models, shocks_from_data=True with unanticipated/anticipated/measurement shock means, preceded by simulate/filter calls on "
                "the same model object. distinct_nontrivial = distinct (sizes, mask) direct cases with T>1 and an observation "
                "+ distinct (model, mask, deviation) e2e cases")
    for p in sorted(glob.glob(os.path.join(VERIF, "corpus", "C08", "*.json"))):
        ctx.count("corpus")
        run_payload(ctx, json.load(open(p)))
    rng = ctx.rng.fork("direct")
    run_direct(ctx, [ks.gen_system(rng.fork(i)) for i in range(ctx.n(100, 2000))], "direct")
    rng = ctx.rng.fork("xi")
    run_direct(ctx, [ks.gen_system(rng.fork(i), unknown_init=True) for i in range(ctx.n(40, 500))], "direct-unknown-init")
    rng = ctx.rng.fork("e2e")
    run_e2e(ctx, [ks.gen_e2e_case(rng.fork(i), 8 if ctx.quick else 12) for i in range(ctx.n(40, 500))])
    rng = ctx.rng.fork("e2e-unit-root")
    run_e2e(ctx, [ks.gen_e2e_case(rng.fork(i), 8 if ctx.quick else 12, unit_root=True) for i in range(ctx.n(16, 200))])
    rng = ctx.rng.fork("variants")
    run_variants(ctx, [ks.gen_variant_case(rng.fork(i)) for i in range(ctx.n(10, 120))])
    rng = ctx.rng.fork("sequence")
    run_sequences(ctx, [ks.gen_sequence_case(rng.fork(i)) for i in range(ctx.n(20, 250))])


def search(ctx: Ctx, seeds):
    ctx.tier = "thorough"
    for s in seeds:
        try:
            run_payload(ctx, {"case": s}, with_model=False)
        except Exception:
            pass
    rng = ctx.rng.fork("search")
    run_direct(ctx, [ks.gen_system(rng.fork(i)) for i in range(1500)], "direct", with_model=False)
    run_e2e(ctx, [ks.gen_e2e_case(rng.fork(("e", i).__repr__()), 10) for i in range(300)])
    run_direct(ctx, [ks.gen_system(rng.fork(("x", i).__repr__()), unknown_init=True) for i in range(300)], "direct-unknown-init", with_model=False)
    run_e2e(ctx, [ks.gen_e2e_case(rng.fork(("u", i).__repr__()), 10, unit_root=True) for i in range(100)])
    run_variants(ctx, [ks.gen_variant_case(rng.fork(("v", i).__repr__())) for i in range(60)])
    run_sequences(ctx, [ks.gen_sequence_case(rng.fork(("s", i).__repr__())) for i in range(120)])


def replay(ctx: Ctx, payload):
    run_payload(ctx, payload)
